import json, os, tempfile, sys
sys.path.insert(0, os.environ.get('REPO', '/repo'))
from synced_collections.backends.collection_json import MemoryBufferedJSONDict as D
d = tempfile.mkdtemp(); f = os.path.join(d, 'a.json')
def store(v): json.dump(v, open(f, 'w'))
def disk(): return json.load(open(f))
store({'l': [1]})
A = D(f); B = D(f)
with D.buffer_backend():      # common session: B initialises the shared entry, A joins
    B['l']; A['l']
print('after session: A._data is B._data ->', A._data is B._data, '; owner of A["l"] is B ->', A['l']._root is B)
# B is idle from here on
with A.buffered:
    A['l'].append(3)
    print('inside A.buffered: disk =', disk(), ' (C05 expects [1] until exit)')
print('after exit: disk =', disk())
