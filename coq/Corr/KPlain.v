(* Correspondence K-plain: Plain.v / Ops.v against CPython's built-in list and dict. *)
From Coq Require Import List ZArith NArith Bool.
From SC Require Import Model.Val Model.Plain Model.Ops.
Import ListNotations.

Definition res_exact (a b : res val) : bool :=
  match a, b with
  | Ok x, Ok y => veq_exact x y
  | Err e, Err f => err_eqb e f
  | _, _ => false
  end.

Inductive pcase :=
  | PL (l : list val) (o : lop) (r : res val) (l' : list val)
  | PD (d : list (key * val)) (o : dop) (r : res val) (d' : list (key * val)).

Definition check_pcase (c : pcase) : bool :=
  match c with
  | PL l o r l' => let (r0, l0) := plain_lop l o in res_exact r0 r && veq_exact (VL l0) (VL l')
  | PD d o r d' => let (r0, d0) := plain_dop d o in res_exact r0 r && veq_exact (VD d0) (VD d')
  end.

Fixpoint failing_from {A} (chk : A -> bool) (l : list A) (i : N) : list N :=
  match l with
  | [] => []
  | c :: l' => if chk c then failing_from chk l' (N.succ i) else i :: failing_from chk l' (N.succ i)
  end.
Definition failing {A} (chk : A -> bool) (l : list A) : list N := failing_from chk l 0%N.
