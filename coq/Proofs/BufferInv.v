(* placeholder *)
