(* Valid.v — the validators of synced_collections/validators.py and
   backends/collection_json.py, as first-error-in-traversal-order functions. *)
From Coq Require Import List ZArith NArith Bool.
From SC Require Import Model.Val.
Import ListNotations.

(* first error of a list of checks, in order *)
Section FirstErr.
  Context {A : Type}.
  Variable f : A -> option err.
  Fixpoint first_err (l : list A) : option err :=
    match l with
    | [] => None
    | x :: l' => match f x with Some e => Some e | None => first_err l' end
    end.
End FirstErr.

Definition orelse (a b : option err) : option err := match a with Some e => Some e | None => b end.

(* require_string_key: descends into mappings and sequences *)
Fixpoint v_require_string_key (v : val) : option err :=
  match v with
  | VS _ => None
  | VL l => first_err v_require_string_key l
  | VD d => first_err (fun kv : key * val => let (k, w) := kv in
                         if key_is_str k then v_require_string_key w else Some EKeyType) d
  end.

(* json_format_validator *)
Fixpoint v_json_format (v : val) : option err :=
  match v with
  | VS s => if scalar_json s then None else Some EType
  | VL l => first_err v_json_format l
  | VD d => first_err (fun kv : key * val => let (k, w) := kv in
                         if key_is_str k then v_json_format w else Some EKeyType) d
  end.

(* no_dot_in_key: key checked before its value *)
Fixpoint v_no_dot (v : val) : option err :=
  match v with
  | VS _ => None
  | VL l => first_err v_no_dot l
  | VD d => first_err (fun kv : key * val => let (k, w) := kv in
                         if key_is_str k
                         then (if key_has_dot k then Some EInvalidKey else v_no_dot w)
                         else Some EKeyType) d
  end.

(* json_attr_dict_validator: value checked before its key *)
Fixpoint v_json_attr (v : val) : option err :=
  match v with
  | VS s => if scalar_json s then None else Some EType
  | VL l => first_err v_json_attr l
  | VD d => first_err (fun kv : key * val => let (k, w) := kv in
                         orelse (v_json_attr w)
                                (if key_is_str k
                                 then (if key_has_dot k then Some EInvalidKey else None)
                                 else Some EKeyType)) d
  end.

Inductive vname := VRequireStringKey | VJsonFormat | VNoDot | VJsonAttr.

Definition run_validator (n : vname) : val -> option err :=
  match n with
  | VRequireStringKey => v_require_string_key
  | VJsonFormat => v_json_format
  | VNoDot => v_no_dot
  | VJsonAttr => v_json_attr
  end.

Definition validate (vs : list vname) (v : val) : option err :=
  first_err (fun n => run_validator n v) vs.

(* what a validator list guarantees about accepted data *)
Definition guarantees_str_keys (vs : list vname) : bool :=
  existsb (fun n => match n with VNoDot => false | _ => true end) vs
  || existsb (fun n => match n with VNoDot => true | _ => false end) vs.
Definition guarantees_json_leaves (vs : list vname) : bool :=
  existsb (fun n => match n with VJsonFormat | VJsonAttr => true | _ => false end) vs.
Definition guarantees_no_dots (vs : list vname) : bool :=
  existsb (fun n => match n with VNoDot | VJsonAttr => true | _ => false end) vs.
