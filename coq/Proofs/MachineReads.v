(* MachineReads.v — reads never write (C17, unbuffered machine). *)
From Coq Require Import List ZArith NArith Bool Lia.
From SC Require Import Model.Val Model.Plain Model.Ops Model.Valid Model.Class Model.Tree Model.Machine.
Import ListNotations.

Definition mop_is_read (op : mop) : bool :=
  match op with
  | MOp _ _ o => nop_is_read o
  | MTouch _ mut => negb mut
  | MNew _ _ _ _ => true           (* constructing an object neither loads nor saves *)
  | MExt _ _ => false
  end.

(* a read (or a construction) leaves every resource — content and existence — and the write log unchanged *)
Lemma step_read_pure T s op :
  mop_is_read op = true ->
  m_res (fst (step T s op)) = m_res s /\ m_writes (fst (step T s op)) = m_writes s.
Proof.
  intros Hr. destruct op as [oid c rid data | rid content | oid hid o | oid mut]; cbn [mop_is_read] in Hr.
  - (* MNew *) cbn [step]. destruct data as [v|].
    + destruct (validate _ v); [split; reflexivity|].
      destruct (c_kind (get_cls T c)); destruct v as [sc | l | d]; cbn; try (split; reflexivity).
      * destruct (map_st _ l _); cbn; split; reflexivity.
      * destruct (map_st _ d _); cbn; split; reflexivity.
    + cbn; split; reflexivity.
  - discriminate.
  - (* MOp *) cbn [step].
    destruct (nlookup oid (m_objs s)) as [ob|]; [|split; reflexivity].
    destruct (find_node hid (o_root ob)) as [n0|]; [|split; reflexivity].
    destruct (pre_nop T n0 o) as [[e|]|]; try (split; reflexivity).
    match goal with
    | |- context [match (if ?b then ?x else ?y) with _ => _ end] =>
        destruct (if b then x else y) as [[root1 nx1] [e|]]
    end; [cbn; split; reflexivity|].
    destruct (find_node hid root1) as [n1|].
    + destruct (in_nop T n1 o nx1) as [[[[r h] n2] nx2]|]; [|split; reflexivity].
      rewrite Hr. cbn; split; reflexivity.
    + rewrite Hr. cbn; split; reflexivity.
  - (* MTouch *) cbn [step]. destruct (nlookup oid (m_objs s)) as [o|]; [|split; reflexivity].
    destruct (load_root T s o) as [[root1 nx1] [e|]]; [cbn; split; reflexivity|].
    destruct mut; [discriminate|]. cbn; split; reflexivity.
Qed.

(* lifted to every sequence of reads, from every state *)
Lemma run_reads_pure T ops : forall s,
  forallb mop_is_read ops = true ->
  m_res (fst (fold_left (fun st op => (fst (step T (fst st) op), tt)) ops (s, tt))) = m_res s
  /\ m_writes (fst (fold_left (fun st op => (fst (step T (fst st) op), tt)) ops (s, tt))) = m_writes s.
Proof.
  induction ops as [|op ops IH]; intros s H; cbn [fold_left forallb] in *.
  - split; reflexivity.
  - apply andb_prop in H as [H1 H2].
    destruct (step_read_pure T s op H1) as [A B].
    destruct (IH (fst (step T s op)) H2) as [C D]. cbn [fst] in *.
    rewrite C, D, A, B. split; reflexivity.
Qed.
