(* MachineDefs.v — vocabulary used to STATE the theorems about Machine.v. *)
From Coq Require Import List ZArith NArith Bool Lia.
From SC Require Import Model.Val Model.Plain Model.Ops Model.Valid Model.Class Model.Tree Model.Machine.
From SC Require Import Proofs.TreeDefs.
Import ListNotations.

(* ---- facts about a class table, decided by vm_compute on the generated table ---- *)
Definition cls_ok (T : class_table) (c : cls) : bool :=
  backend_has_both T (c_backend c)
  && uniform_backend T (c_backend c) (lang3 (c_validators c))
  && (kind_eqb (c_kind c) KList || kind_eqb (c_kind c) KDict).
Definition table_ok (T : class_table) : bool := forallb (cls_ok T) T.

Definition lang_of (T : class_table) (c : nat) : lang := lang3 (validators_of T c).
Definition backend_of (T : class_table) (c : nat) : nat := c_backend (get_cls T c).

(* ---- the invariant of one object: its tree is a well-formed member of its family ---- *)
Record obj_inv (T : class_table) (nx : nat) (o : obj) : Prop := {
  oi_cls : o_cls o < length T;
  oi_container : node_is_container (o_root o) = true;
  oi_root_cls : node_cls (o_root o) = Some (o_cls o);
  oi_kinds : kinds_match T (o_root o) = true;
  oi_backend : node_in_backend T (backend_of T (o_cls o)) (o_root o);     (* C18: one family *)
  oi_leaves : leaves_scalar (o_root o) = true;                            (* C18: no raw containers *)
  oi_clean : clean (lang_of T (o_cls o)) (o_root o);                      (* C11: nothing forbidden *)
  oi_keys : node_keys_unique (o_root o) = true;
  oi_nodup : NoDup (node_ids (o_root o));
  oi_below : forall i, In i (node_ids (o_root o)) -> i < nx;
}.

Definition Inv (T : class_table) (s : mstate) : Prop :=
  forall oid o, nlookup oid (m_objs s) = Some o -> obj_inv T (m_next s) o.

(* what is stored in a resource is valid data of the kind of every object bound to it
   (an assumption about outside writers, preserved by the library itself) *)
Definition content_ok (T : class_table) (o : obj) (c : val) : Prop :=
  val_ok (lang_of T (o_cls o)) c = true /\ wf_val c = true /\ kind_of c = node_kind (o_root o).
Definition res_valid (T : class_table) (s : mstate) : Prop :=
  forall oid o c, nlookup oid (m_objs s) = Some o -> nlookup (o_rid o) (m_res s) = Some c -> content_ok T o c.

(* objects bound to one resource are of one family and one kind *)
Definition same_family (T : class_table) (s : mstate) : Prop :=
  forall oid1 o1 oid2 o2, nlookup oid1 (m_objs s) = Some o1 -> nlookup oid2 (m_objs s) = Some o2 ->
    o_rid o1 = o_rid o2 ->
    lang_of T (o_cls o1) = lang_of T (o_cls o2) /\ node_kind (o_root o1) = node_kind (o_root o2).

(* admissible steps: arbitrary (possibly forbidden) ARGUMENT values, well-formed configuration changes *)
Definition op_admissible (T : class_table) (s : mstate) (op : mop) : Prop :=
  match op with
  | MNew oid c rid data =>
      c < length T /\ nlookup oid (m_objs s) = None
      /\ (forall oid' o', nlookup oid' (m_objs s) = Some o' -> o_rid o' = rid ->
            lang_of T (o_cls o') = lang_of T c /\ node_kind (o_root o') = c_kind (get_cls T c))
      /\ (forall cnt, nlookup rid (m_res s) = Some cnt ->
            val_ok (lang_of T c) cnt = true /\ wf_val cnt = true /\ kind_of cnt = c_kind (get_cls T c))
      /\ (forall v, data = Some v -> wf_val v = true)
  | MExt rid content =>
      forall cnt, content = Some cnt ->
        forall oid o, nlookup oid (m_objs s) = Some o -> o_rid o = rid -> content_ok T o cnt
  | MOp _ _ o => True
  | MTouch _ _ => True
  end.

(* arguments of an operation, for the theorems that need VALID arguments *)
Definition lop_vals (o : lop) : list val :=
  match o with
  | LIndex v | LCount v | LContains v | LEq v | LCmp _ v | LSet _ v | LSetSlice _ v | LInsert _ v
  | LAppend v | LExtend v | LIAdd v | LRemove v | LReset v => [v]
  | _ => []
  end.
Definition dop_vals (o : dop) : list val :=
  match o with
  | DGetDefault _ v | DEq v | DUpdate v | DReset v => [v]
  | DSet k v | DSetdefault k v => [VD [(k, v)]]
  | _ => []
  end.
Definition nop_vals (o : nop) : list val := match o with OL o => lop_vals o | OD o => dop_vals o end.
Definition args_ok (L : lang) (o : nop) : bool :=
  forallb (fun v => val_ok L v && wf_val v) (nop_vals o).

(* operations whose new content is obtained by merging (key order may differ from the built-in's) *)
Definition nop_merges (o : nop) : bool :=
  match o with OL (LReset _) | OD (DReset _) | OD (DUpdate _) => true | _ => false end.

Definition is_root_handle (ob : obj) (hid : nat) : bool :=
  match node_id (o_root ob) with Some r => Nat.eqb r hid | None => false end.
