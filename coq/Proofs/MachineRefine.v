(* PART D — the machine theorems *)
From Coq Require Import List ZArith NArith Bool Lia Arith.
From SC Require Import Model.Val Model.Plain Model.Ops Model.Valid Model.Class Model.Tree Model.Machine.
From SC Require Import Proofs.TreeDefs Proofs.TreeLemmas Proofs.MachineDefs.
From SC Require Import Proofs.MRIds Proofs.MROps Proofs.MRPath Proofs.MRUpd.
Import ListNotations.

(* ---------- facts from the class table and the invariant ---------- *)
Lemma table_cls_ok T c :
  table_ok T = true -> c < length T ->
  backend_has_both T (backend_of T c) = true
  /\ uniform_backend T (backend_of T c) (lang_of T c) = true
  /\ in_backend T (backend_of T c) c = true.
Proof.
  intros HT Hc. unfold table_ok in HT. rewrite forallb_forall in HT.
  assert (Hin : In (get_cls T c) T) by (apply nth_In; exact Hc).
  specialize (HT _ Hin). unfold cls_ok in HT. apply andb_true_iff in HT. destruct HT as [HT _].
  apply andb_true_iff in HT. destruct HT as [H1 H2].
  split; [exact H1|]. split; [exact H2|]. apply in_backend_spec. split; [exact Hc|reflexivity].
Qed.

Lemma load_ok T s oid ob c :
  table_ok T = true -> Inv T s -> res_valid T s ->
  nlookup oid (m_objs s) = Some ob -> nlookup (o_rid ob) (m_res s) = Some c ->
  exists root1 nx1,
    load_root T s ob = (root1, nx1, None)
    /\ VEq (to_base root1) c
    /\ node_in_backend T (backend_of T (o_cls ob)) root1
    /\ node_keys_unique root1 = true
    /\ node_id root1 = node_id (o_root ob)
    /\ NoDup (node_ids root1)
    /\ (forall p m, node_at p (o_root ob) = Some m -> same_kinds_along p (o_root ob) c ->
          exists m', node_at p root1 = Some m' /\ node_id m' = node_id m).
Proof.
  intros HT HI HR Hob Hc.
  pose proof (HI oid ob Hob) as I. destruct (HR oid ob c Hob Hc) as [Vok [Vwf Vk]].
  destruct (table_cls_ok T (o_cls ob) HT (oi_cls _ _ _ I)) as [HB [HU Hin]].
  unfold load_root. rewrite Hc.
  destruct (upd_correct T _ _ c (o_root ob) (m_next s) HB HU (oi_backend _ _ _ I)
              (oi_container _ _ _ I) (eq_sym Vk) Vok Vwf (oi_keys _ _ _ I))
    as [root1 [nx1 [E [A1 [A2 [A3 [A4 [A5 A6]]]]]]]].
  exists root1, nx1. split; [exact E|]. split; [exact A1|]. split; [exact A2|].
  split; [exact A3|]. split; [exact A4|]. split.
  - destruct (upd_ids_r T c (o_root ob) (m_next s) root1 nx1 None E
                (oi_below _ _ _ I) (oi_nodup _ _ _ I)) as [N _]. exact N.
  - eapply upd_keeps_handles; eauto. exact (oi_backend _ _ _ I). exact (oi_keys _ _ _ I).
Qed.

(* ---------- the argument checks done before anything else ---------- *)
Definition reset_kind_ok (o : nop) : Prop :=
  match o with
  | OL (LReset v) => kind_of v = KList
  | OD (DReset v) => kind_of v = KDict
  | _ => True
  end.

Lemma pre_nop_pass T n o : pre_nop T n o = Some None -> reset_kind_ok o.
Proof.
  destruct n as [v0|id c l|id c d], o as [lo|dop]; cbn [pre_nop]; intros H; try discriminate.
  - destruct lo; cbn [reset_kind_ok]; auto. cbn [pre_lop] in H. destruct v; try discriminate. reflexivity.
  - destruct dop; cbn [reset_kind_ok]; auto. cbn [pre_dop] in H. destruct v; try discriminate. reflexivity.
Qed.

Lemma args1 L v : (val_ok L v && wf_val v) && true = true -> val_ok L v = true /\ wf_val v = true.
Proof. rewrite andb_true_r. apply andb_true_iff. Qed.

Lemma validate_args T c L v :
  lang3 (validators_of T c) = L -> val_ok L v = true -> validate (validators_of T c) v = None.
Proof. intros HL H. apply validate_spec. rewrite HL. exact H. Qed.

Lemma pre_nop_reject T c0 n o e L :
  node_cls n = Some c0 -> lang3 (validators_of T c0) = L ->
  args_ok L o = true -> pre_nop T n o = Some (Some e) ->
  forall v r' new, plain_nop v o = Some (r', new) -> r' = Err e /\ new = v.
Proof.
  intros Hc HL Ha Hp v r' new Hv.
  destruct n as [v0|id c l|id c d]; cbn in Hc; try discriminate; inversion Hc; subst c;
    destruct o as [lo|dop]; cbn [pre_nop] in Hp; try discriminate; inversion Hp as [Hp']; clear Hp;
    destruct v as [sv|lv|dv]; cbn [plain_nop] in Hv; try discriminate.
  - (* lists *)
    unfold args_ok in Ha. cbn [nop_vals] in Ha.
    destruct lo; cbn [pre_lop] in Hp'; try discriminate; cbn [lop_vals forallb] in Ha;
      apply args1 in Ha; destruct Ha as [Vok Vwf];
      try (rewrite (validate_args T c0 L _ HL Vok) in Hp'; discriminate).
    + (* LExtend *)
      destruct (iter_val v) as [vs|e0] eqn:Ei.
      * rewrite (validate_args T c0 L (VL vs) HL) in Hp'; [discriminate|].
        rewrite <- HL in *. eapply iter_val_ok; eauto.
      * inversion Hp'; subst e0. cbn [plain_lop] in Hv. rewrite Ei in Hv. cbn [bind] in Hv.
        inversion Hv; auto.
    + (* LIAdd *)
      destruct (iter_val v) as [vs|e0] eqn:Ei.
      * rewrite (validate_args T c0 L (VL vs) HL) in Hp'; [discriminate|].
        rewrite <- HL in *. eapply iter_val_ok; eauto.
      * inversion Hp'; subst e0. cbn [plain_lop] in Hv. rewrite Ei in Hv. cbn [bind] in Hv.
        inversion Hv; auto.
    + (* LReset *)
      destruct v; try discriminate; inversion Hp'; subst e; cbn [plain_lop] in Hv; inversion Hv; auto.
  - (* dicts *)
    unfold args_ok in Ha. cbn [nop_vals] in Ha.
    destruct dop; cbn [pre_dop] in Hp'; try discriminate; cbn [dop_vals forallb] in Ha;
      apply args1 in Ha; destruct Ha as [Vok Vwf];
      try (rewrite (validate_args T c0 L _ HL Vok) in Hp'; discriminate).
    + (* DUpdate *)
      destruct (as_mapping v) as [od|e0] eqn:Em; [discriminate|]. inversion Hp'; subst e0.
      cbn [plain_dop] in Hv. rewrite Em in Hv. inversion Hv; auto.
    + (* DReset *)
      destruct v; try discriminate; inversion Hp'; subst e; cbn [plain_dop] in Hv; inversion Hv; auto.
Qed.

(* ---------- the body of an operation on a node of a clean tree ---------- *)
Definition update_arg_ok (L : lang) (o : nop) : Prop :=
  forall v od, o = OD (DUpdate v) -> as_mapping v = Ok od -> val_ok L (VD od) = true.

Lemma in_nop_refines T b L n1 o nx r h n2 nx2 :
  backend_has_both T b = true -> uniform_backend T b L = true ->
  node_in_backend T b n1 -> node_keys_unique n1 = true ->
  args_ok L o = true -> reset_kind_ok o -> update_arg_ok L o ->
  in_nop T n1 o nx = Some ((r, h), n2, nx2) ->
  exists c', plain_nop (to_base n1) o = Some (r, c') /\ VEq (to_base n2) c'
             /\ (nop_merges o = false -> to_base n2 = c').
Proof.
  intros HB HU Hn Hku Ha Hrk Hup H.
  destruct n1 as [v0|id c l|id c d], o as [lo|dop]; cbn [in_nop] in H; try discriminate;
    inversion H as [H1]; clear H.
  - (* list node *)
    assert (Hcase : (exists v, lo = LReset v) \/ match lo with LReset _ => False | _ => True end)
      by (destruct lo; eauto).
    destruct Hcase as [[v ->]|Hcase].
    + cbn [reset_kind_ok] in Hrk. unfold args_ok in Ha. cbn [nop_vals lop_vals forallb] in Ha.
      apply args1 in Ha. destruct Ha as [Vok Vwf].
      destruct (upd_correct T b L v (NL id c l) nx HB HU Hn eq_refl (eq_sym Hrk) Vok Vwf Hku)
        as [n' [nx' [E [A1 _]]]].
      cbn [in_lop] in H1. rewrite E in H1. inversion H1; subst.
      destruct v as [sv|lv|dv]; try discriminate.
      exists (VL lv). cbn [to_base plain_nop plain_lop]. split; [reflexivity|].
      split; [exact A1|]. intros Hm; discriminate.
    + pose proof (in_lop_refines_plain T id c l lo nx Hcase) as R. rewrite H1 in R.
      cbn [to_base plain_nop].
      destruct (plain_lop (map to_base l) lo) as [r0 l0]. cbn [fst snd] in R. destruct R as [R1 R2].
      subst r0. exists (VL l0). split; [reflexivity|]. rewrite R2. split; [apply VEq_refl|auto].
  - (* dict node *)
    apply nib_ND in Hn. destruct Hn as [Hc Hnib].
    pose proof Hku as Hku0.
    cbn [node_keys_unique] in Hku. apply andb_true_iff in Hku. destruct Hku as [Hdu Hnku].
    apply forallb_Forall' in Hnku.
    assert (Hcase : (exists v, dop = DReset v) \/ (exists v, dop = DUpdate v)
                    \/ match dop with DReset _ | DUpdate _ => False | _ => True end)
      by (destruct dop; eauto).
    destruct Hcase as [[v ->]|[[v ->]|Hcase]].
    + cbn [reset_kind_ok] in Hrk. unfold args_ok in Ha. cbn [nop_vals dop_vals forallb] in Ha.
      apply args1 in Ha. destruct Ha as [Vok Vwf].
      assert (Hn : node_in_backend T b (ND id c d)) by (apply nib_ND; auto).
      destruct (upd_correct T b L v (ND id c d) nx HB HU Hn eq_refl (eq_sym Hrk) Vok Vwf Hku0)
        as [n' [nx' [E [A1 _]]]].
      cbn [in_dop] in H1. rewrite E in H1. inversion H1; subst.
      destruct v as [sv|lv|dv]; try discriminate.
      exists (VD dv). cbn [to_base plain_nop plain_dop]. split; [reflexivity|].
      split; [exact A1|]. intros Hm; discriminate.
    + unfold args_ok in Ha. cbn [nop_vals dop_vals forallb] in Ha.
      apply args1 in Ha. destruct Ha as [Vok Vwf].
      cbn [in_dop] in H1. cbn [to_base plain_nop plain_dop].
      destruct (as_mapping v) as [od|e0] eqn:Em.
      * destruct (dupdate_ok T b L c d od nx HB HU Hc (Hup v od eq_refl Em)
                    (as_mapping_wf v od Em Vwf) Hnib Hnku Hdu) as [d' [nx' [E V]]].
        rewrite E in H1. inversion H1; subst.
        eexists. split; [reflexivity|]. split; [exact V|]. intros Hm; discriminate.
      * inversion H1; subst. eexists. split; [reflexivity|]. split; [apply VEq_refl|auto].
    + assert (Hpre : match dop with
                     | DReset _ | DUpdate _ => False
                     | DSetdefault k v => validate (validators_of T c) (VD [(k, v)]) = None
                     | _ => True end).
      { destruct dop; try exact I; try contradiction.
        unfold args_ok in Ha. cbn [nop_vals dop_vals forallb] in Ha.
        apply args1 in Ha. destruct Ha as [Vok Vwf].
        apply (validate_args T c L); [|exact Vok]. eapply uniform_lang; eauto. }
      pose proof (in_dop_refines_plain T id c d dop nx Hpre) as R. rewrite H1 in R.
      cbn [to_base plain_nop].
      destruct (plain_dop (map (fun kn : key * node => (fst kn, to_base (snd kn))) d) dop) as [r0 d0].
      cbn [fst snd] in R. destruct R as [R1 R2].
      subst r0. exists (VD d0). split; [reflexivity|]. rewrite R2. split; [apply VEq_refl|auto].
Qed.
