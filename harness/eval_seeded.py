#!/usr/bin/env python3
"""Run the registered checks against seeded changes.

usage: eval_seeded.py [--tier quick] [--all-props] <seeded dir> ...
For each /verif/seeded/<name>/ (patch.diff, demo.py, meta.json): apply the patch to /repo, run the check of the
property it targets (and, with --all-props, every claimed check), undo the patch, record the verdicts in
<seeded dir>/verdict.json.  /repo is always restored (git checkout -- .)."""
import json
import os
import subprocess
import sys
import time

VERIF = os.path.dirname(os.path.dirname(os.path.abspath(__file__)))


def sh(cmd, **kw):
    # evidence of runs against a seeded change must never replace the evidence of the unchanged tree
    env = dict(os.environ, VERIF_EVIDENCE_DIR="/tmp/verif_evidence_seeded")
    return subprocess.run(cmd, shell=True, capture_output=True, text=True, env=env, **kw)


def main():
    args = sys.argv[1:]
    tier = "quick"
    all_props = False
    dirs = []
    while args:
        a = args.pop(0)
        if a == "--tier":
            tier = args.pop(0)
        elif a == "--all-props":
            all_props = True
        else:
            dirs.append(a)
    man = json.load(open(os.path.join(VERIF, "MANIFEST.json")))
    claimed = [c["property_id"] for c in man["checks"]]
    st = sh("git -C /repo status --porcelain")
    if st.stdout.strip():
        print("refusing: /repo has uncommitted changes:\n" + st.stdout)
        return 2
    for d in dirs:
        d = os.path.abspath(d)
        meta = json.load(open(os.path.join(d, "meta.json")))
        prop = meta["property"]
        props = claimed if all_props else [p for p in [prop] + meta.get("also_check", []) if p in claimed]
        out = {"seeded": os.path.basename(d), "property": prop, "tier": tier, "results": {}}
        ap = sh(f"git -C /repo apply {os.path.join(d, 'patch.diff')}")
        if ap.returncode != 0:
            out["error"] = "patch does not apply: " + ap.stderr[-300:]
            print(json.dumps(out))
            continue
        try:
            for p in props:
                t = time.time()
                r = sh(f"./check {p} --tier {tier}", cwd=VERIF, timeout=3600)
                lines = [l for l in r.stdout.splitlines() if l.startswith(("VIOLATION", "KNOWN-FINDING"))]
                out["results"][p] = {"exit": r.returncode, "lines": lines, "wall_s": round(time.time() - t, 1)}
        finally:
            sh("git -C /repo checkout -- .")
        out["detected_by"] = [p for p, r in out["results"].items() if r["exit"] == 1]
        out["detected_with_failing_input"] = [p for p, r in out["results"].items()
                                              if any("VIOLATION" in l and "no-failing-input-found" not in l for l in r["lines"])]
        with open(os.path.join(d, "verdict.json"), "w") as f:
            json.dump(out, f, indent=1)
        print(os.path.basename(d), prop, "detected by", out["detected_by"], "with input", out["detected_with_failing_input"])
    return 0


if __name__ == "__main__":
    sys.exit(main())
