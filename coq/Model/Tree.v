(* Tree.v — the in-memory representation: nested synced nodes with identity,
   conversion from / to plain data, and the in-place merge `_update`. *)
From Coq Require Import List ZArith NArith Bool.
From SC Require Import Model.Val Model.Plain Model.Valid Model.Class.
Import ListNotations.

(* NV: a leaf holding plain data (a scalar whenever the registry is well-formed);
   NL / ND: synced containers with object identity [id] and class [c]. *)
Inductive node :=
  | NV (v : val)
  | NL (id : nat) (c : nat) (l : list node)
  | ND (id : nat) (c : nat) (d : list (key * node)).

Fixpoint to_base (n : node) : val :=
  match n with
  | NV v => v
  | NL _ _ l => VL (map to_base l)
  | ND _ _ d => VD (map (fun kn : key * node => (fst kn, to_base (snd kn))) d)
  end.

Definition node_is_container (n : node) : bool := match n with NV _ => false | _ => true end.
Definition node_id (n : node) : option nat :=
  match n with NV _ => None | NL i _ _ | ND i _ _ => Some i end.
Definition node_cls (n : node) : option nat :=
  match n with NV _ => None | NL _ c _ | ND _ c _ => Some c end.

Fixpoint node_ids (n : node) : list nat :=
  match n with
  | NV _ => []
  | NL id _ l => id :: flat_map node_ids l
  | ND id _ d => id :: flat_map (fun kn : key * node => node_ids (snd kn)) d
  end.

(* state-passing combinators (fresh-id supply) with the recursive function as a parameter *)
Section MapSt.
  Context {A B S : Type}.
  Variable f : A -> S -> B * S.
  Fixpoint map_st (l : list A) (s : S) : list B * S :=
    match l with
    | [] => ([], s)
    | x :: l' => let (y, s1) := f x s in let (ys, s2) := map_st l' s1 in (y :: ys, s2)
    end.
End MapSt.

(* _from_base(data, parent=<node of class c>) *)
Fixpoint from_base (T : class_table) (c : nat) (v : val) (nx : nat) {struct v} : node * nat :=
  match v with
  | VS _ => (NV v, nx)
  | VL l =>
      match child_cls T c KList with
      | None => (NV v, nx)
      | Some c' =>
          let (l', nx') := map_st (from_base T c') l (S nx) in (NL nx c' l', nx')
      end
  | VD d =>
      match child_cls T c KDict with
      | None => (NV v, nx)
      | Some c' =>
          let (d', nx') :=
            map_st (fun (kv : key * val) s => let (k, w) := kv in
                      let (n, s') := from_base T c' w s in ((k, n), s')) d (S nx) in
          (ND nx c' d', nx')
      end
  end.

Definition validators_of (T : class_table) (c : nat) : list vname := c_validators (get_cls T c).

(* is the incoming value "the same" as the stored one, so that the merge skips it:
   equal and of the same Python type — containers never qualify *)
Definition skip_same (nv : val) (ex : node) : bool :=
  match nv, ex with
  | VS a, NV (VS b) => seq_strict a b
  | _, _ => false
  end.

Definition is_null (v : val) : bool := match v with VS SNull => true | _ => false end.
Definition err_is_value_error (e : err) : bool :=
  match e with EValue | EInvalidKey => true | _ => false end.

(* one position of the merge: existing node [ex], incoming value [nv];
   [wrap nv] is what gets validated ({key: nv} for dicts, nv itself for lists).
   Returns the node to store and the error raised, if any. *)
Section Merge.
  Variable T : class_table.
  Variable upd : val -> node -> nat -> node * nat * option err.   (* recursive call *)

  Definition merge_one (c : nat) (wrapped : val) (nv : val) (ex : node) (nx : nat)
    : node * nat * option err :=
    if skip_same nv ex then (ex, nx, None)
    else
      let replace (ex0 : node) (nx0 : nat) :=
        match validate (validators_of T c) wrapped with
        | Some e => (ex0, nx0, Some e)
        | None => let (n, nx1) := from_base T c nv nx0 in (n, nx1, None)
        end in
      if node_is_container ex && negb (is_null nv) then
        match upd nv ex nx with
        | (ex', nx', None) => (ex', nx', None)
        | (ex', nx', Some e) => if err_is_value_error e then replace ex' nx' else (ex', nx', Some e)
        end
      else replace ex nx.
End Merge.

(* list part of SyncedList._update: pairwise over the common prefix *)
Section UpdList.
  Variable T : class_table.
  Variable upd : val -> node -> nat -> node * nat * option err.
  Variable c : nat.
  Fixpoint upd_prefix (dl : list val) (l : list node) (nx : nat) {struct dl}
    : list node * nat * option err :=
    match dl, l with
    | nv :: dl', ex :: l' =>
        match merge_one T upd c nv nv ex nx with
        | (n, nx1, Some e) => (n :: l', nx1, Some e)
        | (n, nx1, None) =>
            match upd_prefix dl' l' nx1 with
            | (l2, nx2, e) => (n :: l2, nx2, e)
            end
        end
    | [], _ => ([], nx, None)                     (* truncate *)
    | _ :: _, [] =>                               (* extend with the new tail *)
        match validate (validators_of T c) (VL dl) with
        | Some e => ([], nx, Some e)
        | None => let (tl, nx1) := map_st (from_base T c) dl nx in (tl, nx1, None)
        end
    end.
End UpdList.

Section UpdDict.
  Variable T : class_table.
  Variable upd : val -> node -> nat -> node * nat * option err.
  Variable c : nat.
  (* process the incoming entries in order against the stored dict *)
  Fixpoint upd_entries (dd : list (key * val)) (d : list (key * node)) (nx : nat) {struct dd}
    : list (key * node) * nat * option err :=
    match dd with
    | [] => (d, nx, None)
    | (k, nv) :: dd' =>
        match alookup k d with
        | None =>
            match validate (validators_of T c) (VD [(k, nv)]) with
            | Some e => (d, nx, Some e)
            | None => let (n, nx1) := from_base T c nv nx in
                      upd_entries dd' (dict_set d k n) nx1
            end
        | Some ex =>
            match merge_one T upd c (VD [(k, nv)]) nv ex nx with
            | (n, nx1, Some e) => (dict_set d k n, nx1, Some e)
            | (n, nx1, None) => upd_entries dd' (dict_set d k n) nx1
            end
        end
    end.
End UpdDict.

Definition keep_keys {A B} (d : list (key * A)) (dd : list (key * B)) : list (key * A) :=
  filter (fun kn => match alookup (fst kn) dd with Some _ => true | None => false end) d.

(* SyncedDict._update / SyncedList._update on a container node.
   [None]-data ("resource missing") is handled by the caller. *)
Fixpoint upd (T : class_table) (data : val) (n : node) (nx : nat) {struct data}
  : node * nat * option err :=
  match n, data with
  | NL id c l, VL dl =>
      match upd_prefix T (fun v => upd T v) c dl l nx with
      | (l', nx', e) => (NL id c l', nx', e)
      end
  | ND id c d, VD dd =>
      match upd_entries T (fun v => upd T v) c dd d nx with
      | (d', nx', Some e) => (ND id c d', nx', Some e)
      | (d', nx', None) => (ND id c (keep_keys d' dd), nx', None)
      end
  | _, _ => (n, nx, Some EValue)
  end.
