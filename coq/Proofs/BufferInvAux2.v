(* BufferInvAux2.v — the registration invariant (reg_inv) and what a forced flush achieves. *)
From Coq Require Import List ZArith NArith Bool Lia.
From SC Require Import Model.Val Model.Plain Model.Ops Model.Buffer Proofs.TreeDefs Proofs.TreeBase Proofs.BufferDefs
  Proofs.BufferInvAux1.
Import ListNotations.
Local Open Scope Z_scope.

Definition nodup (s : bstate) : Prop := NoDup (map fst (b_buffer s)).
Lemma nodup_of_acctb strat blen s : acctb false strat blen s -> nodup s.
Proof. intros [_ H]. exact H. Qed.
Lemma acctb_of_nodup strat blen s : nodup s -> acctb false strat blen s.
Proof. intros H. split; [discriminate|exact H]. Qed.

(* every buffered file has a registered holder (buffered or not) *)
Definition reg_weak (s : bstate) : Prop :=
  forall f e, nlookup f (b_buffer s) = Some e -> exists oid, In oid (b_bcs s) /\ bo_file (get_obj s oid) = f.

Lemma reg_inv_weak s : reg_inv s -> reg_weak s.
Proof. intros H f e Hl. destruct (H f e Hl) as (o & H1 & H2 & _). exists o. split; assumption. Qed.

(* an entry is settled when it weighs nothing in the accounting *)
Definition settled (strat : strategy) (s : bstate) (f : nat) : Prop :=
  forall e, nlookup f (b_buffer s) = Some e -> strat = Shm /\ e_mod e = false.

(* ------------------------------------------------------------------ *)
(* flush_one and the buffer *)
Lemma fo_nodup strat blen s oid force : nodup s -> nodup (fst (flush_one strat blen s oid force)).
Proof.
  intros H. apply (nodup_of_acctb strat blen). apply flush_one_acct. apply acctb_of_nodup. exact H.
Qed.

Lemma fo_none_pres strat blen s oid force f' :
  nlookup f' (b_buffer s) = None -> nlookup f' (b_buffer (fst (flush_one strat blen s oid force))) = None.
Proof.
  intros H. fo_cases strat s oid force; bsimpl; try exact H; try (apply nlookup_nremove_none; exact H);
    (rewrite nlookup_nset; destruct (Nat.eqb f' _) eqn:E; [apply Nat.eqb_eq in E; subst f'; congruence|exact H]).
Qed.

Lemma fo_deleted strat blen s oid force :
  nodup s -> (negb (is_buffered s oid) || force) = true -> (strat = Ser \/ force = false) ->
  nlookup (bo_file (get_obj s oid)) (b_buffer (fst (flush_one strat blen s oid force))) = None.
Proof.
  unfold nodup. intros ND Hc Hor.
  fo_cases strat s oid force; bsimpl; try discriminate; try exact Hlk;
    try (apply nlookup_nremove_eq; exact ND);
    destruct Hor; discriminate.
Qed.

Lemma fo_settled strat blen s oid force :
  nodup s -> force = true ->
  settled strat (fst (flush_one strat blen s oid force)) (bo_file (get_obj s oid)).
Proof.
  unfold nodup, settled. intros ND Hf e0.
  fo_cases strat s oid force; bsimpl; try discriminate;
    try (rewrite Hlk; discriminate);
    try (rewrite nlookup_nremove_eq by exact ND; discriminate);
    try (rewrite nlookup_nset_same; intros H; inversion H; subst; split; reflexivity).
  all: rewrite Hf in Hcond; rewrite orb_true_r in Hcond; discriminate.
Qed.

Lemma fo_settled_pres strat blen s oid force f' :
  nodup s -> settled strat s f' -> settled strat (fst (flush_one strat blen s oid force)) f'.
Proof.
  unfold nodup, settled. intros ND H e0.
  fo_cases strat s oid force; bsimpl; try apply H;
    try (intros H1; apply (nlookup_nremove_some _ _ _ _ ND) in H1; destruct H1 as [_ H1]; apply H; exact H1);
    (rewrite nlookup_nset; destruct (Nat.eqb f' _); [intros H1; inversion H1; subst; split; reflexivity|apply H]).
Qed.

(* ------------------------------------------------------------------ *)
(* flush_loop *)
Definition rem_of (strat : strategy) (s : bstate) (force : bool) (todo : list nat) : list nat :=
  if force then match strat with Ser => [] | Shm => todo end else filter (is_buffered s) todo.

Lemma filter_ext' {A} (f g : A -> bool) l : (forall x, f x = g x) -> filter f l = filter g l.
Proof. intros H. induction l as [|x l IH]; simpl; [reflexivity|]. rewrite H, IH. reflexivity. Qed.

Lemma flush_loop_rem strat blen force todo :
  forall s rem iss,
  snd (fst (flush_loop strat blen todo s force rem iss)) = rem ++ rem_of strat s force todo.
Proof.
  induction todo as [|oid todo IH]; intros s rem iss; simpl.
  - unfold rem_of. destruct force; [destruct strat|]; simpl; rewrite app_nil_r; reflexivity.
  - destruct force.
    + rewrite andb_false_r.
      destruct (flush_one strat blen s oid true) as [s1 [[f|fs]|]]; rewrite IH; unfold rem_of;
        destruct strat; simpl; rewrite <- ?app_assoc; reflexivity.
    + rewrite andb_true_r. unfold rem_of. simpl. destruct (is_buffered s oid) eqn:Eb.
      * rewrite IH. unfold rem_of. rewrite <- app_assoc. reflexivity.
      * pose proof (flush_one_is_buffered strat blen s oid false) as Hb.
        destruct (flush_one strat blen s oid false) as [s1 [[f|fs]|]]; cbn [fst] in Hb;
          rewrite IH; unfold rem_of; rewrite (filter_ext' _ _ todo Hb);
          destruct strat; reflexivity.
Qed.

Lemma flush_loop_each strat blen force (P : bstate -> Prop) (D : nat -> bstate -> Prop) :
  (forall s oid, P s -> P (fst (flush_one strat blen s oid force))) ->
  (forall s oid, P s -> is_buffered s oid && negb force = false -> D oid (fst (flush_one strat blen s oid force))) ->
  (forall s oid o', P s -> D o' s -> D o' (fst (flush_one strat blen s oid force))) ->
  forall todo s rem iss, P s ->
  forall o', D o' s \/ (In o' todo /\ is_buffered s o' && negb force = false) ->
  D o' (fst (fst (flush_loop strat blen todo s force rem iss))).
Proof.
  intros HP HA HD. induction todo as [|oid todo IH]; intros s rem iss Hs o' H; simpl.
  - destruct H as [H|[[] _]]. exact H.
  - destruct (is_buffered s oid && negb force) eqn:Esk.
    + apply IH; [exact Hs|]. destruct H as [H|[[->|Hin] Hb]].
      * left; exact H.
      * congruence.
      * right. split; assumption.
    + pose proof (HP s oid Hs) as Hs1. pose proof (HA s oid Hs Esk) as Ha.
      pose proof (flush_one_is_buffered strat blen s oid force) as Hb.
      assert (Hn : D o' (fst (flush_one strat blen s oid force)) \/
                   (In o' todo /\ is_buffered (fst (flush_one strat blen s oid force)) o' && negb force = false)).
      { destruct H as [H|[[->|Hin] Hb']].
        - left. apply HD; assumption.
        - left. exact Ha.
        - right. split; [exact Hin|]. rewrite Hb. exact Hb'. }
      destruct (flush_one strat blen s oid force) as [s1 [[f|fs]|]]; cbn [fst] in *; apply IH; assumption.
Qed.

(* ------------------------------------------------------------------ *)
(* flush_buffer *)
Section FlushBuffer.
  Variable strat : strategy.
  Variable blen : val -> Z.
  Variable s : bstate.
  Variable force : bool.

  Let L := flush_loop strat blen (rev (b_bcs s)) (upd_bcs s []) force [] [].
  Let sf := fst (fst L).

  Lemma fb_state : fst (flush_buffer strat blen s force) = upd_bcs sf (rem_of strat s force (rev (b_bcs s))).
  Proof.
    rewrite flush_buffer_fst. fold L. fold sf. f_equal.
    unfold L. rewrite flush_loop_rem. reflexivity.
  Qed.

  Lemma fb_frame : frame s sf.
  Proof.
    unfold sf, L. apply (flush_loop_pres strat blen (frame s)).
    - intros s0 oid H. eapply frame_trans; [exact H|]. apply flush_one_frame.
    - apply frame_objs_eq; reflexivity.
  Qed.

  Lemma fb_none f : nlookup f (b_buffer s) = None -> nlookup f (b_buffer sf) = None.
  Proof.
    intros H. unfold sf, L. apply (flush_loop_pres strat blen (fun s0 => nlookup f (b_buffer s0) = None)).
    - intros s0 oid H0. apply fo_none_pres. exact H0.
    - exact H.
  Qed.

  Lemma fb_some f e : nlookup f (b_buffer sf) = Some e -> exists e0, nlookup f (b_buffer s) = Some e0.
  Proof.
    intros H. destruct (nlookup f (b_buffer s)) as [e0|] eqn:E; [exists e0; reflexivity|].
    apply fb_none in E. congruence.
  Qed.

  Lemma fb_nodup : nodup s -> nodup sf.
  Proof.
    intros H. unfold sf, L. apply (flush_loop_pres strat blen nodup).
    - intros s0 oid H0. apply fo_nodup. exact H0.
    - exact H.
  Qed.

  Lemma fb_deleted o :
    nodup s -> In o (b_bcs s) -> is_buffered s o && negb force = false -> (strat = Ser \/ force = false) ->
    nlookup (bo_file (get_obj s o)) (b_buffer sf) = None.
  Proof.
    intros ND Hin Hb Hor.
    rewrite <- (frame_file s sf o fb_frame).
    unfold sf, L.
    apply (flush_loop_each strat blen force nodup
             (fun o s0 => nlookup (bo_file (get_obj s0 o)) (b_buffer s0) = None)).
    - intros s0 oid H0. apply fo_nodup. exact H0.
    - intros s0 oid H0 Hs. rewrite flush_one_file. apply fo_deleted; [exact H0| |exact Hor].
      destruct (is_buffered s0 oid); destruct force; simpl in *; congruence.
    - intros s0 oid o' H0 Hd. rewrite flush_one_file. apply fo_none_pres. exact Hd.
    - exact ND.
    - right. split; [apply in_rev in Hin; exact Hin|exact Hb].
  Qed.

  Lemma fb_settled o :
    nodup s -> In o (b_bcs s) -> force = true -> settled strat sf (bo_file (get_obj s o)).
  Proof.
    intros ND Hin Hf.
    rewrite <- (frame_file s sf o fb_frame).
    unfold sf, L.
    apply (flush_loop_each strat blen force nodup
             (fun o s0 => settled strat s0 (bo_file (get_obj s0 o)))).
    - intros s0 oid H0. apply fo_nodup. exact H0.
    - intros s0 oid H0 Hs. rewrite flush_one_file. apply fo_settled; assumption.
    - intros s0 oid o' H0 Hd. rewrite flush_one_file. apply fo_settled_pres; assumption.
    - exact ND.
    - right. split; [apply in_rev in Hin; exact Hin|]. rewrite Hf. apply andb_false_r.
  Qed.
End FlushBuffer.

Lemma flush_buffer_frame strat blen s force : frame s (fst (flush_buffer strat blen s force)).
Proof.
  rewrite fb_state. eapply frame_trans; [apply fb_frame|]. apply frame_objs_eq; reflexivity.
Qed.

Lemma flush_buffer_nodup strat blen s force : nodup s -> nodup (fst (flush_buffer strat blen s force)).
Proof. intros H. rewrite fb_state. apply (fb_nodup strat blen s force H). Qed.

(* a non-forced backend-wide flush re-establishes reg_inv from the weak form *)
Lemma flush_buffer_reg_false strat blen s :
  nodup s -> reg_weak s -> reg_inv (fst (flush_buffer strat blen s false)).
Proof.
  intros ND HW f e Hl. rewrite fb_state in *. bsimpl in Hl.
  set (sf := fst (fst (flush_loop strat blen (rev (b_bcs s)) (upd_bcs s []) false [] []))) in *.
  pose proof (fb_frame strat blen s false) as HF. fold sf in HF.
  destruct (fb_some strat blen s false f e Hl) as (e0 & Hl0).
  destruct (HW f e0 Hl0) as (o & Hin & Hfile).
  destruct (is_buffered s o) eqn:Eb.
  - exists o. split; [|split].
    + change (In o (rem_of strat s false (rev (b_bcs s)))).
      unfold rem_of. apply filter_In. split; [apply in_rev in Hin; exact Hin|exact Eb].
    + change (bo_file (get_obj sf o) = f). rewrite (frame_file s sf o HF). exact Hfile.
    + change (is_buffered sf o = true). rewrite (frame_is_buffered s sf o HF). exact Eb.
  - exfalso.
    assert (Hd : nlookup (bo_file (get_obj s o)) (b_buffer sf) = None).
    { apply (fb_deleted strat blen s false o ND Hin); [rewrite Eb; reflexivity|right; reflexivity]. }
    rewrite Hfile in Hd. congruence.
Qed.

(* a forced flush settles every entry *)
Lemma flush_buffer_forced_settled strat blen s f :
  nodup s -> reg_weak s -> settled strat (fst (flush_buffer strat blen s true)) f.
Proof.
  intros ND HW e Hl. rewrite fb_state in Hl. bsimpl in Hl.
  destruct (fb_some strat blen s true f e Hl) as (e0 & Hl0).
  destruct (HW f e0 Hl0) as (o & Hin & Hfile).
  pose proof (fb_settled strat blen s true o ND Hin eq_refl) as H. rewrite Hfile in H. apply H. exact Hl.
Qed.

Lemma flush_buffer_forced_size strat blen s :
  acct strat blen s -> reg_weak s -> b_size (fst (flush_buffer strat blen s true)) = 0.
Proof.
  intros HA HW.
  pose proof (flush_buffer_acct true strat blen s true (proj2 (acctb_true strat blen s) HA)) as [H1 H2].
  rewrite (H1 eq_refl). apply wsum_zero. intros k a Hin.
  apply In_nlookup in Hin; [|exact H2].
  destruct (flush_buffer_forced_settled strat blen s k (acct_nodup _ _ _ HA) HW a Hin) as [-> Hm].
  cbn [ew]. rewrite Hm. reflexivity.
Qed.

Lemma flush_buffer_reg_true strat blen s :
  nodup s -> reg_inv s -> reg_inv (fst (flush_buffer strat blen s true)).
Proof.
  intros ND HR f e Hl.
  destruct (flush_buffer_forced_settled strat blen s f ND (reg_inv_weak s HR) e Hl) as [-> _].
  rewrite fb_state in *. bsimpl in Hl.
  set (sf := fst (fst (flush_loop Shm blen (rev (b_bcs s)) (upd_bcs s []) true [] []))) in *.
  pose proof (fb_frame Shm blen s true) as HF. fold sf in HF.
  destruct (fb_some Shm blen s true f e Hl) as (e0 & Hl0).
  destruct (HR f e0 Hl0) as (o & Hin & Hfile & Hb).
  exists o. split; [|split].
  - change (In o (rem_of Shm s true (rev (b_bcs s)))). unfold rem_of. apply in_rev in Hin. exact Hin.
  - change (bo_file (get_obj sf o) = f). rewrite (frame_file s sf o HF). exact Hfile.
  - change (is_buffered sf o = true). rewrite (frame_is_buffered s sf o HF). exact Hb.
Qed.

(* ------------------------------------------------------------------ *)
(* the combined invariant and its transfer *)
Definition regI (s : bstate) : Prop := nodup s /\ reg_inv s.

Lemma reg_inv_gen s s' :
  (forall f' e', nlookup f' (b_buffer s') = Some e' ->
     (exists e'', nlookup f' (b_buffer s) = Some e'')
     \/ (exists oid, In oid (b_bcs s') /\ bo_file (get_obj s' oid) = f' /\ is_buffered s' oid = true)) ->
  (forall o, In o (b_bcs s) -> is_buffered s o = true ->
     In o (b_bcs s') /\ bo_file (get_obj s' o) = bo_file (get_obj s o) /\ is_buffered s' o = true) ->
  reg_inv s -> reg_inv s'.
Proof.
  intros H1 H2 HR f e Hl. destruct (H1 f e Hl) as [(e0 & Hl0)|H]; [|exact H].
  destruct (HR f e0 Hl0) as (o & Hin & Hfile & Hb).
  destruct (H2 o Hin Hb) as (A & B & C). exists o. split; [exact A|]. split; [congruence|exact C].
Qed.

Lemma reg_inv_same s s' :
  frame s s' -> b_buffer s' = b_buffer s -> (forall o, In o (b_bcs s) -> In o (b_bcs s')) ->
  reg_inv s -> reg_inv s'.
Proof.
  intros HF Hb Hin. apply reg_inv_gen.
  - intros f' e' Hl. left. exists e'. rewrite <- Hb. exact Hl.
  - intros o Ho Hbuf. split; [apply Hin; exact Ho|]. split; [apply frame_file; exact HF|].
    rewrite (frame_is_buffered s s' o HF). exact Hbuf.
Qed.

Lemma regI_same s s' :
  frame s s' -> b_buffer s' = b_buffer s -> (forall o, In o (b_bcs s) -> In o (b_bcs s')) ->
  regI s -> regI s'.
Proof.
  intros HF Hb Hin [H1 H2]. split; [unfold nodup; rewrite Hb; exact H1|]. eapply reg_inv_same; eassumption.
Qed.

Lemma regI_conv s s' :
  b_buffer s' = b_buffer s -> b_bcs s' = b_bcs s -> b_objs s' = b_objs s -> b_ctx s' = b_ctx s ->
  regI s -> regI s'.
Proof.
  intros Hb Hbcs Ho Hc [ND HR]. split; [unfold nodup; rewrite Hb; exact ND|].
  apply (reg_inv_gen s); [| |exact HR].
  - intros f' e' Hl. left. exists e'. rewrite <- Hb. exact Hl.
  - intros o Hin Hbuf. rewrite Hbcs. split; [exact Hin|]. rewrite (get_obj_eq s s' o Ho). split; [reflexivity|].
    unfold is_buffered in *. rewrite (get_obj_eq s s' o Ho), Hc. exact Hbuf.
Qed.

Lemma heap_only_regI s s' : heap_only s s' -> regI s -> regI s'.
Proof.
  intros HO. pose proof (heap_only_frame s s' HO) as HF. destruct HO as (_ & Hb & _ & _ & _ & _ & Hbcs & _).
  apply regI_same; try assumption. intros o. rewrite Hbcs. auto.
Qed.

Lemma check_capacity_regI strat blen s : regI s -> regI (fst (check_capacity strat blen s)).
Proof.
  intros HI. unfold check_capacity. destruct (b_cap s <? b_size s); [|exact HI].
  assert (HI' : regI (note_forced s)).
  { eapply regI_same; [| | |exact HI]; [apply frame_objs_eq; reflexivity|reflexivity|auto]. }
  destruct HI' as [A B]. split; [apply flush_buffer_nodup; exact A|apply flush_buffer_reg_true; assumption].
Qed.

Lemma set_capacity_regI strat blen s n : regI s -> regI (fst (set_capacity strat blen s n)).
Proof.
  intros [A B]. unfold set_capacity.
  assert (HI1 : nodup (upd_cap s n) /\ reg_inv (upd_cap s n)) by (split; [exact A|exact B]).
  destruct (n <? b_size (upd_cap s n)); [|exact HI1].
  destruct HI1 as [A1 B1].
  split; [apply flush_buffer_nodup; exact A1|apply flush_buffer_reg_true; assumption].
Qed.

(* adding / replacing the entry of a buffered, registered holder *)
Lemma reg_inv_grow s s' oid :
  frame s s' -> (forall o, In o (b_bcs s) -> In o (b_bcs s')) -> In oid (b_bcs s') ->
  is_buffered s oid = true ->
  (forall f' e', nlookup f' (b_buffer s') = Some e' ->
     f' = bo_file (get_obj s oid) \/ exists e'', nlookup f' (b_buffer s) = Some e'') ->
  reg_inv s -> reg_inv s'.
Proof.
  intros HF Hin Ho Hb Hk. apply reg_inv_gen.
  - intros f' e' Hl. destruct (Hk f' e' Hl) as [->|H]; [right|left; exact H].
    exists oid. split; [exact Ho|]. split; [apply frame_file; exact HF|].
    rewrite (frame_is_buffered s s' oid HF). exact Hb.
  - intros o Hino Hbuf. split; [apply Hin; exact Hino|]. split; [apply frame_file; exact HF|].
    rewrite (frame_is_buffered s s' o HF). exact Hbuf.
Qed.

Lemma nlookup_nset_keys {A} f (e : A) l f' e' :
  nlookup f' (nset f e l) = Some e' -> f' = f \/ exists e'', nlookup f' l = Some e''.
Proof.
  rewrite nlookup_nset. destruct (Nat.eqb f' f) eqn:E.
  - apply Nat.eqb_eq in E. left; exact E.
  - intros H. right. exists e'. exact H.
Qed.

Lemma lfbb_regI strat blen s oid :
  is_buffered s oid = true -> regI s -> regI (load_from_buffer_base strat blen s oid).
Proof.
  intros Hb [ND HR]. split.
  { apply (nodup_of_acctb strat blen). apply lfbb_acct. apply acctb_of_nodup. exact ND. }
  unfold load_from_buffer_base.
  destruct (nlookup (bo_file (get_obj s oid)) (b_buffer s)) eqn:Hl.
  - eapply reg_inv_same; [apply frame_register|apply register_fields| |exact HR].
    intros o Ho. apply register_bcs. right; exact Ho.
  - set (s1 := update_root s oid (read_disk s (bo_file (get_obj s oid)))).
    assert (HO : heap_only s s1) by apply update_root_heap_only.
    set (s2 := init_entry strat blen s1 oid false).
    destruct (init_entry_fields strat blen s1 oid false) as (F1 & F2 & F3 & F4 & F5 & _). fold s2 in F1, F2, F3, F4, F5.
    assert (HF : frame s (register s2 oid)).
    { eapply frame_trans; [apply heap_only_frame; exact HO|].
      eapply frame_trans; [apply frame_objs_eq; eassumption|apply frame_register]. }
    apply (reg_inv_grow s (register s2 oid) oid HF).
    + intros o Ho. apply register_bcs. right. rewrite F5. destruct HO as (_ & _ & _ & _ & _ & _ & -> & _). exact Ho.
    + apply register_bcs. left; reflexivity.
    + exact Hb.
    + intros f' e'. destruct (register_fields s2 oid) as (_ & _ & _ & _ & -> & _).
      destruct (init_entry_buffer strat blen s1 oid false) as (e0 & Hbuf & _). fold s2 in Hbuf. rewrite Hbuf.
      rewrite (heap_only_get_obj s s1 oid HO). destruct HO as (_ & -> & _). apply nlookup_nset_keys.
    + exact HR.
Qed.

Lemma load_regI strat blen s oid : regI s -> regI (fst (load strat blen s oid)).
Proof.
  intros HI. unfold load. destruct (is_buffered s oid) eqn:Hb.
  - pose proof (lfbb_regI strat blen s oid Hb HI) as H1.
    destruct strat.
    + pose proof (check_capacity_regI Ser blen _ H1) as H2.
      destruct (check_capacity Ser blen (load_from_buffer_base Ser blen s oid)) as [s2 [x|]]; cbn [fst] in *.
      * exact H2.
      * eapply heap_only_regI; [apply update_root_heap_only|exact H2].
    + destruct (nlookup _ _); cbn [fst]; [|exact H1].
      eapply regI_same; [apply frame_set_loc|reflexivity|auto|exact H1].
  - cbn [fst]. eapply heap_only_regI; [apply update_root_heap_only|exact HI].
Qed.

Lemma stb_pre_frame strat blen s oid : frame s (stb_pre strat blen s oid).
Proof.
  unfold stb_pre. set (s0 := register s oid). set (f := bo_file (get_obj s0 oid)).
  eapply frame_trans; [apply (frame_register s oid)|]. fold s0.
  destruct strat; destruct (nlookup f (b_buffer s0)) as [e|].
  - apply frame_objs_eq; reflexivity.
  - destruct (init_entry_fields Ser blen s0 oid false) as (F1 & F2 & F3 & F4 & _).
    destruct (nlookup f _); apply frame_objs_eq; assumption.
  - set (s' := if Nat.eqb (e_loc e) (bo_loc (get_obj s0 oid)) then s0 else _).
    assert (HF : frame s0 s').
    { subst s'. destruct (Nat.eqb _ _); [apply frame_refl|].
      eapply frame_trans; [|apply frame_set_loc]. apply frame_objs_eq; reflexivity. }
    destruct (e_mod e); [exact HF|]. eapply frame_trans; [exact HF|]. apply frame_objs_eq; reflexivity.
  - destruct (init_entry_fields Shm blen s0 oid true) as (F1 & F2 & F3 & F4 & _).
    apply frame_objs_eq; assumption.
Qed.

Lemma stb_pre_bcs strat blen s oid : b_bcs (stb_pre strat blen s oid) = b_bcs (register s oid).
Proof.
  unfold stb_pre. set (s0 := register s oid). set (f := bo_file (get_obj s0 oid)).
  destruct strat; destruct (nlookup f (b_buffer s0)) as [e|].
  - reflexivity.
  - destruct (init_entry_fields Ser blen s0 oid false) as (_ & _ & _ & _ & F5 & _).
    destruct (nlookup f _); exact F5.
  - destruct (Nat.eqb _ _); destruct (e_mod e); reflexivity.
  - destruct (init_entry_fields Shm blen s0 oid true) as (_ & _ & _ & _ & F5 & _). exact F5.
Qed.

Lemma stb_pre_keys strat blen s oid f' e' :
  nlookup f' (b_buffer (stb_pre strat blen s oid)) = Some e' ->
  f' = bo_file (get_obj s oid) \/ exists e'', nlookup f' (b_buffer s) = Some e''.
Proof.
  unfold stb_pre. rewrite (get_obj_register s oid oid).
  destruct (register_fields s oid) as (_ & _ & _ & _ & Hbuf & _).
  set (s0 := register s oid) in *. set (f := bo_file (get_obj s oid)). rewrite <- Hbuf.
  assert (Hg : get_obj s0 oid = get_obj s oid) by apply get_obj_register.
  destruct strat; destruct (nlookup f (b_buffer s0)) as [e|] eqn:Hl.
  - bsimpl. apply nlookup_nset_keys.
  - destruct (init_entry_buffer Ser blen s0 oid false) as (e0 & Hb & _).
    rewrite Hg in Hb. fold f in Hb.
    rewrite Hb, nlookup_nset_same. bsimpl. rewrite Hb. intros H.
    apply nlookup_nset_keys in H. destruct H as [H|(e2 & H)]; [left; exact H|].
    apply nlookup_nset_keys in H. exact H.
  - set (s' := if Nat.eqb (e_loc e) _ then s0 else _).
    assert (Hs' : b_buffer s' = b_buffer s0) by (subst s'; destruct (Nat.eqb _ _); reflexivity).
    destruct (e_mod e).
    + rewrite Hs'. intros H. right. exists e'. exact H.
    + bsimpl. rewrite Hs'. apply nlookup_nset_keys.
  - destruct (init_entry_buffer Shm blen s0 oid true) as (e0 & Hb & _).
    rewrite Hg in Hb. fold f in Hb. bsimpl. rewrite Hb. apply nlookup_nset_keys.
Qed.

Lemma stb_pre_regI strat blen s oid :
  is_buffered s oid = true -> regI s -> regI (stb_pre strat blen s oid).
Proof.
  intros Hb [ND HR]. split.
  { apply (nodup_of_acctb strat blen). apply stb_pre_acct. apply acctb_of_nodup. exact ND. }
  apply (reg_inv_grow s _ oid (stb_pre_frame strat blen s oid)).
  - intros o Ho. rewrite stb_pre_bcs. apply register_bcs. right; exact Ho.
  - rewrite stb_pre_bcs. apply register_bcs. left; reflexivity.
  - exact Hb.
  - apply stb_pre_keys.
  - exact HR.
Qed.

Lemma save_regI strat blen s oid : regI s -> regI (fst (save strat blen s oid)).
Proof.
  intros HI. unfold save. destruct (is_buffered s oid) eqn:Hb.
  - rewrite save_to_buffer_eq. apply check_capacity_regI. apply stb_pre_regI; assumption.
  - cbn [fst]. eapply regI_same; [| | |exact HI]; [apply frame_objs_eq; reflexivity|reflexivity|auto].
Qed.

(* one collection leaves its buffered mode *)
Lemma fo_reg_exit strat blen s oid :
  nodup s ->
  (forall f' e', nlookup f' (b_buffer s) = Some e' ->
     exists o, In o (b_bcs s) /\ bo_file (get_obj s o) = f' /\ (is_buffered s o = true \/ o = oid)) ->
  reg_inv (fst (flush_one strat blen s oid false)).
Proof.
  intros ND H f e Hl.
  pose proof (flush_one_frame strat blen s oid false) as (HF & Hbcs & _).
  set (s2 := fst (flush_one strat blen s oid false)) in *.
  destruct (nlookup f (b_buffer s)) as [e0|] eqn:Hl0.
  2:{ apply (fo_none_pres strat blen s oid false) in Hl0. fold s2 in Hl0. congruence. }
  destruct (H f e0 Hl0) as (o & Hin & Hfile & Hor).
  assert (Hb : is_buffered s o = true).
  { destruct (is_buffered s o) eqn:Eb; [reflexivity|]. destruct Hor as [Hor| ->]; [discriminate|].
    exfalso. pose proof (fo_deleted strat blen s oid false ND) as Hd. fold s2 in Hd.
    rewrite Eb in Hd. specialize (Hd eq_refl (or_intror eq_refl)). rewrite Hfile in Hd. congruence. }
  exists o. split; [rewrite Hbcs; exact Hin|]. split; [rewrite (frame_file s s2 o HF); exact Hfile|].
  rewrite (frame_is_buffered s s2 o HF). exact Hb.
Qed.

(* ------------------------------------------------------------------ *)
(* get_obj after set_buf *)
Lemma get_obj_set_buf s oid n o :
  get_obj (set_buf s oid n) o =
  if Nat.eqb o oid then {| bo_file := bo_file (get_obj s oid); bo_loc := bo_loc (get_obj s oid); bo_buf := n;
                           bo_kind := bo_kind (get_obj s oid) |}
  else get_obj s o.
Proof. apply (get_obj_nset s (set_buf s oid n) oid _ o eq_refl). Qed.

Lemma set_buf_file s oid n o : bo_file (get_obj (set_buf s oid n) o) = bo_file (get_obj s o).
Proof.
  rewrite get_obj_set_buf. destruct (Nat.eqb o oid) eqn:E; [|reflexivity].
  apply Nat.eqb_eq in E. subst. reflexivity.
Qed.

Lemma set_buf_is_buffered_other s oid n o : o <> oid -> is_buffered (set_buf s oid n) o = is_buffered s o.
Proof.
  intros Hne. unfold is_buffered. rewrite get_obj_set_buf. apply Nat.eqb_neq in Hne. rewrite Hne. reflexivity.
Qed.

Lemma set_buf_is_buffered_same s oid n :
  is_buffered (set_buf s oid n) oid = Nat.ltb 0 n || Nat.ltb 0 (b_ctx s).
Proof. unfold is_buffered. rewrite get_obj_set_buf, Nat.eqb_refl. reflexivity. Qed.

Lemma is_buffered_ctx s o : (0 < b_ctx s)%nat -> is_buffered s o = true.
Proof. intros H. unfold is_buffered. apply Nat.ltb_lt in H. rewrite H. apply orb_true_r. Qed.

(* ------------------------------------------------------------------ *)
Theorem step_regI strat blen s op :
  (forall oid f k, op = BNew oid f k -> ~ In oid (b_bcs s)) ->
  regI s -> regI (step_fst strat blen s op).
Proof.
  intros Hnew HI. destruct op as [oid f k|f v|oid p o|oid|oid|cap| |n]; cbn [step_fst].
  - destruct HI as [ND HR]. split; [exact ND|].
    specialize (Hnew oid f k eq_refl).
    apply (reg_inv_gen s); [| |exact HR].
    + intros f' e' Hl. left. exists e'. exact Hl.
    + intros o Ho Hb. split; [exact Ho|].
      assert (Hne : o <> oid) by (intros ->; contradiction).
      assert (Hg : get_obj {| b_files := b_files s; b_clock := b_clock s; b_writes := b_writes s;
                   b_heap := nset (b_nloc s) (empty_of k) (b_heap s); b_nloc := S (b_nloc s);
                   b_objs := nset oid {| bo_file := f; bo_loc := b_nloc s; bo_buf := 0; bo_kind := k |} (b_objs s);
                   b_buffer := b_buffer s; b_size := b_size s; b_cap := b_cap s; b_stack := b_stack s;
                   b_ctx := b_ctx s; b_bcs := b_bcs s; b_forced := b_forced s |} o = get_obj s o).
      { erewrite get_obj_nset; [|reflexivity]. apply Nat.eqb_neq in Hne. rewrite Hne. reflexivity. }
      split; [rewrite Hg; reflexivity|]. unfold is_buffered in *. rewrite Hg. exact Hb.
  - eapply regI_same; [| | |exact HI]; [apply frame_objs_eq; reflexivity|reflexivity|auto].
  - apply bop_fst_pres; try assumption.
    + intros s0 v H. eapply heap_only_regI; [apply set_data_heap_only|exact H].
    + intros s0. apply load_regI.
    + intros s0. apply save_regI.
  - destruct HI as [ND HR]. split; [exact ND|].
    apply (reg_inv_gen s); [| |exact HR].
    + intros f' e' Hl. left. exists e'. exact Hl.
    + intros o Ho Hb. split; [exact Ho|]. split; [apply set_buf_file|].
      destruct (Nat.eq_dec o oid) as [->|Hne].
      * rewrite set_buf_is_buffered_same. reflexivity.
      * rewrite set_buf_is_buffered_other by exact Hne. exact Hb.
  - cbv zeta. destruct HI as [ND HR].
    set (n := Nat.pred (bo_buf (get_obj s oid))). set (s1 := set_buf s oid n).
    assert (ND1 : nodup s1) by exact ND.
    assert (H1 : forall f' e', nlookup f' (b_buffer s1) = Some e' ->
              exists o, In o (b_bcs s1) /\ bo_file (get_obj s1 o) = f' /\ (is_buffered s1 o = true \/ o = oid)).
    { intros f' e' Hl. destruct (HR f' e' Hl) as (o & Hin & Hfile & Hb).
      exists o. split; [exact Hin|]. split; [unfold s1; rewrite set_buf_file; exact Hfile|].
      destruct (Nat.eq_dec o oid) as [->|Hne]; [right; reflexivity|left].
      unfold s1. rewrite set_buf_is_buffered_other by exact Hne. exact Hb. }
    destruct (Nat.eqb n 0) eqn:En.
    + split; [apply fo_nodup; exact ND1|apply fo_reg_exit; assumption].
    + split; [exact ND1|]. intros f' e' Hl. destruct (H1 f' e' Hl) as (o & Hin & Hfile & [Hb| ->]).
      * exists o. repeat split; assumption.
      * exists oid. split; [exact Hin|]. split; [exact Hfile|].
        unfold s1. rewrite set_buf_is_buffered_same. apply Nat.eqb_neq in En.
        destruct n; [congruence|reflexivity].
  - cbv zeta.
    assert (H1 : forall st, regI (upd_stack (upd_ctx s (S (b_ctx s))) st)).
    { intros st. destruct HI as [ND HR]. split; [exact ND|].
      apply (reg_inv_gen s); [| |exact HR].
      - intros f' e' Hl. left. exists e'. exact Hl.
      - intros o Ho Hb. split; [exact Ho|]. split; [reflexivity|]. apply is_buffered_ctx. simpl. lia. }
    destruct cap as [c|]; [apply set_capacity_regI|]; apply H1.
  - assert (H2 : regI (exit_s2 strat blen s)).
    { unfold exit_s2. cbv zeta. destruct HI as [ND HR].
      destruct (Nat.eqb (b_ctx (upd_ctx s (Nat.pred (b_ctx s)))) 0) eqn:E0.
      - split; [apply flush_buffer_nodup; exact ND|]. apply flush_buffer_reg_false; [exact ND|].
        apply (reg_inv_weak s HR).
      - split; [exact ND|]. apply (reg_inv_gen s); [| |exact HR].
        + intros f' e' Hl. left. exists e'. exact Hl.
        + intros o Ho Hb. split; [exact Ho|]. split; [reflexivity|]. apply is_buffered_ctx.
          apply Nat.eqb_neq in E0. simpl in *. lia. }
    cbv zeta.
    assert (H3 : regI (upd_stack (exit_s2 strat blen s) (tl (b_stack (exit_s2 strat blen s))))).
    { eapply regI_conv; [| | | |exact H2]; reflexivity. }
    destruct (orig_of _); [apply set_capacity_regI|]; exact H3.
  - apply set_capacity_regI. exact HI.
Qed.
