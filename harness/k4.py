"""K4: syscall / crash correspondence for C08.

(1) strace of a child performing each kind of save: the observed file operations must equal
    Crash.save_prog / flush_prog (checked inside Coq, Corr/K4.v);
(2) the child is killed (os._exit without flushing, or SIGKILL injected by strace) before every executed
    line of library code, around every file operation, and after byte prefixes of every write;
    the surviving files must be wholly old or wholly new and open normally.
"""
import concurrent.futures as cf
import os
import re
import shutil
import subprocess
import tempfile

from common import *

HEADER = ("From Coq Require Import List NArith Bool.\nFrom SC Require Import Model.Crash Corr.K4 Corr.KPlain.\nImport ListNotations.\nOpen Scope bool_scope.\n")
CHILD = os.path.join(os.path.dirname(os.path.abspath(__file__)), "k4_child.py")
PY = sys.executable
OLD = {"a.json": {"k": 1, "o": {"p": 0}, "old": "x" * 30}, "b.json": {"b": 0}, "c.json": [1, 2]}
ATOMIC_MODES = ["threading", "nested", "write_concern", "list", "ser_flush", "shm_flush", "obj_flush", "reenabled", "reenabled_flush"]
UNSER_MODES = ["unser_threading", "unser_write_concern", "unser_inplace"]


def setup_dir(root, tag):
    d = os.path.join(root, tag)
    os.makedirs(d)
    for name, v in OLD.items():
        with open(os.path.join(d, name), "wb") as f:
            f.write(json.dumps(v).encode())
    return d


def read_files(d):
    out = {}
    for name in OLD:
        try:
            with open(os.path.join(d, name), "rb") as f:
                out[name] = f.read()
        except FileNotFoundError:
            out[name] = None
    return out


def run_child(mode, d, kind="none", n=0, cut=0, strace_log=None, inject=None):
    cmd = [PY, CHILD, REPO, mode, d, kind, str(n), str(cut)]
    if strace_log:
        pre = ["strace", "-f", "-o", strace_log, "-xx", "-s", "100000",
               "-e", "trace=openat,write,close,rename,renameat,renameat2,stat,newfstatat"]
        if inject:
            pre = ["strace", "-f", "-o", strace_log, "-e", "trace=none", "-e", f"inject={inject}"]
        cmd = pre + cmd
    elif inject:
        cmd = ["strace", "-f", "-o", "/dev/null", "-e", "trace=none", "-e", f"inject={inject}"] + cmd
    env = dict(os.environ, PYTHONHASHSEED="0")
    p = subprocess.run(cmd, capture_output=True, text=True, env=env, timeout=120)
    return p


def unhex(s):
    return bytes(int(x, 16) for x in re.findall(r"\\x([0-9a-f]{2})", s))


def parse_strace(log, d):
    """Observed file operations on files in d between the markers, writes to one fd merged."""
    acts = []
    fds = {}
    inside = False
    with open(log) as f:
        for line in f:
            m = re.match(r"^\d+\s+(\w+)\((.*)\)\s+=\s+(-?\d+)", line)
            if not m:
                continue
            name, args, ret = m.group(1), m.group(2), int(m.group(3))
            strs = [unhex(x).decode("utf-8", "replace") for x in re.findall(r'"((?:\\x[0-9a-f]{2})*)"', args)]
            if name in ("stat", "newfstatat") and strs and strs[0].endswith("MARK_BEGIN"):
                inside = True
                continue
            if name in ("stat", "newfstatat") and strs and strs[0].endswith("MARK_END"):
                inside = False
                continue
            if not inside:
                continue
            if name == "openat" and strs and strs[0].startswith(d) and ret >= 0:
                if "O_WRONLY" in args or "O_RDWR" in args:
                    fds[ret] = strs[0]
                    trunc = "O_TRUNC" in args and "O_CREAT" in args
                    acts.append(("open", strs[0], trunc))
            elif name == "write":
                fd = int(args.split(",")[0])
                if fd in fds:
                    data = unhex(re.findall(r'"((?:\\x[0-9a-f]{2})*)"', args)[0]) if '"' in args else b""
                    if acts and acts[-1][0] == "write" and acts[-1][1] == fds[fd]:
                        acts[-1] = ("write", fds[fd], acts[-1][2] + data[:max(ret, 0)])
                    else:
                        acts.append(("write", fds[fd], data[:max(ret, 0)]))
            elif name == "close":
                fd = int(args.split(",")[0]) if args.split(",")[0].strip().isdigit() else -1
                if fd in fds:
                    acts.append(("close", fds.pop(fd)))
            elif name in ("rename", "renameat", "renameat2") and len(strs) >= 2 and ret == 0:
                if strs[0].startswith(d) or strs[1].startswith(d):
                    acts.append(("rename", strs[0], strs[1]))
    return acts


def c_bytes(b):
    return "[" + ";".join(f"{x}%N" for x in b) + "]" if b else "[]"


def c_name(s):
    return c_bytes(s.encode())


def c_act(a):
    if a[0] == "open":
        return f"(FOpenTrunc {c_name(a[1])})" if a[2] else f"(FClose {c_name('NOT-TRUNC:' + a[1])})"
    if a[0] == "write":
        return f"(FWrite {c_name(a[1])} {c_bytes(a[2])})"
    if a[0] == "close":
        return f"(FClose {c_name(a[1])})"
    return f"(FRename {c_name(a[1])} {c_name(a[2])})"


def shape_check(mode, acts, d, new_bytes, old_bytes):
    """Build the Coq term: observed actions vs save_prog for each changed file, in observed order."""
    targets = []
    for a in acts:
        if a[0] == "rename" and a[2] not in targets:
            targets.append(a[2])
        if a[0] == "open" and os.path.basename(a[1]) in OLD and a[1] not in targets:
            targets.append(a[1])
    saves, tmps_ok = [], []
    for t in targets:
        tmp = next((a[1] for a in acts if a[0] == "rename" and a[2] == t), t)
        nb = new_bytes[os.path.basename(t)]
        saves.append(f"(true, {c_name(t)}, {c_name(tmp)}, Some {c_bytes(nb)})")
        tmps_ok.append(f"(is_tmp_of {c_name(os.path.basename(tmp))} {c_name(os.path.basename(t))} && "
                       f"fname_eqb {c_name(os.path.dirname(tmp))} {c_name(os.path.dirname(t))})")
    changed = [n for n in OLD if new_bytes[n] != old_bytes[n]]
    covers = all(any(os.path.basename(t) == n for t in targets) for n in changed)
    term = ("(k4_check [" + ";".join(c_act(a) for a in acts) + "] [" + ";".join(saves) + "] && "
            + ("&&".join(tmps_ok) if tmps_ok else "true") + ")")
    return term, covers, [os.path.basename(t) for t in targets]


def survivors_ok(d, old_bytes, new_bytes, ns):
    bad = []
    after = read_files(d)
    for name in OLD:
        b = after[name]
        if b != old_bytes[name] and b != new_bytes[name]:
            bad.append({"file": name, "bytes": None if b is None else b[:120].decode("utf-8", "replace"),
                        "old_len": len(old_bytes[name]), "new_len": len(new_bytes[name])})
            continue
        try:
            cls = ns.cj.JSONList if name == "c.json" else ns.cj.JSONDict
            v = cls(os.path.join(d, name))()
            if json.dumps(v).encode() not in (old_bytes[name], new_bytes[name]):
                bad.append({"file": name, "fresh_object_shows": jsonable(v)})
        except Exception as e:  # noqa
            bad.append({"file": name, "fresh_object_raises": repr(e)[:200]})
    return bad


def run(tier, seed, shape_only=False):
    ns = import_library()
    root = tempfile.mkdtemp(prefix="verif_k4_")
    res = {"name": "K4", "evaluations": 0, "distinct_nontrivial": 0, "traces": 0, "model_mismatches": [],
           "oracle_failures": [], "samples": [], "stats": {}, "rule":
           "child process per crash point: before every executed line of library code in the save window, around every "
           "file operation, after byte prefixes of every write, and SIGKILL injected by strace at rename/openat/write; "
           "distinct = (mode, crash kind, index, cut)"}
    old_bytes = {n: json.dumps(v).encode() for n, v in OLD.items()}
    terms = []
    jobs = []
    try:
        for mode in ATOMIC_MODES + UNSER_MODES + ["inplace"]:
            d = setup_dir(root, f"{mode}_ref")
            log = os.path.join(root, f"{mode}.strace")
            p = run_child(mode, d, strace_log=log)
            if p.returncode != 0:
                res["model_mismatches"].append({"correspondence": "K4 child", "mode": mode, "rc": p.returncode, "stderr": p.stderr[-500:]})
                continue
            new_bytes = read_files(d)
            acts = parse_strace(log, d)
            res["traces"] += 1
            if mode in UNSER_MODES:
                if acts or new_bytes != old_bytes:
                    res["oracle_failures"].append({"oracle": "C08-unserializable", "mode": mode, "observed": [list(map(str, a))[:2] for a in acts],
                                                   "detail": "file operations happened although the content cannot be serialised"})
                res["stats"][mode] = "no file operation"
                res["evaluations"] += 1
                continue
            if mode == "inplace" and shape_only:
                continue
            if mode == "inplace":
                counts = count_points(mode, root)
                torn = 0
                for i in range(1, counts[1] + 1):
                    dd = setup_dir(root, f"{mode}_f{i}")
                    run_child(mode, dd, "fileop", i)
                    if read_files(dd)["a.json"] not in (old_bytes["a.json"], new_bytes["a.json"]):
                        torn += 1
                res["stats"]["inplace_torn_points (sanity: the oracle can see a torn file)"] = torn
                if torn == 0:
                    res["model_mismatches"].append({"correspondence": "K4 self-test", "detail": "in-place mode never produced a torn file: crash shim ineffective"})
                continue
            term, covers, targets = shape_check(mode, acts, d, new_bytes, old_bytes)
            terms.append((mode, term, [list(map(lambda x: x if isinstance(x, (str, bool)) else f"<{len(x)} bytes>", a)) for a in acts]))
            if not covers:
                res["model_mismatches"].append({"correspondence": "K4 shape", "mode": mode, "detail": "a changed file was not written through open/rename", "targets": targets})
            counts = count_points(mode, root)
            res["stats"][mode] = {"lines": counts[0], "fileops": counts[1], "files_written": targets}
            pts = [("line", i, 0) for i in range(1, counts[0] + 1)] + [("fileop", i, 0) for i in range(1, counts[1] + 1)]
            # byte prefixes of every write (the shim numbers boundaries: open=1,2 write=3,4 close=5,6 replace=7,8 per save)
            cuts = [0, 1, 2, 3, 5, 8, 13, 21, 34, 55] if tier == "quick" else list(range(0, 65)) + [96, 128, 256]
            for s in range(len(targets)):
                for c in cuts:
                    pts.append(("prefix", 8 * s + 3, c))
            if tier == "quick":
                rnd = random.Random(seed)
                lines = [x for x in pts if x[0] == "line"]
                keep = set(rnd.sample(range(len(lines)), min(len(lines), 60)))
                pts = [x for i, x in enumerate(lines) if i in keep] + [x for x in pts if x[0] != "line"]
            if shape_only:
                continue
            for k, i, c in pts:
                jobs.append((mode, k, i, c, new_bytes))
            # real SIGKILL through strace, at the syscalls of the save window
            nren = sum(1 for a in acts if a[0] == "rename")
            for i in range(1, nren + 1):
                jobs.append((mode, "sigkill", f"rename:signal=SIGKILL:when={i}", 0, new_bytes))
            # genuine buffered writers: die right before / right after every rename (what is still in a user-space buffer is lost)
            for i in range(1, 2 * max(nren, 1) + 1):
                jobs.append((mode, "realreplace", i, 0, new_bytes))
        # Coq check of the observed shapes
        if terms:
            bad = run_case_files(HEADER, "bool", "(fun b : bool => b)", [t for _, t, _ in terms], shard=4)
            for b in bad:
                res["model_mismatches"].append({"correspondence": "K4 (Corr/K4.v k4_check): observed file operations differ from Crash.save_prog",
                                                "mode": terms[b][0], "observed": terms[b][2][:12]})
            res["samples"].append({"mode": terms[0][0], "observed_file_operations": terms[0][2][:8]})

        def one(job):
            mode, k, i, c, new_bytes = job
            dd = setup_dir(root, f"{mode}_{k}_{str(i).replace(':', '_').replace('=', '')}_{c}")
            if k == "sigkill":
                p = run_child(mode, dd, inject=i)
            else:
                p = run_child(mode, dd, k, i, c)
            bad = survivors_ok(dd, old_bytes, new_bytes, ns)
            shutil.rmtree(dd, ignore_errors=True)
            return job[:4], p.returncode, bad

        with cf.ThreadPoolExecutor(max_workers=14) as ex:
            for (mode, k, i, c), rc, bad in ex.map(one, jobs):
                res["evaluations"] += 1
                res["distinct_nontrivial"] += 1 if rc != 0 else 0
                key = f"{mode}:{k}"
                res["stats"].setdefault("points", {})
                res["stats"]["points"][key] = res["stats"]["points"].get(key, 0) + 1
                if bad:
                    res["oracle_failures"].append({"oracle": "C08-torn", "mode": mode, "crash": k, "index": i, "cut": c, "survivors": bad,
                                                   "replay": f"python3 harness/k4_child.py {REPO} {mode} <dir> {k} {i} {c}"})
    finally:
        shutil.rmtree(root, ignore_errors=True)
    return res


def count_points(mode, root):
    out = []
    for n in (0, 1):
        d = setup_dir(root, f"{mode}_count{n}")
        p = run_child(mode, d, "count", n)
        m = re.search(r"COUNT (\d+) (\d+)", p.stdout)
        out.append(int(m.group(n + 1)) if m else 0)
        shutil.rmtree(d, ignore_errors=True)
    return out


if __name__ == "__main__":
    t = time.time()
    r = run(sys.argv[1] if len(sys.argv) > 1 else "quick", 1)
    print(json.dumps({k: v for k, v in r.items() if k not in ("samples",)}, indent=1, default=repr)[:6000])
    print("wall", round(time.time() - t, 1))
