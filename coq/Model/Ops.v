(* Ops.v — the operation language of dict-like and list-like collections and its
   meaning on built-in (plain) data.  Every result is encoded as a [val]:
   None -> null, len -> int, membership -> bool, keys -> list of strings,
   items -> list of [k, v] pairs.  Definitions only. *)
From Coq Require Import List ZArith NArith Bool.
From SC Require Import Model.Val Model.Plain.
Import ListNotations.
Local Open Scope Z_scope.

Inductive lop :=
  (* reads *)
  | LGet (i : Z) | LGetSlice (s : slice) | LLen | LCall | LIter | LReversed
  | LIndex (v : val) | LCount (v : val) | LContains (v : val)
  | LEq (v : val) | LCmp (o : cmpop) (v : val)
  (* mutators *)
  | LSet (i : Z) (v : val) | LSetSlice (s : slice) (v : val)
  | LDel (i : Z) | LDelSlice (s : slice)
  | LInsert (i : Z) (v : val) | LAppend (v : val) | LExtend (v : val) | LIAdd (v : val)
  | LRemove (v : val) | LPop (i : option Z) | LReverse | LClear | LReset (v : val).

Inductive dop :=
  (* reads *)
  | DGet (k : key) | DGetDefault (k : key) (d : val) | DLen | DCall | DIter | DKeys | DValues | DItems
  | DContains (k : key) | DEq (v : val)
  (* mutators *)
  | DSet (k : key) (v : val) | DDel (k : key) | DPop (k : key) | DPopitem | DClear
  | DUpdate (v : val) | DSetdefault (k : key) (v : val) | DReset (v : val).

Definition lop_is_read (o : lop) : bool :=
  match o with
  | LGet _ | LGetSlice _ | LLen | LCall | LIter | LReversed | LIndex _ | LCount _
  | LContains _ | LEq _ | LCmp _ _ => true
  | _ => false
  end.
Definition dop_is_read (o : dop) : bool :=
  match o with
  | DGet _ | DGetDefault _ _ | DLen | DCall | DIter | DKeys | DValues | DItems
  | DContains _ | DEq _ => true
  | _ => false
  end.

Definition vnone := VS SNull.
Definition vbool (b : bool) := VS (SBool b).
Definition vint (z : Z) := VS (SInt z).
Definition vkey (k : key) : val := match k with KStr s => VS (SStr s) | KBad t => VS (SBad t) end.

(* list(x) for the iterables the harness passes *)
Definition iter_val (v : val) : res (list val) :=
  match v with
  | VL l => Ok l
  | VD d => Ok (map (fun kv => vkey (fst kv)) d)
  | VS (SStr s) => Ok (map (fun c => VS (SStr [c])) s)
  | VS _ => Err EType
  end.

(* dict(x) for the arguments of update(): mappings and lists of [key, value] pairs *)
Fixpoint pairs_to_dict (l : list val) : option (list (key * val)) :=
  match l with
  | [] => Some []
  | VL [VS (SStr s); v] :: l' =>
      match pairs_to_dict l' with Some d => Some ((KStr s, v) :: d) | None => None end
  | _ => None
  end.
Definition as_mapping (v : val) : res (list (key * val)) :=
  match v with
  | VD d => Ok d
  | VL l => match pairs_to_dict l with
            | Some d => Ok (dict_update [] d)
            | None => Err EType
            end
  | VS _ => Err EType
  end.

Definition bind {A B} (r : res A) (f : A -> res B) : res B :=
  match r with Ok a => f a | Err e => Err e end.

(* plain list: (result, new content); an op that raises leaves the content unchanged *)
Definition plain_lop (l : list val) (o : lop) : res val * list val :=
  let ro (r : res val) := (r, l) in
  let mu (r : res (list val)) := match r with Ok l' => (Ok vnone, l') | Err e => (Err e, l) end in
  match o with
  | LGet i => ro (list_get l i)
  | LGetSlice s => ro (bind (list_getslice l s) (fun x => Ok (VL x)))
  | LLen => ro (Ok (vint (zlen l)))
  | LCall | LIter => ro (Ok (VL l))
  | LReversed => ro (Ok (VL (rev l)))
  | LIndex v => ro (bind (list_index (fun h x => veq_py h x) l v) (fun z => Ok (vint z)))
  | LCount v => ro (Ok (vint (list_count (fun h x => veq_py h x) l v)))
  | LContains v => ro (Ok (vbool (list_contains (fun h x => veq_py h x) l v)))
  | LEq v => ro (Ok (vbool (veq_py (VL l) v)))
  | LCmp c v => ro (bind (list_compare c l v) (fun b => Ok (vbool b)))
  | LSet i v => mu (list_set l i v)
  | LSetSlice s v => mu (bind (slice_adjust (zlen l) s) (fun _ =>
                         bind (iter_val v) (fun vs => list_setslice l s vs)))
  | LDel i => mu (list_del l i)
  | LDelSlice s => mu (list_delslice l s)
  | LInsert i v => mu (Ok (list_insert l i v))
  | LAppend v => mu (Ok (l ++ [v]))
  | LExtend v | LIAdd v => mu (bind (iter_val v) (fun vs => Ok (l ++ vs)))
  | LRemove v => mu (list_remove (fun h x => veq_py h x) l v)
  | LPop i => match list_pop l (match i with Some z => z | None => -1 end) with
              | Ok (x, l') => (Ok x, l')
              | Err e => (Err e, l)
              end
  | LReverse => mu (Ok (rev l))
  | LClear => mu (Ok [])
  | LReset v => match v with VL l' => (Ok vnone, l') | _ => (Err EValue, l) end
  end.

Definition items_val (d : list (key * val)) : val :=
  VL (map (fun kv : key * val => VL [vkey (fst kv); snd kv]) d).

Definition plain_dop (d : list (key * val)) (o : dop) : res val * list (key * val) :=
  let ro (r : res val) := (r, d) in
  match o with
  | DGet k => ro (dict_get d k)
  | DGetDefault k dflt => ro (Ok (match alookup k d with Some v => v | None => dflt end))
  | DLen => ro (Ok (vint (zlen d)))
  | DCall => ro (Ok (VD d))
  | DIter | DKeys => ro (Ok (VL (map vkey (dict_keys d))))
  | DValues => ro (Ok (VL (map snd d)))
  | DItems => ro (Ok (items_val d))
  | DContains k => ro (Ok (vbool (dict_has d k)))
  | DEq v => ro (Ok (vbool (veq_py (VD d) v)))
  | DSet k v => (Ok vnone, dict_set d k v)
  | DDel k => match dict_del d k with Ok d' => (Ok vnone, d') | Err e => (Err e, d) end
  | DPop k => let (r, d') := dict_pop d k in
              (Ok (match r with Some v => v | None => vnone end), d')
  | DPopitem => match dict_popitem d with
                | Ok ((k, v), d') => (Ok (VL [vkey k; v]), d')
                | Err e => (Err e, d)
                end
  | DClear => (Ok vnone, [])
  | DUpdate v => match as_mapping v with
                 | Ok o' => (Ok vnone, dict_update d o')
                 | Err e => (Err e, d)
                 end
  | DSetdefault k v => match alookup k d with
                       | Some x => (Ok x, d)
                       | None => (Ok v, dict_set d k v)
                       end
  | DReset v => match v with VD d' => (Ok vnone, d') | _ => (Err EValue, d) end
  end.

(* an operation on a container of either kind, and paths into nested data *)
Inductive nop := OL (o : lop) | OD (o : dop).
Definition nop_is_read (o : nop) : bool :=
  match o with OL o => lop_is_read o | OD o => dop_is_read o end.
(* clear / reset on a root do not load first *)
Definition nop_no_load (o : nop) : bool :=
  match o with OL LClear | OL (LReset _) | OD DClear | OD (DReset _) => true | _ => false end.

Inductive pstep := PKey (k : key) | PIdx (i : nat).
Definition path := list pstep.

(* one operation on a plain container, and at a path inside plain data (the SPEC of handles) *)
Definition plain_nop (v : val) (o : nop) : option (res val * val) :=
  match v, o with
  | VL l, OL lo => let (r, l') := plain_lop l lo in Some (r, VL l')
  | VD d, OD dop_ => let (r, d') := plain_dop d dop_ in Some (r, VD d')
  | _, _ => None
  end.

Fixpoint plain_at (p : path) (o : nop) (v : val) : option (res val * val) :=
  match p with
  | [] => plain_nop v o
  | PKey k :: p' =>
      match v with
      | VD d => match alookup k d with
                | Some c => match plain_at p' o c with
                            | Some (r, c') => Some (r, VD (dict_set d k c'))
                            | None => None
                            end
                | None => None
                end
      | _ => None
      end
  | PIdx i :: p' =>
      match v with
      | VL l => match nth_error l i with
                | Some c => match plain_at p' o c with
                            | Some (r, c') => Some (r, VL (set_nth l i c'))
                            | None => None
                            end
                | None => None
                end
      | _ => None
      end
  end.

(* comparison of results and contents used by the correspondence checks *)
Definition res_eqb (a b : res val) : bool :=
  match a, b with
  | Ok x, Ok y => veq_strict x y
  | Err e, Err f => err_eqb e f
  | _, _ => false
  end.
