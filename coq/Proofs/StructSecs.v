(* StructSecs.v — what `secs` / `secs_all` / the second half of `mutator_ok` (Model/Struct.v) mean on execution paths.

   cpath1 s n ab : one execution of the skeleton s enters n TOP-LEVEL load-and-save sections (an `SWith c _` with
   `is_ls c = true` that is not inside another such section); ab = the execution ended in a raise.  A raise ends the
   path everywhere: in a sequence, in a loop, inside a `with` (section or not).

   Findings (all proved below):
   * for paths that do NOT end in a raise, `secs` is sound WITHOUT any side condition, provided its maximum is read
     the way the loop case writes it: "2" means "2 or more" (secs_sound_gen).  In particular
     mutator_one_section needs no side condition at all.  The suspected corner cases (raise nested below a `with`,
     raise at the top level of the body or in a loop body, raising alternatives that contain sections, `SAlt []`)
     only make `secs` less precise or the statement vacuous for such a path: an alternative with `aborts a = true`
     has no path that does not raise, and a raise that `aborts` does not see just leaves an alternative in the
     min/max that no normal path takes.
   * the literal statement `fst <= n <= snd` is false for a loop whose body can enter a section (cex_loop: secs says
     (0,2), a path enters 3); it is true under secs_wf = "every loop outside a section and outside an aborting
     alternative has max 0" (secs_sound).
   * for paths that DO end in a raise the upper bound needs secs_wf_raise = "an aborting alternative enters no
     section" (cex_raise: mutator_ok holds, a raising path enters 2 sections); under it every path, raising or not,
     of a mutator enters at most one section (mutator_at_most_one_section). *)
From Coq Require Import List NArith Bool Arith Lia.
From SC Require Import Model.Val Model.Struct Proofs.StructProofs Gen.Structure.
Import ListNotations.

(* ------------------------------------------------------------------------------------------------------------ *)
(* 1. path semantics that counts section entries                                                                  *)

Definition is_raise (e : sev) : bool := match e with ERaise => true | _ => false end.

Inductive cpath1 : sk -> nat -> bool -> Prop :=
  | C_ev : forall e, cpath1 (SEv e) 0 (is_raise e)
  (* whatever the body does it is ONE section (sections nested inside are not top-level); a raise inside leaves the
     section and ends the path *)
  | C_with_ls : forall c b n ab, is_ls c = true -> cpaths b n ab -> cpath1 (SWith c b) 1 ab
  | C_with : forall c b n ab, is_ls c = false -> cpaths b n ab -> cpath1 (SWith c b) n ab
  | C_alt : forall alts a n ab, In a alts -> cpaths a n ab -> cpath1 (SAlt alts) n ab
  | C_loop0 : forall b, cpath1 (SLoop b) 0 false
  | C_loopS : forall b n1 n2 ab, cpaths b n1 false -> cpath1 (SLoop b) n2 ab -> cpath1 (SLoop b) (n1 + n2) ab
  | C_loop_abort : forall b n1, cpaths b n1 true -> cpath1 (SLoop b) n1 true
with cpaths : list sk -> nat -> bool -> Prop :=
  | Cs_nil : cpaths [] 0 false
  | Cs_cons_ok : forall x r n1 n2 ab, cpath1 x n1 false -> cpaths r n2 ab -> cpaths (x :: r) (n1 + n2) ab
  | Cs_cons_abort : forall x r n1, cpath1 x n1 true -> cpaths (x :: r) n1 true.

Scheme cpath1_mind := Minimality for cpath1 Sort Prop
  with cpaths_mind := Minimality for cpaths Sort Prop.
Combined Scheme cpath_mutind from cpath1_mind, cpaths_mind.

(* ------------------------------------------------------------------------------------------------------------ *)
(* 2. the nested fixes of `secs` as top-level functions                                                           *)

Fixpoint secs_alts (a : list (list sk)) : nat * nat :=
  match a with
  | [] => (0, 0)
  | l :: r =>
      match r with
      | [] => secs_all l
      | _ =>
          let (mn, mx) := secs_alts r in
          if aborts l then (mn, mx)
          else if forallb aborts r then secs_all l
          else (Nat.min (fst (secs_all l)) mn, Nat.max (snd (secs_all l)) mx)
      end
  end.

Lemma secs_all_cons x r :
  secs_all (x :: r) = (fst (secs x) + fst (secs_all r), snd (secs x) + snd (secs_all r)).
Proof. unfold secs_all. simpl. destruct (secs x). reflexivity. Qed.

Lemma secs_go_list : forall l,
  (fix go (l : list sk) := match l with [] => (0, 0) | x :: r => let (a, b1) := secs x in let (c1, d) := go r in (a + c1, b1 + d) end) l
  = secs_all l.
Proof.
  induction l as [|x r IH]; [reflexivity|].
  rewrite secs_all_cons. rewrite <- IH. destruct (secs x) as [a b1].
  match goal with |- (let (c1, d) := ?g in _) = _ => destruct g as [c1 d] end.
  reflexivity.
Qed.

Lemma secs_SWith c b : secs (SWith c b) = if is_ls c then (1, 1) else secs_all b.
Proof. simpl. destruct (is_ls c); [reflexivity|]. apply secs_go_list. Qed.

Lemma secs_SLoop b : secs (SLoop b) = (0, if snd (secs_all b) =? 0 then 0 else 2).
Proof. simpl. rewrite secs_go_list. destruct (secs_all b). reflexivity. Qed.

Lemma secs_alts_cons2 l l2 r2 :
  secs_alts (l :: l2 :: r2) =
  let (mn, mx) := secs_alts (l2 :: r2) in
  if aborts l then (mn, mx)
  else if forallb aborts (l2 :: r2) then secs_all l
  else (Nat.min (fst (secs_all l)) mn, Nat.max (snd (secs_all l)) mx).
Proof. reflexivity. Qed.

Lemma secs_SAlt alts : secs (SAlt alts) = secs_alts alts.
Proof.
  simpl. induction alts as [|l r IH]; [reflexivity|].
  destruct r as [|l2 r2].
  - apply secs_go_list.
  - rewrite secs_alts_cons2. cbv zeta. cbv zeta in IH. rewrite IH. rewrite secs_go_list. reflexivity.
Qed.

(* ------------------------------------------------------------------------------------------------------------ *)
(* 3. alternatives                                                                                                *)

(* an alternative with a raise at its top level has no path that does not end in a raise *)
Lemma normal_path_not_aborts : forall a n, cpaths a n false -> aborts a = false.
Proof.
  induction a as [|x r IH]; intros n H; [reflexivity|].
  inversion H as [|x' r' n1 n2 ab H1 H2|]; subst.
  simpl. rewrite (IH _ H2). rewrite orb_false_r.
  destruct x as [e| | |]; try reflexivity.
  destruct e; try reflexivity.
  inversion H1.
Qed.

(* the (min, max) of an SAlt encloses the (min, max) of every alternative that `aborts` does not discard *)
Lemma secs_alts_encloses : forall alts a, In a alts -> aborts a = false ->
  fst (secs_alts alts) <= fst (secs_all a) /\ snd (secs_all a) <= snd (secs_alts alts).
Proof.
  induction alts as [|l r IH]; intros a Hin Ha; [destruct Hin|].
  destruct r as [|l2 r2].
  - destruct Hin as [<-|[]]. simpl. split; apply le_n.
  - rewrite secs_alts_cons2.
    destruct (secs_alts (l2 :: r2)) as [mn mx] eqn:E.
    destruct (aborts l) eqn:El.
    + destruct Hin as [<-|Hin]; [congruence|]. exact (IH a Hin Ha).
    + destruct (forallb aborts (l2 :: r2)) eqn:Er.
      * destruct Hin as [<-|Hin]; [split; apply le_n|].
        rewrite forallb_forall in Er. rewrite (Er a Hin) in Ha. discriminate.
      * destruct Hin as [<-|Hin]; simpl.
        -- split; [apply Nat.le_min_l | apply Nat.le_max_l].
        -- destruct (IH a Hin Ha) as [A B]. simpl in A, B. split; lia.
Qed.

(* ------------------------------------------------------------------------------------------------------------ *)
(* 4. paths that do not end in a raise: sound without side conditions, "2" read as "2 or more"                    *)

(* n is within the maximum mx, where a maximum of 2 or more stands for "any number" (the loop case of secs) *)
Definition within (n mx : nat) : Prop := n <= mx \/ 2 <= mx.

Lemma secs_normal_paths :
  (forall s n ab, cpath1 s n ab -> ab = false -> fst (secs s) <= n /\ within n (snd (secs s))) /\
  (forall l n ab, cpaths l n ab -> ab = false -> fst (secs_all l) <= n /\ within n (snd (secs_all l))).
Proof.
  unfold within. apply cpath_mutind.
  - (* C_ev *) intros e _. simpl. split; [apply le_n | left; apply le_n].
  - (* C_with_ls *) intros c b n ab Hc _ _ _. rewrite secs_SWith, Hc. simpl. split; [apply le_n | left; apply le_n].
  - (* C_with *) intros c b n ab Hc _ IH E. rewrite secs_SWith, Hc. auto.
  - (* C_alt *)
    intros alts a n ab Hin Hp IH E. subst ab. rewrite secs_SAlt.
    destruct (IH eq_refl) as [A B].
    destruct (secs_alts_encloses alts a Hin (normal_path_not_aborts _ _ Hp)) as [C D].
    split; lia.
  - (* C_loop0 *) intros b _. rewrite secs_SLoop. simpl. split; [apply le_n | left; apply Nat.le_0_l].
  - (* C_loopS *)
    intros b n1 n2 ab _ IH1 _ IH2 E. destruct (IH1 eq_refl) as [_ B1]. destruct (IH2 E) as [_ B2].
    rewrite secs_SLoop in *. simpl in *.
    destruct (snd (secs_all b) =? 0) eqn:E0.
    + apply Nat.eqb_eq in E0. split; lia.
    + split; [lia | right; apply le_n].
  - (* C_loop_abort *) intros; discriminate.
  - (* Cs_nil *) intros _. simpl. split; [apply le_n | left; apply le_n].
  - (* Cs_cons_ok *)
    intros x r n1 n2 ab _ IH1 _ IH2 E. destruct (IH1 eq_refl) as [A1 B1]. destruct (IH2 E) as [A2 B2].
    rewrite secs_all_cons. simpl. split; lia.
  - (* Cs_cons_abort *) intros; discriminate.
Qed.

(* the strongest statement for normal paths that needs no side condition: the minimum is a lower bound, and a
   maximum of 0 or 1 is an upper bound (a maximum of 2 or more promises nothing) *)
Theorem secs_sound_gen : forall l n, cpaths l n false ->
  fst (secs_all l) <= n /\ (snd (secs_all l) <= 1 -> n <= snd (secs_all l)).
Proof.
  intros l n H. destruct (proj2 secs_normal_paths l n false H eq_refl) as [A [B|B]]; split; auto; lia.
Qed.

(* NO side condition is needed for the mutators *)
Theorem mutator_one_section : forall l n, mutator_ok l = true -> cpaths l n false -> n = 1.
Proof.
  intros l n Hm Hp. unfold mutator_ok in Hm. apply andb_true_iff in Hm. destruct Hm as [_ Hm].
  destruct (secs_sound_gen l n Hp) as [A B].
  destruct (secs_all l) as [mn mx]. apply andb_true_iff in Hm. destruct Hm as [H1 H2].
  apply Nat.eqb_eq in H1. apply Nat.eqb_eq in H2. subst mn mx. simpl in A, B. specialize (B (le_n 1)). lia.
Qed.

(* ------------------------------------------------------------------------------------------------------------ *)
(* 5. the literal bound  fst <= n <= snd : one side condition, on loops                                           *)

(* COUNTEREXAMPLE: a loop whose body enters a section.  secs says (0, 2); a path enters 3 sections. *)
Definition cex_loop : list sk := [SLoop [SWith CLS []]].
Example cex_loop_secs : secs_all cex_loop = (0, 2).
Proof. vm_compute. reflexivity. Qed.
Example cex_loop_path : cpaths cex_loop 3 false.
Proof.
  assert (B : cpaths [SWith CLS []] 1 false).
  { apply (Cs_cons_ok (SWith CLS []) [] 1 0 false); [|apply Cs_nil].
    apply (C_with_ls CLS [] 0 false); [reflexivity | apply Cs_nil]. }
  apply (Cs_cons_ok (SLoop [SWith CLS []]) [] 3 0 false); [|apply Cs_nil].
  apply (C_loopS _ 1 2 false B). apply (C_loopS _ 1 1 false B). apply (C_loopS _ 1 0 false B). apply C_loop0.
Qed.
Theorem secs_upper_bound_as_given_is_false :
  ~ (forall l n, cpaths l n false -> fst (secs_all l) <= n <= snd (secs_all l)).
Proof.
  intro H. destruct (H _ _ cex_loop_path) as [_ B]. rewrite cex_loop_secs in B. simpl in B. lia.
Qed.

(* SIDE CONDITION: every loop a normal path can reach outside a section has maximum 0, i.e. its body enters no
   section.  Nothing is asked inside a section (one section whatever happens there) nor inside an alternative with
   a top-level raise (no normal path goes through it). *)
Fixpoint loops_section_free (s : sk) : bool :=
  match s with
  | SEv _ => true
  | SWith c b => is_ls c || forallb loops_section_free b
  | SAlt alts => forallb (fun a => aborts a || forallb loops_section_free a) alts
  | SLoop b => (snd (secs_all b) =? 0) && forallb loops_section_free b
  end.
Definition secs_wf (l : list sk) : bool := forallb loops_section_free l.

Example cex_loop_not_wf : secs_wf cex_loop = false.
Proof. vm_compute. reflexivity. Qed.

Lemma secs_normal_paths_wf :
  (forall s n ab, cpath1 s n ab -> ab = false -> loops_section_free s = true -> n <= snd (secs s)) /\
  (forall l n ab, cpaths l n ab -> ab = false -> forallb loops_section_free l = true -> n <= snd (secs_all l)).
Proof.
  apply cpath_mutind.
  - (* C_ev *) intros e _ _. apply le_n.
  - (* C_with_ls *) intros c b n ab Hc _ _ _ _. rewrite secs_SWith, Hc. apply le_n.
  - (* C_with *)
    intros c b n ab Hc _ IH E W. rewrite secs_SWith, Hc. simpl in W. rewrite Hc in W. simpl in W. auto.
  - (* C_alt *)
    intros alts a n ab Hin Hp IH E W. subst ab. rewrite secs_SAlt.
    pose proof (normal_path_not_aborts _ _ Hp) as Ha.
    simpl in W. rewrite forallb_forall in W. specialize (W a Hin). rewrite Ha in W. simpl in W.
    destruct (secs_alts_encloses alts a Hin Ha) as [_ D].
    specialize (IH eq_refl W). lia.
  - (* C_loop0 *) intros b _ _. apply Nat.le_0_l.
  - (* C_loopS *)
    intros b n1 n2 ab _ IH1 _ IH2 E W. specialize (IH2 E W).
    rewrite secs_SLoop in *. simpl in W. apply andb_true_iff in W. destruct W as [W0 W].
    specialize (IH1 eq_refl W). rewrite W0 in *. apply Nat.eqb_eq in W0. simpl in *. lia.
  - (* C_loop_abort *) intros; discriminate.
  - (* Cs_nil *) intros _ _. apply le_n.
  - (* Cs_cons_ok *)
    intros x r n1 n2 ab _ IH1 _ IH2 E W. simpl in W. apply andb_true_iff in W. destruct W as [W1 W2].
    specialize (IH1 eq_refl W1). specialize (IH2 E W2). rewrite secs_all_cons. simpl. lia.
  - (* Cs_cons_abort *) intros; discriminate.
Qed.

Theorem secs_sound : forall l n, secs_wf l = true -> cpaths l n false ->
  fst (secs_all l) <= n <= snd (secs_all l).
Proof.
  intros l n W H. split.
  - exact (proj1 (secs_sound_gen l n H)).
  - exact (proj2 secs_normal_paths_wf l n false H eq_refl W).
Qed.

(* ------------------------------------------------------------------------------------------------------------ *)
(* 6. paths that end in a raise: the upper bound needs a second side condition                                    *)

(* COUNTEREXAMPLE: an alternative that enters two sections and then raises is discarded by `aborts`;
   mutator_ok holds, yet an execution makes two separately locked steps before it raises. *)
Definition cex_raise : list sk :=
  [SAlt [[SWith CLS []; SWith CLS []; SEv ERaise]; [SWith CLS []]]].
Example cex_raise_mutator_ok : mutator_ok cex_raise = true.
Proof. vm_compute. reflexivity. Qed.
Example cex_raise_path : cpaths cex_raise 2 true.
Proof.
  assert (S1 : cpath1 (SWith CLS []) 1 false).
  { apply (C_with_ls CLS [] 0 false); [reflexivity | apply Cs_nil]. }
  apply Cs_cons_abort.
  apply (C_alt _ [SWith CLS []; SWith CLS []; SEv ERaise]); [left; reflexivity|].
  apply (Cs_cons_ok _ _ 1 1 true S1). apply (Cs_cons_ok _ _ 1 0 true S1).
  apply Cs_cons_abort. apply (C_ev ERaise).
Qed.
Theorem raising_paths_unbounded_as_given :
  ~ (forall l n ab, mutator_ok l = true -> cpaths l n ab -> n <= 1).
Proof. intro H. pose proof (H _ _ _ cex_raise_mutator_ok cex_raise_path). lia. Qed.

(* SIDE CONDITION: an alternative with a top-level raise has maximum 0 (it enters no section), everywhere outside
   a section *)
Fixpoint abort_alts_section_free (s : sk) : bool :=
  match s with
  | SEv _ => true
  | SWith c b => is_ls c || forallb abort_alts_section_free b
  | SAlt alts =>
      forallb (fun a => (negb (aborts a) || (snd (secs_all a) =? 0)) && forallb abort_alts_section_free a) alts
  | SLoop b => forallb abort_alts_section_free b
  end.
Definition secs_wf_raise (l : list sk) : bool := forallb abort_alts_section_free l.

Example cex_raise_not_wf : secs_wf_raise cex_raise = false.
Proof. vm_compute. reflexivity. Qed.

Lemma secs_all_paths :
  (forall s n ab, cpath1 s n ab -> abort_alts_section_free s = true -> within n (snd (secs s))) /\
  (forall l n ab, cpaths l n ab -> forallb abort_alts_section_free l = true -> within n (snd (secs_all l))).
Proof.
  unfold within. apply cpath_mutind.
  - (* C_ev *) intros e _. left. apply le_n.
  - (* C_with_ls *) intros c b n ab Hc _ _ _. rewrite secs_SWith, Hc. left. apply le_n.
  - (* C_with *) intros c b n ab Hc _ IH W. rewrite secs_SWith, Hc. simpl in W. rewrite Hc in W. simpl in W. auto.
  - (* C_alt *)
    intros alts a n ab Hin Hp IH W. rewrite secs_SAlt.
    simpl in W. rewrite forallb_forall in W. specialize (W a Hin).
    apply andb_true_iff in W. destruct W as [W0 W]. specialize (IH W).
    destruct (aborts a) eqn:Ha.
    + simpl in W0. apply Nat.eqb_eq in W0. rewrite W0 in IH. left. lia.
    + destruct (secs_alts_encloses alts a Hin Ha) as [_ D]. lia.
  - (* C_loop0 *) intros b _. left. apply Nat.le_0_l.
  - (* C_loopS *)
    intros b n1 n2 ab _ IH1 _ IH2 W. specialize (IH2 W). simpl in W. specialize (IH1 W).
    rewrite secs_SLoop in *. simpl in *.
    destruct (snd (secs_all b) =? 0) eqn:E0.
    + apply Nat.eqb_eq in E0. lia.
    + right. apply le_n.
  - (* C_loop_abort *)
    intros b n1 _ IH W. simpl in W. specialize (IH W). rewrite secs_SLoop. simpl.
    destruct (snd (secs_all b) =? 0) eqn:E0.
    + apply Nat.eqb_eq in E0. lia.
    + right. apply le_n.
  - (* Cs_nil *) intros _. left. apply le_n.
  - (* Cs_cons_ok *)
    intros x r n1 n2 ab _ IH1 _ IH2 W. simpl in W. apply andb_true_iff in W. destruct W as [W1 W2].
    specialize (IH1 W1). specialize (IH2 W2). rewrite secs_all_cons. simpl. lia.
  - (* Cs_cons_abort *)
    intros x r n1 _ IH W. simpl in W. apply andb_true_iff in W. destruct W as [W1 _].
    specialize (IH W1). rewrite secs_all_cons. simpl. lia.
Qed.

(* every path, raising or not: a maximum of 0 or 1 is an upper bound *)
Theorem secs_sound_raise : forall l n ab, secs_wf_raise l = true -> cpaths l n ab ->
  snd (secs_all l) <= 1 -> n <= snd (secs_all l).
Proof.
  intros l n ab W H M. destruct (proj2 secs_all_paths l n ab H W) as [B|B]; lia.
Qed.

(* no execution of a mutator, raising or not, makes two separately locked steps *)
Theorem mutator_at_most_one_section : forall l n ab, secs_wf_raise l = true -> mutator_ok l = true ->
  cpaths l n ab -> n <= 1.
Proof.
  intros l n ab W Hm Hp. unfold mutator_ok in Hm. apply andb_true_iff in Hm. destruct Hm as [_ Hm].
  pose proof (secs_sound_raise l n ab W Hp) as B.
  destruct (secs_all l) as [mn mx]. apply andb_true_iff in Hm. destruct Hm as [_ H2].
  apply Nat.eqb_eq in H2. subst mx. simpl in B. exact (B (le_n 1)).
Qed.

(* ------------------------------------------------------------------------------------------------------------ *)
(* 7. the suspected corner cases that need NO side condition (for the record)                                     *)

(* a raise `aborts` does not see (below a `with` that is not a section): secs keeps the alternative in the min/max,
   which makes it less precise - mutator_ok rejects the skeleton although its only normal path enters one section -
   but not unsound *)
Example nested_raise_imprecise :
  secs_all [SAlt [[SWith CSusp [SEv ERaise]]; [SWith CLS []]]] = (0, 1) /\
  forall n, cpaths [SAlt [[SWith CSusp [SEv ERaise]]; [SWith CLS []]]] n false -> n = 1.
Proof.
  split; [vm_compute; reflexivity|]. intros n H.
  inversion H as [|x r n1 n2 ab H1 H2|]; subst. inversion H2; subst.
  inversion H1 as [| | |alts a n' ab' Hin Ha| | |]; subst.
  destruct Hin as [<-|[<-|[]]].
  - inversion Ha as [|x r m1 m2 ab H3 H4|]; subst.
    inversion H3 as [|c b k ab' Hc Hb|c b k ab' Hc Hb| | | |]; subst; [discriminate|].
    inversion Hb as [|x r k1 k2 ab H5 H6|]; subst. inversion H5.
  - inversion Ha as [|x r m1 m2 ab H3 H4|]; subst. inversion H4; subst.
    inversion H3 as [|c b k ab' Hc Hb|c b k ab' Hc Hb| | | |]; subst; [reflexivity|discriminate].
Qed.

(* an SAlt without alternatives has no path at all; secs gives (0, 0), vacuously sound *)
Example empty_alt_has_no_path : forall n ab, ~ cpath1 (SAlt []) n ab.
Proof. intros n ab H. inversion H as [| | |alts a n' ab' Hin _| | |]. destruct Hin. Qed.

(* a raise at the top level of the body: no normal path, every statement about normal paths is vacuous *)
Example top_level_raise_has_no_normal_path : forall r n, ~ cpaths (SEv ERaise :: r) n false.
Proof. intros r n H. pose proof (normal_path_not_aborts _ _ H) as A. discriminate A. Qed.

(* ------------------------------------------------------------------------------------------------------------ *)
(* 8. non-vacuity: a decidable sufficient condition for "has a path that does not end in a raise"                 *)

Fixpoint live (s : sk) : bool :=
  match s with
  | SEv e => negb (is_raise e)
  | SWith _ b => forallb live b
  | SAlt alts => existsb (forallb live) alts
  | SLoop _ => true
  end.

Section sk_induction.
  Variable P : sk -> Prop.
  Hypothesis Hev : forall e, P (SEv e).
  Hypothesis Hwith : forall c b, Forall P b -> P (SWith c b).
  Hypothesis Halt : forall alts, Forall (Forall P) alts -> P (SAlt alts).
  Hypothesis Hloop : forall b, Forall P b -> P (SLoop b).
  Fixpoint sk_ind2 (s : sk) : P s :=
    match s with
    | SEv e => Hev e
    | SWith c b =>
        Hwith c b ((fix go (l : list sk) : Forall P l :=
                      match l with [] => Forall_nil P | x :: r => Forall_cons x (sk_ind2 x) (go r) end) b)
    | SAlt alts =>
        Halt alts ((fix goa (a : list (list sk)) : Forall (Forall P) a :=
                      match a with
                      | [] => Forall_nil (Forall P)
                      | l :: r =>
                          Forall_cons l
                            ((fix go (l : list sk) : Forall P l :=
                                match l with [] => Forall_nil P | x :: r' => Forall_cons x (sk_ind2 x) (go r') end) l)
                            (goa r)
                      end) alts)
    | SLoop b =>
        Hloop b ((fix go (l : list sk) : Forall P l :=
                    match l with [] => Forall_nil P | x :: r => Forall_cons x (sk_ind2 x) (go r) end) b)
    end.
End sk_induction.

Lemma live_list_has_path : forall l,
  Forall (fun s => live s = true -> exists n, cpath1 s n false) l ->
  forallb live l = true -> exists n, cpaths l n false.
Proof.
  intros l H. induction H as [|x r Hx _ IH]; intro L.
  - exists 0. apply Cs_nil.
  - simpl in L. apply andb_true_iff in L. destruct L as [L1 L2].
    destruct (Hx L1) as [n1 H1]. destruct (IH L2) as [n2 H2].
    exists (n1 + n2). apply Cs_cons_ok; assumption.
Qed.

Lemma live_has_path1 : forall s, live s = true -> exists n, cpath1 s n false.
Proof.
  induction s as [e|c b IH|alts IH|b IH] using sk_ind2; intro L.
  - exists 0. simpl in L. apply negb_true_iff in L. rewrite <- L. apply C_ev.
  - simpl in L. destruct (live_list_has_path b IH L) as [n H].
    destruct (is_ls c) eqn:Ec.
    + exists 1. exact (C_with_ls c b n false Ec H).
    + exists n. exact (C_with c b n false Ec H).
  - simpl in L. apply existsb_exists in L. destruct L as [a [Hin La]].
    rewrite Forall_forall in IH.
    destruct (live_list_has_path a (IH a Hin) La) as [n H].
    exists n. exact (C_alt alts a n false Hin H).
  - exists 0. apply C_loop0.
Qed.

Theorem live_has_path : forall l, forallb live l = true -> exists n, cpaths l n false.
Proof.
  intros l L. apply live_list_has_path; [|exact L].
  apply Forall_forall. intros s _. apply live_has_path1.
Qed.

(* ------------------------------------------------------------------------------------------------------------ *)
(* 9. the generated skeletons (Gen/Structure.v)                                                                   *)

Definition generated_mutators : list smethod := filter (fun m => is_mutator (sm_name m)) methods.

Example secs_wf_holds_for_the_generated_methods :
  forallb (fun m => secs_wf (sm_body m)) (filter (fun m => is_mutator (sm_name m)) methods) = true.
Proof. vm_compute. reflexivity. Qed.

Example secs_wf_raise_holds_for_the_generated_methods :
  forallb (fun m => secs_wf_raise (sm_body m)) (filter (fun m => is_mutator (sm_name m)) methods) = true.
Proof. vm_compute. reflexivity. Qed.

Example the_generated_mutators_are_live :
  forallb (fun m => forallb live (sm_body m)) (filter (fun m => is_mutator (sm_name m)) methods) = true.
Proof. vm_compute. reflexivity. Qed.

Example generated_mutator_count : length generated_mutators = 18.
Proof. vm_compute. reflexivity. Qed.

Lemma generated_mutator_has : forall (f : smethod -> bool),
  forallb f (filter (fun m => is_mutator (sm_name m)) methods) = true ->
  forall m, In m methods -> is_mutator (sm_name m) = true -> f m = true.
Proof.
  intros f H m Hin Hm. rewrite forallb_forall in H. apply H. apply filter_In. split; assumption.
Qed.

(* every execution of a generated mutator that does not end in a raise enters exactly one section *)
Theorem generated_mutators_enter_exactly_one_section : forall m n,
  In m methods -> is_mutator (sm_name m) = true -> cpaths (sm_body m) n false -> n = 1.
Proof.
  intros m n Hin Hm Hp.
  exact (mutator_one_section _ _ (structure_mutators methods gen_structure_ok m Hin Hm) Hp).
Qed.

(* ... and the literal (min, max) bound of secs_sound applies to them as well *)
Theorem generated_mutators_secs_bounds : forall m n,
  In m methods -> is_mutator (sm_name m) = true -> cpaths (sm_body m) n false ->
  fst (secs_all (sm_body m)) <= n <= snd (secs_all (sm_body m)).
Proof.
  intros m n Hin Hm Hp.
  exact (secs_sound _ _ (generated_mutator_has _ secs_wf_holds_for_the_generated_methods m Hin Hm) Hp).
Qed.

(* no execution of a generated mutator, raising or not, enters two sections *)
Theorem generated_mutators_never_enter_two_sections : forall m n ab,
  In m methods -> is_mutator (sm_name m) = true -> cpaths (sm_body m) n ab -> n <= 1.
Proof.
  intros m n ab Hin Hm Hp.
  exact (mutator_at_most_one_section _ _ _
           (generated_mutator_has _ secs_wf_raise_holds_for_the_generated_methods m Hin Hm)
           (structure_mutators methods gen_structure_ok m Hin Hm) Hp).
Qed.

(* not vacuous: every generated mutator has an execution that does not end in a raise, and it enters one section *)
Theorem generated_mutators_have_a_one_section_path : forall m,
  In m methods -> is_mutator (sm_name m) = true -> cpaths (sm_body m) 1 false.
Proof.
  intros m Hin Hm.
  destruct (live_has_path _ (generated_mutator_has _ the_generated_mutators_are_live m Hin Hm)) as [n H].
  rewrite <- (generated_mutators_enter_exactly_one_section m n Hin Hm H). exact H.
Qed.

Print Assumptions secs_sound.
Print Assumptions secs_sound_gen.
Print Assumptions mutator_one_section.
Print Assumptions mutator_at_most_one_section.
Print Assumptions generated_mutators_enter_exactly_one_section.
Print Assumptions generated_mutators_never_enter_two_sections.
Print Assumptions generated_mutators_have_a_one_section_path.
