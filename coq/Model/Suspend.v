(* Suspend.v — the shared _suspend_sync counter, reader vs writer on ONE object (known finding D18, C14).
   A small executable model of exactly the code paths involved:
     reader  x():            if not suspended: data = read file; suspend += 1; merge data into memory; suspend -= 1
     writer  x[k] = v:       acquire lock; if not suspended: (read file; merge); memory[k] := v;
                             if not suspended: write memory to file; release lock
   Memory and file are association lists of naturals. *)
From Coq Require Import List Arith Bool.
Import ListNotations.

Definition content := list (nat * nat).
Fixpoint cset (c : content) (k v : nat) : content :=
  match c with
  | [] => [(k, v)]
  | (k', v') :: c' => if Nat.eqb k k' then (k, v) :: c' else (k', v') :: cset c' k v
  end.

Record st := { file : content; mem : content; susp : nat; wlocal : content; rlocal : content }.

Inductive act :=
  | RCheckAndRead      (* reader: `if not self._suspend_sync: data = self._load_from_resource()` *)
  | RSuspendInc | RMerge | RSuspendDec
  | WLoad              (* writer, under the lock: load unless suspended *)
  | WMutate (k v : nat)
  | WSave.             (* writer, under the lock: save unless suspended *)

Definition step (s : st) (a : act) : st :=
  match a with
  | RCheckAndRead => {| file := file s; mem := mem s; susp := susp s; wlocal := wlocal s; rlocal := file s |}
  | RSuspendInc => {| file := file s; mem := mem s; susp := S (susp s); wlocal := wlocal s; rlocal := rlocal s |}
  | RMerge => {| file := file s; mem := rlocal s; susp := susp s; wlocal := wlocal s; rlocal := rlocal s |}
  | RSuspendDec => {| file := file s; mem := mem s; susp := pred (susp s); wlocal := wlocal s; rlocal := rlocal s |}
  | WLoad => if Nat.eqb (susp s) 0
             then {| file := file s; mem := file s; susp := susp s; wlocal := wlocal s; rlocal := rlocal s |}
             else s
  | WMutate k v => {| file := file s; mem := cset (mem s) k v; susp := susp s; wlocal := wlocal s; rlocal := rlocal s |}
  | WSave => if Nat.eqb (susp s) 0
             then {| file := mem s; mem := mem s; susp := susp s; wlocal := wlocal s; rlocal := rlocal s |}
             else s
  end.

Definition run (s : st) (l : list act) : st := fold_left step l s.
Definition init (c : content) : st := {| file := c; mem := c; susp := 0; wlocal := []; rlocal := [] |}.

(* the writer's operation returned, yet its update is neither in the file nor in memory *)
Definition lost (s : st) (k v : nat) : bool :=
  negb (existsb (fun p => Nat.eqb (fst p) k && Nat.eqb (snd p) v) (file s))
  && negb (existsb (fun p => Nat.eqb (fst p) k && Nat.eqb (snd p) v) (mem s)).
