From Coq Require Import List Bool NArith ZArith Lia.
From SC Require Import Model.Val Model.Plain Model.Ops Model.Valid Model.Class Model.Tree.
From SC Require Import Proofs.TreeDefs Proofs.TreeBase.
Import ListNotations.

Lemma val_all_and p1 p2 k1 k2 v :
  val_all (fun s => p1 s && p2 s) (fun k => k1 k && k2 k) v = val_all p1 k1 v && val_all p2 k2 v.
Proof.
  induction v as [s|l IH|d IH] using val_ind2; cbn; [reflexivity| |].
  - induction IH as [|x l Hx _ IHl]; cbn; [reflexivity|]. rewrite Hx, IHl.
    destruct (val_all p1 k1 x), (val_all p2 k2 x), (forallb (val_all p1 k1) l); cbn; try reflexivity;
    destruct (forallb (val_all p2 k2) l); reflexivity.
  - induction IH as [|[k w] d Hw _ IHd]; cbn; [reflexivity|]. cbn [snd] in Hw. rewrite Hw, IHd.
    destruct (k1 k), (k2 k), (val_all p1 k1 w), (val_all p2 k2 w); cbn; try reflexivity;
    repeat match goal with |- context [forallb ?f d] => destruct (forallb f d) end; reflexivity.
Qed.

Lemma val_all_ext p q k1 k2 v :
  (forall s, p s = q s) -> (forall k, k1 k = k2 k) -> val_all p k1 v = val_all q k2 v.
Proof.
  intros Hp Hk. induction v as [s|l IH|d IH] using val_ind2; cbn; [apply Hp| |].
  - induction IH as [|x l Hx _ IHl]; cbn; [reflexivity|]. rewrite Hx, IHl. reflexivity.
  - induction IH as [|[k w] d Hw _ IHd]; cbn; [reflexivity|]. cbn [snd] in Hw. rewrite Hw, IHd, Hk. reflexivity.
Qed.

Lemma is_json_split v : is_json v = str_keys v && json_leaves v.
Proof.
  unfold is_json, str_keys, json_leaves. rewrite <- val_all_and. apply val_all_ext; intros; cbn.
  - reflexivity.
  - rewrite andb_true_r. reflexivity.
Qed.

(* every JSON value with dot-free string keys passes every validator list *)
Theorem valid_json_accepted_l vs v :
  is_json v = true -> no_dots v = true -> validate vs v = None.
Proof.
  intros Hj Hd. apply validate_spec. rewrite is_json_split in Hj. apply andb_prop in Hj as [A B].
  unfold val_ok. rewrite A, B, Hd. rewrite !orb_true_r. reflexivity.
Qed.

(* without the dot requirement: for the families that allow dots *)
Theorem valid_json_accepted_nodotfree vs v :
  l_no_dots (lang3 vs) = false -> is_json v = true -> validate vs v = None.
Proof.
  intros Hn Hj. apply validate_spec. rewrite is_json_split in Hj. apply andb_prop in Hj as [A B].
  unfold val_ok. rewrite A, B, Hn. rewrite !orb_true_r. reflexivity.
Qed.

Lemma alookup_dict_set_same {A} (d : list (key * A)) k v : alookup k (dict_set d k v) = Some v.
Proof.
  induction d as [|[k' v'] d IH]; cbn.
  - rewrite (proj2 (key_eqb_eq k k) eq_refl). reflexivity.
  - destruct (key_eqb k k') eqn:E; cbn; rewrite E; [reflexivity|exact IH].
Qed.

Lemma nth_error_set_nth {A} (l : list A) i x : i < length l -> nth_error (set_nth l i x) i = Some x.
Proof.
  revert i. induction l as [|h l IH]; intros [|i] H; cbn in *; try lia; [reflexivity|]. apply IH. lia.
Qed.

(* after obj[k] = v at the position p, the new content holds exactly v under k at that position *)
Theorem set_then_at p : forall k v j r new,
  plain_at p (OD (DSet k v)) j = Some (r, new) -> val_at (p ++ [PKey k]) new = Some v /\ r = Ok vnone.
Proof.
  induction p as [|st p IH]; intros k v j r new H.
  - cbn in H. destruct j as [s|l|d]; try discriminate. injection H as <- <-.
    cbn. rewrite alookup_dict_set_same. split; reflexivity.
  - cbn [plain_at] in H. destruct st as [k0|i].
    + destruct j as [s|l|d]; try discriminate.
      destruct (alookup k0 d) as [c|] eqn:E; [|discriminate].
      destruct (plain_at p (OD (DSet k v)) c) as [[r0 c']|] eqn:Ep; [|discriminate].
      injection H as <- <-. destruct (IH _ _ _ _ _ Ep) as [A B].
      cbn. rewrite alookup_dict_set_same. split; assumption.
    + destruct j as [s|l|d]; try discriminate.
      destruct (nth_error l i) as [c|] eqn:E; [|discriminate].
      destruct (plain_at p (OD (DSet k v)) c) as [[r0 c']|] eqn:Ep; [|discriminate].
      injection H as <- <-. destruct (IH _ _ _ _ _ Ep) as [A B].
      cbn. rewrite nth_error_set_nth; [split; assumption|]. apply nth_error_Some. congruence.
Qed.

(* reading a position of data that is VEq to some content returns a VEq value *)
Lemma VEq_val_child st a b x :
  VEq a b -> val_child st a = Some x -> exists y, val_child st b = Some y /\ VEq x y.
Proof.
  intros H. destruct H as [s t Hs|l m Hl|d e H1 H2]; destruct st as [k|i]; cbn; try discriminate.
  - revert i. induction Hl as [|u w l m Huw _ IHl]; intros [|i] Hx; cbn in *; try discriminate.
    + injection Hx as <-. exists w. split; [reflexivity|exact Huw].
    + apply IHl. exact Hx.
  - intros Hx. apply H1. exact Hx.
Qed.

Theorem VEq_val_at p : forall a b x,
  VEq a b -> val_at p a = Some x -> exists y, val_at p b = Some y /\ VEq x y.
Proof.
  induction p as [|st p IH]; intros a b x H Hx; cbn in *.
  - injection Hx as <-. exists b. split; [reflexivity|exact H].
  - destruct (val_child st a) as [a'|] eqn:E; [|discriminate].
    destruct (VEq_val_child st a b a' H E) as [b' [Eb Hab]]. rewrite Eb. eapply IH; eassumption.
Qed.
