import sys, threading, json, os, tempfile, time
sys.path.insert(0, '/repo')
from synced_collections.backends.collection_json import BufferedJSONDict as D
d = tempfile.mkdtemp(); f = os.path.join(d, 'a.json'); json.dump({'a': 0}, open(f, 'w'))
x = D(f); y = D(f)
gate1 = threading.Event(); gate2 = threading.Event()
def tracer(frame, event, arg):
    # pause T1 when it enters _save (called inside `with self._thread_lock` in clear())
    if event == 'call' and frame.f_code.co_name == '_save' and 'buffered_collection' in frame.f_code.co_filename:
        gate1.set(); gate2.wait(5)
    return None
def t1():
    sys.settrace(tracer)
    x.clear()
def t2():
    y['k'] = 1
with D.buffer_backend():
    a = threading.Thread(target=t1, daemon=True); a.start()
    gate1.wait(5)                       # T1 now holds collection lock(f), about to take buffer lock
    b = threading.Thread(target=t2, daemon=True); b.start()
    time.sleep(0.5)                     # T2 takes buffer lock, blocks on collection lock(f)
    gate2.set()                         # T1 proceeds -> wants buffer lock
    a.join(3); b.join(3)
    print('T1 alive (deadlocked):', a.is_alive(), ' T2 alive (deadlocked):', b.is_alive())
    os._exit(0)
