import sys, os, json
sys.path.insert(0, '/repo')
mode, d = sys.argv[1], sys.argv[2]
from synced_collections.backends.collection_json import JSONDict, BufferedJSONDict, MemoryBufferedJSONDict
f = os.path.join(d, 'data.json')
os.write(1, b'')  # marker
if mode == 'plain_noatomic':
    JSONDict.disable_multithreading(); x = JSONDict(f); os.stat('/MARK_BEGIN') if False else None
    try: os.stat('/MARK_BEGIN')
    except OSError: pass
    x['k'] = 'v' * 10
elif mode == 'write_concern':
    JSONDict.disable_multithreading(); x = JSONDict(f, write_concern=True)
    try: os.stat('/MARK_BEGIN')
    except OSError: pass
    x['k'] = 'v' * 10
elif mode == 'threading_default':
    x = JSONDict(f)
    try: os.stat('/MARK_BEGIN')
    except OSError: pass
    x['k'] = 'v' * 10
elif mode in ('ser_flush', 'mem_flush'):
    D = BufferedJSONDict if mode == 'ser_flush' else MemoryBufferedJSONDict
    g = os.path.join(d, 'data2.json'); json.dump({'b': 0}, open(g, 'w'))
    x = D(f); y = D(g)
    try: os.stat('/MARK_BEGIN')
    except OSError: pass
    with D.buffer_backend():
        x['k'] = 1; y['k'] = 2
try: os.stat('/MARK_END')
except OSError: pass
