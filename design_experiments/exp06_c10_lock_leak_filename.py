import json, os, tempfile, sys, traceback, time, threading
sys.path.insert(0, '/repo')
from synced_collections.backends.collection_json import *
from synced_collections.errors import *
d = tempfile.mkdtemp()
def fn(n): return os.path.join(d, n)
def store(f, data):
    with open(f, 'w') as fh: json.dump(data, fh)
def sec(t): print('\n===', t)
def other_thread(thunk, timeout=2):
    res = {}
    def run():
        try: res['v'] = thunk()
        except Exception as e: res['e'] = repr(e)
    t = threading.Thread(target=run, daemon=True); t.start(); t.join(timeout)
    return 'HUNG (lock leaked)' if t.is_alive() else res

for D in [JSONDict, BufferedJSONDict, MemoryBufferedJSONDict]:
    sec(f'C10 {D.__name__} corrupt JSON on mutator')
    f = fn(D.__name__+'.json'); store(f, {'a': 1}); x = D(f)
    with open(f, 'w') as fh: fh.write('{corrupt')
    try: x['b'] = 2
    except Exception as e: print('  raised', type(e).__name__)
    store(f, {'a': 1})
    y = D(f)
    print('  other thread same file:', other_thread(lambda: y.__setitem__('c', 3) or y()))
    g = fn(D.__name__+'g.json'); z = D(g)
    print('  other thread other file:', other_thread(lambda: z.__setitem__('c', 3) or z()))
    sec(f'C10 {D.__name__} rejected value')
    f = fn(D.__name__+'2.json'); store(f, {'a': 1}); x = D(f)
    try: x['b'] = object()
    except Exception as e: print('  raised', type(e).__name__)
    try: x.update({'q': {1: 2}})
    except Exception as e: print('  raised', type(e).__name__)
    try: x.setdefault('q', object())
    except Exception as e: print('  raised', type(e).__name__)
    print('  other thread same file:', other_thread(lambda: D(f).__setitem__('c', 3) or D(f)()))

sec('C10 filename setter breaks other objects on old file')
f = fn('old.json'); g = fn('new.json'); store(f, {'a': 1})
a = JSONDict(f); b = JSONDict(f)
a.filename = g
try:
    b['x'] = 1; print('  b ok', b())
except Exception as e: print('  b raised', type(e).__name__, e)
try:
    a['x'] = 1; print('  a ok', a(), os.path.exists(g))
except Exception as e: print('  a raised', type(e).__name__, e)
c = JSONDict(f); 
try: c['y']=1; print('  new obj on old file ok', b())
except Exception as e: print('  raised', type(e).__name__, e)
sec('nested child lock id')
f = fn('n.json'); store(f, {'a': {'b': 1}})
a = JSONDict(f); ch = a['a']
print('  child _lock_id', ch._lock_id, 'in locks', None in JSONDict._locks, [os.path.basename(k) if k else k for k in JSONDict._locks])
