import json, os, tempfile, sys
sys.path.insert(0, os.environ.get('REPO', '/repo'))
from synced_collections.backends.collection_json import BufferedJSONDict, MemoryBufferedJSONDict
from synced_collections.errors import BufferedError
d = tempfile.mkdtemp()
def store(f, v):
    json.dump(v, open(f, 'w')); st = os.stat(f); os.utime(f, ns=(st.st_atime_ns, st.st_mtime_ns + 10_000_000))
for D, cap in ((BufferedJSONDict, 10**5), (MemoryBufferedJSONDict, 77)):
    f = os.path.join(d, D.__name__ + '.json'); store(f, {'a': 0}); o = D(f)
    before = D.get_buffer_capacity()
    try:
        with D.buffer_backend(buffer_capacity=cap):
            o['x'] = 1
            store(f, {'ext': 1})          # outside writer -> conflict at exit
    except BufferedError as e:
        print(D.__name__, 'exit raised BufferedError')
    print('  capacity before', before, 'after', D.get_buffer_capacity(), ' restored:', D.get_buffer_capacity() == before,
          '| pending stack', D._buffer_context._original_buffer_capacitys, '| still buffered?', D.backend_is_buffered())
    # consequence: the next context without capacity pops the stale entry
    with D.buffer_backend():
        pass
    print('  after an unrelated empty context: capacity', D.get_buffer_capacity(), 'stack', D._buffer_context._original_buffer_capacitys)
