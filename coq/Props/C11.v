(* C11 — Forbidden data never gets in, through any entry point at any depth.  Property theorems only. *)
From Coq Require Import List Bool.
From SC Require Import Model.Val Model.Plain Model.Ops Model.Valid Model.Class Model.Tree Model.Machine.
From SC Require Import Proofs.TreeDefs Proofs.TreeBase Proofs.TreeLemmas Proofs.MachineDefs Proofs.MachineInv Proofs.ValidErr.
From SC Require Import Gen.ClassTable Gen.Obligations.
Import ListNotations.

(* each validator list accepts exactly the data that meets its three requirements at every depth
   (string keys / JSON-representable leaves / dot-free keys) *)
Theorem C11_validators_sound : forall vs v, validate vs v = None <-> val_ok (lang3 vs) v = true.
Proof. exact validate_spec. Qed.
Print Assumptions C11_validators_sound.

(* whatever the merge stores has been validated: ANY incoming data, also when it reports an error midway *)
Theorem C11_merge_clean : forall T b L data n nx n' nx' e,
  uniform_backend T b L = true -> node_in_backend T b n -> clean L n ->
  upd T data n nx = (n', nx', e) -> clean L n' /\ node_in_backend T b n'.
Proof. exact upd_clean. Qed.
Print Assumptions C11_merge_clean.

(* the invariant: whatever operation is issued — constructor data, item and slice assignment, setdefault,
   update, reset, append, extend, insert, += — with ARBITRARY argument values (forbidden ones included),
   through any handle at any depth, every object's tree (Inv: clean) and every resource (res_valid) hold
   only data the class's validators accept *)
Theorem C11_invariant : forall T s op,
  table_ok T = true -> Inv T s -> res_valid T s -> same_family T s -> res_nodup s ->
  op_admissible T s op -> op_args_wf op ->
  Inv T (fst (step T s op)) /\ res_valid T (fst (step T s op)) /\ same_family T (fst (step T s op))
  /\ res_nodup (fst (step T s op)).
Proof. exact step_preserves_inv. Qed.
Print Assumptions C11_invariant.

Theorem C11_invariant_all_sequences : forall T ops s,
  table_ok T = true -> Inv T s -> res_valid T s -> same_family T s -> res_nodup s ->
  (forall pre op post, ops = pre ++ op :: post -> op_admissible T (fst (run T pre s)) op /\ op_args_wf op) ->
  Inv T (fst (run T ops s)) /\ res_valid T (fst (run T ops s)) /\ same_family T (fst (run T ops s))
  /\ res_nodup (fst (run T ops s)).
Proof. exact run_preserves_inv. Qed.
Print Assumptions C11_invariant_all_sequences.

(* a rejected single-element operation changes nothing: validation happens before anything is loaded or locked *)
Theorem C11_single_frame : forall T s oid hid ob n0 o e,
  nlookup oid (m_objs s) = Some ob -> find_node hid (o_root ob) = Some n0 ->
  pre_nop T n0 o = Some (Some e) ->
  step T s (MOp oid hid o) = (s, MR (Err e) None).
Proof. intros T s oid hid ob n0 o e H1 H2 H3. cbn [step]. rewrite H1, H2, H3. reflexivity. Qed.
Print Assumptions C11_single_frame.

(* ... and the error is a TypeError or ValueError subclass *)
Theorem C11_error_classes : forall vs v e, validate vs v = Some e ->
  e = EKeyType \/ e = EType \/ e = EInvalidKey.
Proof. exact validate_errs. Qed.
Print Assumptions C11_error_classes.

(* the classes of the tree under test forbid everything the property lists (generated obligation):
   string keys everywhere, JSON leaves except Zarr, dot-free keys in every class of an attribute-access family *)
Theorem C11_validators_cover_today :
  all2 lang_covers (map (fun c => lang3 (c_validators c)) class_table) required = true.
Proof. exact gen_validators_cover. Qed.
Print Assumptions C11_validators_cover_today.
