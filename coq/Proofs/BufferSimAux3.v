(* BufferSimAux3.v — the strengthened coherence invariant of the buffered machine and the state
   transformers it is preserved by. *)
From Coq Require Import List ZArith NArith Bool Lia Arith.
From SC Require Import Model.Val Model.Plain Model.Ops Proofs.TreeDefs Proofs.TreeBase Model.Buffer Proofs.BufferDefs.
From SC Require Import Proofs.BufferSimAux1 Proofs.BufferSimAux2.
Import ListNotations.
Local Open Scope Z_scope.

(* ------------------------------------------------------------------ *)
(* the invariant                                                       *)
(* ------------------------------------------------------------------ *)

Definition wt (strat : strategy) (blen : val -> Z) (e : entry) : Z :=
  match strat with Ser => blen (e_val e) | Shm => if e_mod e then 1 else 0 end.

Lemma expected_size_esum strat blen s : expected_size strat blen s = esum (wt strat blen) (b_buffer s).
Proof. destruct strat; reflexivity. Qed.

(* one entry against the disk: no outside change since it entered the buffer; Ser: the recorded hash is the
   disk content; Shm: an unmodified container equals the disk *)
Definition ent1 (strat : strategy) (s : bstate) (f : nat) (e : entry) : Prop :=
  e_meta e = stamp s f /\ exists d, read_disk s f = Some d /\
    match strat with
    | Ser => VEq (e_hash e) d
    | Shm => e_mod e = false -> VEq (heap_at s (e_loc e)) d
    end.
Definition ent_ok strat (s : bstate) : Prop := forall f e, nlookup f (b_buffer s) = Some e -> ent1 strat s f e.

(* the file of every object exists *)
Definition objs_disk (s : bstate) : Prop :=
  forall oid o, nlookup oid (b_objs s) = Some o -> read_disk s (bo_file o) <> None.
(* registered objects exist *)
Definition bcs_known (s : bstate) : Prop := forall oid, In oid (b_bcs s) -> known_obj s oid.
(* shared memory: containers are never shared between files *)
Definition locs_ok (strat : strategy) (s : bstate) : Prop :=
  strat = Shm -> exists own : nat -> nat,
    (forall oid o, nlookup oid (b_objs s) = Some o -> own (bo_loc o) = bo_file o /\ (bo_loc o < b_nloc s)%nat)
    /\ (forall f e, nlookup f (b_buffer s) = Some e ->
          own (e_loc e) = f /\ (e_loc e < b_nloc s)%nat /\ nlookup (e_loc e) (b_heap s) <> None).

Record core (strat : strategy) (blen : val -> Z) (s : bstate) : Prop := {
  c_acct : acct strat blen s;
  c_stack : stack_ok s;
  c_wf : values_wf s;
  c_ent : ent_ok strat s;
  c_disk : objs_disk s;
  c_known : bcs_known s;
  c_locs : locs_ok strat s;
}.

Definition coherent_strong (strat : strategy) (blen : val -> Z) (s : bstate) : Prop :=
  core strat blen s /\ reg_inv s /\ b_size s <= b_cap s.

(* logical contents, compared *)
Definition lrel (a b : option val) : Prop :=
  match a, b with Some a, Some b => VEq b a | None, None => True | _, _ => False end.
Definition leq strat (s s' : bstate) : Prop := forall g, lrel (logical strat s g) (logical strat s' g).
Definition leq_except strat (f : nat) (s s' : bstate) : Prop :=
  forall g, g <> f -> lrel (logical strat s g) (logical strat s' g).

Lemma lrel_refl a : lrel a a.
Proof. destruct a; simpl; auto using VEq_refl. Qed.
Lemma lrel_trans a b c : lrel a b -> lrel b c -> lrel a c.
Proof.
  destruct a, b, c; simpl; try tauto. intros H1 H2. eapply VEq_trans; eauto.
Qed.
Lemma leq_refl strat s : leq strat s s.
Proof. intros g. apply lrel_refl. Qed.
Lemma leq_trans strat s1 s2 s3 : leq strat s1 s2 -> leq strat s2 s3 -> leq strat s1 s3.
Proof. intros H1 H2 g. eapply lrel_trans; eauto. Qed.
Lemma leq_leq_except strat f s s' : leq strat s s' -> leq_except strat f s s'.
Proof. intros H g _. apply H. Qed.
Lemma leq_except_trans strat f s1 s2 s3 :
  leq_except strat f s1 s2 -> leq_except strat f s2 s3 -> leq_except strat f s1 s3.
Proof. intros H1 H2 g Hg. eapply lrel_trans; eauto. Qed.

(* objects keep their file, buffering depth and kind; the class-wide context is unchanged *)
Definition ostable (s s' : bstate) : Prop :=
  b_ctx s' = b_ctx s
  /\ (forall x, known_obj s x -> known_obj s' x)
  /\ (forall x, bo_file (get_obj s' x) = bo_file (get_obj s x)
                /\ bo_buf (get_obj s' x) = bo_buf (get_obj s x)
                /\ bo_kind (get_obj s' x) = bo_kind (get_obj s x)).

Lemma ostable_refl s : ostable s s.
Proof. unfold ostable. auto. Qed.
Lemma ostable_trans s1 s2 s3 : ostable s1 s2 -> ostable s2 s3 -> ostable s1 s3.
Proof.
  unfold ostable. intros (A1 & A2 & A3) (B1 & B2 & B3). split; [congruence|]. split; [auto|].
  intros x. destruct (A3 x) as (P1 & P2 & P3), (B3 x) as (R1 & R2 & R3). repeat split; congruence.
Qed.
Lemma ostable_objs s s' : b_ctx s' = b_ctx s -> b_objs s' = b_objs s -> ostable s s'.
Proof. unfold ostable, known_obj, get_obj. intros -> ->. auto. Qed.
Lemma ostable_buffered s s' x : ostable s s' -> is_buffered s' x = is_buffered s x.
Proof. unfold ostable, is_buffered. intros (A1 & _ & A3). destruct (A3 x) as (_ & -> & _). rewrite A1. reflexivity. Qed.
Lemma ostable_file s s' x : ostable s s' -> bo_file (get_obj s' x) = bo_file (get_obj s x).
Proof. intros (_ & _ & A3). apply A3. Qed.
Lemma ostable_known s s' x : ostable s s' -> known_obj s x -> known_obj s' x.
Proof. intros (_ & A2 & _). apply A2. Qed.

Lemma known_get s oid o : nlookup oid (b_objs s) = Some o -> get_obj s oid = o.
Proof. unfold get_obj. intros ->. reflexivity. Qed.

Lemma ostable_set_loc s oid loc : ostable s (set_loc s oid loc).
Proof.
  unfold ostable. split; [reflexivity|]. split.
  - unfold known_obj, set_loc. prj. intros x [o Ho]. rewrite nlookup_nset.
    destruct (Nat.eqb x oid); eauto.
  - intros x. rewrite get_obj_set_loc. destruct (Nat.eqb x oid) eqn:E; [|auto].
    apply Nat.eqb_eq in E. subst. auto.
Qed.

(* ------------------------------------------------------------------ *)
(* each component depends on a few fields only                         *)
(* ------------------------------------------------------------------ *)

Lemma acct_ext strat blen s s' : b_size s' = b_size s -> b_buffer s' = b_buffer s ->
  acct strat blen s -> acct strat blen s'.
Proof. unfold acct. rewrite !expected_size_esum. intros -> ->. auto. Qed.
Lemma stack_ok_ext s s' : b_cap s' = b_cap s -> b_stack s' = b_stack s -> stack_ok s -> stack_ok s'.
Proof. unfold stack_ok. intros -> ->. auto. Qed.
Lemma values_wf_ext s s' : b_files s' = b_files s -> b_heap s' = b_heap s -> b_buffer s' = b_buffer s ->
  values_wf s -> values_wf s'.
Proof. unfold values_wf. intros -> -> ->. auto. Qed.
Lemma ent_ok_ext strat s s' : b_files s' = b_files s -> b_heap s' = b_heap s -> b_buffer s' = b_buffer s ->
  ent_ok strat s -> ent_ok strat s'.
Proof. unfold ent_ok, ent1, stamp, read_disk, heap_at. intros -> -> ->. auto. Qed.
Lemma objs_disk_ext s s' : b_files s' = b_files s -> b_objs s' = b_objs s -> objs_disk s -> objs_disk s'.
Proof. unfold objs_disk, read_disk. intros -> ->. auto. Qed.
Lemma bcs_known_ext s s' : b_bcs s' = b_bcs s -> b_objs s' = b_objs s -> bcs_known s -> bcs_known s'.
Proof. unfold bcs_known, known_obj. intros -> ->. auto. Qed.
Lemma locs_ok_ext strat s s' : b_objs s' = b_objs s -> b_buffer s' = b_buffer s -> b_nloc s' = b_nloc s ->
  b_heap s' = b_heap s -> locs_ok strat s -> locs_ok strat s'.
Proof. unfold locs_ok. intros -> -> -> ->. auto. Qed.

Ltac frame C :=
  first [ apply (acct_ext _ _ _ _ eq_refl eq_refl (c_acct _ _ _ C))
        | apply (stack_ok_ext _ _ eq_refl eq_refl (c_stack _ _ _ C))
        | apply (values_wf_ext _ _ eq_refl eq_refl eq_refl (c_wf _ _ _ C))
        | apply (ent_ok_ext _ _ _ eq_refl eq_refl eq_refl (c_ent _ _ _ C))
        | apply (objs_disk_ext _ _ eq_refl eq_refl (c_disk _ _ _ C))
        | apply (bcs_known_ext _ _ eq_refl eq_refl (c_known _ _ _ C))
        | apply (locs_ok_ext _ _ _ eq_refl eq_refl eq_refl eq_refl (c_locs _ _ _ C)) ].

(* logical contents depend on buffer, heap and files *)
Lemma logical_ext strat s s' g : b_files s' = b_files s -> b_heap s' = b_heap s -> b_buffer s' = b_buffer s ->
  logical strat s' g = logical strat s g.
Proof. unfold logical, entry_content, heap_at, read_disk. intros -> -> ->. reflexivity. Qed.
Lemma leq_ext strat s s' : b_files s' = b_files s -> b_heap s' = b_heap s -> b_buffer s' = b_buffer s ->
  leq strat s s'.
Proof. intros A B C g. rewrite (logical_ext strat s s' g A B C). apply lrel_refl. Qed.

(* ------------------------------------------------------------------ *)
(* basic consequences                                                  *)
(* ------------------------------------------------------------------ *)

Lemma empty_of_wf k : wf_val (empty_of k) = true.
Proof. destruct k; reflexivity. Qed.
Lemma data_of_wf s oid : values_wf s -> wf_val (data_of s oid) = true.
Proof.
  intros (_ & H & _). unfold data_of. destruct (nlookup (bo_loc (get_obj s oid)) (b_heap s)) eqn:E.
  - eapply H; eauto.
  - apply empty_of_wf.
Qed.
Lemma heap_at_wf s l : values_wf s -> wf_val (heap_at s l) = true.
Proof.
  intros (_ & H & _). unfold heap_at. destruct (nlookup l (b_heap s)) eqn:E; [eapply H; eauto|reflexivity].
Qed.
Lemma read_disk_wf s f d : values_wf s -> read_disk s f = Some d -> wf_val d = true.
Proof.
  intros (H & _ & _). unfold read_disk. destruct (nlookup f (b_files s)) as [[v st]|] eqn:E; [|discriminate].
  intros E1. inversion E1; subst. eapply H; eauto.
Qed.

Lemma no_alias s oid o g e :
  locs_ok Shm s -> nlookup oid (b_objs s) = Some o -> nlookup g (b_buffer s) = Some e ->
  e_loc e = bo_loc o -> g = bo_file o.
Proof.
  intros L Ho He El. destruct (L eq_refl) as [own [L1 L2]].
  destruct (L1 _ _ Ho) as [A _]. destruct (L2 _ _ He) as [B _]. congruence.
Qed.

Lemma heap_at_nset s l v l' :
  heap_at (upd_heap s (nset l v (b_heap s))) l' = if Nat.eqb l' l then v else heap_at s l'.
Proof. unfold heap_at. prj. rewrite nlookup_nset. destruct (Nat.eqb l' l); reflexivity. Qed.

(* ------------------------------------------------------------------ *)
(* T_heap: writing a container that no buffer entry shares             *)
(* ------------------------------------------------------------------ *)
Lemma T_heap strat blen s l v :
  core strat blen s -> wf_val v = true ->
  (strat = Shm -> forall g e, nlookup g (b_buffer s) = Some e -> e_loc e <> l) ->
  core strat blen (upd_heap s (nset l v (b_heap s))) /\ leq strat s (upd_heap s (nset l v (b_heap s))).
Proof.
  intros C Wv NA. split.
  - constructor; try (frame C).
    + destruct (c_wf _ _ _ C) as (W1 & W2 & W3). split; [exact W1|]. split; [|exact W3].
      prj. intros l' v'. rewrite nlookup_nset. destruct (Nat.eqb l' l); [intros E; inversion E; subst; exact Wv|apply W2].
    + intros f e He. prj. destruct (c_ent _ _ _ C f e He) as [M [d [Hd Hv]]].
      split; [exact M|]. exists d. split; [exact Hd|]. destruct strat; [exact Hv|].
      rewrite heap_at_nset. specialize (NA eq_refl f e He). apply Nat.eqb_neq in NA. rewrite NA. exact Hv.
    + intros E. destruct (c_locs _ _ _ C E) as [own [L1 L2]]. exists own. split; [exact L1|].
      prj. intros f e He. destruct (L2 f e He) as (A & B & D). repeat split; auto.
      rewrite nlookup_nset. destruct (Nat.eqb (e_loc e) l); [discriminate|exact D].
  - intros g. unfold logical. prj. destruct (nlookup g (b_buffer s)) as [e|] eqn:He; [|apply lrel_refl].
    unfold entry_content. destruct strat; [apply lrel_refl|].
    rewrite heap_at_nset. specialize (NA eq_refl g e He). apply Nat.eqb_neq in NA. rewrite NA. apply lrel_refl.
Qed.

(* ------------------------------------------------------------------ *)
(* more observers                                                      *)
(* ------------------------------------------------------------------ *)
Lemma nlookup_nremove_Some {A} f g (l : list (nat * A)) v :
  NoDup (map fst l) -> nlookup g (nremove f l) = Some v -> g <> f /\ nlookup g l = Some v.
Proof.
  intros N H. destruct (Nat.eq_dec g f) as [->|Hne].
  - rewrite nlookup_nremove_same in H by exact N. discriminate.
  - split; [exact Hne|]. rewrite nlookup_nremove_other in H by exact Hne. exact H.
Qed.

Lemma nset_id {A} k (v : A) l : nlookup k l = Some v -> nset k v l = l.
Proof.
  induction l as [|[k0 v0] l IH]; simpl; intros H; [discriminate|].
  destruct (Nat.eqb k k0) eqn:E.
  - apply Nat.eqb_eq in E. subst. inversion H; subst. reflexivity.
  - rewrite IH; auto.
Qed.

Lemma read_disk_write s f w g : read_disk (write_disk s f w) g = if Nat.eqb g f then Some w else read_disk s g.
Proof.
  unfold read_disk, write_disk, write_disk_raw. prj. rewrite nlookup_nset. destruct (Nat.eqb g f); reflexivity.
Qed.
Lemma stamp_write s f w g : stamp (write_disk s f w) g = if Nat.eqb g f then Some (b_clock s) else stamp s g.
Proof.
  unfold stamp, write_disk, write_disk_raw. prj. rewrite nlookup_nset. destruct (Nat.eqb g f); reflexivity.
Qed.
Lemma read_disk_write_raw s f w g : read_disk (write_disk_raw s f w) g = if Nat.eqb g f then Some w else read_disk s g.
Proof.
  unfold read_disk, write_disk_raw. prj. rewrite nlookup_nset. destruct (Nat.eqb g f); reflexivity.
Qed.
Lemma stamp_write_raw s f w g : stamp (write_disk_raw s f w) g = if Nat.eqb g f then Some (b_clock s) else stamp s g.
Proof.
  unfold stamp, write_disk_raw. prj. rewrite nlookup_nset. destruct (Nat.eqb g f); reflexivity.
Qed.

Lemma opt_nat_eqb_refl a : opt_nat_eqb a a = true.
Proof. destruct a; simpl; [apply Nat.eqb_refl|reflexivity]. Qed.

(* ------------------------------------------------------------------ *)
(* T_drop_core: an entry leaves the buffer                             *)
(* ------------------------------------------------------------------ *)
Lemma T_drop_core strat blen s f e sz :
  core strat blen s -> nlookup f (b_buffer s) = Some e -> sz = b_size s - wt strat blen e ->
  core strat blen (upd_size (del_entry s f) sz).
Proof.
  intros C He ->. destruct (c_acct _ _ _ C) as [A1 A2].
  constructor; try (frame C).
  - unfold acct. rewrite expected_size_esum in *. unfold del_entry. prj. split.
    + rewrite esum_nremove, He. simpl. lia.
    + apply nremove_NoDup. exact A2.
  - destruct (c_wf _ _ _ C) as (W1 & W2 & W3). split; [exact W1|]. split; [exact W2|].
    unfold del_entry. prj. intros g e' H. apply (nlookup_nremove_Some _ _ _ _ A2) in H. apply (W3 g e'). tauto.
  - intros g e' H. unfold del_entry in H. prj. apply (nlookup_nremove_Some _ _ _ _ A2) in H.
    apply (c_ent _ _ _ C g e'). tauto.
  - intros E. destruct (c_locs _ _ _ C E) as [own [L1 L2]]. exists own. split; [exact L1|].
    unfold del_entry. prj. intros g e' H. apply (nlookup_nremove_Some _ _ _ _ A2) in H. apply L2. tauto.
Qed.

Lemma logical_del strat s f sz g : NoDup (map fst (b_buffer s)) ->
  logical strat (upd_size (del_entry s f) sz) g = if Nat.eqb g f then read_disk s f else logical strat s g.
Proof.
  intros N. unfold logical, del_entry. prj. destruct (Nat.eqb g f) eqn:E.
  - apply Nat.eqb_eq in E. subst. rewrite nlookup_nremove_same by exact N. reflexivity.
  - apply Nat.eqb_neq in E. rewrite nlookup_nremove_other by exact E. reflexivity.
Qed.

Lemma T_drop strat blen s f e d sz :
  core strat blen s -> nlookup f (b_buffer s) = Some e -> read_disk s f = Some d ->
  VEq d (entry_content strat s e) -> sz = b_size s - wt strat blen e ->
  core strat blen (upd_size (del_entry s f) sz) /\ leq strat s (upd_size (del_entry s f) sz).
Proof.
  intros C He Hd HV Hsz. split; [eapply T_drop_core; eauto|].
  intros g. rewrite logical_del by apply (c_acct _ _ _ C). destruct (Nat.eqb g f) eqn:E; [|apply lrel_refl].
  apply Nat.eqb_eq in E. subst. unfold logical. rewrite He, Hd. exact HV.
Qed.

(* ------------------------------------------------------------------ *)
(* T_write_free: the library writes a file that is not in the buffer   *)
(* ------------------------------------------------------------------ *)
Lemma T_write_free strat blen s f w :
  core strat blen s -> nlookup f (b_buffer s) = None -> wf_val w = true ->
  core strat blen (write_disk s f w).
Proof.
  intros C Hn Ww. constructor; try (frame C).
  - destruct (c_wf _ _ _ C) as (W1 & W2 & W3). split; [|split; [exact W2|exact W3]].
    unfold write_disk, write_disk_raw. prj. intros g v st. rewrite nlookup_nset.
    destruct (Nat.eqb g f); [intros E; inversion E; subst; exact Ww|apply W1].
  - intros g e He. change (b_buffer (write_disk s f w)) with (b_buffer s) in He.
    assert (Hne : g <> f) by (intros ->; congruence).
    destruct (c_ent _ _ _ C g e He) as [M [d [Hd Hv]]]. unfold ent1.
    rewrite stamp_write, read_disk_write. apply Nat.eqb_neq in Hne. rewrite Hne.
    split; [exact M|]. exists d. split; [exact Hd|exact Hv].
  - intros oid o Ho. change (b_objs (write_disk s f w)) with (b_objs s) in Ho.
    rewrite read_disk_write. destruct (Nat.eqb (bo_file o) f); [discriminate|]. eapply (c_disk _ _ _ C); eauto.
Qed.

Lemma T_write_drop strat blen s f e w sz :
  core strat blen s -> nlookup f (b_buffer s) = Some e -> wf_val w = true ->
  VEq w (entry_content strat s e) -> sz = b_size s - wt strat blen e ->
  core strat blen (upd_size (del_entry (write_disk s f w) f) sz)
  /\ leq strat s (upd_size (del_entry (write_disk s f w) f) sz).
Proof.
  intros C He Ww HV Hsz. pose proof (c_acct _ _ _ C) as [_ N]. split.
  - change (upd_size (del_entry (write_disk s f w) f) sz) with (write_disk (upd_size (del_entry s f) sz) f w).
    apply T_write_free; [eapply T_drop_core; eauto| |exact Ww].
    unfold del_entry. prj. apply nlookup_nremove_same. exact N.
  - intros g. rewrite logical_del by exact N. rewrite read_disk_write, Nat.eqb_refl.
    destruct (Nat.eqb g f) eqn:E.
    + apply Nat.eqb_eq in E. subst. unfold logical. rewrite He. exact HV.
    + unfold logical. change (b_buffer (write_disk s f w)) with (b_buffer s).
      destruct (nlookup g (b_buffer s)); [apply lrel_refl|]. rewrite read_disk_write, E. apply lrel_refl.
Qed.

(* ------------------------------------------------------------------ *)
(* T_set: an entry is created or replaced                              *)
(* ------------------------------------------------------------------ *)
Lemma T_set strat blen s f e' sz :
  core strat blen s -> sz = b_size s - wopt (wt strat blen) (nlookup f (b_buffer s)) + wt strat blen e' ->
  wf_val (e_val e') = true -> wf_val (e_hash e') = true -> ent1 strat s f e' ->
  (strat = Shm ->
     ((exists oid o, nlookup oid (b_objs s) = Some o /\ bo_file o = f /\ bo_loc o = e_loc e')
      \/ (exists e, nlookup f (b_buffer s) = Some e /\ e_loc e = e_loc e'))
     /\ nlookup (e_loc e') (b_heap s) <> None) ->
  core strat blen (upd_size (set_entry s f e') sz).
Proof.
  intros C -> Wv Wh E1 HL. destruct (c_acct _ _ _ C) as [A1 A2].
  constructor; try (frame C).
  - unfold acct. rewrite expected_size_esum in *. unfold set_entry. prj. split.
    + rewrite esum_nset. lia.
    + apply nset_NoDup. exact A2.
  - destruct (c_wf _ _ _ C) as (W1 & W2 & W3). split; [exact W1|]. split; [exact W2|].
    unfold set_entry. prj. intros g e. rewrite nlookup_nset. destruct (Nat.eqb g f).
    + intros E. inversion E; subst. auto.
    + apply W3.
  - intros g e. unfold set_entry. prj. rewrite nlookup_nset. destruct (Nat.eqb g f) eqn:E.
    + apply Nat.eqb_eq in E. subst. intros E. inversion E; subst. exact E1.
    + apply (c_ent _ _ _ C).
  - intros E. destruct (c_locs _ _ _ C E) as [own [L1 L2]]. exists own. split; [exact L1|].
    destruct (HL E) as [HO HP].
    unfold set_entry. prj. intros g e. rewrite nlookup_nset. destruct (Nat.eqb g f) eqn:Eg.
    + apply Nat.eqb_eq in Eg. subst. intros E'. inversion E'; subst e.
      destruct HO as [(oid & o & Ho & Hf & Hl)|(e & He & Hl)].
      * destruct (L1 _ _ Ho) as [P1 P2]. rewrite <- Hl. split; [congruence|]. split; [exact P2|]. rewrite Hl. exact HP.
      * destruct (L2 _ _ He) as (P1 & P2 & P3). rewrite <- Hl. split; [exact P1|]. split; [exact P2|exact P3].
    + apply L2.
Qed.

Lemma logical_set strat s f e' sz g :
  logical strat (upd_size (set_entry s f e') sz) g =
  if Nat.eqb g f then Some (entry_content strat s e') else logical strat s g.
Proof.
  unfold logical, set_entry. prj. rewrite nlookup_nset. destruct (Nat.eqb g f); reflexivity.
Qed.

(* Shm, forced flush of a modified entry: the container is written, the entry stays, clean *)
Lemma T_write_keep blen s f e sz m :
  core Shm blen s -> nlookup f (b_buffer s) = Some e -> e_mod e = true -> sz = b_size s - 1 ->
  m = stamp (write_disk s f (heap_at s (e_loc e))) f ->
  let s' := set_entry (upd_size (write_disk s f (heap_at s (e_loc e))) sz) f
              {| e_val := e_val e; e_loc := e_loc e; e_hash := e_hash e; e_meta := m; e_mod := false |} in
  core Shm blen s' /\ leq Shm s s'.
Proof.
  intros C He Hm -> -> s'. destruct (c_acct _ _ _ C) as [A1 A2].
  destruct (c_wf _ _ _ C) as (W1 & W2 & W3).
  assert (Ww : wf_val (heap_at s (e_loc e)) = true) by (apply heap_at_wf; exact (c_wf _ _ _ C)).
  split.
  - constructor; try (frame C).
    + unfold acct. rewrite expected_size_esum in *. subst s'. unfold set_entry, write_disk, write_disk_raw. prj. split.
      * rewrite esum_nset, He. cbn [wopt wt e_mod]. rewrite Hm. lia.
      * apply nset_NoDup. exact A2.
    + split; [|split; [exact W2|]].
      * subst s'. unfold set_entry, write_disk, write_disk_raw. prj. intros g v st. rewrite nlookup_nset.
        destruct (Nat.eqb g f); [intros E; inversion E; subst; exact Ww|apply W1].
      * subst s'. unfold set_entry. prj. intros g e0. rewrite nlookup_nset. destruct (Nat.eqb g f).
        -- intros E. inversion E; subst. simpl. apply (W3 f e He).
        -- apply W3.
    + intros g e0. subst s'. unfold set_entry. prj. rewrite nlookup_nset. destruct (Nat.eqb g f) eqn:Eg.
      * apply Nat.eqb_eq in Eg. subst g. intros E. inversion E; subst e0. unfold ent1. cbn [e_meta e_mod e_loc].
        split; [reflexivity|]. exists (heap_at s (e_loc e)). split.
        -- change (read_disk (write_disk s f (heap_at s (e_loc e))) f = Some (heap_at s (e_loc e))).
           rewrite read_disk_write, Nat.eqb_refl. reflexivity.
        -- intros _. apply VEq_refl.
      * intros He0. destruct (c_ent _ _ _ C g e0 He0) as [M [d [Hd Hv]]]. unfold ent1.
        split.
        -- change (e_meta e0 = stamp (write_disk s f (heap_at s (e_loc e))) g). rewrite stamp_write, Eg. exact M.
        -- exists d. split; [|exact Hv].
           change (read_disk (write_disk s f (heap_at s (e_loc e))) g = Some d). rewrite read_disk_write, Eg. exact Hd.
    + intros oid o Ho.
      change (read_disk (write_disk s f (heap_at s (e_loc e))) (bo_file o) <> None).
      rewrite read_disk_write. destruct (Nat.eqb (bo_file o) f); [discriminate|]. eapply (c_disk _ _ _ C); eauto.
    + intros E. destruct (c_locs _ _ _ C E) as [own [L1 L2]]. exists own. split; [exact L1|].
      subst s'. unfold set_entry. prj. intros g e0. rewrite nlookup_nset. destruct (Nat.eqb g f) eqn:Eg.
      * apply Nat.eqb_eq in Eg. subst g. intros E'. inversion E'; subst e0. cbn [e_loc]. apply (L2 f e He).
      * apply L2.
  - intros g. subst s'. unfold logical, set_entry. prj. rewrite nlookup_nset. destruct (Nat.eqb g f) eqn:Eg.
    + apply Nat.eqb_eq in Eg. subst g. rewrite He. apply lrel_refl.
    + change (b_buffer (write_disk s f (heap_at s (e_loc e)))) with (b_buffer s).
      destruct (nlookup g (b_buffer s)); [apply lrel_refl|].
      change (lrel (read_disk s g) (read_disk (write_disk s f (heap_at s (e_loc e))) g)).
      rewrite read_disk_write, Eg. apply lrel_refl.
Qed.

(* ------------------------------------------------------------------ *)
(* objects                                                             *)
(* ------------------------------------------------------------------ *)
Lemma T_set_loc strat blen s oid o e :
  core strat blen s -> nlookup oid (b_objs s) = Some o -> nlookup (bo_file o) (b_buffer s) = Some e ->
  core strat blen (set_loc s oid (e_loc e)).
Proof.
  intros C Ho He. pose proof (known_get _ _ _ Ho) as G.
  constructor; try (frame C).
  - intros x ox. unfold set_loc. prj. rewrite nlookup_nset. destruct (Nat.eqb x oid) eqn:E.
    + intros E'. inversion E'; subst ox. cbn [bo_file]. rewrite G.
      change (read_disk s (bo_file o) <> None). eapply (c_disk _ _ _ C); eauto.
    + intros Hx. change (read_disk s (bo_file ox) <> None). eapply (c_disk _ _ _ C); eauto.
  - intros x Hx. apply (ostable_known _ _ _ (ostable_set_loc s oid (e_loc e))). apply (c_known _ _ _ C). exact Hx.
  - intros E. destruct (c_locs _ _ _ C E) as [own [L1 L2]]. exists own. split; [|exact L2].
    unfold set_loc. prj. intros x ox. rewrite nlookup_nset. destruct (Nat.eqb x oid) eqn:Ex.
    + intros E'. inversion E'; subst ox. cbn [bo_file bo_loc]. rewrite G.
      destruct (L2 _ _ He) as (P1 & P2 & _). auto.
    + apply L1.
Qed.

Lemma get_obj_known_set s oid o' x :
  get_obj (upd_objs s (nset oid o' (b_objs s))) x = if Nat.eqb x oid then o' else get_obj s x.
Proof. unfold get_obj. prj. rewrite nlookup_nset. destruct (Nat.eqb x oid); reflexivity. Qed.

Lemma ostable_set_buf_ctx s oid n : b_ctx (set_buf s oid n) = b_ctx s.
Proof. reflexivity. Qed.

Lemma T_set_buf strat blen s oid o n :
  core strat blen s -> nlookup oid (b_objs s) = Some o -> core strat blen (set_buf s oid n).
Proof.
  intros C Ho. pose proof (known_get _ _ _ Ho) as G.
  constructor; try (frame C).
  - intros x ox. unfold set_buf. prj. rewrite nlookup_nset. destruct (Nat.eqb x oid) eqn:E.
    + intros E'. inversion E'; subst ox. cbn [bo_file]. rewrite G.
      change (read_disk s (bo_file o) <> None). eapply (c_disk _ _ _ C); eauto.
    + intros Hx. change (read_disk s (bo_file ox) <> None). eapply (c_disk _ _ _ C); eauto.
  - intros x Hx. apply (c_known _ _ _ C) in Hx. destruct Hx as [ox Hox]. unfold known_obj, set_buf. prj.
    rewrite nlookup_nset. destruct (Nat.eqb x oid); eauto.
  - intros E. destruct (c_locs _ _ _ C E) as [own [L1 L2]]. exists own. split; [|exact L2].
    unfold set_buf. prj. intros x ox. rewrite nlookup_nset. destruct (Nat.eqb x oid) eqn:Ex.
    + intros E'. inversion E'; subst ox. cbn [bo_file bo_loc]. rewrite G. apply (L1 _ _ Ho).
    + apply L1.
Qed.

(* Shm: an object leaves its own context while the class-wide one is open: private copy *)
Definition private_copy (s : bstate) (oid : nat) : bstate :=
  set_loc {| b_files := b_files s; b_clock := b_clock s; b_writes := b_writes s;
             b_heap := nset (b_nloc s) (data_of s oid) (b_heap s); b_nloc := S (b_nloc s); b_objs := b_objs s;
             b_buffer := b_buffer s; b_size := b_size s; b_cap := b_cap s; b_stack := b_stack s;
             b_ctx := b_ctx s; b_bcs := b_bcs s; b_forced := b_forced s |} oid (b_nloc s).

Lemma T_copy blen s oid o :
  core Shm blen s -> nlookup oid (b_objs s) = Some o ->
  core Shm blen (private_copy s oid) /\ leq Shm s (private_copy s oid).
Proof.
  intros C Ho. pose proof (known_get _ _ _ Ho) as G.
  destruct (c_locs _ _ _ C eq_refl) as [own [L1 L2]].
  assert (HA : forall l, (l < b_nloc s)%nat -> heap_at (private_copy s oid) l = heap_at s l).
  { intros l Hl. unfold heap_at, private_copy, set_loc. prj. rewrite nlookup_nset.
    destruct (Nat.eqb l (b_nloc s)) eqn:E; [apply Nat.eqb_eq in E; lia|reflexivity]. }
  split.
  - constructor; try (frame C).
    + destruct (c_wf _ _ _ C) as (W1 & W2 & W3). split; [exact W1|]. split; [|exact W3].
      unfold private_copy, set_loc. prj. intros l v. rewrite nlookup_nset. destruct (Nat.eqb l (b_nloc s)).
      * intros E. inversion E; subst. apply data_of_wf. exact (c_wf _ _ _ C).
      * apply W2.
    + intros f e He. change (b_buffer (private_copy s oid)) with (b_buffer s) in He.
      destruct (c_ent _ _ _ C f e He) as [M [d [Hd Hv]]]. split; [exact M|]. exists d. split; [exact Hd|].
      cbn beta iota. rewrite HA; [exact Hv|]. apply (L2 f e He).
    + intros x ox. unfold private_copy, set_loc. prj. rewrite nlookup_nset. destruct (Nat.eqb x oid) eqn:E.
      * intros E'. inversion E'; subst ox. cbn [bo_file].
        change (read_disk s (bo_file (get_obj s oid)) <> None). rewrite G. eapply (c_disk _ _ _ C); eauto.
      * intros Hx. change (read_disk s (bo_file ox) <> None). eapply (c_disk _ _ _ C); eauto.
    + intros x Hx. apply (c_known _ _ _ C) in Hx. destruct Hx as [ox Hox]. unfold known_obj, private_copy, set_loc. prj.
      rewrite nlookup_nset. destruct (Nat.eqb x oid); eauto.
    + intros _. exists (fun l => if Nat.eqb l (b_nloc s) then bo_file o else own l). split.
      * unfold private_copy, set_loc. prj. intros x ox. rewrite nlookup_nset. destruct (Nat.eqb x oid) eqn:Ex.
        -- intros E'. inversion E'; subst ox. cbn [bo_file bo_loc]. rewrite Nat.eqb_refl.
           change (bo_file o = bo_file (get_obj s oid) /\ (b_nloc s < S (b_nloc s))%nat). rewrite G. split; [reflexivity|lia].
        -- intros Hx. destruct (L1 _ _ Hx) as [P1 P2].
           destruct (Nat.eqb (bo_loc ox) (b_nloc s)) eqn:E; [apply Nat.eqb_eq in E; lia|]. split; [exact P1|lia].
      * unfold private_copy, set_loc. prj. intros f e He. destruct (L2 _ _ He) as (P1 & P2 & P3).
        destruct (Nat.eqb (e_loc e) (b_nloc s)) eqn:E; [apply Nat.eqb_eq in E; lia|].
        split; [exact P1|]. split; [lia|]. rewrite nlookup_nset, E. exact P3.
  - intros g. unfold logical. change (b_buffer (private_copy s oid)) with (b_buffer s).
    destruct (nlookup g (b_buffer s)) as [e|] eqn:He; [|apply lrel_refl].
    unfold entry_content. rewrite HA; [apply lrel_refl|]. apply (L2 g e He).
Qed.

(* registration, contexts, capacity *)
Lemma T_bcs strat blen s l :
  core strat blen s -> (forall x, In x l -> known_obj s x) -> core strat blen (upd_bcs s l).
Proof. intros C H. constructor; try (frame C). exact H. Qed.

Lemma In_register s oid : In oid (b_bcs (register s oid)).
Proof.
  unfold register. destruct (nmem oid (b_bcs s)) eqn:E.
  - unfold nmem in E. apply existsb_exists in E. destruct E as [x [Hx E]]. apply Nat.eqb_eq in E. subst. exact Hx.
  - prj. apply in_or_app. right. left. reflexivity.
Qed.
Lemma In_register_old s oid x : In x (b_bcs s) -> In x (b_bcs (register s oid)).
Proof.
  unfold register. destruct (nmem oid (b_bcs s)); [auto|]. prj. intros H. apply in_or_app. left. exact H.
Qed.
Lemma In_register_inv s oid x : In x (b_bcs (register s oid)) -> x = oid \/ In x (b_bcs s).
Proof.
  unfold register. destruct (nmem oid (b_bcs s)); [auto|]. prj. intros H. apply in_app_or in H.
  destruct H as [H|[H|[]]]; auto.
Qed.

Lemma T_register strat blen s oid :
  core strat blen s -> known_obj s oid -> core strat blen (register s oid).
Proof.
  intros C K. unfold register. destruct (nmem oid (b_bcs s)); [exact C|].
  apply T_bcs; [exact C|]. intros x Hx. apply in_app_or in Hx. destruct Hx as [Hx|[<-|[]]]; [|exact K].
  apply (c_known _ _ _ C). exact Hx.
Qed.

Lemma T_ctx strat blen s n : core strat blen s -> core strat blen (upd_ctx s n).
Proof. intros C. constructor; frame C. Qed.
Lemma T_note_forced strat blen s : core strat blen s -> core strat blen (note_forced s).
Proof. intros C. constructor; frame C. Qed.
Lemma T_stack strat blen s st : core strat blen s -> (forall c, In (Some c) st -> 0 <= c) -> core strat blen (upd_stack s st).
Proof. intros C H. constructor; try (frame C). destruct (c_stack _ _ _ C) as [A B]. split; [exact A|exact H]. Qed.
Lemma T_cap strat blen s n : core strat blen s -> 0 <= n -> core strat blen (upd_cap s n).
Proof. intros C H. constructor; try (frame C). destruct (c_stack _ _ _ C) as [A B]. split; [exact H|exact B]. Qed.
