(* BufferSimAux1.v — generic facts for BufferSim.v: VEq is an equivalence and a congruence for
   dict_set / set_nth, text equality implies VEq, the merge theorem (S1), association lists over nat,
   well-formedness of the results of the built-in operations, apply_at against plain_at. *)
From Coq Require Import List ZArith NArith Bool Lia Arith Permutation.
From SC Require Proofs.TreeIds Proofs.MachineInv Proofs.MachineRefine.
From SC Require Import Model.Val Model.Plain Model.Ops Proofs.TreeDefs Proofs.TreeBase Model.Buffer.
Import ListNotations.

(* ------------------------------------------------------------------ *)
(* VEq                                                                 *)
(* ------------------------------------------------------------------ *)

Lemma flt_eqb_trans a b c : flt_eqb a b = true -> flt_eqb b c = true -> flt_eqb a c = true.
Proof.
  destruct a, b, c; simpl; try discriminate; auto.
  intros H1 H2. apply andb_true_iff in H1, H2. destruct H1 as [A1 A2], H2 as [B1 B2].
  apply Z.eqb_eq in A1, A2, B1, B2. subst. rewrite !Z.eqb_refl. reflexivity.
Qed.

Lemma seq_strict_trans a b c : seq_strict a b = true -> seq_strict b c = true -> seq_strict a c = true.
Proof.
  destruct a, b, c; simpl; try discriminate; auto.
  - intros H1 H2. apply Bool.eqb_prop in H1, H2. subst. apply Bool.eqb_reflx.
  - intros H1 H2. apply Z.eqb_eq in H1, H2. subst. apply Z.eqb_refl.
  - apply flt_eqb_trans.
  - intros H1 H2. apply str_eqb_eq in H1, H2. subst. apply str_eqb_refl.
  - intros H1 H2. apply N.eqb_eq in H1, H2. subst. apply N.eqb_refl.
Qed.

Theorem VEq_sym a : forall b, VEq a b -> VEq b a.
Proof.
  induction a as [s|l IH|d IH] using val_ind2; intros b H; inversion H; subst.
  - constructor. rewrite seq_strict_sym. assumption.
  - constructor. clear H. revert IH. induction H1; intros IH; constructor.
    + inversion IH; subst. auto.
    + inversion IH; subst. auto.
  - rewrite Forall_forall in IH. constructor.
    + intros k y Hy. destruct (alookup k d) as [x|] eqn:Ex.
      * destruct (H1 _ _ Ex) as [y' [Hy' Hxy]]. rewrite Hy in Hy'. inversion Hy'; subst y'.
        exists x. split; [reflexivity|]. apply (IH (k, x)); [apply alookup_In; exact Ex|exact Hxy].
      * apply H2 in Ex. congruence.
    + intros k Hk. destruct (alookup k d) as [x|] eqn:Ex; [|reflexivity].
      destruct (H1 _ _ Ex) as [y' [Hy' _]]. congruence.
Qed.

Theorem VEq_trans a : forall b c, VEq a b -> VEq b c -> VEq a c.
Proof.
  induction a as [s|l IH|d IH] using val_ind2; intros b c H1 H2; inversion H1; subst; inversion H2; subst.
  - constructor. eapply seq_strict_trans; eassumption.
  - constructor. clear H1 H2. revert m0 H3 IH. induction H0; intros m0 H3 IH; inversion H3; subst; constructor.
    + inversion IH; subst. eauto.
    + inversion IH; subst. eauto.
  - rewrite Forall_forall in IH. constructor.
    + intros k x Hx. destruct (H0 _ _ Hx) as [y [Hy Hxy]]. destruct (H4 _ _ Hy) as [z [Hz Hyz]].
      exists z. split; [exact Hz|]. eapply (IH (k, x)); [apply alookup_In; exact Hx|exact Hxy|exact Hyz].
    + intros k Hk. apply H5. apply H3. exact Hk.
Qed.

Lemma Forall2_VEq_refl l : Forall2 VEq l l.
Proof. induction l; constructor; auto using VEq_refl. Qed.

Lemma alookup_dict_set {A} (d : list (key * A)) k k0 n :
  alookup k0 (dict_set d k n) = if key_eqb k0 k then Some n else alookup k0 d.
Proof.
  destruct (key_eqb k0 k) eqn:E.
  - apply key_eqb_eq in E. subst. apply alookup_dict_set_same.
  - apply alookup_dict_set_other. apply key_eqb_neq. exact E.
Qed.

Lemma VEq_dict_set d k x y : VEq x y -> VEq (VD (dict_set d k x)) (VD (dict_set d k y)).
Proof.
  intros H. constructor.
  - intros k0 z Hz. rewrite alookup_dict_set in *. destruct (key_eqb k0 k).
    + inversion Hz; subst. eauto.
    + exists z. split; [exact Hz|apply VEq_refl].
  - intros k0 Hz. rewrite alookup_dict_set in *. destruct (key_eqb k0 k); [discriminate|exact Hz].
Qed.

Lemma VEq_set_nth l i x y : VEq x y -> VEq (VL (set_nth l i x)) (VL (set_nth l i y)).
Proof.
  intros H. constructor. revert i. induction l as [|a l IH]; intros i; cbn [set_nth].
  - constructor.
  - destruct i; constructor; auto using VEq_refl, Forall2_VEq_refl.
Qed.

(* equal encoded text implies equality up to key order *)
Lemma seq_text_strict a b : seq_text a b = true -> seq_strict a b = true.
Proof.
  destruct a as [| | |[x|m e]| |], b as [| | |[y|m' e']| |]; simpl; auto.
Qed.

Theorem veq_text_VEq a : forall b, veq_text a b = true -> VEq a b.
Proof.
  induction a as [s|l IH|d IH] using val_ind2; intros b H; destruct b as [t|m|e]; simpl in H; try discriminate.
  - constructor. apply seq_text_strict. exact H.
  - constructor. revert m H. induction IH as [|x l Hx IH IHl]; intros m H; destruct m as [|y m]; simpl in H; try discriminate.
    + constructor.
    + apply andb_true_iff in H. destruct H as [H1 H2]. constructor; auto.
  - assert (G : (forall k x, alookup k d = Some x -> exists y, alookup k e = Some y /\ VEq x y)
                /\ (forall k, alookup k d = None -> alookup k e = None)).
    { revert e H. induction IH as [|[k0 x0] d Hx IH IHd]; intros e H; destruct e as [|[k1 y1] e]; simpl in H; try discriminate.
      - split; [intros k x Hk; discriminate|auto].
      - apply andb_true_iff in H. destruct H as [H1 H2]. apply andb_true_iff in H1. destruct H1 as [Hk Hv].
        simpl in Hk. apply key_eqb_eq in Hk. subst k1. destruct (IHd e H2) as [G1 G2]. split.
        + intros k x Hl. simpl in Hl |- *. destruct (key_eqb k k0).
          * inversion Hl; subst. exists y1. split; [reflexivity|]. apply Hx. exact Hv.
          * apply G1. exact Hl.
        + intros k Hl. simpl in Hl |- *. destruct (key_eqb k k0); [discriminate|]. apply G2. exact Hl. }
    destruct G as [G1 G2]. constructor; assumption.
Qed.

(* ------------------------------------------------------------------ *)
(* S1: the merge                                                       *)
(* ------------------------------------------------------------------ *)

Lemma val_depth_VL_in l x : In x l -> (val_depth x < val_depth (VL l))%nat.
Proof.
  simpl. induction l as [|a l IH]; simpl; intros H; [contradiction|].
  destruct H as [->|H]; [lia|]. apply IH in H. lia.
Qed.

Lemma val_depth_VD_in d k x : In (k, x) d -> (val_depth x < val_depth (VD d))%nat.
Proof.
  simpl. induction d as [|a d IH]; simpl; intros H; [contradiction|].
  destruct H as [->|H]; [simpl; lia|]. apply IH in H. lia.
Qed.

Lemma alookup_vmerge_entries g new : keys_unique new = true -> forall acc k,
  alookup k (vmerge_entries g new acc) =
  match alookup k new with
  | Some n => Some (match alookup k acc with Some o => g o n | None => n end)
  | None => alookup k acc
  end.
Proof.
  induction new as [|[k0 n0] new IH]; simpl; intros U acc k; [reflexivity|].
  destruct (alookup k0 new) eqn:E0; [discriminate|].
  rewrite (IH U). destruct (key_eqb k k0) eqn:E.
  - apply key_eqb_eq in E. subst k0. rewrite E0. apply alookup_dict_set_same.
  - rewrite alookup_dict_set, E. reflexivity.
Qed.

Lemma keys_unique_vmerge_entries g new : forall acc,
  keys_unique acc = true -> keys_unique (vmerge_entries g new acc) = true.
Proof.
  induction new as [|[k0 n0] new IH]; simpl; intros acc U; [exact U|].
  apply IH. apply keys_unique_dict_set. exact U.
Qed.

Definition wfv (v : val) : Prop := wf_val v = true.
Definition wfkv (kv : key * val) : Prop := wf_val (snd kv) = true.

Lemma Forall_vmerge_entries g new : forall acc,
  Forall (fun kv : key * val => wfkv kv /\ forall o, wfv o -> wfv (g o (snd kv))) new ->
  Forall wfkv acc -> Forall wfkv (vmerge_entries g new acc).
Proof.
  induction new as [|[k0 n0] new IH]; simpl; intros acc Hn Ha; [exact Ha|].
  inversion Hn as [|? ? [W G] Hn']; subst. apply IH; [exact Hn'|].
  apply Forall_dict_set; [exact Ha|]. unfold wfkv. simpl in *.
  destruct (alookup k0 acc) as [o|] eqn:E; [|exact W].
  apply G. apply alookup_In in E. rewrite Forall_forall in Ha. apply (Ha (k0, o)). exact E.
Qed.

Lemma wf_VD_parts d : wf_val (VD d) = true <-> keys_unique d = true /\ Forall wfkv d.
Proof.
  simpl. rewrite andb_true_iff, forallb_Forall'. reflexivity.
Qed.
Lemma wf_VL_parts l : wf_val (VL l) = true <-> Forall wfv l.
Proof. simpl. rewrite forallb_Forall'. reflexivity. Qed.

Lemma vmerge_fuel_ok f : forall old new, (val_depth new <= f)%nat -> wf_val old = true -> wf_val new = true ->
  VEq (vmerge_fuel f old new) new /\ wf_val (vmerge_fuel f old new) = true.
Proof.
  induction f as [|f IH]; intros old new Hd Wo Wn.
  - simpl. split; [apply VEq_refl|exact Wn].
  - destruct old as [a|l|d], new as [b|m|e]; cbn [vmerge_fuel]; try (split; [apply VEq_refl|exact Wn]).
    + destruct (seq_strict a b) eqn:E; [|split; [apply VEq_refl|reflexivity]].
      split; [constructor; exact E|reflexivity].
    + apply wf_VL_parts in Wo, Wn.
      assert (Hm : forall x, In x m -> (val_depth x <= f)%nat).
      { intros x Hx. apply val_depth_VL_in in Hx. lia. }
      clear Hd.
      assert (G : Forall2 VEq (vmerge_list (vmerge_fuel f) l m) m /\ Forall wfv (vmerge_list (vmerge_fuel f) l m)).
      { revert m Wn Hm. induction Wo as [|o l Wo1 Wo IHl]; intros m Wn Hm.
        - simpl. split; [apply Forall2_VEq_refl|exact Wn].
        - destruct m as [|n m]; simpl.
          + split; constructor.
          + inversion Wn as [|? ? Wn1 Wn2]; subst.
            assert (I : VEq (vmerge_fuel f o n) n /\ wf_val (vmerge_fuel f o n) = true).
            { apply IH; [apply Hm; left; reflexivity|exact Wo1|exact Wn1]. }
            assert (J : Forall2 VEq (vmerge_list (vmerge_fuel f) l m) m
                        /\ Forall wfv (vmerge_list (vmerge_fuel f) l m)).
            { apply IHl; [exact Wn2|intros x Hx; apply Hm; right; exact Hx]. }
            destruct I as [I1 I2], J as [J1 J2].
            split; constructor; auto. }
      destruct G as [G1 G2]. split; [constructor; exact G1|apply wf_VL_parts; exact G2].
    + apply wf_VD_parts in Wo, Wn. destruct Wo as [Ud Wd], Wn as [Ue We].
      assert (He : forall k x, In (k, x) e -> (val_depth x <= f)%nat).
      { intros k x Hx. apply val_depth_VD_in in Hx. lia. }
      clear Hd. set (g := vmerge_fuel f).
      assert (Wr : Forall wfkv (vmerge_entries g e d)).
      { apply Forall_vmerge_entries; [|exact Wd]. apply Forall_forall. intros [k n] Hin.
        rewrite Forall_forall in We. split; [apply (We _ Hin)|]. intros o Ho. simpl.
        apply (IH o n); [eapply He; exact Hin|exact Ho|apply (We _ Hin)]. }
      split.
      * constructor.
        -- intros k x Hx.
           rewrite (alookup_filter_key (dict_has e)) in Hx. unfold dict_has in Hx.
           destruct (alookup k e) as [n|] eqn:En; [|discriminate].
           exists n. split; [reflexivity|].
           rewrite (alookup_vmerge_entries g e Ue), En in Hx. inversion Hx; subst x.
           destruct (alookup k d) as [o|] eqn:Eo; [|apply VEq_refl].
           apply alookup_In in En, Eo. rewrite Forall_forall in We, Wd.
           apply (IH o n); [eapply He; exact En|apply (Wd _ Eo)|apply (We _ En)].
        -- intros k Hx.
           rewrite (alookup_filter_key (dict_has e)) in Hx. unfold dict_has in Hx.
           destruct (alookup k e) as [n|] eqn:En; [|reflexivity].
           rewrite (alookup_vmerge_entries g e Ue), En in Hx. discriminate.
      * apply wf_VD_parts. split.
        -- apply (keys_unique_filter_key (dict_has e)). apply keys_unique_vmerge_entries. exact Ud.
        -- apply Forall_filter'. exact Wr.
Qed.

Theorem vmerge_VEq old new : wf_val old = true -> wf_val new = true ->
  VEq (vmerge old new) new /\ wf_val (vmerge old new) = true.
Proof. intros Wo Wn. unfold vmerge. apply vmerge_fuel_ok; auto. Qed.

(* update(): the merge order against the built-in order *)
Lemma alookup_dict_update_u {A} (o : list (key * A)) : keys_unique o = true -> forall D k,
  alookup k (dict_update D o) = match alookup k o with Some n => Some n | None => alookup k D end.
Proof.
  unfold dict_update. induction o as [|[k0 n0] o IH]; simpl; intros U D k; [reflexivity|].
  destruct (alookup k0 o) eqn:E0; [discriminate|]. rewrite (IH U). simpl.
  destruct (key_eqb k k0) eqn:E.
  - apply key_eqb_eq in E. subst k0. rewrite E0. apply alookup_dict_set_same.
  - rewrite alookup_dict_set, E. reflexivity.
Qed.

Lemma vmerge_entries_VEq od d :
  keys_unique od = true -> Forall wfkv od -> keys_unique d = true -> Forall wfkv d ->
  VEq (VD (vmerge_entries vmerge od d)) (VD (dict_update d od))
  /\ wf_val (VD (vmerge_entries vmerge od d)) = true.
Proof.
  intros Uo Wo Ud Wd. rewrite Forall_forall in Wo, Wd. split.
  - constructor.
    + intros k x Hx. rewrite (alookup_vmerge_entries _ _ Uo) in Hx. rewrite (alookup_dict_update_u _ Uo).
      destruct (alookup k od) as [n|] eqn:En.
      * exists n. split; [reflexivity|]. inversion Hx; subst x.
        destruct (alookup k d) as [o|] eqn:Eo; [|apply VEq_refl].
        apply alookup_In in En, Eo. apply vmerge_VEq; [apply (Wd _ Eo)|apply (Wo _ En)].
      * exists x. split; [exact Hx|apply VEq_refl].
    + intros k Hx. rewrite (alookup_vmerge_entries _ _ Uo) in Hx. rewrite (alookup_dict_update_u _ Uo).
      destruct (alookup k od); [discriminate|exact Hx].
  - apply wf_VD_parts. split.
    + apply keys_unique_vmerge_entries. exact Ud.
    + apply Forall_vmerge_entries; [|apply Forall_forall; exact Wd].
      apply Forall_forall. intros [k n] Hin. split; [apply (Wo _ Hin)|].
      intros o Ho. simpl. apply vmerge_VEq; [exact Ho|apply (Wo _ Hin)].
Qed.

(* ------------------------------------------------------------------ *)
(* association lists over nat                                          *)
(* ------------------------------------------------------------------ *)

Lemma nlookup_nset {A} k k' (v : A) l :
  nlookup k (nset k' v l) = if Nat.eqb k k' then Some v else nlookup k l.
Proof.
  induction l as [|[k0 v0] l IH]; simpl.
  - reflexivity.
  - destruct (Nat.eqb k' k0) eqn:E0; simpl.
    + apply Nat.eqb_eq in E0. subst k0. destruct (Nat.eqb k k'); reflexivity.
    + rewrite IH. destruct (Nat.eqb k k0) eqn:E1; [|reflexivity].
      apply Nat.eqb_eq in E1. subst k0. rewrite Nat.eqb_sym, E0. reflexivity.
Qed.

Lemma nlookup_nset_same {A} k (v : A) l : nlookup k (nset k v l) = Some v.
Proof. rewrite nlookup_nset, Nat.eqb_refl. reflexivity. Qed.

Lemma nlookup_nset_other {A} k k' (v : A) l : k <> k' -> nlookup k (nset k' v l) = nlookup k l.
Proof. intros H. rewrite nlookup_nset. apply Nat.eqb_neq in H. rewrite H. reflexivity. Qed.

Lemma nlookup_nremove_other {A} k k' (l : list (nat * A)) : k <> k' -> nlookup k (nremove k' l) = nlookup k l.
Proof.
  intros H. induction l as [|[k0 v0] l IH]; simpl; [reflexivity|].
  destruct (Nat.eqb k' k0) eqn:E0; simpl.
  - apply Nat.eqb_eq in E0. subst k0. apply Nat.eqb_neq in H. rewrite H. reflexivity.
  - rewrite IH. reflexivity.
Qed.

Lemma nlookup_notin {A} k (l : list (nat * A)) : ~ In k (map fst l) -> nlookup k l = None.
Proof.
  induction l as [|[k0 v0] l IH]; simpl; intros H; [reflexivity|].
  destruct (Nat.eqb k k0) eqn:E.
  - apply Nat.eqb_eq in E. subst. exfalso. apply H. left. reflexivity.
  - apply IH. intros Hin. apply H. right. exact Hin.
Qed.

Lemma nlookup_In {A} k (l : list (nat * A)) v : nlookup k l = Some v -> In (k, v) l.
Proof.
  induction l as [|[k0 v0] l IH]; simpl; intros H; [discriminate|].
  destruct (Nat.eqb k k0) eqn:E.
  - apply Nat.eqb_eq in E. subst. inversion H; subst. left. reflexivity.
  - right. auto.
Qed.

Lemma nlookup_nremove_same {A} k (l : list (nat * A)) : NoDup (map fst l) -> nlookup k (nremove k l) = None.
Proof.
  induction l as [|[k0 v0] l IH]; simpl; intros H; [reflexivity|].
  inversion H as [|? ? Hn Hd]; subst.
  destruct (Nat.eqb k k0) eqn:E; simpl.
  - apply Nat.eqb_eq in E. subst. apply nlookup_notin. exact Hn.
  - rewrite E. auto.
Qed.

Lemma nset_keys {A} k (v : A) l x : In x (map fst (nset k v l)) <-> x = k \/ In x (map fst l).
Proof.
  induction l as [|[k0 v0] l IH]; simpl.
  - split; [intros [H|[]]; auto|intros [H|[]]; auto].
  - destruct (Nat.eqb k k0) eqn:E; simpl.
    + apply Nat.eqb_eq in E. subst. split; [intros [H|H]; auto|intros [H|[H|H]]; auto].
    + rewrite IH. split; [intros [H|[H|H]]; auto|intros [H|[H|H]]; auto].
Qed.

Lemma nset_NoDup {A} k (v : A) l : NoDup (map fst l) -> NoDup (map fst (nset k v l)).
Proof.
  induction l as [|[k0 v0] l IH]; simpl; intros H.
  - constructor; [intros []|constructor].
  - inversion H as [|? ? Hn Hd]; subst. destruct (Nat.eqb k k0) eqn:E; simpl.
    + apply Nat.eqb_eq in E. subst. constructor; assumption.
    + constructor; [|auto]. rewrite nset_keys. intros [Hx|Hx]; [|contradiction].
      subst. rewrite Nat.eqb_refl in E. discriminate.
Qed.

Lemma nremove_keys {A} k (l : list (nat * A)) x : In x (map fst (nremove k l)) -> In x (map fst l).
Proof.
  induction l as [|[k0 v0] l IH]; simpl; [auto|].
  destruct (Nat.eqb k k0); simpl; [auto|]. intros [H|H]; auto.
Qed.

Lemma nremove_NoDup {A} k (l : list (nat * A)) : NoDup (map fst l) -> NoDup (map fst (nremove k l)).
Proof.
  induction l as [|[k0 v0] l IH]; simpl; intros H; [constructor|].
  inversion H as [|? ? Hn Hd]; subst. destruct (Nat.eqb k k0); simpl; [assumption|].
  constructor; [|auto]. intros Hin. apply Hn. eapply nremove_keys. exact Hin.
Qed.

Lemma nlookup_all_None {A} (l : list (nat * A)) : (forall k, nlookup k l = None) -> l = [].
Proof.
  destruct l as [|[k v] l]; [reflexivity|]. intros H. specialize (H k). simpl in H.
  rewrite Nat.eqb_refl in H. discriminate.
Qed.

(* weighted sums over such lists *)
Local Open Scope Z_scope.
Definition esum {A} (w : A -> Z) (l : list (nat * A)) : Z :=
  fold_right (fun (fe : nat * A) acc => w (snd fe) + acc) 0 l.
Definition wopt {A} (w : A -> Z) (o : option A) : Z := match o with Some a => w a | None => 0 end.

Lemma esum_nset {A} (w : A -> Z) k a l : esum w (nset k a l) = esum w l - wopt w (nlookup k l) + w a.
Proof.
  unfold esum. induction l as [|[k0 v0] l IH]; simpl.
  - lia.
  - destruct (Nat.eqb k k0) eqn:E; simpl.
    + lia.
    + rewrite IH. lia.
Qed.

Lemma esum_nremove {A} (w : A -> Z) k l : esum w (nremove k l) = esum w l - wopt w (nlookup k l).
Proof.
  unfold esum. induction l as [|[k0 v0] l IH]; simpl.
  - lia.
  - destruct (Nat.eqb k k0) eqn:E; simpl.
    + lia.
    + rewrite IH. lia.
Qed.

Lemma esum_zero {A} (w : A -> Z) l : (forall k a, nlookup k l = Some a -> w a = 0) -> NoDup (map fst l) -> esum w l = 0.
Proof.
  unfold esum. induction l as [|[k0 v0] l IH]; simpl; intros H N; [reflexivity|].
  inversion N as [|? ? Hn Hd]; subst.
  rewrite (H k0 v0) by (rewrite Nat.eqb_refl; reflexivity).
  rewrite IH; [reflexivity| |exact Hd].
  intros k a Hk. apply (H k a). destruct (Nat.eqb k k0) eqn:E; [|exact Hk].
  apply Nat.eqb_eq in E. subst. exfalso. apply Hn. apply nlookup_In in Hk. apply (in_map fst) in Hk. exact Hk.
Qed.
Local Close Scope Z_scope.

(* ------------------------------------------------------------------ *)
(* the built-in operations keep dict keys unique                       *)
(* ------------------------------------------------------------------ *)

Definition lop_vals_b (o : lop) : list val :=
  match o with
  | LIndex v | LCount v | LContains v | LEq v | LCmp _ v | LSet _ v | LSetSlice _ v | LInsert _ v
  | LAppend v | LExtend v | LIAdd v | LRemove v | LReset v => [v]
  | _ => []
  end.
Definition dop_vals_b (o : dop) : list val :=
  match o with
  | DGetDefault _ v | DEq v | DUpdate v | DReset v => [v]
  | DSet k v | DSetdefault k v => [VD [(k, v)]]
  | _ => []
  end.
Definition nop_vals_b (o : nop) : list val := match o with OL o => lop_vals_b o | OD o => dop_vals_b o end.

Lemma sub_wf (l' l : list val) : MachineInv.sub l' l -> Forall wfv l -> Forall wfv l'.
Proof. apply MachineInv.sub_Forall. Qed.

Lemma plain_lop_wf l o : Forall wfv l -> (forall v, In v (lop_vals_b o) -> wfv v) ->
  Forall wfv (snd (plain_lop l o)).
Proof.
  intros Wl Wa. destruct o; cbn [plain_lop snd lop_vals_b] in *; try exact Wl.
  - (* LSet *) unfold list_set. destruct (norm_idx (zlen l) i); cbn [snd]; [|exact Wl].
    eapply sub_wf; [apply MachineInv.sub_set_nth|]. constructor; [apply Wa; left; reflexivity|exact Wl].
  - (* LSetSlice *)
    destruct (slice_adjust (zlen l) s) as [q|e]; cbn [bind snd]; [|exact Wl].
    destruct (iter_val v) as [vs|e] eqn:Ei; cbn [bind snd]; [|exact Wl].
    destruct (list_setslice l s vs) as [l'|e] eqn:Es; cbn [snd]; [|exact Wl].
    eapply sub_wf; [eapply MachineInv.list_setslice_sub; exact Es|].
    apply Forall_app. split; [exact Wl|]. eapply MachineInv.iter_val_wf; [exact Ei|]. apply Wa. left. reflexivity.
  - (* LDel *) unfold list_del. destruct (norm_idx (zlen l) i); cbn [snd]; [|exact Wl].
    eapply sub_wf; [apply MachineInv.sub_del_nth|exact Wl].
  - (* LDelSlice *) unfold list_delslice. destruct (slice_indices (zlen l) s); cbn [snd]; [|exact Wl].
    eapply sub_wf; [apply MachineInv.sub_drop_indices|exact Wl].
  - (* LInsert *) unfold list_insert. apply Forall_app. split.
    + eapply sub_wf; [apply MachineInv.sub_firstn|exact Wl].
    + constructor; [apply Wa; left; reflexivity|]. eapply sub_wf; [apply MachineInv.sub_skipn|exact Wl].
  - (* LAppend *) apply Forall_app. split; [exact Wl|]. constructor; [apply Wa; left; reflexivity|constructor].
  - (* LExtend *) destruct (iter_val v) as [vs|e] eqn:Ei; cbn [bind snd]; [|exact Wl].
    apply Forall_app. split; [exact Wl|]. eapply MachineInv.iter_val_wf; [exact Ei|]. apply Wa. left. reflexivity.
  - (* LIAdd *) destruct (iter_val v) as [vs|e] eqn:Ei; cbn [bind snd]; [|exact Wl].
    apply Forall_app. split; [exact Wl|]. eapply MachineInv.iter_val_wf; [exact Ei|]. apply Wa. left. reflexivity.
  - (* LRemove *) destruct (list_remove (fun h x => veq_py h x) l v) as [l'|e] eqn:Er; cbn [snd]; [|exact Wl].
    eapply sub_wf; [eapply MachineInv.sub_list_remove; exact Er|exact Wl].
  - (* LPop *) destruct (list_pop l match i with Some z => z | None => (-1)%Z end) as [[x l']|e] eqn:Ep; cbn [snd]; [|exact Wl].
    eapply sub_wf; [eapply MachineInv.list_pop_sub; exact Ep|exact Wl].
  - (* LReverse *) apply Forall_rev. exact Wl.
  - (* LClear *) constructor.
  - (* LReset *) destruct v as [x|l'|d]; cbn [snd]; try exact Wl.
    apply wf_VL_parts. apply Wa. left. reflexivity.
Qed.

Lemma sub_wfkv (l' l : list (key * val)) : MachineInv.sub l' l -> Forall wfkv l -> Forall wfkv l'.
Proof. apply MachineInv.sub_Forall. Qed.

Lemma keys_unique_dict_update {A} (o : list (key * A)) : forall D,
  keys_unique D = true -> keys_unique (dict_update D o) = true.
Proof.
  unfold dict_update. induction o as [|[k v] o IH]; intros D H; [exact H|].
  simpl. apply IH. apply keys_unique_dict_set. exact H.
Qed.

Lemma as_mapping_unique v od : as_mapping v = Ok od -> wf_val v = true -> keys_unique od = true.
Proof.
  destruct v as [s|l|d]; simpl; intros H W; [discriminate| |].
  - destruct (pairs_to_dict l); [|discriminate]. inversion H; subst. apply keys_unique_dict_update. reflexivity.
  - inversion H; subst. apply andb_true_iff in W. tauto.
Qed.

Lemma plain_dop_wf d o : keys_unique d = true -> Forall wfkv d -> (forall v, In v (dop_vals_b o) -> wfv v) ->
  keys_unique (snd (plain_dop d o)) = true /\ Forall wfkv (snd (plain_dop d o)).
Proof.
  intros Ud Wd Wa. destruct o; cbn [plain_dop snd dop_vals_b] in *; try (split; assumption).
  - (* DSet *)
    assert (Wv : wfv v).
    { specialize (Wa _ (or_introl eq_refl)). unfold wfv in Wa. simpl in Wa. rewrite !andb_true_r in Wa. exact Wa. }
    split; [apply keys_unique_dict_set; exact Ud|apply Forall_dict_set; [exact Wd|exact Wv]].
  - (* DDel *) unfold dict_del. destruct (dict_has d k); cbn [snd]; [|split; assumption].
    split; [apply MachineInv.keys_unique_dict_remove; exact Ud|].
    eapply sub_wfkv; [apply MachineInv.dict_remove_sub|exact Wd].
  - (* DPop *) unfold dict_pop. destruct (alookup k d); cbn [snd]; [|split; assumption].
    split; [apply MachineInv.keys_unique_dict_remove; exact Ud|].
    eapply sub_wfkv; [apply MachineInv.dict_remove_sub|exact Wd].
  - (* DPopitem *) destruct (dict_popitem d) as [[[k v] d']|e] eqn:Ep; cbn [snd]; [|split; assumption].
    apply MachineInv.dict_popitem_split in Ep. subst d. split.
    + eapply MachineInv.keys_unique_app_l. exact Ud.
    + apply Forall_app in Wd. tauto.
  - (* DClear *) split; [reflexivity|constructor].
  - (* DUpdate *) destruct (as_mapping v) as [od|e] eqn:Em; cbn [snd]; [|split; assumption].
    split; [apply keys_unique_dict_update; exact Ud|].
    apply MachineInv.dict_update_Forall; [auto|exact Wd|].
    eapply MachineInv.as_mapping_wf; [exact Em|]. apply Wa. left. reflexivity.
  - (* DSetdefault *) destruct (alookup k d); cbn [snd]; [split; assumption|].
    assert (Wv : wfv v).
    { specialize (Wa _ (or_introl eq_refl)). unfold wfv in Wa. simpl in Wa. rewrite !andb_true_r in Wa. exact Wa. }
    split; [apply keys_unique_dict_set; exact Ud|apply Forall_dict_set; [exact Wd|exact Wv]].
  - (* DReset *) destruct v as [x|l'|d']; cbn [snd]; try (split; assumption).
    apply wf_VD_parts. apply Wa. left. reflexivity.
Qed.

(* ------------------------------------------------------------------ *)
(* the machine's operation at a path against the built-in one          *)
(* ------------------------------------------------------------------ *)

Lemma merge_nop_spec v o r d' : wf_val v = true -> (forall a, In a (nop_vals_b o) -> wfv a) ->
  merge_nop v o = Some (r, d') ->
  exists newp, plain_nop v o = Some (r, newp) /\ VEq d' newp /\ wf_val d' = true.
Proof.
  intros Wv Wa H. destruct v as [s|l|d], o as [lo|dop_]; cbn [merge_nop plain_nop] in *; try discriminate.
  - pose proof (plain_lop_wf l lo (proj1 (wf_VL_parts l) Wv) Wa) as Wl.
    destruct (plain_lop l lo) as [r0 l'] eqn:E. cbn [snd] in Wl.
    assert (G : forall w, lo = LReset w -> r0 = Ok vnone -> w = VL l').
    { intros w -> Hr. cbn [plain_lop] in E. destruct w; inversion E; subst; try discriminate. reflexivity. }
    destruct lo; try (inversion H; subst; exists (VL l'); split; [reflexivity|split; [apply VEq_refl|apply wf_VL_parts; exact Wl]]).
    destruct r0 as [a|e]; [|inversion H; subst; exists (VL l'); split; [reflexivity|split; [apply VEq_refl|apply wf_VL_parts; exact Wl]]].
    inversion H; subst. exists (VL l'). split; [reflexivity|].
    assert (a = vnone) by (cbn [plain_lop] in E; destruct v; inversion E; reflexivity). subst a.
    rewrite (G v eq_refl eq_refl). apply vmerge_VEq; [exact Wv|apply wf_VL_parts; exact Wl].
  - apply wf_VD_parts in Wv. destruct Wv as [Ud Wd].
    destruct (plain_dop_wf d dop_ Ud Wd Wa) as [Ud' Wd'].
    destruct (plain_dop d dop_) as [r0 d1] eqn:E. cbn [snd] in Ud', Wd'.
    assert (Wd1 : wf_val (VD d1) = true) by (apply wf_VD_parts; split; assumption).
    destruct dop_; try (inversion H; subst; exists (VD d1); split; [reflexivity|split; [apply VEq_refl|exact Wd1]]).
    + (* DUpdate *)
      destruct r0 as [a|e]; [|inversion H; subst; exists (VD d1); split; [reflexivity|split; [apply VEq_refl|exact Wd1]]].
      cbn [plain_dop] in E. destruct (as_mapping v) as [od|e] eqn:Em; [|inversion E].
      inversion E; subst a d1. inversion H; subst. exists (VD (dict_update d od)). split; [reflexivity|].
      apply vmerge_entries_VEq; auto.
      * eapply as_mapping_unique; [exact Em|]. apply Wa. left. reflexivity.
      * eapply MachineInv.as_mapping_wf; [exact Em|]. apply Wa. left. reflexivity.
    + (* DReset *)
      destruct r0 as [a|e]; [|inversion H; subst; exists (VD d1); split; [reflexivity|split; [apply VEq_refl|exact Wd1]]].
      cbn [plain_dop] in E. destruct v as [x|l'|d2]; inversion E; subst.
      inversion H; subst. exists (VD d1). split; [reflexivity|].
      apply vmerge_VEq; [apply wf_VD_parts; split; assumption|exact Wd1].
Qed.

Lemma apply_at_spec p o : forall v r d', wf_val v = true -> (forall a, In a (nop_vals_b o) -> wfv a) ->
  apply_at p o v = Some (r, d') ->
  exists newp, plain_at p o v = Some (r, newp) /\ VEq d' newp /\ wf_val d' = true.
Proof.
  induction p as [|[k|i] p IH]; intros v r d' Wv Wa H; cbn [apply_at plain_at] in *.
  - eapply merge_nop_spec; eauto.
  - destruct v as [s|l|d]; try discriminate. destruct (alookup k d) as [c|] eqn:Ec; [|discriminate].
    destruct (apply_at p o c) as [[r0 c']|] eqn:Ea; [|discriminate]. inversion H; subst.
    apply wf_VD_parts in Wv. destruct Wv as [Ud Wd].
    assert (Wc : wf_val c = true).
    { apply alookup_In in Ec. rewrite Forall_forall in Wd. apply (Wd _ Ec). }
    destruct (IH c r c' Wc Wa Ea) as [n [Hn [Hv Hw]]]. rewrite Hn.
    exists (VD (dict_set d k n)). split; [reflexivity|]. split; [apply VEq_dict_set; exact Hv|].
    apply wf_VD_parts. split; [apply keys_unique_dict_set; exact Ud|apply Forall_dict_set; [exact Wd|exact Hw]].
  - destruct v as [s|l|d]; try discriminate. destruct (nth_error l i) as [c|] eqn:Ec; [|discriminate].
    destruct (apply_at p o c) as [[r0 c']|] eqn:Ea; [|discriminate]. inversion H; subst.
    apply wf_VL_parts in Wv.
    assert (Wc : wf_val c = true).
    { apply nth_error_In in Ec. rewrite Forall_forall in Wv. apply (Wv _ Ec). }
    destruct (IH c r c' Wc Wa Ea) as [n [Hn [Hv Hw]]]. rewrite Hn.
    exists (VL (set_nth l i n)). split; [reflexivity|]. split; [apply VEq_set_nth; exact Hv|].
    apply wf_VL_parts. eapply sub_wf; [apply MachineInv.sub_set_nth|]. constructor; [exact Hw|exact Wv].
Qed.

(* reads and argument errors leave the data alone *)
Lemma dict_set_id {A} (d : list (key * A)) k c : alookup k d = Some c -> dict_set d k c = d.
Proof.
  induction d as [|[k' v] d IH]; simpl; intros H; [discriminate|].
  destruct (key_eqb k k'); [inversion H; reflexivity|]. rewrite IH; auto.
Qed.
Lemma set_nth_id {A} (l : list A) i c : nth_error l i = Some c -> set_nth l i c = l.
Proof.
  revert i. induction l as [|a l IH]; intros i H; destruct i; simpl in *; try discriminate.
  - inversion H; reflexivity.
  - rewrite IH; auto.
Qed.

Lemma plain_at_keeps (Q : nop -> res val -> Prop) o :
  (forall v r n, plain_nop v o = Some (r, n) -> Q o r /\ n = v) ->
  forall p v r n, plain_at p o v = Some (r, n) -> Q o r /\ n = v.
Proof.
  intros HQ. induction p as [|[k|i] p IH]; intros v r n H; cbn [plain_at] in H.
  - eapply HQ; eauto.
  - destruct v as [s|l|d]; try discriminate. destruct (alookup k d) as [c|] eqn:Ec; [|discriminate].
    destruct (plain_at p o c) as [[r0 c']|] eqn:Ea; [|discriminate]. inversion H; subst.
    destruct (IH _ _ _ Ea) as [H1 H2]. subst c'. split; [exact H1|]. rewrite dict_set_id; auto.
  - destruct v as [s|l|d]; try discriminate. destruct (nth_error l i) as [c|] eqn:Ec; [|discriminate].
    destruct (plain_at p o c) as [[r0 c']|] eqn:Ea; [|discriminate]. inversion H; subst.
    destruct (IH _ _ _ Ea) as [H1 H2]. subst c'. split; [exact H1|]. rewrite set_nth_id; auto.
Qed.

Lemma plain_lop_read l lo : lop_is_read lo = true -> snd (plain_lop l lo) = l.
Proof. destruct lo; intros H; try discriminate H; reflexivity. Qed.
Lemma plain_dop_read d o : dop_is_read o = true -> snd (plain_dop d o) = d.
Proof. destruct o; intros H; try discriminate H; reflexivity. Qed.

Lemma plain_at_read o : nop_is_read o = true ->
  forall p v r n, plain_at p o v = Some (r, n) -> n = v.
Proof.
  intros Hr p v r n H. apply (plain_at_keeps (fun _ _ => True) o) in H; [tauto|].
  clear - Hr. intros v r n H. split; [exact I|].
  destruct v as [s|l|d], o as [lo|dop_]; cbn [plain_nop nop_is_read] in *; try discriminate.
  - pose proof (plain_lop_read l lo Hr) as E. destruct (plain_lop l lo) as [r0 l']. cbn [snd] in E.
    inversion H; subst. reflexivity.
  - pose proof (plain_dop_read d dop_ Hr) as E. destruct (plain_dop d dop_) as [r0 l']. cbn [snd] in E.
    inversion H; subst. reflexivity.
Qed.

Lemma plain_at_pre_err o e : pre_err o = Some e ->
  forall p v r n, plain_at p o v = Some (r, n) -> r = Err e /\ n = v.
Proof.
  intros He p v r n H. apply (plain_at_keeps (fun _ r => r = Err e) o) in H; [exact H|].
  clear - He. intros v r n H.
  destruct v as [s|l|d], o as [lo|dop_]; cbn [plain_nop] in *; try discriminate.
  - destruct lo; cbn [pre_err] in He; try discriminate; cbn [plain_lop] in H.
    + destruct (iter_val v) as [vs|e0]; [discriminate|]. inversion He; subst. cbn [bind] in H. inversion H; auto.
    + destruct (iter_val v) as [vs|e0]; [discriminate|]. inversion He; subst. cbn [bind] in H. inversion H; auto.
    + destruct v; try discriminate; inversion He; subst; inversion H; auto.
  - destruct dop_; cbn [pre_err] in He; try discriminate; cbn [plain_dop] in H.
    + destruct (as_mapping v) as [od|e0]; [discriminate|]. inversion He; subst. inversion H; auto.
    + destruct v; try discriminate; inversion He; subst; inversion H; auto.
Qed.

(* an operation applicable at a position of some data is applicable at that position of equal data *)
Lemma plain_at_defined p o : forall c j, VEq j c -> plain_at p o c <> None -> plain_at p o j <> None.
Proof.
  induction p as [|[k|i] p IH]; intros c j HV H; cbn [plain_at] in *.
  - inversion HV; subst; destruct o as [lo|dop_]; cbn [plain_nop] in *; try congruence.
    + destruct (plain_lop l lo). discriminate.
    + destruct (plain_dop d dop_). discriminate.
  - destruct c as [s|l|dc]; try congruence. inversion HV as [| |d e0 HA HB]; subst.
    destruct (alookup k dc) as [cc|] eqn:Ec; [|congruence].
    destruct (alookup k d) as [jc|] eqn:Ej; [|apply HB in Ej; congruence].
    destruct (HA _ _ Ej) as [y [Hy Hxy]]. rewrite Ec in Hy. inversion Hy; subst y.
    destruct (plain_at p o cc) as [[r0 c']|] eqn:Ea; [|congruence].
    pose proof (IH cc jc Hxy) as G. rewrite Ea in G.
    destruct (plain_at p o jc) as [[r1 c1]|]; [discriminate|]. exfalso. apply G; [discriminate|reflexivity].
  - destruct c as [s|lc|dc]; try congruence. inversion HV as [|l m0 HF|]; subst.
    destruct (nth_error lc i) as [cc|] eqn:Ec; [|congruence].
    assert (G0 : exists jc, nth_error l i = Some jc /\ VEq jc cc).
    { clear - HF Ec. revert i Ec. induction HF; intros i Ec; destruct i; simpl in *; try discriminate.
      - inversion Ec; subst. eauto.
      - eauto. }
    destruct G0 as [jc [Ej Hxy]]. rewrite Ej.
    destruct (plain_at p o cc) as [[r0 c']|] eqn:Ea; [|congruence].
    pose proof (IH cc jc Hxy) as G. rewrite Ea in G.
    destruct (plain_at p o jc) as [[r1 c1]|]; [discriminate|]. exfalso. apply G; [discriminate|reflexivity].
Qed.
