"""Oracles that need more than the K1 step vocabulary:
   C16 (aliasing: values are copied in and out) and C18 (family closure; attribute access = item access)."""
import contextlib
import copy
import os
import shutil
import tempfile

from common import *
from gen import G
from k1 import strict_eq, walk, raw_data, is_synced

HEADER_ATTR = ("From Coq Require Import List NArith Bool.\nFrom SC Require Import Model.Val Model.Attr Corr.KPlain.\nImport ListNotations.\n")


def containers_in(v, acc=None):
    acc = [] if acc is None else acc
    if isinstance(v, dict):
        acc.append(v)
        for x in v.values():
            containers_in(x, acc)
    elif isinstance(v, list):
        acc.append(v)
        for x in v:
            containers_in(x, acc)
    return acc


def deep_plain(o):
    """The in-memory content as plain data, walked by the harness itself (no library conversion involved)."""
    if is_synced(o):
        o = raw_data(o)
    if isinstance(o, dict):
        return {k: deep_plain(v) for k, v in o.items()}
    if isinstance(o, (list, tuple)):
        return [deep_plain(v) for v in o]
    return copy.deepcopy(o)


def scribble(v, g):
    """Mutate every container reachable from v."""
    for c in containers_in(v):
        if isinstance(c, dict):
            c["__scribble__"] = g.r.random()
            for k in list(c)[:1]:
                if not isinstance(c[k], (dict, list)):
                    c[k] = "scribbled"
        else:
            c.append("scribbled")
            if c and not isinstance(c[0], (dict, list)):
                c[0] = "scribbled"


# ------------------------------------------------------------------------------------------ C16
def run_c16(prop, tier, seed):
    ns = import_library()
    g = G(seed)
    tmp = tempfile.mkdtemp(prefix="verif_c16_")
    res = {"name": "C16-oracle", "model_mismatches": [], "oracle_failures": [], "samples": [], "stats": {}}
    n = 160 if tier == "quick" else 1500
    ev = 0
    try:
        for i in range(n):
            with contextlib.ExitStack() as stack:
              cls = ns.all_classes[(seed + i) % len(ns.all_classes)]
              st = Store(ns, cls, tmp, f"c16_{i}")
              x = st.make()
              is_list = isinstance(raw_data(x), list)
              # seed some content
              base = g.container("list" if is_list else "dict", 3)
              if is_list:
                  base = [1] + base + [{"m": [2, {"n": 3}]}, [4]]
              else:
                  base["mixed"] = [1, {"m": [2]}, [3]]
              try:
                  x.reset(copy.deepcopy(base))
              except Exception as e_:  # noqa
                  res["oracle_failures"].append({"oracle": "C16-accept", "cls": cls.__name__, "case": i, "seed": seed,
                                                 "detail": f"reset() with valid plain data {jsonable(base)} raised {type(e_).__name__}: {e_}"})
                  continue
              mode = "unbuffered"
              if hasattr(cls, "buffer_backend") and g.r.random() < 0.6:
                  mode = g.r.choice(["obj", "cls", "cls>obj"])
                  if mode in ("cls", "cls>obj"):
                      stack.enter_context(cls.buffer_backend())
                  if mode in ("obj", "cls>obj"):
                      stack.enter_context(x.buffered)

              def snapshot():
                  called = x()
                  try:
                      called = copy.deepcopy(called)
                  except Exception as e_:  # noqa
                      res["oracle_failures"].append({"oracle": "C16-plain", "cls": cls.__name__, "case": i, "seed": seed,
                                                     "detail": f"the result of () cannot be deep-copied ({type(e_).__name__}: {e_}): it contains a live synced collection"})
                      called = x._to_base()
                  return deep_plain(x), copy.deepcopy(st.read()), called

              def check(tag, before, detail):
                  after = snapshot()
                  if not strict_eq(before[0], after[0]) or not strict_eq_m(before[1], after[1]) or not strict_eq(before[2], after[2]):
                      res["oracle_failures"].append({"oracle": "C16-" + tag, "cls": cls.__name__, "seed": seed, "case": i, "detail": detail,
                                                     "before": jsonable(before[0]), "after": jsonable(after[0])})
              # 1. copy-in: every entry point that takes a container
              arg = g.value(3)
              while not containers_in(arg):
                  arg = g.container(g.r.choice(["list", "dict"]), 3)
              entries_ = (["set", "append", "extend", "insert", "iadd", "slice", "reset", "ctor"] if is_list
                          else ["set", "update", "update_kw", "setdefault", "reset", "ctor"])
              entry = entries_[(i // len(ns.all_classes)) % len(entries_)]      # every entry point of every class, in turn
              shared = None
              if g.r.random() < 0.45:
                  # one container object referenced from several positions of the argument (a DAG, not a tree)
                  shared = g.container(g.r.choice(["list", "dict"]), 1)
                  arg = {"p": shared, "p2": shared, "q": {"r": shared}, "s": [shared, shared]} if g.r.random() < 0.6 else [shared, {"r": shared, "r2": shared}, shared]
              orig = copy.deepcopy(arg)
              target = x
              try:
                  if entry == "ctor":
                      data = [arg] if is_list else {"k": arg}
                      st2 = Store(ns, cls, tmp, f"c16_{i}_b")
                      target = st2.make(data=data)
                      x, st = target, st2
                      arg_root = data
                  elif entry == "set":
                      if is_list:
                          x.append(0)
                          x[0] = arg
                      else:
                          x["k"] = arg
                      arg_root = arg
                  elif entry == "append":
                      x.append(arg); arg_root = arg
                  elif entry == "extend":
                      arg_root = [arg, copy.deepcopy(arg)]; x.extend(arg_root)
                  elif entry == "iadd":
                      arg_root = [arg]; x += arg_root
                  elif entry == "insert":
                      x.insert(0, arg); arg_root = arg
                  elif entry == "slice":
                      arg_root = [arg]; x[0:0] = arg_root
                  elif entry == "reset":
                      arg_root = [arg, 1] if is_list else {"k": arg, "j": 1}; x.reset(arg_root)
                  elif entry == "update":
                      arg_root = {"k": arg}; x.update(arg_root)
                  elif entry == "update_kw":
                      arg_root = arg; x.update(kk=arg)
                  elif entry == "setdefault":
                      arg_root = arg; x.setdefault("fresh_key", arg)
              except Exception as e:  # noqa
                  res["oracle_failures"].append({"oracle": "C16-accept", "cls": cls.__name__, "detail": f"{entry} raised {type(e).__name__}: {e}", "case": i})
                  continue
              before = snapshot()
              scribble(arg_root, g)
              check("copy-in", before, f"mutating the argument of {entry} afterwards changed the collection")
              ev += 1
              if shared is not None:
                  # every position that referred to the shared object holds its own copy
                  twins = [n_ for n_, p_ in walk(x) if p_ and strict_eq(n_._to_base(), orig["p"] if isinstance(orig, dict) else orig[0])
                           and isinstance(raw_data(n_), type(shared))]
                  if len(twins) >= 2:
                      a_, rest_ = twins[0], twins[1:]
                      rest_before = [copy.deepcopy(t_._to_base()) for t_ in rest_]
                      if isinstance(raw_data(a_), list):
                          a_.append("only-here")
                      else:
                          a_["only_here"] = 1
                      for t_, b_ in zip(rest_, rest_before):
                          if t_ is a_ or not strict_eq(t_._to_base(), b_):
                              res["oracle_failures"].append({"oracle": "C16-shared", "cls": cls.__name__, "case": i, "seed": seed,
                                                             "detail": f"{entry}: the argument referred to one container from several positions; after storing it, "
                                                                       "mutating one stored position changed another (they are the same object)",
                                                             "argument": jsonable(orig)})
                              break
                      ev += 1
              # 2. copy-out: (), values(), items(), slices, iteration results are plain and detached
              before = snapshot()
              outs = [x()]
              if is_list:
                  outs += [x[:], list(reversed(x))]
              else:
                  outs += [list(x.values()), [list(p) for p in x.items()]]
              for o in outs:
                  for c in containers_in(o):
                      if type(c) not in (dict, list):
                          res["oracle_failures"].append({"oracle": "C16-plain", "cls": cls.__name__, "detail": f"result contains {type(c).__name__}", "case": i})
                  if not any(is_synced(e) for e in (o if isinstance(o, list) else o.values())):
                      scribble(o, g)
              deep = x()

              def find_synced(v, path=()):
                  if is_synced(v):
                      return path
                  if isinstance(v, dict):
                      for k_, x_ in v.items():
                          r_ = find_synced(x_, path + (k_,))
                          if r_ is not None:
                              return r_
                  elif isinstance(v, (list, tuple)):
                      for i_, x_ in enumerate(v):
                          r_ = find_synced(x_, path + (i_,))
                          if r_ is not None:
                              return r_
                  return None
              for what_, val_ in [("()", deep)] + ([("values()", list(x.values())), ("items()", [list(p_) for p_ in x.items()])] if not is_list else [("[:]", x()[:])]):
                  sp = find_synced(val_)
                  if sp is not None:
                      res["oracle_failures"].append({"oracle": "C16-plain", "cls": cls.__name__, "case": i,
                                                     "detail": f"the result of {what_} contains a live synced collection at {sp}: mutating it writes through"})
              for c in containers_in(deep):
                  if type(c) not in (dict, list):
                      res["oracle_failures"].append({"oracle": "C16-plain", "cls": cls.__name__, "detail": f"() contains {type(c).__name__} below the top level", "case": i})
              scribble(deep, g)
              check("copy-out", before, "mutating the result of () / values() / items() changed the collection")
              ev += 1
              # 3. removed values: pop / popitem / del
              live = [(n_, p) for n_, p in walk(x) if p]
              if live:
                  node, path = g.r.choice(live)
                  parent = x
                  for k in path[:-1]:
                      parent = raw_data(parent)[k]
                  k = path[-1]
                  how = g.r.choice(["pop", "del", "popitem"] if not isinstance(raw_data(parent), list) else ["pop", "del"])
                  try:
                      if how == "pop":
                          removed = parent.pop(k)
                      elif how == "del":
                          removed = node
                          del parent[k]
                      else:
                          removed = parent.popitem()[1]
                      before = snapshot()
                      if is_synced(removed):
                          if isinstance(raw_data(removed), list):
                              removed.append("after-removal")
                          else:
                              removed["after_removal"] = 1
                      else:
                          scribble(removed, g)
                      check("removed", before, f"mutating a value removed by {how} changed the collection")
                      ev += 1
                  except (KeyError, IndexError):
                      pass
              # 4. assigning a synced child elsewhere stores an independent copy
              live = [(n_, p) for n_, p in walk(x) if p]
              if live:
                  node, path = g.r.choice(live)
                  try:
                      if is_list:
                          x.append(node)
                          copy_pos = len(raw_data(x)) - 1
                      else:
                          x["copy_of_child"] = node
                          copy_pos = "copy_of_child"
                      st3 = Store(ns, cls, tmp, f"c16_{i}_c")
                      other = st3.make()
                      if is_list:
                          other.append(node)
                      else:
                          other["c"] = node
                      other_before = copy.deepcopy(other._to_base())
                      before = snapshot()
                      # mutate the copy inside x: the original position must not change, and vice versa
                      cp = raw_data(x)[copy_pos]
                      orig_before = copy.deepcopy(node._to_base())
                      if isinstance(raw_data(cp), list):
                          cp.append("in-copy")
                      else:
                          cp["in_copy"] = 1
                      if not strict_eq(node._to_base(), orig_before):
                          res["oracle_failures"].append({"oracle": "C16-assign", "cls": cls.__name__, "case": i,
                                                         "detail": "mutating the assigned copy changed the original child"})
                      if isinstance(raw_data(node), list):
                          node.append("in-original")
                      else:
                          node["in_original"] = 1
                      if not strict_eq(other._to_base(), other_before) or not strict_eq(other(), other_before):
                          res["oracle_failures"].append({"oracle": "C16-assign", "cls": cls.__name__, "case": i,
                                                         "detail": "mutating the original child changed the copy stored in another collection"})
                      ev += 1
                  except Exception as e:  # noqa
                      res["oracle_failures"].append({"oracle": "C16-assign", "cls": cls.__name__, "case": i, "detail": f"assigning a synced child raised {type(e).__name__}: {e}"})
              # 5. update()/reset() given a LIVE synced collection for a key that already holds a nested collection of the same
              #    class (same tree or another collection): the stored value is an independent copy
              if not is_list:
                  try:
                      x.reset({"p": {"v": [1]}, "q": {"v": [2], "w": 1}})
                      src_kind = g.r.choice(["same-tree", "other-collection"])
                      if src_kind == "same-tree":
                          src = x["q"]
                      else:
                          st5 = Store(ns, cls, tmp, f"c16_{i}_e")
                          o5 = st5.make()
                          o5.reset({"q": {"v": [2], "w": 1}})
                          src = o5["q"]
                      how5 = g.r.choice(["update", "update_kw", "reset"])
                      if how5 == "update":
                          x.update({"p": src})
                      elif how5 == "update_kw":
                          x.update(p=src)
                      else:
                          x.reset({"p": src, "q": {"v": [2], "w": 1}})
                      if x["p"] is src:
                          res["oracle_failures"].append({"oracle": "C16-assign", "cls": cls.__name__, "case": i, "seed": seed,
                                                         "detail": f"{how5}() given a live nested collection ({src_kind}) for a key that already held one stored the very same object"})
                      else:
                          src_before = copy.deepcopy(deep_plain(src))
                          x["p"]["only_in_copy"] = 1
                          if not strict_eq(deep_plain(src), src_before):
                              res["oracle_failures"].append({"oracle": "C16-assign", "cls": cls.__name__, "case": i, "seed": seed,
                                                             "detail": f"{how5}() with a live nested collection ({src_kind}): mutating the stored value changed the source"})
                      ev += 1
                  except Exception as e_:  # noqa
                      res["oracle_failures"].append({"oracle": "C16-assign", "cls": cls.__name__, "case": i, "detail": f"update/reset with a live nested collection raised {type(e_).__name__}: {e_}"})
              key = f"{cls.__name__}:{entry}"
              res["stats"][key] = res["stats"].get(key, 0) + 1
              if len(res["samples"]) < 2:
                  res["samples"].append({"class": cls.__name__, "entry_point": entry, "argument": jsonable(orig)})
    finally:
        shutil.rmtree(tmp, ignore_errors=True)
    res.update(evaluations=ev, distinct_nontrivial=len(res["stats"]), traces=0,
               rule="(class, entry point) pairs with a random nested argument: the argument, every returned container, every removed value "
                    "and every assigned copy is mutated recursively and collection + backend are re-read; distinct = (class, entry point)")
    return res


def strict_eq_m(a, b):
    if a is MISSING or b is MISSING:
        return a is b
    return strict_eq(a, b)


# ------------------------------------------------------------------------------------------ C18
KEY_POOL = ["a", "b", "zz", "x1", "_x1", "_private", "_", "data", "name", "keys", "update", "pop", "get", "clear", "reset", "filename", "buffered",
            "_data", "_root", "_filename", "_load", "_save", "_validate", "_update", "_suspend_sync", "_load_and_save",
            "_lock_and_save", "_name", "registry", "__class__", "__dict__", "__x", "__len__", "not an identifier", "", "1a", "é"]


def attr_classes(ns):
    cj = ns.cj
    return [cj.JSONAttrDict, cj.BufferedJSONAttrDict, cj.MemoryBufferedJSONAttrDict]


def attr_tables(ns):
    """Per attr class: protected keys, class attributes, instance attributes after a tour of the API."""
    rows = []
    tmp = tempfile.mkdtemp(prefix="verif_c18t_")
    try:
        for cls in attr_classes(ns):
            x = cls(os.path.join(tmp, cls.__name__ + ".json"))
            inst = set(vars(x))
            x["a"] = {"b": [1, {"c": 2}]}
            x.a.b.append(3)
            x(); len(x); list(x); x.get("a"); x.update(z=1); x.setdefault("s", 1); x.pop("s"); "a" in x; x == {}; repr(x)
            x.reset({"a": {"b": 1}})
            if hasattr(x, "buffered"):
                with x.buffered:
                    x["q"] = 1
                with cls.buffer_backend():
                    x["q"] = 2
            x.filename = os.path.join(tmp, cls.__name__ + "2.json")
            x["w"] = 1
            child = x["a"]
            inst |= set(vars(x)) | set(vars(child))
            x.clear()
            inst |= set(vars(x))
            rows.append({"cls": cls.__name__, "protected": sorted(cls._PROTECTED_KEYS), "instance_attrs": sorted(inst),
                         "class_attrs": sorted(a for a in dir(cls))})
    finally:
        shutil.rmtree(tmp, ignore_errors=True)
    return rows


def run_c18(prop, tier, seed):
    ns = import_library()
    g = G(seed)
    res = {"name": "C18-oracle+K-attr", "model_mismatches": [], "oracle_failures": [], "samples": [], "stats": {}}
    tmp = tempfile.mkdtemp(prefix="verif_c18_")
    ev = 0
    cases, descr = [], []
    try:
        rows = attr_tables(ns)
        # generated obligation: instance attributes are covered by _PROTECTED_KEYS (else an item could shadow an internal)
        for r in rows:
            missing = [a for a in r["instance_attrs"] if a not in r["protected"] and not a.startswith("__")]
            term = "(covered [%s] [%s])" % (";".join(c_str(a) for a in r["protected"]), ";".join(c_str(a) for a in r["instance_attrs"] if not a.startswith("__")))
            txt = coq_eval(HEADER_ATTR, term)
            ok = re.search(r"=\s*true", txt) is not None
            res["gen_obligations"] = res.get("gen_obligations", 0) + (1 if ok else 0)
            if not ok:
                res["model_mismatches"].append({"obligation": "protected_cover_instance_attrs", "class": r["cls"], "uncovered": missing})
        # 1. family closure after arbitrary operations and reloads (all classes)
        nfam = 36 if tier == "quick" else 1500
        from synced_collections import SyncedCollection
        from synced_collections.data_types.attr_dict import AttrDict
        for i in range(nfam):
            cls = ns.all_classes[(seed + i) % len(ns.all_classes)]
            st = Store(ns, cls, tmp, f"fam_{i}")
            x = st.make()
            kind = "list" if isinstance(raw_data(x), list) else "dict"
            for _ in range(6):
                r = g.r.random()
                try:
                    if r < 0.3:
                        st.write(g.container(kind, 3))
                        x()
                    elif kind == "list":
                        g.r.choice([lambda: x.append(g.value(3)), lambda: x.extend(g.vlist(2)), lambda: x.reset(g.vlist(3)),
                                    lambda: x.insert(0, g.value(3)), lambda: x.__setitem__(slice(0, 1), g.vlist(2))])()
                    else:
                        g.r.choice([lambda: x.__setitem__(g.key(), g.value(3)), lambda: x.update(g.vdict(3)), lambda: x.reset(g.vdict(3)),
                                    lambda: x.setdefault(g.key(), g.value(3))])()
                except Exception:  # noqa
                    pass
                if g.r.random() < 0.35:
                    # store a live child of ANOTHER family: it must be converted to this root's family
                    others = [c for c in ns.json_classes if c is not cls and c.__name__.endswith("Dict")]
                    oc = g.r.choice(others)
                    ost = Store(ns, oc, tmp, f"fam_{i}_o{_}")
                    oth = ost.make()
                    oth["src"] = {"deep": [1, {"z": 2}]}
                    try:
                        if kind == "list":
                            x.append(oth["src"])
                        else:
                            x["foreign"] = oth["src"]
                    except Exception:  # noqa
                        pass
                backend = type(x)._backend
                root_attr = any(issubclass(c, AttrDict) for c in SyncedCollection.registry[backend])
                for node, path in walk(x):
                    data = raw_data(node)
                    vals = data.values() if isinstance(data, dict) else data
                    for v in vals:
                        if isinstance(v, (dict, list, tuple)) and not is_synced(v):
                            res["oracle_failures"].append({"oracle": "C18-family", "cls": cls.__name__, "detail": f"raw {type(v).__name__} stored under {path}"})
                    if type(node)._backend != backend:
                        res["oracle_failures"].append({"oracle": "C18-family", "cls": cls.__name__, "detail": f"node at {path} is {type(node).__name__} ({type(node)._backend})"})
                    if isinstance(data, dict) and root_attr != isinstance(node, AttrDict):
                        res["oracle_failures"].append({"oracle": "C18-family", "cls": cls.__name__, "detail": f"dict node at {path} is {type(node).__name__}: attribute access {'lost' if root_attr else 'gained'}"})
                ev += 1
                # mutating the deepest node persists
                nodes = list(walk(x))
                node, path = nodes[-1]
                try:
                    if isinstance(raw_data(node), list):
                        node.append("deep")
                    else:
                        node["deep"] = 1
                    cur = st.read()
                    for k in path:
                        cur = cur[k]
                    if not (cur[-1] == "deep" if isinstance(cur, list) else cur.get("deep") == 1):
                        res["oracle_failures"].append({"oracle": "C18-persist", "cls": cls.__name__, "detail": f"mutation at {path} did not reach the backend"})
                except Exception as e:  # noqa
                    res["oracle_failures"].append({"oracle": "C18-persist", "cls": cls.__name__, "detail": f"mutation at {path} raised {type(e).__name__}: {e}"})
        # 1b. objects of two families (plain / attribute access) of one buffering strategy bound to the SAME file, used in
        #     overlapping buffered contexts: each keeps its own family at every depth and its children belong to it
        cj = ns.cj
        pairs = [(cj.BufferedJSONDict, cj.BufferedJSONAttrDict), (cj.MemoryBufferedJSONDict, cj.MemoryBufferedJSONAttrDict),
                 (cj.BufferedJSONList, cj.BufferedJSONAttrList), (cj.MemoryBufferedJSONList, cj.MemoryBufferedJSONAttrList),
                 (cj.JSONDict, cj.MemoryBufferedJSONAttrDict), (cj.BufferedJSONDict, cj.MemoryBufferedJSONAttrDict)]
        for pi, (ca, cb) in enumerate(pairs):
            for first in ("plain-first", "attr-first"):
                for ctxkind in ("class", "object"):
                    fn_ = os.path.join(tmp, f"two_{pi}_{first}_{ctxkind}.json")
                    is_list = ca.__name__.endswith("List")
                    init = [{"a": {"b": 1}, "l": [1, {"c": 2}]}] if is_list else {"a": {"b": 1}, "l": [1, {"c": 2}]}
                    with open(fn_, "w") as fh:
                        json.dump(init, fh)
                    pa, pb = ca(fn_), cb(fn_)
                    ev += 1
                    try:
                        with contextlib.ExitStack() as stack:
                            for o in (pa, pb):
                                if hasattr(type(o), "buffer_backend"):
                                    stack.enter_context(type(o).buffer_backend() if ctxkind == "class" else o.buffered)
                            for o in ((pa, pb) if first == "plain-first" else (pb, pa)):
                                o()
                            for o in (pa, pb):
                                fam = type(o)._backend
                                want_attr = isinstance(o, AttrDict) or type(o).__name__.endswith("AttrList")
                                for node, path in walk(o):
                                    if type(node)._backend != fam or (isinstance(raw_data(node), dict) and want_attr != isinstance(node, AttrDict)):
                                        res["oracle_failures"].append({"oracle": "C18-family", "cls": type(o).__name__, "detail":
                                                                       f"two families on one file ({ca.__name__} + {cb.__name__}, {first}, {ctxkind} contexts): "
                                                                       f"node at {path} of the {type(o).__name__} object is a {type(node).__name__}"})
                                    root_ = getattr(node, "_root", None)
                                    if path and root_ is not o:
                                        res["oracle_failures"].append({"oracle": "C18-family", "cls": type(o).__name__, "detail":
                                                                       f"two families on one file ({ca.__name__} + {cb.__name__}, {first}, {ctxkind} contexts): "
                                                                       f"node at {path} of the {type(o).__name__} object has another object as its root"})
                            top = pb[0] if is_list else pb
                            if top.a.b != 1:
                                res["oracle_failures"].append({"oracle": "C18-attr", "cls": cb.__name__, "detail": "attribute read through the attribute-access object failed"})
                            top.a.c = 5
                        with open(fn_) as fh:
                            disk = json.load(fh)
                        dtop = disk[0] if is_list else disk
                        if dtop["a"].get("c") != 5:
                            res["oracle_failures"].append({"oracle": "C18-persist", "cls": cb.__name__, "detail":
                                                           f"two families on one file ({ca.__name__} + {cb.__name__}, {first}, {ctxkind} contexts): obj.a.c = 5 did not reach the file: {disk}"})
                    except Exception as e:  # noqa
                        res["oracle_failures"].append({"oracle": "C18-family", "cls": cb.__name__, "detail":
                                                       f"two families on one file ({ca.__name__} + {cb.__name__}, {first}, {ctxkind} contexts): {type(e).__name__}: {e}"})
                    finally:
                        for c_ in (ca, cb):
                            if hasattr(c_, "_buffer"):
                                reset_buffer_class(c_)
        # 2. attribute access = item access, at depth 0..2, key pool x {get,set,del}
        for r in rows:
            cls = getattr(ns.cj, r["cls"])
            prot, cattrs, iattrs = set(r["protected"]), set(r["class_attrs"]), set(r["instance_attrs"])
            for depth in (0, 1, 2):
                for name in KEY_POOL:
                    for verb in ("get", "set", "del"):
                        for present in (True, False):
                            twins = []
                            for t in range(2):
                                root = cls(os.path.join(tmp, f"{r['cls']}_{depth}_{t}.json"))
                                root.reset({"lvl": {"lvl": {}}})
                                h = root
                                for _ in range(depth):
                                    h = h["lvl"]
                                if present and "." not in name:
                                    try:
                                        h[name] = {"v": 1}
                                    except Exception:  # noqa
                                        pass
                                twins.append((root, h))
                            (ra, ha), (ri, hi) = twins

                            def do(h, syntax):
                                try:
                                    if verb == "get":
                                        v = getattr(h, name) if syntax == "attr" else h[name]
                                        return ("ok", v._to_base() if is_synced(v) else ("<object attribute>" if callable(v) or not isinstance(v, (int, str, float, bool, type(None), dict, list)) else v))
                                    if verb == "set":
                                        setattr(h, name, [7]) if syntax == "attr" else h.__setitem__(name, [7])
                                        return ("ok", None)
                                    delattr(h, name) if syntax == "attr" else h.__delitem__(name)
                                    return ("ok", None)
                                except AttributeError:
                                    return ("err", "missing")
                                except KeyError:
                                    return ("err", "missing")
                                except Exception as e:  # noqa
                                    return ("err", type(e).__name__)
                            ev += 1
                            special = name in prot or name.startswith("__") or name in cattrs or name in iattrs
                            if verb == "get" and present and "." not in name and not special:
                                # another object bound to the same file changes / deletes the key: attribute reads
                                # must reflect the backend exactly like item reads
                                delete_it = g.r.random() < 0.5
                                for t_, (root_, h_) in enumerate(twins):
                                    other_ = cls(os.path.join(tmp, f"{r['cls']}_{depth}_{t_}.json"))
                                    ho_ = other_
                                    for _d in range(depth):
                                        ho_ = ho_["lvl"]
                                    try:
                                        if delete_it:
                                            del ho_[name]
                                        else:
                                            ho_[name] = {"v": 2}
                                    except Exception:  # noqa
                                        pass
                            ra_res = do(ha, "attr")
                            ri_res = do(hi, "item")
                            # observed route of the attribute syntax (only decidable when the item is present)
                            if present and "." not in name and name in raw_data(hi if verb != "set" else hi):
                                data_a = raw_data(ha)
                                if verb == "get":
                                    obs = "RAttrError" if ra_res == ("err", "missing") else ("RItem" if ra_res in (("ok", {"v": 1}), ("ok", {"v": 2})) else "RObject")
                                    if ra_res == ("err", "missing") and not name.startswith("__"):
                                        obs = None       # the key was deleted through the other object: not decidable
                                elif verb == "set":
                                    obs = "RItem" if (name in data_a and is_synced(data_a[name]) and data_a[name]._to_base() == [7]) else "RObject"
                                else:
                                    obs = "RItem" if name not in data_a else "RObject"
                                if obs is not None and not (verb in ("set", "del") and ra_res[0] == "err"):
                                    cases.append("(%s, %s, %s, %s, %s)" % (
                                        {"get": "VGet", "set": "VSet", "del": "VDel"}[verb], c_str(name),
                                        "true" if name in prot else "false", "true" if (name in cattrs or name in iattrs) else "false", obs))
                                    descr.append({"class": r["cls"], "name": name, "verb": verb, "observed_route": obs, "attr_result": jsonable(ra_res)})
                            if not special:
                                if ra_res != ri_res or not strict_eq(ra._to_base(), ri._to_base()):
                                    res["oracle_failures"].append({"oracle": "C18-attr-eq-item", "cls": r["cls"], "depth": depth, "key": name, "verb": verb, "present": present,
                                                                   "attr": jsonable(ra_res), "item": jsonable(ri_res), "detail": "obj.k and obj['k'] behave differently"})
                            elif name in prot or name.startswith("__"):
                                # protected names address the object itself: attribute syntax never touches the data
                                if verb == "get" and present and name in prot and (name in iattrs or name in cattrs) and ra_res == ("ok", {"v": 1}):
                                    res["oracle_failures"].append({"oracle": "C18-protected", "cls": r["cls"], "key": name, "depth": depth,
                                                                   "detail": f"obj.{name} at depth {depth} returned the ITEM stored under that protected name although objects of this class have an attribute of that name"})
                                if verb in ("set", "del") and name in ("_data", "_root", "_suspend_sync", "_load_and_save", "_lock_and_save", "_filename", "filename", "buffered"):
                                    continue        # would corrupt the object on purpose; not part of the property
                                if verb == "get" and not strict_eq(ra._to_base(), ri._to_base()) and not present:
                                    res["oracle_failures"].append({"oracle": "C18-protected", "cls": r["cls"], "key": name, "detail": "reading a protected attribute changed the data"})
                                # storing a protected name through item access never disturbs the internals
                                if verb == "set" and "." not in name:
                                    try:
                                        hi2 = hi
                                        hi2[name] = 5
                                        ok = hi2[name] == 5 and ri()["lvl" if depth else name] is not None
                                        hi2["after"] = 1
                                        if ri._to_base() != ri():
                                            ok = False
                                        if not ok:
                                            raise AssertionError("object unusable")
                                    except Exception as e:  # noqa
                                        res["oracle_failures"].append({"oracle": "C18-protected", "cls": r["cls"], "key": name, "depth": depth,
                                                                       "detail": f"storing the protected name as an item disturbed the object: {type(e).__name__}: {e}"})
            res["stats"][r["cls"]] = {"protected": len(r["protected"]), "instance_attrs": len(r["instance_attrs"])}
        # K-attr: the routing model agrees with what was observed to be special
        bad = run_case_files(HEADER_ATTR, "(verb * str * bool * bool * route)", "check_route", cases, shard=400)
        for b in bad[:5]:
            res["model_mismatches"].append({"correspondence": "K-attr (Attr.v routing)", "case": descr[b]})
        res["samples"] = [{"class": rows[0]["cls"], "protected": rows[0]["protected"][:8], "instance_attrs": rows[0]["instance_attrs"][:8]}]
    finally:
        shutil.rmtree(tmp, ignore_errors=True)
    res.update(evaluations=ev, distinct_nontrivial=len(KEY_POOL) * 3 * 3, traces=len(cases),
               rule="family closure: every node of every tree after random operations and reloads, all 18 classes; attribute access: "
                    "key pool (protected names, method names, dunders, non-identifiers, ordinary) x {get,set,del} x depth 0..2 x present/absent, "
                    "twin objects driven by attribute and by item syntax; distinct = (key, verb, depth)")
    return res


if __name__ == "__main__":
    import sys
    which = sys.argv[1] if len(sys.argv) > 1 else "c16"
    r = (run_c16 if which == "c16" else run_c18)("C16", "quick", 1)
    print(json.dumps({k: v for k, v in r.items() if k not in ("samples", "stats")}, indent=1, default=repr)[:5000])


# ------------------------------------------------------------------------------------------ C03: key order
def run_c03_order(prop, tier, seed):
    """Key order is observable (iteration, popitem) and C03 leaves it unspecified only after bulk updates: keys inserted one
    at a time, in a non-alphabetical order, keep that order - also for an object opened on the resource afterwards."""
    import random
    ns = import_library()
    r = random.Random(seed)
    tmp = tempfile.mkdtemp(prefix="verif_c03o_")
    res = {"name": "C03-key-order", "model_mismatches": [], "oracle_failures": [], "samples": [], "stats": {}}
    ev = 0
    n = 2 if tier == "quick" else 12
    try:
        for cls in ns.all_classes:
            for rep in range(n):
                st = Store(ns, cls, tmp, f"o_{cls.__name__}_{rep}")
                x = st.make()
                is_list = isinstance(raw_data(x), list)
                keys = r.sample(["zeta", "alpha", "mid", "b", "Z", "a", "y10", "y9", ""], r.choice([3, 4, 6]))
                if sorted(keys) == keys:
                    keys.reverse()
                where = r.choice(["root", "nested"]) if not is_list else "in-list"
                if where == "root":
                    tgt, nav = x, (lambda o: o)
                elif where == "nested":
                    x["holder"] = {}
                    tgt, nav = x["holder"], (lambda o: o["holder"])
                else:
                    x.append({})
                    tgt, nav = x[0], (lambda o: o[0])
                for k in keys:
                    tgt[k] = r.choice([1, "v", [1], {"n": 1}])
                fresh = nav(st.make())
                for who, h in (("the writing object", tgt), ("an object opened afterwards", fresh)):
                    ev += 1
                    got = list(h.keys())
                    if got != keys:
                        res["oracle_failures"].append({"oracle": "C03-key-order", "cls": cls.__name__, "where": where, "inserted": keys,
                                                       "detail": f"keys() through {who} is {got}: keys set one at a time do not keep their order"})
                        break
                    got = [k for k, _ in h.items()]
                    if got != keys or list(iter(h)) != keys:
                        res["oracle_failures"].append({"oracle": "C03-key-order", "cls": cls.__name__, "where": where, "inserted": keys,
                                                       "detail": f"items()/iteration through {who} is {got}"})
                        break
                else:
                    k, _ = fresh.popitem()
                    ev += 1
                    if k != keys[-1]:
                        res["oracle_failures"].append({"oracle": "C03-result", "cls": cls.__name__, "where": where, "inserted": keys,
                                                       "detail": f"popitem() through an object opened afterwards removed {k!r}; a built-in dict removes the last inserted key {keys[-1]!r}"})
                key = f"{cls.__name__}:{where}"
                res["stats"][key] = res["stats"].get(key, 0) + 1
                if len(res["samples"]) < 2:
                    res["samples"].append({"class": cls.__name__, "where": where, "keys": keys})
    finally:
        shutil.rmtree(tmp, ignore_errors=True)
    res.update(evaluations=ev, distinct_nontrivial=len(res["stats"]), traces=0,
               rule="per class and position (root, nested dict, dict in a list): keys inserted one at a time in a non-sorted order, "
                    "then keys/items/iteration/popitem through the writer and through a freshly opened object; distinct = (class, position)")
    return res


# ------------------------------------------------------------------------------------------ C01: a save that fails
def run_c01_faults(prop, tier, seed):
    """C01 at the fault boundary: when the write to the backend fails (no space, permission, directory gone), a mutator
    must not return normally - 'returned' means 'the backend holds the new content'."""
    import errno
    import random
    ns = import_library()
    r = random.Random(seed)
    tmp = tempfile.mkdtemp(prefix="verif_c01f_")
    res = {"name": "C01-save-faults", "model_mismatches": [], "oracle_failures": [], "samples": [], "stats": {}}
    ev = 0
    LM = {"setitem": lambda t: t.__setitem__(0, 5), "setitem_c": lambda t: t.__setitem__(0, [{"c": 1}]), "delitem": lambda t: t.__delitem__(0),
          "insert": lambda t: t.insert(0, 5), "append": lambda t: t.append({"n": [1]}), "extend": lambda t: t.extend([5, 6]),
          "iadd": lambda t: t.__iadd__([5]), "remove": lambda t: t.remove(1), "pop": lambda t: t.pop(), "reverse": lambda t: t.reverse(),
          "clear": lambda t: t.clear(), "reset": lambda t: t.reset([3]), "setslice": lambda t: t.__setitem__(slice(0, 1), [8, 9]),
          "delslice": lambda t: t.__delitem__(slice(0, 1))}
    DM = {"setitem": lambda t: t.__setitem__("q", 5), "setitem_c": lambda t: t.__setitem__("q", {"c": [1]}), "delitem": lambda t: t.__delitem__("a"),
          "pop": lambda t: t.pop("a"), "popitem": lambda t: t.popitem(), "update": lambda t: t.update({"u": 1}),
          "update_kw": lambda t: t.update(w=2), "setdefault": lambda t: t.setdefault("sd", {"c": 1}), "clear": lambda t: t.clear(),
          "reset": lambda t: t.reset({"r": 1})}
    json_classes = [c for c in ns.all_classes if c.__module__.endswith("collection_json")]
    real_replace = os.replace
    try:
        n = 0
        for cls in json_classes:
            is_list = cls.__name__.endswith("List")
            for where in ("root", "nested"):
                init = ([1, 2, [1, 2, {"a": 1}], {"a": 1, "b": 2}] if is_list else {"a": 1, "b": 2, "l": [1, 2, 3], "d": {"a": 1, "b": 2}})
                kinds = ["list", "dict"] if where == "nested" else ["list" if is_list else "dict"]
                for kind in kinds:
                    for meth, fn in (LM if kind == "list" else DM).items():
                        for fault in ("replace-ENOSPC", "dir-removed", "replace-EIO-once-then-ok"):
                            if tier == "quick" and fault == "replace-EIO-once-then-ok" and r.random() < 0.6:
                                continue
                            n += 1
                            d = os.path.join(tmp, f"f{n}")
                            os.makedirs(d)
                            fn_ = os.path.join(d, "doc.json")
                            with open(fn_, "w") as fh:
                                json.dump(init, fh)
                            x = cls(fn_)
                            tgt = x
                            plain = copy.deepcopy(init)
                            ptgt = plain
                            if where == "nested":
                                key = (2 if kind == "list" else 3) if is_list else ("l" if kind == "list" else "d")
                                tgt, ptgt = x[key], plain[key]
                            try:
                                fn(ptgt)
                            except Exception:  # noqa
                                continue
                            calls = []
                            if fault == "dir-removed":
                                shutil.rmtree(d)
                            else:
                                def boom(a, b, _calls=calls, _code=(errno.ENOSPC if "ENOSPC" in fault else errno.EIO)):
                                    _calls.append(1)
                                    if len(_calls) == 1:
                                        raise OSError(_code, os.strerror(_code))
                                    return real_replace(a, b)
                                os.replace = boom
                            raised = None
                            try:
                                fn(tgt)
                            except BaseException as e:  # noqa
                                raised = type(e).__name__
                            finally:
                                os.replace = real_replace
                            ev += 1
                            try:
                                with open(fn_) as fh:
                                    on_disk = json.load(fh)
                            except FileNotFoundError:
                                on_disk = MISSING
                            if raised is None and (on_disk is MISSING or not strict_eq(on_disk, plain)):
                                res["oracle_failures"].append({"oracle": "C01-save-fault", "cls": cls.__name__, "where": where, "method": meth, "fault": fault,
                                                               "detail": f"{meth} on a {where} {kind} returned normally although the write failed ({fault}): "
                                                                         f"the backend holds {jsonable(None if on_disk is MISSING else on_disk)}, the collection's content is {jsonable(plain)}"})
                            key_ = f"{cls.__name__}:{where}:{kind}:{meth}"
                            res["stats"][key_] = res["stats"].get(key_, 0) + 1
                            if len(res["samples"]) < 2:
                                res["samples"].append({"class": cls.__name__, "where": where, "method": meth, "fault": fault, "raised": raised})
    finally:
        os.replace = real_replace
        shutil.rmtree(tmp, ignore_errors=True)
    res.update(evaluations=ev, distinct_nontrivial=len(res["stats"]), traces=0,
               rule="(JSON class, root/nested position, mutator method, fault in the write path): the mutator either raises or the file holds the new content; "
                    "distinct = (class, position, kind, method)")
    return res


# ------------------------------------------------------------------------------------------ C14: a reader exactly at the rename
def run_c14_reader_at_rename(prop, tier, seed):
    """A reader on ANOTHER object bound to the file is run at the two instants no Python-level scheduler can reach: right
    before and right after the writer's os.replace (simulated by wrapping os.replace).  It must see the old or the new
    content, never an error or an impossible state."""
    ns = import_library()
    cj = ns.cj
    tmp = tempfile.mkdtemp(prefix="verif_c14r_")
    res = {"name": "C14-reader-at-rename", "model_mismatches": [], "oracle_failures": [], "samples": [], "stats": {}}
    ev = 0
    real_replace = os.replace
    try:
        classes = [c for c in ns.all_classes if c.__module__.endswith("collection_json")]
        for ci, cls in enumerate(classes):
            is_list = cls.__name__.endswith("List")
            for size in ("small", "large"):
                for ctx in (["none"] + (["obj", "cls"] if hasattr(cls, "buffer_backend") else [])):
                    fn = os.path.join(tmp, f"r{ci}_{size}_{ctx}.json")
                    pad = "x" * (20000 if size == "large" else 5)
                    old = [1, pad] if is_list else {"a": 1, "pad": pad}
                    with open(fn, "w") as fh:
                        json.dump(old, fh)
                    w, r = cls(fn), cls(fn)
                    w(); r()
                    seen = []

                    def spy(src, dst, _r=r, _seen=seen):
                        for when in ("before", "after"):
                            if when == "after":
                                real_replace(src, dst)
                            try:
                                _seen.append((when, "ok", copy.deepcopy(_r())))
                            except Exception as e:  # noqa
                                _seen.append((when, "err", f"{type(e).__name__}: {e}"))
                    cj.os.replace = spy
                    os.replace = spy
                    try:
                        with contextlib.ExitStack() as stack:
                            if ctx == "obj":
                                stack.enter_context(w.buffered)
                            elif ctx == "cls":
                                stack.enter_context(cls.buffer_backend())
                            if is_list:
                                w.append({"new": 1})
                            else:
                                w["new"] = {"n": 1}
                    finally:
                        os.replace = real_replace
                        cj.os.replace = real_replace
                        if hasattr(cls, "_buffer"):
                            reset_buffer_class(cls)
                    new = (old + [{"new": 1}]) if is_list else dict(old, new={"n": 1})
                    ev += len(seen)
                    if not seen:
                        res["model_mismatches"].append({"correspondence": "C14 reader probe", "detail": f"{cls.__name__}/{ctx}: the save did not go through os.replace"})
                    for when, st_, val in seen:
                        if st_ == "err" or not (strict_eq(val, old) or strict_eq(val, new)):
                            res["oracle_failures"].append({"oracle": "C14-reader-at-rename", "cls": cls.__name__, "context": ctx, "document": size,
                                                           "detail": f"a reader on another object, run right {when} the writer's rename, got {str(val)[:200]}"})
                    key = f"{cls.__name__}:{ctx}:{size}"
                    res["stats"][key] = len(seen)
        res["samples"] = [{"class": classes[0].__name__, "reads": 2}]
    finally:
        os.replace = real_replace
        shutil.rmtree(tmp, ignore_errors=True)
    res.update(evaluations=ev, distinct_nontrivial=len(res["stats"]), traces=0,
               rule="(JSON class, context kind, document size): a second object reads right before and right after the writer's rename; distinct = the triple")
    return res


# ------------------------------------------------------------------------------------------ C11: arguments that are synced collections
def run_c11_foreign(prop, tier, seed):
    """The argument of an entry point is itself a LIVE synced collection of a family with weaker rules (a plain JSONDict /
    JSONList may hold dotted keys; the attribute-access families forbid them): it must be validated like plain data."""
    ns = import_library()
    cj = ns.cj
    tmp = tempfile.mkdtemp(prefix="verif_c11f_")
    res = {"name": "C11-synced-arguments", "model_mismatches": [], "oracle_failures": [], "samples": [], "stats": {}}
    ev = 0
    attr_dicts = [cj.JSONAttrDict, cj.BufferedJSONAttrDict, cj.MemoryBufferedJSONAttrDict]
    attr_lists = [cj.JSONAttrList, cj.BufferedJSONAttrList, cj.MemoryBufferedJSONAttrList]

    def dotted(o):
        if isinstance(o, dict):
            return any(("." in k if isinstance(k, str) else True) or dotted(v) for k, v in o.items())
        if isinstance(o, (list, tuple)):
            return any(dotted(v) for v in o)
        return False
    try:
        n = 0
        for depth in (0, 1, 2):
            payload = {"a.b": 1}
            for _ in range(depth):
                payload = {"lvl": [payload]}
            srcs = []
            sd = cj.JSONDict(os.path.join(tmp, f"src_d{depth}.json")); sd.reset({"root": payload, "r2": payload})
            sl = cj.JSONList(os.path.join(tmp, f"src_l{depth}.json")); sl.reset([payload, payload])
            srcs = [("root JSONDict", sd, "dict"), ("nested JSONDict", sd["root"], "dict"), ("root JSONList", sl, "list"), ("nested dict in a JSONList", sl[0], "dict")]
            for sname, src, skind in srcs:
                for cls in attr_dicts + attr_lists:
                    is_list = cls in attr_lists
                    entries = (["ctor", "append", "insert", "setitem", "extend", "iadd", "reset", "slice"] if is_list
                               else ["ctor", "setitem", "update", "update_kw", "setdefault", "reset", "setattr", "nested_setitem"])
                    for entry in entries:
                        n += 1
                        fn = os.path.join(tmp, f"t{n}.json")
                        with open(fn, "w") as fh:
                            json.dump([{"ok": 1}] if is_list else {"ok": {"x": 1}}, fh)
                        raised = None
                        x = None
                        try:
                            if entry == "ctor":
                                if (skind == "list") != is_list:
                                    continue
                                os.remove(fn)
                                x = cls(fn, data=src)
                            else:
                                x = cls(fn)
                                if entry == "append": x.append(src)
                                elif entry == "insert": x.insert(0, src)
                                elif entry == "setitem": (x.__setitem__(0, src) if is_list else x.__setitem__("k", src))
                                elif entry == "extend": x.extend([src])
                                elif entry == "iadd": x += [src]
                                elif entry == "slice": x[0:1] = [src]
                                elif entry == "reset":
                                    if (skind == "list") != is_list:
                                        x.reset([src] if is_list else {"k": src})
                                    else:
                                        x.reset(src)
                                elif entry == "update": x.update({"k": src})
                                elif entry == "update_kw": x.update(k=src)
                                elif entry == "setdefault": x.setdefault("fresh", src)
                                elif entry == "setattr": setattr(x, "k", src)
                                elif entry == "nested_setitem": x["ok"]["deep"] = src
                        except (TypeError, ValueError) as e:
                            raised = type(e).__name__
                        except Exception as e:  # noqa
                            raised = "OTHER:" + type(e).__name__
                        ev += 1
                        mem = None
                        try:
                            mem = deep_plain(x) if x is not None else None
                        except Exception:  # noqa
                            pass
                        disk = None
                        if os.path.exists(fn):
                            with open(fn) as fh:
                                try:
                                    disk = json.load(fh)
                                except Exception:  # noqa
                                    disk = None
                        if raised is None or (raised or "").startswith("OTHER") or dotted(mem) or dotted(disk):
                            res["oracle_failures"].append({"oracle": "C11-synced-argument", "cls": cls.__name__, "entry": entry, "source": sname, "depth": depth,
                                                           "detail": f"{entry} of {cls.__name__} given a {sname} holding a dotted key at depth {depth}: raised {raised}; "
                                                                     f"memory has a dotted key: {dotted(mem)}; file has a dotted key: {dotted(disk)}"})
                        key = f"{cls.__name__}:{entry}"
                        res["stats"][key] = res["stats"].get(key, 0) + 1
        res["samples"] = [{"class": "JSONAttrList", "entry": "append", "argument": "a live JSONDict holding {'a.b': 1}"}]
    finally:
        shutil.rmtree(tmp, ignore_errors=True)
    res.update(evaluations=ev, distinct_nontrivial=len(res["stats"]), traces=0,
               rule="(attribute-access class, entry point) x (root / nested JSONDict / JSONList holding a dotted key at depth 0..2) as the argument; distinct = (class, entry point)")
    return res
