import json, os, tempfile, sys, traceback, time
sys.path.insert(0, '/repo')
from synced_collections.backends.collection_json import *
from synced_collections.errors import *
d = tempfile.mkdtemp()
def fn(n): return os.path.join(d, n)
def store(f, data):
    with open(f, 'w') as fh: json.dump(data, fh)
    st = os.stat(f); os.utime(f, ns=(st.st_atime_ns, st.st_mtime_ns + 10_000_000))
def disk(f):
    try:
        with open(f) as fh: return json.load(fh)
    except FileNotFoundError: return 'MISSING'
def sec(t): print('\n===', t)
def attempt(label, thunk):
    try: print(label, thunk())
    except Exception as e: print(label, 'EXC', type(e).__name__, e, getattr(e,'files',None))

for D in [BufferedJSONDict, MemoryBufferedJSONDict]:
    sec(f'C06 {D.__name__}: reader flushed first')
    for order in ['reader_first_touch', 'writer_first_touch']:
        f = fn(D.__name__ + order + '.json'); store(f, {'a': 1})
        r = D(f); w = D(f)
        with D.buffer_backend():
            if order == 'reader_first_touch':
                r['a']           # reader touches buffer, registers
                w['b'] = 2
            else:
                w['b'] = 2
                r['a']
            print('  ', order, 'inside: r sees', r._data if False else None)
        print('  ', order, 'disk after exit', disk(f), ' flush order was popitem (LIFO)')
    # control which is flushed first: popitem pops last inserted. _buffered_collections[id]=self assigned on every access; dict keeps original insertion position.
    for first in ['r', 'w']:
        f = fn(D.__name__ + first + '2.json'); store(f, {'a': 1})
        r = D(f); w = D(f)
        with D.buffer_backend():
            if first == 'r':   # want r popped first => r inserted last
                w['b'] = 2; r['a']  # r reads AFTER write: its _data refreshed
            else:
                r['a']; w['b'] = 2  # r read BEFORE write: stale _data, popped last
        print('  flushed-first=', first, 'disk', disk(f))
    # reader reads before write, and is flushed first: need r inserted after w but r's read before w's write:
    f = fn(D.__name__ + '3.json'); store(f, {'a': 1})
    r = D(f); w = D(f)
    with D.buffer_backend():
        w['a']       # w registered first (read)
        r['a']       # r registered second, reads initial
        w['b'] = 2   # w writes; r stale
    print('  r stale & flushed first: disk', disk(f), 'r', r(), 'w', w())
    sec(f'C06 {D.__name__}: per-object contexts entered/exited together')
    f = fn(D.__name__ + '4.json'); store(f, {'a': 1})
    r = D(f); w = D(f)
    with r.buffered, w.buffered:
        r['a']; w['b'] = 2
        print('  inside r sees', r())
    print('  exit order w then r: disk', disk(f))
    store(f, {'a': 1})
    with w.buffered, r.buffered:
        r['a']; w['b'] = 2
    print('  exit order r then w: disk', disk(f))
    store(f, {'a': 1})
    with w.buffered, r.buffered:
        r['c'] = 3; w['b'] = 2
    print('  both write, exit r then w: disk', disk(f), r(), w())
