import json, os, tempfile, sys, traceback, time
sys.path.insert(0, '/repo')
from synced_collections.backends.collection_json import *
from synced_collections.errors import *
d = tempfile.mkdtemp()
def fn(n): return os.path.join(d, n)
def store(f, data):
    with open(f, 'w') as fh: json.dump(data, fh)
    st = os.stat(f); os.utime(f, ns=(st.st_atime_ns, st.st_mtime_ns + 10_000_000))
def disk(f):
    try:
        with open(f) as fh: return json.load(fh)
    except FileNotFoundError: return 'MISSING'
def sec(t): print('\n===', t)
def attempt(label, thunk):
    try: print(label, thunk())
    except Exception as e: print(label, 'EXC', type(e).__name__, e, {os.path.basename(k): type(v).__name__ for k,v in getattr(e,'files',{}).items()})

for D in [BufferedJSONDict, MemoryBufferedJSONDict]:
    sec(f'C07 {D.__name__}: mix of conflict/clean/readonly in one backend-wide flush')
    fs = {n: fn(D.__name__ + n + '.json') for n in ['conf', 'clean', 'ro_ext', 'ro', 'conf2']}
    for f in fs.values(): store(f, {'v': 0})
    objs = {n: D(f) for n, f in fs.items()}
    def t():
        with D.buffer_backend():
            objs['conf']['x'] = 1
            objs['clean']['x'] = 1
            objs['ro_ext']['v']
            objs['ro']['v']
            objs['conf2']['x'] = 2
            store(fs['conf'], {'ext': 1}); store(fs['ro_ext'], {'ext': 1}); store(fs['conf2'], {'ext': 2})
    attempt('  exit:', t)
    for n, f in fs.items(): print('   ', n, 'disk', disk(f), 'obj', objs[n]())
    print('   size', D.get_current_buffer_size(), 'buffer', list(D._buffer), 'bc', D._buffered_collections, 'buffered?', D.backend_is_buffered())
    sec(f'C07 {D.__name__}: per-object ctx conflict')
    f = fn(D.__name__ + 'po.json'); store(f, {'v': 0}); o = D(f)
    def t():
        with o.buffered:
            o['x'] = 1
            store(f, {'ext': 1})
    attempt('  exit:', t)
    print('   disk', disk(f), 'obj', o(), 'size', D.get_current_buffer_size(), list(D._buffer), bool(o.buffered))
    sec(f'C07 {D.__name__}: forced flush conflict via capacity')
    f1 = fn(D.__name__ + 'cap1.json'); f2 = fn(D.__name__ + 'cap2.json'); store(f1, {'v': 0}); store(f2, {'v': 0})
    o1 = D(f1); o2 = D(f2)
    cap0 = D.get_buffer_capacity()
    def t():
        with D.buffer_backend(buffer_capacity=(1 if 'Memory' in D.__name__ else 25)):
            o1['x'] = 1
            store(f1, {'ext': 1})
            try:
                o2['y'] = 'y'*30   # forces flush
                print('   no exc on forcing op')
            except Exception as e:
                print('   forcing op raised', type(e).__name__, getattr(e,'files',None) and list(e.files))
            print('   inside after: size', D.get_current_buffer_size(), 'buffer', [os.path.basename(k) for k in D._buffer], 'o1', o1(), 'o2', o2(), 'disk1', disk(f1), 'disk2', disk(f2))
    attempt('  exit:', t)
    print('   after: disk1', disk(f1), 'disk2', disk(f2), 'cap restored', D.get_buffer_capacity() == cap0, 'size', D.get_current_buffer_size(), list(D._buffer), D._buffered_collections)
    sec(f'C07 {D.__name__}: nested contexts + issue drops remaining_collections?')
    fa = fn(D.__name__ + 'na.json'); fb = fn(D.__name__ + 'nb.json'); store(fa, {'v': 0}); store(fb, {'v': 0})
    a = D(fa); b = D(fb)
    def t():
        with b.buffered:
            try:
                with D.buffer_backend():
                    a['x'] = 1; b['y'] = 1
                    store(fa, {'ext': 1})
            except BufferedError as e:
                print('   inner raised', list(map(os.path.basename, e.files)))
            print('   b still buffered', bool(b._is_buffered), 'bc', D._buffered_collections, 'buffer', [os.path.basename(k) for k in D._buffer], 'diskb', disk(fb))
        print('   after b exit diskb', disk(fb), 'size', D.get_current_buffer_size())
    attempt('  run:', t)
