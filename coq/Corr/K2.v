(* Correspondence K2: lock events observed on the implementation vs Conc.prog_of_op. *)
From Coq Require Import List Arith ZArith Bool.
From SC Require Import Model.Conc.
Import ListNotations.

Definition is_lock_event (e : event) : bool := match e with EAcq _ | ERel _ => true | _ => false end.
Definition event_eqb (a b : event) : bool :=
  match a, b with
  | EAcq l, EAcq m | ERel l, ERel m => lockid_eqb l m
  | _, _ => false
  end.
Fixpoint events_eqb (a b : list event) : bool :=
  match a, b with
  | [], [] => true
  | x :: a', y :: b' => event_eqb x y && events_eqb a' b'
  | _, _ => false
  end.

(* normalisation applied to both sides: re-entrant acquisitions (which can neither block nor, being
   properly nested, leak) are dropped, and immediate repetitions of an empty section "+l -l" are merged
   (the number of such sections inside a flush depends on how many collections are registered) *)
Fixpoint outermost (es : list event) (h : held) : list event :=
  match es with
  | [] => []
  | EAcq l :: es' => if (0 <? h l)%Z then outermost es' (held_add h l 1) else EAcq l :: outermost es' (held_add h l 1)
  | ERel l :: es' => if (1 <? h l)%Z then outermost es' (held_add h l (-1)) else ERel l :: outermost es' (held_add h l (-1))
  | e :: es' => outermost es' h
  end.
Fixpoint merge_empty (fuel : nat) (es : list event) (last : option lockid) : list event :=
  match fuel with
  | O => es
  | S f =>
      match es with
      | EAcq l :: ERel m :: rest =>
          if lockid_eqb l m then
            match last with
            | Some k => if lockid_eqb k l then merge_empty f rest last
                        else EAcq l :: ERel m :: merge_empty f rest (Some l)
            | None => EAcq l :: ERel m :: merge_empty f rest (Some l)
            end
          else EAcq l :: merge_empty f (ERel m :: rest) None
      | e :: rest => e :: merge_empty f rest None
      | [] => []
      end
  end.
Definition normalise (es : list event) : list event :=
  let o := outermost (filter is_lock_event es) held0 in merge_empty (S (length o)) o None.

Definition model_lock_events (c : flavor * variant * opkind * list nat * list event * bool) : list event * bool :=
  match c with
  | (fl, v, k, fs, _, _) =>
      match sexec (prog_of_op fl v k) (fault_fn fs) held0 with
      | (o, _, es) => (normalise es, match o with ORaise => true | ONormal => false end)
      end
  end.

Definition check_k2 (c : flavor * variant * opkind * list nat * list event * bool) : bool :=
  match c with
  | (_, _, _, _, obs, raised) =>
      let (es, r) := model_lock_events c in events_eqb es (normalise obs) && Bool.eqb r raised
  end.
