import json, os, tempfile, sys, traceback
sys.path.insert(0, '/repo')
from synced_collections.backends.collection_json import *
d = tempfile.mkdtemp()
def fn(n): return os.path.join(d, n)
def store(f, data):
    with open(f, 'w') as fh: json.dump(data, fh)
def disk(f):
    with open(f) as fh: return json.load(fh)
def sec(t): print('\n===', t)

sec('C02 container -> null ignored')
f = fn('a.json'); store(f, {'a': {'b': 1}, 'l': [1, [2]]})
x = JSONDict(f); print(x())
store(f, {'a': None, 'l': [1, None]})
print('after external null:', x(), 'disk', disk(f))
store(f, {'a': 5, 'l': {'k': 1}})
print('after external scalar/dict:', x())
sec('C02 1 -> True / 1.0')
store(f, {'a': 1}); print(x())
store(f, {'a': True}); print(x(), repr(x['a']))
store(f, {'a': 1.0}); print(x(), repr(x['a']))
sec('C02 root kind change: dict file becomes list')
store(f, [1,2])
try: print(x())
except Exception as e: print('EXC', type(e), e)
store(f, None)
try: print('null file ->', x())
except Exception as e: print('EXC', type(e), e)

sec('C03 lt')
l = JSONList(fn('l.json')); l.reset([1])
print('[1]<[2]:', l < [2], ' expected', [1] < [2])
print('[1]<=[2]:', l <= [2], '[1]>[0]', l > [0], '>=', l >= [1])
l2 = JSONList(fn('l2.json')); l2.reset([2])
print('synced<synced', l < l2, l2 < l)
sec('C03 reflected: [0] < l ')
try: print([0] < l, [5] < l, [1] == l, [1] != l, l != [1])
except Exception as e: print('EXC', type(e), e)

sec('C04 nested clear on stale child clobbers')
f = fn('c4.json'); store(f, {'a': {'x': 1}, 'b': 1})
o1 = JSONDict(f); child = o1['a']
o2 = JSONDict(f); o2['b'] = 2; o2['c'] = 3
child.clear()
print('disk after child.clear():', disk(f), ' expected b=2,c=3,a={}')
store(f, {'a': {'x': 1}, 'b': 1}); o1(); child = o1['a']
o2['b'] = 7
child.reset({'y': 2})
print('disk after child.reset():', disk(f))
store(f, {'a': {'x': 1}, 'b': 1}); o1(); child = o1['a']
o2['b'] = 9
child['z'] = 1
print('disk after child setitem:', disk(f))
sec('C04 root clear of stale root - fine (destructive)')
