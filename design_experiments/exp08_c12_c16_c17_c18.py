import json, os, tempfile, sys, traceback, time
sys.path.insert(0, '/repo')
from synced_collections.backends.collection_json import *
from synced_collections.errors import *
d = tempfile.mkdtemp()
def fn(n): return os.path.join(d, n)
def store(f, data):
    with open(f, 'w') as fh: json.dump(data, fh)
    st = os.stat(f); os.utime(f, ns=(st.st_atime_ns, st.st_mtime_ns + 10_000_000))
def disk(f):
    try:
        with open(f) as fh: return json.load(fh)
    except FileNotFoundError: return 'MISSING'
def raw(f): return open(f,'rb').read()
def sec(t): print('\n===', t)

sec('C12 type-changing overwrite via update/reset/setitem')
f = fn('t.json'); x = JSONDict(f)
x['a'] = 1; x.update({'a': True}); print(' update True over 1 ->', raw(f))
x['a'] = 1; x['a'] = True; print(' setitem True over 1 ->', raw(f))
x['a'] = 1; x.update(a=1.0); print(' update 1.0 over 1 ->', raw(f))
x.reset({'a': 1}); x.reset({'a': True}); print(' reset True over 1 ->', raw(f))
l = JSONList(fn('tl.json')); l.reset([1, 0]); l.reset([True, False]); print(' list reset bools over ints ->', raw(fn('tl.json')))
x.reset({'a': 0.0}); x.update({'a': -0.0}); print(' -0.0 over 0.0 ->', raw(f))
x.reset({'big': 2**70, 'f': 1e308, 's': '\U0001F600\ud800"\\\n', '': {'': []}})
y = JSONDict(f); print(' fresh:', y(), [type(v).__name__ for v in y().values()])

sec('C16 aliasing')
arg = {'n': [1, {'k': [2]}]}
x.reset({}); x['a'] = arg; arg['n'][1]['k'].append(99); arg['n'].append(5)
print(' after mutating arg:', x(), disk(f))
r = x(); r['a']['n'].append('X'); print(' after mutating x():', x())
vals = list(x.values()); vals[0]['n'].append('Y'); print(' after mutating values():', x())
its = list(x.items()); its[0][1]['n'].append('Z'); print(' after mutating items():', x())
p = x.pop('a'); print(' popped type', type(p).__name__); p['q'] = 1; print(' after mutating popped:', x(), disk(f))
x['a'] = {'z': [1]}; x['b'] = x['a']; x['b']['z'].append(2); print(' assign child copy:', x())
x['c'] = x; print(' assign self into self:', x())
g = x.get('a'); print(' get returns', type(g).__name__)
sd = x.setdefault('a', {}); print(' setdefault returns', type(sd).__name__)
ks = x.keys(); x['new'] = 1; print(' keys view live?', list(ks))

sec('C17 reads never write / create')
f2 = fn('missing.json'); m = JSONDict(f2)
m.get('a'); len(m); list(m); m(); 'a' in m; m == {}; repr(m); m.keys(); m.values(); m.items()
print(' missing file still missing:', not os.path.exists(f2))
for D in (BufferedJSONDict, MemoryBufferedJSONDict):
    f3 = fn(D.__name__+'ro.json'); store(f3, {'a': {'b': 1}}); st0 = os.stat(f3)
    o = D(f3)
    with D.buffer_backend():
        with o.buffered:
            o['a']['b']; len(o); o(); list(o.items())
    st1 = os.stat(f3); print(' ', D.__name__, 'untouched:', (st0.st_ino, st0.st_mtime_ns, st0.st_size) == (st1.st_ino, st1.st_mtime_ns, st1.st_size))
    f4 = fn(D.__name__+'miss.json'); o = D(f4)
    with o.buffered: o(); len(o)
    print(' ', D.__name__, 'missing stays missing:', not os.path.exists(f4))

sec('C18 protected keys cover instance attrs')
for C in (JSONAttrDict, BufferedJSONAttrDict, MemoryBufferedJSONAttrDict):
    o = C(fn(C.__name__+'.json')); o['x'] = {'y': [ {'z': 1} ]}
    with o.buffered if hasattr(o, 'buffered') else __import__('contextlib').nullcontext(): o.x.y[0].z = 2
    print(' ', C.__name__, 'vars - protected =', set(vars(o)) - set(C._PROTECTED_KEYS), 'child types', type(o.x).__name__, type(o.x.y).__name__, type(o.x.y[0]).__name__, 'val', o())
    for k in ['_data', 'filename', 'buffered', '_root', 'keys']:
        try:
            o[k] = 5; print('    item-set', k, '-> attr is', type(getattr(o, k)).__name__, 'item', o[k]); del o[k]
        except Exception as e: print('    item-set', k, 'EXC', type(e).__name__, e)
