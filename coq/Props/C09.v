(* C09 — Concurrent writers are linearizable: no update is ever lost.  Property theorems only. *)
From Coq Require Import List Bool Arith.
From SC Require Import Model.Class Model.Machine Model.Conc Proofs.ConcMutex Proofs.ConcFaults Proofs.ConcInstances.
Import ListNotations.

(* For every number of threads, every program of lock-protected operations (any number of locks = (class, file)
   pairs, operation bodies of ANY granularity: a body is an arbitrary list of steps on the component guarded
   by its lock and on thread-local data), and EVERY schedule: whenever no lock is held, the shared state and
   every thread's results are exactly those of executing the completed operations one at a time, in the order
   in which they released their lock. *)
Theorem C09_mutex_serializable : forall (S R Lc : Type) (s0 : nat -> S) (ths : nat -> list (opd S R Lc)) (sched : list nat),
  let c := exec S R Lc (init_config S R Lc s0 ths) sched in
  quiescent S R Lc c ->
  (forall l, sh S R Lc c l = fst (serial S R Lc (log S R Lc c) s0) l)
  /\ (forall t, done S R Lc (thrs S R Lc c t) = mine R t (snd (serial S R Lc (log S R Lc c) s0))).
Proof. exact mutex_serializable. Qed.
Print Assumptions C09_mutex_serializable.

(* no update is lost, none is duplicated, none is reordered within a thread *)
Theorem C09_nothing_lost : forall (S R Lc : Type) (s0 : nat -> S) (ths : nat -> list (opd S R Lc)) (sched : list nat) (t : nat),
  let c := exec S R Lc (init_config S R Lc s0 ths) sched in
  map snd (filter (fun p => Nat.eqb (fst p) t) (log S R Lc c))
  ++ (match cur S R Lc (thrs S R Lc c t) with Some (o, _, _) => [o] | None => [] end)
  ++ todo S R Lc (thrs S R Lc c t) = ths t.
Proof. exact mutex_log_complete. Qed.
Print Assumptions C09_nothing_lost.

Theorem C09_mutual_exclusion : forall (S R Lc : Type) (s0 : nat -> S) (ths : nat -> list (opd S R Lc)) (sched : list nat) (t : nat) o fs lc,
  let c := exec S R Lc (init_config S R Lc s0 ths) sched in
  cur S R Lc (thrs S R Lc c t) = Some (o, fs, lc) -> holder S R Lc c (op_lock S R Lc o) = Some t.
Proof. exact mutex_exclusion. Qed.
Print Assumptions C09_mutual_exclusion.

(* the library's mutators HAVE that shape: for every class flavor and variant, the program of a mutator
   (through `with self._load_and_save`, at the root or through a nested handle — nested handles use the
   root's context) and of clear()/reset() on a root performs its load, its in-memory change and its save
   while holding the collection lock, under every fault assignment; only argument validation precedes it.
   The table is tied to the code by the K2 lock-event traces on every run. *)
Theorem C09_well_locked :
  forallb (fun fl => forallb (fun v => well_locked (prog_of_op fl v KMutate) LColl
                                        && well_locked (prog_of_op fl v KRootNoLoad) LColl) all_variants) all_flavors = true.
Proof. exact table_well_locked. Qed.
Print Assumptions C09_well_locked.

Theorem C09_well_locked_means : forall p l, well_locked p l = true ->
  forall faults, acts_under_lock (snd (sexec p faults held0)) held0 l T_VALIDATE = true.
Proof. exact well_locked_sound. Qed.
Print Assumptions C09_well_locked_means.

(* the same theorem with the bodies instantiated by Machine.v's own step function (load, body, write-back, save
   of a whole public operation): every schedule of writer threads on one file ends in the state of executing
   the completed operations one at a time, in their release order — to which C01 / C04 apply *)
Theorem C09_machine_serial : forall T (s0 : mstate) (ths : nat -> list mop) (sched : list nat),
  let P := fun t => map (mach_op T) (ths t) in
  let c := exec mstate mresult (option mresult) (init_config mstate mresult (option mresult) (fun _ => s0) P) sched in
  quiescent mstate mresult (option mresult) c ->
  forall ops, mlog_ops T (log mstate mresult (option mresult) c) ops ->
    sh mstate mresult (option mresult) c 0 = fold_left (fun st op => fst (step T st op)) ops s0.
Proof. exact writer_threads_serial. Qed.
Print Assumptions C09_machine_serial.

(* SOURCE STRUCTURE.  Gen/Structure.v is regenerated from /repo's source (Python `ast`) on every run: the
   synchronisation skeleton of every public method.  On EVERY execution path of EVERY public mutator of
   SyncedCollection / SyncedDict / SyncedList, every access to the in-memory data, every conversion of a value into a
   child and every merge happens while the load-and-save section (which holds the collection's lock) is open ... *)
From SC Require Import Model.Val Model.Struct Gen.Structure Proofs.StructProofs.
Theorem C09_mutators_touch_data_only_inside_their_section :
  forall m tr, In m Structure.methods -> is_mutator (sm_name m) = true -> Struct.paths false (sm_body m) tr ->
  Forall (fun p : bool * sev => needs_ls (snd p) = true -> fst p = true) tr.
Proof. exact (mutator_paths_guarded Structure.methods gen_structure_ok). Qed.
Print Assumptions C09_mutators_touch_data_only_inside_their_section.

(* ... and there is exactly ONE such section on every path that does not raise: a mutator is one atomic step of the
   schedule model above, not two (what defect D12 was) *)
Theorem C09_mutators_are_one_section :
  forall m, In m Structure.methods -> is_mutator (sm_name m) = true -> mutator_ok (sm_body m) = true.
Proof. exact (structure_mutators Structure.methods gen_structure_ok). Qed.
Print Assumptions C09_mutators_are_one_section.

(* no concrete class falls back on a collections.abc mixin for a mutator (those are several separately locked steps) *)
Theorem C09_no_mixin_mutators : forallb (fun x : str * str * bool => snd x) mutator_owners = true.
Proof. exact gen_mutators_library_owned. Qed.
Print Assumptions C09_no_mixin_mutators.

(* what "one section" means, on execution paths that COUNT section entries (Proofs/StructSecs.v: a raise ends the path;
   an if/else runs one alternative; a loop any number of iterations): every complete execution of every public mutator
   enters exactly one load-and-save section, an execution cut short by a raise has entered at most one, and such an
   execution exists (the statement is not vacuous) *)
From SC Require Import Proofs.StructSecs.
Theorem C09_every_mutator_run_enters_exactly_one_section : forall m n,
  In m Structure.methods -> is_mutator (sm_name m) = true -> cpaths (sm_body m) n false -> n = 1.
Proof. exact generated_mutators_enter_exactly_one_section. Qed.
Print Assumptions C09_every_mutator_run_enters_exactly_one_section.
Theorem C09_no_mutator_run_enters_two_sections : forall m n ab,
  In m Structure.methods -> is_mutator (sm_name m) = true -> cpaths (sm_body m) n ab -> n <= 1.
Proof. exact generated_mutators_never_enter_two_sections. Qed.
Print Assumptions C09_no_mutator_run_enters_two_sections.
Theorem C09_every_mutator_has_such_a_run : forall m,
  In m Structure.methods -> is_mutator (sm_name m) = true -> cpaths (sm_body m) 1 false.
Proof. exact generated_mutators_have_a_one_section_path. Qed.
Print Assumptions C09_every_mutator_has_such_a_run.
