#!/usr/bin/env python3
"""Tabulate /verif/seeded/*/verdict.json into /verif/seeded/RESULTS.md."""
import glob, json, os
V = os.path.dirname(os.path.dirname(os.path.abspath(__file__)))
rows = []
for d in sorted(glob.glob(os.path.join(V, "seeded", "*/"))):
    name = os.path.basename(d.rstrip("/"))
    try:
        meta = json.load(open(os.path.join(d, "meta.json")))
    except Exception:
        continue
    ver = json.load(open(os.path.join(d, "verdict.json"))) if os.path.exists(os.path.join(d, "verdict.json")) else {}
    conf = meta.get("confirmed", {})
    det = ver.get("detected_by", [])
    inp = ver.get("detected_with_failing_input", [])
    what = (meta.get("what_changed") or meta.get("needs_to_manifest") or meta.get("kind") or "")
    what = " ".join(str(what).split())[:110]
    status = "obsolete" if meta.get("obsolete") else ("confirmed" if conf.get("ok") else ("no property violation (demo passes)" if conf.get("demo_with") == 0 else "unconfirmed"))
    rows.append((name, meta.get("property"), status, ",".join(det) or "-", ",".join(inp) or "-", what))
with open(os.path.join(V, "seeded", "RESULTS.md"), "w") as f:
    f.write("# Seeded changes and what the checks said (quick tier)\n\n")
    f.write("`R-*`: regression of a repaired defect.  `M-*`: written by an independent sub-agent from the property text only.\n"
            "`detected by`: checks that exit 1 with the change applied; `with failing input`: of those, the ones whose VIOLATION line carries a concrete replay "
            "(the others end with no-failing-input-found: a broken obligation or correspondence).\n\n")
    f.write("| seeded change | property | status | detected by | with failing input | what it needs / changes |\n|---|---|---|---|---|---|\n")
    for r in rows:
        f.write("| " + " | ".join(str(x) for x in r) + " |\n")
    conf = [r for r in rows if r[2] == "confirmed"]
    f.write(f"\nconfirmed changes: {len(conf)}; detected: {sum(1 for r in conf if r[3] != '-')}; with a concrete failing input: {sum(1 for r in conf if r[4] != '-')}.\n")
print(open(os.path.join(V, "seeded", "RESULTS.md")).read()[-400:])
