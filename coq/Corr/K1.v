(* Correspondence K1: Machine.v against the real classes, step by step. *)
From Coq Require Import List ZArith NArith Bool.
From SC Require Import Model.Val Model.Plain Model.Ops Model.Valid Model.Class Model.Tree Model.Machine.
From SC Require Import Corr.KPlain.
Import ListNotations.

Inductive kop :=
  | KNew (oid c rid : nat) (data : option val) (lbl : nat)
  | KExt (rid : nat) (content : option val)
  | KOp (oid lbl : nat) (o : nop)
  | KTouch (oid : nat) (mut : bool).

Inductive kexp := KVal (r : res val) (lbl : option nat) | KAny.

Record kstep := {
  k_op : kop;
  k_exp : kexp;
  k_res : list (nat * option val);   (* content of each resource after the step *)
  k_wrote : list nat;                (* resources whose stamp moved during the step *)
  k_live : list nat;                 (* labels still attached to their root *)
}.

Definition lmap := list (nat * nat).           (* harness label -> model node id *)

Definition in_range (h : nat) (m : lmap) : bool := existsb (fun p => Nat.eqb (snd p) h) m.
Definition memb (x : nat) (l : list nat) : bool := existsb (Nat.eqb x) l.

Definition all_ids (s : mstate) : list nat :=
  flat_map (fun p : nat * obj => node_ids (o_root (snd p))) (m_objs s).

Definition opt_val_eqb (a b : option val) : bool :=
  match a, b with
  | None, None => true
  | Some x, Some y => veq_strict x y
  | _, _ => false
  end.

Definition take_new (new old : list nat) : list nat :=      (* new = delta ++ old *)
  firstn (length new - length old) new.

Definition same_set (a b : list nat) : bool :=
  forallb (fun x => memb x b) a && forallb (fun x => memb x a) b.

(* reason codes: 1 unknown label, 2 result differs, 3 handle differs, 4 resource differs,
   5 write set differs, 6 attachment differs, 7 model rejected the op *)
(* dict iteration results are compared up to order: key order after reloads / bulk updates is unspecified *)
Definition perm_eqb (l m : list val) : bool :=
  Nat.eqb (length l) (length m)
  && forallb (fun x => Nat.eqb (length (filter (veq_strict x) l)) (length (filter (veq_strict x) m))) l.
Definition order_free_op (o : kop) : bool :=
  match o with
  | KOp _ _ (OD DKeys) | KOp _ _ (OD DIter) | KOp _ _ (OD DValues) | KOp _ _ (OD DItems) => true
  | _ => false
  end.
Definition res_eqb_for (o : kop) (a b : res val) : bool :=
  if order_free_op o then
    match a, b with
    | Ok (VL l), Ok (VL m) => perm_eqb l m
    | _, _ => res_eqb a b
    end
  else res_eqb a b.

(* A bulk mutator (update / reset / extend / += / slice assignment) that REJECTS its argument may have applied part of
   it before raising.  Which part is left behind is not fixed by any property (C11 only demands that nothing forbidden
   gets in - the oracle walks memory and backend after every step - and that a rejected SINGLE-element operation changes
   nothing).  The correspondence therefore does not compare the partial state with the model's: it re-synchronises the
   model with what the implementation left in its resources (as an out-of-band write followed by the owner's load,
   which merges in place exactly like the implementation's own next load) and keeps checking handle attachment. *)
Definition bulk_op (o : nop) : bool :=
  match o with
  | OD (DUpdate _) | OD (DReset _) | OL (LReset _) | OL (LExtend _) | OL (LIAdd _) | OL (LSetSlice _ _) => true
  | _ => false
  end.
Definition validation_err (e : err) : bool :=
  match e with EType | EValue | EKeyType | EInvalidKey => true | _ => false end.
Definition resync_owner (k : kstep) (rm rexp : res val) : option nat :=
  match k_op k, rm, rexp with
  | KOp oid _ o, Err e, Err e' => if bulk_op o && validation_err e && validation_err e' then Some oid else None
  | _, _, _ => None
  end.

Definition check_step (T : class_table) (st : mstate * lmap) (k : kstep)
  : (mstate * lmap) + nat :=
  let (s, m) := st in
  let mop_of :=
    match k_op k with
    | KNew oid c rid data _ => Some (MNew oid c rid data)
    | KExt rid content => Some (MExt rid content)
    | KOp oid lbl o => match nlookup lbl m with Some h => Some (MOp oid h o) | None => None end
    | KTouch oid mut => Some (MTouch oid mut)
    end in
  match mop_of with
  | None => inr 1%nat
  | Some mo =>
      let (s', r) := step T s mo in
      let after (m' : lmap) :=
        if negb (forallb (fun rc : nat * option val =>
                            opt_val_eqb (nlookup (fst rc) (m_res s')) (snd rc)) (k_res k))
        then inr 4%nat
        else if negb (same_set (take_new (m_writes s') (m_writes s)) (k_wrote k)) then inr 5%nat
        else if negb (forallb (fun p : nat * nat =>
                                 Bool.eqb (memb (fst p) (k_live k)) (memb (snd p) (all_ids s'))) m')
        then inr 6%nat
        else inl (s', m') in
      match k_exp k, r with
      | _, MBad => inr 7%nat
      | KAny, _ => after m
      | KVal _ _, MDetached => after m
      | KVal rexp lexp, MR rm hm =>
          let strict :=
            if negb (res_eqb_for (k_op k) rm rexp) then inr 2%nat
            else
              match lexp, hm with
              | None, None => after m
              | Some L, Some h =>
                  match nlookup L m with
                  | Some h' => if Nat.eqb h h' then after m else inr 3%nat
                  | None => if in_range h m then inr 3%nat else after ((L, h) :: m)
                  end
              | _, _ => inr 3%nat
              end in
          match resync_owner k rm rexp with
          | Some oid =>
              (* first the model's own behaviour; else the implementation's resources with the owner's load (the
                 operation loaded before it failed); else without it (it failed before loading) *)
              match strict with
              | inl st' => inl st'
              | inr _ =>
                  let s2 := fold_left (fun acc (rc : nat * option val) => fst (step T acc (MExt (fst rc) (snd rc)))) (k_res k) s in
                  let s3 := fst (step T s2 (MTouch oid false)) in
                  let live_ok (sx : mstate) :=
                    forallb (fun p : nat * nat => Bool.eqb (memb (fst p) (k_live k)) (memb (snd p) (all_ids sx))) m in
                  if live_ok s3 then inl (s3, m)
                  else if live_ok s2 then inl (s2, m) else inr 6%nat
              end
          | None => strict
          end
      end
  end.

Fixpoint check_steps (T : class_table) (st : mstate * lmap) (ks : list kstep) (i : nat)
  : option (nat * nat) :=
  match ks with
  | [] => None
  | k :: ks' => match check_step T st k with
                | inl st' => check_steps T st' ks' (S i)
                | inr code => Some (i, code)
                end
  end.

Definition diag_case (T : class_table) (ks : list kstep) : option (nat * nat) :=
  check_steps T (m_init, []) ks 0.
Definition check_case (T : class_table) (ks : list kstep) : bool :=
  match diag_case T ks with None => true | Some _ => false end.

(* for diagnostics: the model's own results and final state *)
Fixpoint model_trace (T : class_table) (st : mstate * lmap) (ks : list kstep)
  : list (mresult * list (nat * val)) :=
  match ks with
  | [] => []
  | k :: ks' =>
      let (s, m) := st in
      let mo :=
        match k_op k with
        | KNew oid c rid data _ => MNew oid c rid data
        | KExt rid content => MExt rid content
        | KOp oid lbl o => MOp oid (match nlookup lbl m with Some h => h | None => 0 end) o
        | KTouch oid mut => MTouch oid mut
        end in
      let (s', r) := step T s mo in
      let m' := match k_exp k, r with
                | KVal _ (Some L), MR _ (Some h) =>
                    match nlookup L m with Some _ => m | None => (L, h) :: m end
                | _, _ => m
                end in
      (r, m_res s') :: model_trace T (s', m') ks'
  end.
