(* C06 — Objects on one file share one buffered state; the flush keeps all their writes.  Property theorems only. *)
From Coq Require Import List Bool ZArith.
From SC Require Import Model.Val Model.Plain Model.Ops Model.Buffer Proofs.TreeDefs Proofs.BufferDefs Proofs.BufferSim Proofs.BufferInv.
Import ListNotations.
Local Open Scope Z_scope.

(* SHARED VISIBILITY.  The theorem is about `logical s f`, ONE plain content per FILE, not per object:
   whichever object oid (bound to f) performs the operation, whichever object touched the buffer first,
   whichever only read, the result is the built-in result on the file's one logical content and the new
   logical content is the built-in new content.  So a write through any object is what the next read through
   any other object (same theorem, other oid) sees.  Hypothesis uniform_for: the acting object is buffered, or
   the file is not in the buffer — i.e. the objects of the file are in the same buffered state. *)
Theorem C06_shared_visibility : forall strat blen, (forall v, 0 <= blen v) ->
  forall s oid p o s' r f c,
  coherent_strong strat blen s -> known_obj s oid -> uniform_for s oid -> f = bo_file (get_obj s oid) ->
  logical strat s f = Some c ->
  (forall v, In v (nop_vals_b o) -> wf_val v = true) ->
  (pre_err o <> None \/ (p = [] /\ nop_no_load o = true) -> plain_at p o c <> None) ->
  bstep_fn strat blen s (BOp oid p o) = (s', r) -> r <> BBad ->
  coherent_strong strat blen s'
  /\ (forall x, r <> BExn x)
  /\ exists j rp newp,
       VEq j c /\ plain_at p o j = Some (rp, newp) /\ r = res_of rp
       /\ (exists c', logical strat s' f = Some c' /\ VEq c' newp)
       /\ (forall g, g <> f -> match logical strat s g, logical strat s' g with
                               | Some a, Some b => VEq b a | None, None => True | _, _ => False end).
Proof. exact op_transparent. Qed.
Print Assumptions C06_shared_visibility.

(* THE FLUSH KEEPS ALL WRITES.  Every exit step — per-object exits in any order, the backend-wide exit, which
   pops the registered collections in whatever order they were registered — preserves every file's logical
   content and never raises: all orders of exits and all registration orders are covered because the theorem
   holds for EVERY coherent state and every exit step. *)
Theorem C06_flush_keeps_all : forall strat blen, (forall v, 0 <= blen v) ->
  forall s op s' r,
  coherent_strong strat blen s -> (op = BExitCls \/ exists oid, op = BExitObj oid) ->
  (forall oid, op = BExitObj oid -> known_obj s oid) ->
  bstep_fn strat blen s op = (s', r) ->
  coherent_strong strat blen s' /\ (forall x, r <> BExn x)
  /\ forall g, match logical strat s g, logical strat s' g with
               | Some a, Some b => VEq b a | None, None => True | _, _ => False end.
Proof. exact exit_preserves. Qed.
Print Assumptions C06_flush_keeps_all.

(* ... and once no object is buffered any more nothing is left in the buffer: the logical content IS the file *)
Theorem C06_after_the_common_exit : forall strat blen s,
  acct strat blen s -> reg_inv s -> nobody_buffered s -> b_buffer s = [] /\ b_size s = 0%Z.
Proof. exact zero_outside. Qed.
Print Assumptions C06_after_the_common_exit.

Theorem C06_invariant_implies_accounting : forall strat blen s, coherent_strong strat blen s -> coherent strat blen s.
Proof. exact coherent_strong_coherent. Qed.
Print Assumptions C06_invariant_implies_accounting.

(* KNOWN FINDING D19 (shared-memory strategy) is OUTSIDE these theorems: Buffer.v has root objects with plain
   content; after a common session the real objects keep sharing one container AND nested children owned by
   the other object, which this model cannot express.  The D19 probe re-confirms it on every run. *)
