(* Ctx.v — the context managers every operation goes through, as terms the translator can regenerate from the source.
   * lock contexts: `_LoadAndSave` / `_BufferedLoadAndSave` are translated into Conc.sprog with two holes (the load and
     the save program); the obligation in Gen/Contexts.v is SYNTACTIC EQUALITY with Conc.p_enter / Conc.p_exit, the
     terms every theorem of C09 / C10 / C13 is about.
   * capacity context: `_FileBufferedContext` / `_CounterFuncContext` are translated into `cprog`; the obligation is
     equality with the shapes below, which is what Buffer.bstep_fn implements for BEnterCls / BExitCls (enter: count up,
     push the old capacity or None, set; exit: count down and flush at zero, THEN - also when the flush raised - pop and
     restore). *)
From Coq Require Import List Bool.
From SC Require Import Model.Conc.
Import ListNotations.

Inductive cprog :=
  | CSkip
  | CCountUp | CCountDown | CFlushIfZero
  | CPushOld | CPushNone | CSetNew | CClearArg
  | CPop | CRestoreIfSome
  | CSeq (a b : cprog)
  | CFinally (body fin : cprog)
  | CIfCapGiven (a b : cprog).

Definition model_counter_enter : cprog := CCountUp.
Definition model_counter_exit : cprog := CSeq CCountDown CFlushIfZero.
Definition model_cap_enter (parent : cprog) : cprog :=
  CSeq parent (CSeq (CIfCapGiven (CSeq CPushOld CSetNew) CPushNone) CClearArg).
Definition model_cap_exit (parent : cprog) : cprog :=
  CFinally parent (CSeq CPop CRestoreIfSome).

Fixpoint cprog_eqb (a b : cprog) : bool :=
  match a, b with
  | CSkip, CSkip | CCountUp, CCountUp | CCountDown, CCountDown | CFlushIfZero, CFlushIfZero
  | CPushOld, CPushOld | CPushNone, CPushNone | CSetNew, CSetNew | CClearArg, CClearArg
  | CPop, CPop | CRestoreIfSome, CRestoreIfSome => true
  | CSeq a1 a2, CSeq b1 b2 | CFinally a1 a2, CFinally b1 b2 | CIfCapGiven a1 a2, CIfCapGiven b1 b2 =>
      cprog_eqb a1 b1 && cprog_eqb a2 b2
  | _, _ => false
  end.

(* what the shape of the exit buys: the restore runs on the normal and on the exceptional path of the parent's exit *)
Inductive crun : cprog -> bool (* parent raises *) -> list cprog -> Prop :=
  | R_fin_ok : forall p f, crun (CFinally p f) false [p; f]
  | R_fin_exn : forall p f, crun (CFinally p f) true [p; f].
Lemma cap_exit_always_restores : forall parent raises tr,
  crun (model_cap_exit parent) raises tr -> In (CSeq CPop CRestoreIfSome) tr.
Proof. intros parent raises tr H. inversion H; subst; simpl; auto. Qed.
