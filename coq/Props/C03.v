(* C03 — Operations refine built-in dict/list: same results, same errors, same content.  Property theorems only. *)
From Coq Require Import List Bool ZArith.
From SC Require Import Model.Val Model.Plain Model.Ops Model.Valid Model.Class Model.Tree Model.Machine.
From SC Require Import Proofs.TreeDefs Proofs.MachineDefs Proofs.MachineRefine Gen.ClassTable Gen.Obligations Model.Api Gen.ApiSurface.
Import ListNotations.

(* the body of EVERY list operation (reads, slices with any start/stop/step, negative and out-of-range
   indices, insert/append/extend/+=/remove/pop/reverse/clear, index/count/in, ==, <, <=, >, >=) on a synced
   list computes exactly the result (or the error class) and the content of the built-in list operation
   (Ops.plain_lop, itself tied to CPython's list by the K-plain correspondence) on its plain view.
   reset() is the one merging operation and is covered by C01_refines_plain (content equal up to key order). *)
Theorem C03_list_ops_refine_builtin : forall T id c l o nx,
  match o with LReset _ => False | _ => True end ->
  let '((r, h), n', nx') := in_lop T id c l o nx in
  r = fst (plain_lop (map to_base l) o) /\ to_base n' = VL (snd (plain_lop (map to_base l) o)).
Proof. exact in_lop_refines_plain. Qed.
Print Assumptions C03_list_ops_refine_builtin.

(* same for dicts (documented deviations are part of Ops.plain_dop: pop() of a missing key returns None;
   forbidden values are rejected: the side condition of setdefault; update/reset merge: C01_refines_plain) *)
Theorem C03_dict_ops_refine_builtin : forall T id c d o nx,
  match o with
  | DReset _ | DUpdate _ => False
  | DSetdefault k v => validate (validators_of T c) (VD [(k, v)]) = None
  | _ => True end ->
  let '((r, h), n', nx') := in_dop T id c d o nx in
  r = fst (plain_dop (map (fun kn : key * node => (fst kn, to_base (snd kn))) d) o)
  /\ to_base n' = VD (snd (plain_dop (map (fun kn : key * node => (fst kn, to_base (snd kn))) d) o)).
Proof. exact in_dop_refines_plain. Qed.
Print Assumptions C03_dict_ops_refine_builtin.

(* whole operations, at every nesting depth, for every sequence position: result, error class and content
   are those of the built-in operation at the handle's position *)
Theorem C03_refines_builtin : forall T s oid hid o s' r h ob c,
  table_ok T = true -> Inv T s -> res_valid T s ->
  nlookup oid (m_objs s) = Some ob -> nlookup (o_rid ob) (m_res s) = Some c ->
  args_ok (lang_of T (o_cls ob)) o = true ->
  (forall v od, o = OD (DUpdate v) -> as_mapping v = Ok od -> val_ok (lang_of T (o_cls ob)) (VD od) = true) ->
  (is_root_handle ob hid && nop_no_load o) = false ->
  step T s (MOp oid hid o) = (s', MR r h) ->
  (s' = s /\ exists e, r = Err e /\ forall v r' new, plain_nop v o = Some (r', new) -> r' = Err e /\ new = v)
  \/
  (exists j p new ob',
     VEq j c /\ plain_at p o j = Some (r, new)
     /\ nlookup oid (m_objs s') = Some ob'
     /\ (nop_merges o = false -> to_base (o_root ob') = new)
     /\ VEq (to_base (o_root ob')) new
     /\ (nop_is_read o = false -> nlookup (o_rid ob) (m_res s') = Some (to_base (o_root ob')))
     /\ (nop_is_read o = true -> m_res s' = m_res s /\ m_writes s' = m_writes s)).
Proof. exact step_refines_plain. Qed.
Print Assumptions C03_refines_builtin.

(* an operation that raises for a missing key, an out-of-range index or an absent element leaves the
   content unchanged: in the built-in semantics the content after an error is the content before *)
Theorem C03_failed_op_frame_list : forall l o e,
  fst (plain_lop l o) = Err e -> snd (plain_lop l o) = l.
Proof.
  intros l o e H. destruct o; cbn in H |- *; try reflexivity; try discriminate;
  repeat match goal with
         | H : context [match ?x with _ => _ end] |- _ => destruct x eqn:?; cbn in H |- *; try discriminate; try reflexivity
         | |- context [match ?x with _ => _ end] => destruct x eqn:?; cbn in *; try discriminate; try reflexivity
         end.
Qed.
Print Assumptions C03_failed_op_frame_list.

Theorem C03_failed_op_frame_dict : forall d o e,
  fst (plain_dop d o) = Err e -> snd (plain_dop d o) = d.
Proof.
  intros d o e H. destruct o; cbn in H |- *; try reflexivity; try discriminate;
  repeat match goal with
         | H : context [match ?x with _ => _ end] |- _ => destruct x eqn:?; cbn in H |- *; try discriminate; try reflexivity
         | |- context [match ?x with _ => _ end] => destruct x eqn:?; cbn in *; try discriminate; try reflexivity
         end.
Qed.
Print Assumptions C03_failed_op_frame_dict.

(* comparisons of synced lists agree with list comparison: the four operators are the built-in ones on
   the plain view, for synced and for plain operands alike (both are passed as plain data) *)
Theorem C03_compare : forall T id c l cm v nx,
  fst (fst (in_lop T id c l (LCmp cm v) nx))
  = (match list_compare cm (map to_base l) v with Ok b => Ok (vbool b) | Err e => Err e end, None).
Proof. intros. cbn. unfold plain_res, bind. destruct (list_compare cm (map to_base l) v); reflexivity. Qed.
Print Assumptions C03_compare.

(* and "<" is a strict order that differs from ">" (the defect repaired by commit b08e6d0 is excluded) *)
Example C03_lt_is_not_gt :
  list_compare CLt [VS (SInt 1)] (VL [VS (SInt 2)]) = Ok true
  /\ list_compare CGt [VS (SInt 1)] (VL [VS (SInt 2)]) = Ok false.
Proof. split; reflexivity. Qed.

(* the "full MutableMapping / MutableSequence surface" is what the operation languages cover: every public name
   that any of the 18 concrete classes exposes today (regenerated from /repo on every run) is an operation of
   Ops.lop / Ops.dop, or belongs to the attribute / buffering / threading interfaces modelled elsewhere, or is
   class machinery.  A new public method makes this obligation fail: it would be outside every theorem. *)
Theorem C03_api_surface_covered_today : api_covered surfaces = true.
Proof. exact gen_api_covered. Qed.
Print Assumptions C03_api_surface_covered_today.
