"""K-buf: sequential differential of Buffer.v against the real buffered JSON classes,
plus the oracles of C05 / C06 / C07 / C15 / C17 evaluated on the same runs."""
import contextlib
import copy
import os
import shutil
import tempfile

from common import *
from gen import apply_lop, apply_dop
import random

HEADER = ("From Coq Require Import List ZArith NArith.\n"
          "From SC Require Import Model.Val Model.Plain Model.Ops Model.Buffer Corr.KPlain Corr.KBuf.\n"
          "Import ListNotations.\n")

KEYS = ["a", "b", "c", "k"]
SCAL = [None, True, False, 0, 1, 7, -3, 12345678901234567890, "", "x", "hello", "y" * 12]


class BG:
    def __init__(self, seed):
        self.r = random.Random(seed)

    def scalar(self):
        return self.r.choice(SCAL)

    def value(self, depth=2):
        x = self.r.random()
        if depth <= 0 or x < 0.5:
            return self.scalar()
        if x < 0.75:
            return [self.value(depth - 1) for _ in range(self.r.randrange(0, 3))]
        return {self.r.choice(KEYS): self.value(depth - 1) for _ in range(self.r.randrange(0, 3))}

    def container(self, kind, depth=2):
        if kind == "list":
            return [self.value(depth) for _ in range(self.r.randrange(0, 4))]
        return {self.r.choice(KEYS): self.value(depth) for _ in range(self.r.randrange(0, 4))}


def c_bpath(path):
    return "[" + ";".join(f"(PKey {c_key(k)})" if isinstance(k, str) else f"(PIdx {k}%nat)" for k in path) + "]"


def c_optz2(x):
    return "None" if x is None else f"(Some ({x})%Z)"


class BSession:
    def __init__(self, ns, cls, seed, profile, tmpdir):
        self.ns, self.cls, self.seed, self.p, self.tmp = ns, cls, seed, profile, tmpdir
        self.g = BG(seed)
        from synced_collections.data_types.synced_list import SyncedList
        from synced_collections.buffers.serialized_file_buffered_collection import SerializedFileBufferedCollection
        self.kind = "list" if issubclass(cls, SyncedList) else "dict"
        self.strat = "Ser" if issubclass(cls, SerializedFileBufferedCollection) else "Shm"
        self.default_cap = cls.get_buffer_capacity()
        self.files = [os.path.join(tmpdir, f"b{seed}_{i}.json") for i in range(profile.get("files", 2))]
        self.binding = list(profile.get("binding", [0, 0, 1]))
        self.objs = []
        self.steps, self.log, self.fails = [], [], []
        self.kept_mtime = set()
        self.stats = {}
        # oracle state
        self.ctx_depth = 0
        self.obj_depth = {}
        self.logical = {}          # file index -> plain content (None = missing)
        self.at_entry = {}
        self.named_during = {}
        self.wrote_during = {}
        self.last_ext = {}
        self.entered = {}          # file index -> True once accessed under a buffered state
        self.modified = {}
        self.ext_after = {}
        self.small_cap_seen = False
        self.exp_cap = self.default_cap
        self.cap_stack = []
        self.errors_seen = False
        self.ext_seen = False
        self.bump = 0

    # ---------- observation
    def disk(self, fi):
        try:
            with open(self.files[fi], "rb") as f:
                return json.loads(f.read())
        except FileNotFoundError:
            return MISSING

    def stampf(self, fi):
        try:
            st = os.stat(self.files[fi])
            with open(self.files[fi], "rb") as f:
                return (st.st_ino, st.st_mtime_ns, st.st_size, f.read())
        except FileNotFoundError:
            return None

    def count(self, k):
        self.stats[k] = self.stats.get(k, 0) + 1

    def emit(self, bop, exp, before, note):
        after = [self.stampf(i) for i in range(len(self.files))]
        wrote = [i for i, (a, b) in enumerate(zip(before, after)) if a != b]
        contents = [self.disk(i) for i in range(len(self.files))]
        size = self.cls.get_current_buffer_size()
        cap = self.cls.get_buffer_capacity()
        bufd = sorted(self.files.index(f) for f in self.cls._buffer)
        files_t = "[" + ";".join(f"({i}%nat,{'None' if c is MISSING else '(Some ' + c_val(c) + ')'})" for i, c in enumerate(contents)) + "]"
        self.steps.append("{| bk_op := %s; bk_exp := %s; bk_files := %s; bk_wrote := [%s]; bk_size := (%d)%%Z; bk_cap := (%d)%%Z; bk_buffered := [%s] |}" % (
            bop, exp, files_t, ";".join(f"{w}%nat" for w in wrote), size, cap, ";".join(f"{b}%nat" for b in bufd)))
        note = dict(note)
        note.update(after=jsonable([None if c is MISSING else c for c in contents]), wrote=wrote, size=size, cap=cap, buffered=bufd)
        self.log.append(note)
        return contents, wrote, size, cap, bufd

    def call(self, fn):
        set_current(lambda: {"harness": "K-buf", "class": self.cls.__name__, "seed": getattr(self, "seed", None),
                             "steps_so_far": getattr(self, "log", None)})
        try:
            return ("ok", fn())
        except self.ns.errors.MetadataError as e:
            return ("meta", self.files.index(e.filename))
        except self.ns.errors.BufferedError as e:
            return ("buf", sorted(self.files.index(f) for f in e.files))
        except Exception as e:  # noqa
            return ("err", err_class(e), type(e).__name__)

    def c_exp(self, res):
        if res[0] == "ok":
            try:
                return f"(XOk {c_val(res[1])})"
            except ValueError:
                return "XAny"
        if res[0] == "meta":
            return f"(XMetaE {res[1]}%nat)"
        if res[0] == "buf":
            return "(XBufE [" + ";".join(f"{f}%nat" for f in res[1]) + "])"
        return f"(XErr {res[1]})"

    def fail(self, tag, detail):
        self.fails.append({"oracle": tag, "step": len(self.log) - 1, "detail": detail})

    def any_buffered(self, oi):
        return self.ctx_depth > 0 or self.obj_depth.get(oi, 0) > 0

    def anything_active(self):
        return self.ctx_depth > 0 or any(v > 0 for v in self.obj_depth.values())

    # ---------- steps
    def s_new(self, oi, fi):
        before = [self.stampf(i) for i in range(len(self.files))]
        o = self.cls(self.files[fi])
        self.objs.append(o)
        k = "KList" if self.kind == "list" else "KDict"
        self.emit(f"(BNew {oi} {fi} {k})", "(XOk (VS SNull))", before, {"op": "new", "obj": oi, "file": fi})

    def s_ext(self, fi, v, keep_mtime=False):
        try:
            st0 = os.stat(self.files[fi])
        except FileNotFoundError:
            st0 = None
        with open(self.files[fi], "wb") as f:
            f.write(json.dumps(v).encode())
        self.bump += 1
        st = os.stat(self.files[fi])
        if keep_mtime and st0 is not None and st0.st_size != st.st_size and fi not in self.kept_mtime:
            # (at most once per file: two such writes in a row can bring size AND mtime back to what they were when the
            #  file entered the buffer, which no (size, mtime) fingerprint can notice - outside C07's stated assumption)
            self.kept_mtime.add(fi)
            # an outside writer that preserves the modification time (cp -p, rsync -t, coarse timestamps): the size differs
            os.utime(self.files[fi], ns=(st0.st_atime_ns, st0.st_mtime_ns))
            self.count("ext-keep-mtime")
        else:
            os.utime(self.files[fi], ns=(st.st_atime_ns, st.st_mtime_ns + 10_000_000 * self.bump))
        before = [self.stampf(i) for i in range(len(self.files))]
        self.emit(f"(BExt {fi} {c_val(v)})", "XAny", before, {"op": "ext", "file": fi, "value": jsonable(v)})
        self.ext_seen = True
        self.last_ext[fi] = copy.deepcopy(v)
        if self.entered.get(fi):
            self.ext_after[fi] = True
        else:
            self.logical[fi] = copy.deepcopy(v)
        self.count("ext")

    def track(self, res, wrote):
        for fi in range(len(self.files)):
            if self.entered.get(fi):
                if (res[0] == "meta" and res[1] == fi) or (res[0] == "buf" and fi in res[1]):
                    self.named_during[fi] = True
                if fi in wrote:
                    self.wrote_during[fi] = True

    def after_common(self, res, size, cap, bufd, raised):
        # C15: accounting
        if self.strat == "Ser":
            exp = sum(len(e["contents"]) for e in self.cls._buffer.values())
        else:
            exp = sum(1 for e in self.cls._buffer.values() if e["modified"])
        if size != exp:
            self.fail("C15-size", f"reported size {size}, recomputed {exp}")
        if not raised and size > cap:
            self.fail("C15-bound", f"size {size} exceeds capacity {cap} after a returned operation")
        if not self.anything_active() and not raised:
            if size != 0 or bufd:
                self.fail("C15-zero", f"no buffered context active but size={size}, buffered files={bufd}")
        if cap < 10000 and self.strat == "Ser" or cap < 3 and self.strat == "Shm":
            self.small_cap_seen = True
        if raised:
            self.errors_seen = True

    def s_op(self, oi, path, op):
        """Navigate from the root along path (each navigation is its own recorded read), then run op."""
        fi = self.binding[oi]
        h = self.objs[oi]
        cur_path = []
        for k in path:
            before = [self.stampf(i) for i in range(len(self.files))]
            is_list = isinstance(object.__getattribute__(h, "_data"), list)
            if is_list != isinstance(k, int):
                return None      # the in-memory view used to choose the path was stale: skip
            res = self.call(lambda: h[k])
            nav = ("LGet", k) if is_list else ("DGet", k)
            nop = f"(OL {c_lop(nav)})" if is_list else f"(OD {c_dop(nav)})"
            if res[0] == "ok" and hasattr(res[1], "_to_base"):
                child = res[1]
                res = ("ok", child._to_base())
            else:
                child = None
            contents, wrote, size, cap, bufd = self.emit(f"(BOp {oi} {c_bpath(cur_path)} {nop})", self.c_exp(res), before,
                                                        {"op": jsonable(nav), "obj": oi, "path": jsonable(cur_path), "result": jsonable(res)})
            self.note_access(oi, fi, False)
            self.oracle_read(fi, cur_path, nav, res, wrote)
            self.residency(res, wrote, contents, bufd)
            self.after_common(res, size, cap, bufd, res[0] in ("meta", "buf"))
            if child is None:
                return None
            h = child
            cur_path = cur_path + [k]
        before = [self.stampf(i) for i in range(len(self.files))]
        is_list = isinstance(object.__getattribute__(h, "_data"), list)
        if is_list != op[0].startswith("L"):
            return None      # the position changed kind under our feet (stale in-memory view): skip
        conv = (lambda x: x._to_base() if hasattr(x, "_to_base") else x)
        opc = copy.deepcopy(op)
        res = self.call(lambda: copy.deepcopy(apply_lop(h, opc, conv) if is_list else apply_dop(h, opc, conv)))
        nop = f"(OL {c_lop(op)})" if is_list else f"(OD {c_dop(op)})"
        contents, wrote, size, cap, bufd = self.emit(f"(BOp {oi} {c_bpath(cur_path)} {nop})", self.c_exp(res), before,
                                                    {"op": jsonable(op), "obj": oi, "path": jsonable(cur_path), "result": jsonable(res)})
        read = op[0] in READS
        self.note_access(oi, fi, not read)
        if read:
            self.oracle_read(fi, cur_path, op, res, wrote)
        else:
            self.oracle_mut(oi, fi, cur_path, op, res, wrote, contents)
        self.residency(res, wrote, contents, bufd)
        self.after_common(res, size, cap, bufd, res[0] in ("meta", "buf"))
        self.count(op[0] + ("" if res[0] == "ok" else "!" + str(res[1])))
        return res

    def uniform(self, fi):
        holders = [i for i, b in enumerate(self.binding[:len(self.objs)]) if b == fi]
        return len({self.any_buffered(i) for i in holders}) <= 1

    used_buffer = False

    def note_access(self, oi, fi, mutated):
        if not self.uniform(fi):
            self.nonuniform = True
        if self.any_buffered(oi):
            self.used_buffer = True
        if self.any_buffered(oi):
            if not self.entered.get(fi):
                self.entered[fi] = True
                self.ext_after[fi] = False
                self.modified[fi] = False
                self.at_entry[fi] = copy.deepcopy(self.logical_of(fi))
                self.named_during[fi] = False
                self.wrote_during[fi] = False
            if mutated:
                self.modified[fi] = True

    # ---------- oracles on the logical content
    def logical_of(self, fi):
        v = self.logical.get(fi, MISSING)
        if v is MISSING or v is None:
            return [] if self.kind == "list" else {}
        return v

    def nav(self, v, path):
        for k in path:
            try:
                v = v[k]
            except Exception:  # noqa
                return MISSING
        return v

    nonuniform = False

    def spec_applicable(self):
        # the plain-structure oracle is defined while nobody else writes the files, no flush failed, and
        # the objects bound to a file were in the same buffered state whenever the file was used
        return not self.ext_seen and not self.errors_seen and not self.nonuniform

    def oracle_read(self, fi, path, op, res, wrote):
        if wrote and self.p.get("no_small_cap_writes_on_read", True) and not self.small_cap_seen:
            self.fail("C17", f"read {op[0]} wrote files {wrote}")
        if not self.spec_applicable():
            return
        if res[0] in ("meta", "buf"):
            self.fail("C05-error", f"buffer-related error {res} with no outside writer")
            return
        tgt = self.nav(copy.deepcopy(self.logical_of(fi)), path)
        if tgt is MISSING:
            return
        try:
            exp = ("ok", apply_lop(tgt, copy.deepcopy(op)) if isinstance(tgt, list) else apply_dop(tgt, copy.deepcopy(op)))
        except Exception as e:  # noqa
            exp = ("err", err_class(e))
        if exp[0] == "ok" and exp[1] is NotImplemented:
            return
        from k1 import strict_eq, canon_key
        same = (res[0] == exp[0]) and (strict_eq(res[1], exp[1]) if res[0] == "ok" else res[1] == exp[1])
        if op[0] in ("DIter", "DKeys", "DValues", "DItems") and res[0] == "ok" and exp[0] == "ok":
            same = strict_eq(sorted(res[1], key=canon_key), sorted(exp[1], key=canon_key))
        if not same:
            self.fail("C05-transparent", f"{op[0]} at {path}: impl {jsonable(res)} vs plain {jsonable(exp)} (logical {jsonable(self.logical_of(fi))})")

    def oracle_mut(self, oi, fi, path, op, res, wrote, contents):
        from k1 import strict_eq
        buffered = self.any_buffered(oi)
        report = self.spec_applicable()
        if res[0] in ("meta", "buf"):
            if report:
                self.fail("C05-error", f"buffer-related error {res} with no outside writer")
            # the in-memory change was made before the flush inside the save raised
            root = copy.deepcopy(self.logical_of(fi))
            tgt = self.nav(root, path)
            if tgt is not MISSING:
                try:
                    apply_lop(tgt, copy.deepcopy(op)) if isinstance(tgt, list) else apply_dop(tgt, copy.deepcopy(op))
                    self.logical[fi] = root
                except Exception:  # noqa
                    pass
            return
        root = copy.deepcopy(self.logical_of(fi))
        tgt = self.nav(root, path)
        if tgt is not MISSING:
            try:
                exp = ("ok", copy.deepcopy(apply_lop(tgt, copy.deepcopy(op)) if isinstance(tgt, list) else apply_dop(tgt, copy.deepcopy(op))))
            except Exception as e:  # noqa
                exp = ("err", err_class(e))
            if op[0] == "DPopitem":
                # order-dependent: accept any item
                cur = self.nav(copy.deepcopy(self.logical_of(fi)), path)
                if res[0] == "ok" and isinstance(cur, dict) and res[1][0] in cur:
                    root = copy.deepcopy(self.logical_of(fi))
                    t2 = self.nav(root, path)
                    del t2[res[1][0]]
                    exp = res
            same = (res[0] == exp[0]) and (strict_eq(res[1], exp[1]) if res[0] == "ok" else
                                           (res[1] == exp[1] or {res[1], exp[1]} <= {"EType", "EValue"}))
            if not same and report:
                self.fail("C05-transparent", f"{op[0]} at {path}: impl {jsonable(res)} vs plain {jsonable(exp)}")
            self.logical[fi] = root
        if not report:
            return
        # deferral: inside a buffered state nothing may be written unless capacity forces it
        if buffered and wrote and not self.small_cap_seen:
            self.fail("C05-deferred", f"{op[0]} wrote files {wrote} inside a buffered context (capacity {self.cls.get_buffer_capacity()})")
        if not buffered:
            if contents[fi] is MISSING and res[0] == "err" and not self.logical_of(fi):
                pass
            elif contents[fi] is MISSING or not strict_eq(contents[fi], self.logical_of(fi)):
                self.fail("C05-final", f"unbuffered {op[0]}: file {jsonable(contents[fi])} expected {jsonable(self.logical_of(fi))}")

    def s_ctx(self, kind, oi=None, cap=None):
        before = [self.stampf(i) for i in range(len(self.files))]
        pre_disk = [self.disk(i) for i in range(len(self.files))]
        if kind == "eo":
            res = self.call(lambda: self.objs[oi].buffered.__enter__())
            bop = f"(BEnterObj {oi})"
            self.obj_depth[oi] = self.obj_depth.get(oi, 0) + 1
        elif kind == "xo":
            res = self.call(lambda: self.objs[oi].buffered.__exit__(None, None, None))
            bop = f"(BExitObj {oi})"
            self.obj_depth[oi] -= 1
        elif kind == "ec":
            ctx = self.cls.buffer_backend(cap) if cap is not None else self.cls.buffer_backend()
            res = self.call(lambda: ctx.__enter__())
            bop = f"(BEnterCls {c_optz2(cap)})"
            self.ctx_depth += 1
            self.cap_stack.append(None if cap is None else self.exp_cap)
            if cap is not None:
                self.exp_cap = cap
        elif kind == "xc":
            res = self.call(lambda: self.cls._buffer_context.__exit__(None, None, None))
            bop = "BExitCls"
            self.ctx_depth -= 1
            orig = self.cap_stack.pop()
            if orig is not None:
                self.exp_cap = orig
        else:
            res = self.call(lambda: self.cls.set_buffer_capacity(cap))
            bop = f"(BSetCap ({cap})%Z)"
            self.exp_cap = cap
        if res[0] == "ok":
            res = ("ok", None)
        contents, wrote, size, cap_now, bufd = self.emit(bop, self.c_exp(res), before, {"op": kind, "obj": oi, "cap": cap, "result": jsonable(res)})
        self.residency(res, wrote, contents, bufd)
        self.after_common(res, size, cap_now, bufd, res[0] in ("meta", "buf"))
        self.count(kind + ("" if res[0] == "ok" else "!" + res[0]))
        self.oracle_ctx(kind, oi, res, wrote, contents, pre_disk)

    def oracle_ctx(self, kind, oi, res, wrote, contents, pre_disk):
        pass

    def residency(self, res, wrote, contents, bufd):
        """C07 / C05-final bookkeeping after EVERY step.  A file's residency in the buffer ends when it is no
        longer in cls._buffer (context exit, or a capacity-forced flush of the serialized strategy); the
        shared-memory strategy keeps entries across forced flushes, writing the modified ones."""
        from k1 import strict_eq
        for fi in range(len(self.files)):
            if not self.entered.get(fi):
                continue
            named_now = (res[0] == "meta" and res[1] == fi) or (res[0] == "buf" and fi in res[1])
            if named_now:
                self.named_during[fi] = True
            changed = not strict_eq(self.at_entry.get(fi), self.logical_of(fi))
            if fi in wrote:
                self.wrote_during[fi] = True
                if self.ext_after.get(fi) and changed and not self.nonuniform:
                    self.fail("C07-overwrite", f"file {fi} was changed outside after it entered the buffer, yet the library wrote it "
                                               f"(now {jsonable(contents[fi])}, outside writer left {jsonable(self.last_ext.get(fi))})")
            if fi not in bufd:
                may = bool(self.modified.get(fi) and self.ext_after.get(fi))
                must = bool(changed and self.ext_after.get(fi))
                named = bool(self.named_during.get(fi))
                if not self.nonuniform:
                    if must and not named:
                        self.fail("C07-silent", f"file {fi} was modified in the buffer and changed outside, but no flush named it")
                    if (must or named) and fi in self.last_ext and not strict_eq_m(contents[fi], self.last_ext[fi]):
                        self.fail("C07-overwrite", f"conflicting file {fi} was overwritten: holds {jsonable(contents[fi])}, outside writer left {jsonable(self.last_ext[fi])}")
                    if not may and named:
                        self.fail("C07-spurious", f"file {fi} named by a flush without a conflict (modified={self.modified.get(fi)}, ext_after={self.ext_after.get(fi)})")
                    if not self.modified.get(fi) and self.wrote_during.get(fi):
                        self.fail("C07-readonly-written", f"file {fi} was only read in the buffer but was written")
                        self.fail("C17-session", f"file {fi} was only read inside buffered contexts, yet it was written (or created)")
                    if changed and not named and not self.ext_after.get(fi):
                        d_ = contents[fi]
                        d_ = ([] if self.kind == "list" else {}) if d_ is MISSING else d_
                        if not strict_eq(d_, self.logical_of(fi)):
                            self.fail("C05-final", f"file {fi} left the buffer holding {jsonable(contents[fi])}, logical content {jsonable(self.logical_of(fi))}")
                self.entered[fi] = False
                d = contents[fi]
                self.logical[fi] = None if d is MISSING else copy.deepcopy(d)
            elif fi in wrote and not named_now:
                # shared-memory forced flush: the buffered copy is on disk now, the entry starts afresh
                self.at_entry[fi] = copy.deepcopy(self.logical_of(fi))
                self.modified[fi] = False
                self.ext_after[fi] = False
                self.wrote_during[fi] = False

    def errors_seen_before_exit(self):
        return False

    # ---------- driver
    def run(self, budget):
        self.budget = budget
        for oi, fi in enumerate(self.binding):
            self.s_new(oi, fi)
        if self.p.get("init", True):
            for fi in range(len(self.files)):
                if self.g.r.random() < self.p.get('init_p', 1.0):
                    self.s_ext_init(fi, self.g.container(self.kind, 2))
        self.block(0)
        # leave everything
        while self.anything_active():
            for oi in list(self.obj_depth):
                while self.obj_depth.get(oi, 0) > 0:
                    self.s_ctx("xo", oi)
            while self.ctx_depth > 0:
                self.s_ctx("xc")
        # final usability: every collection shows what is on disk (C07 post-state)
        for oi in range(len(self.objs)):
            res = self.call(lambda: self.objs[oi]())
            d = self.disk(self.binding[oi])
            from k1 import strict_eq
            if res[0] != "ok":
                self.fail("C07-post", f"object {oi} unusable after all contexts exited: {res}")
            elif d is not MISSING and not strict_eq(res[1], d):
                self.fail("C07-post", f"object {oi} shows {jsonable(res[1])} but disk holds {jsonable(d)}")
        if self.cls.get_buffer_capacity() != self.exp_cap:
            self.fail("C15-capacity", f"capacity {self.cls.get_buffer_capacity()} after all contexts exited, expected {self.exp_cap}")

    cap_changed_at_top = False

    def run_script(self, script):
        for oi, fi in enumerate(self.binding):
            self.s_new(oi, fi)
        missing = set()
        if script and script[0][0] == "missing":
            missing, script = set(script[0][1]), script[1:]
        for fi in range(len(self.files)):
            if fi not in missing:
                self.s_ext_init(fi, [1] if self.kind == "list" else {"a": 1})
        for st in script:
            if st[0] == "ext":
                self.s_ext(st[1], st[2], keep_mtime=(len(st) > 3 and st[3] == "keep-mtime"))
            elif st[0] == "op":
                self.s_op(st[1], st[2], st[3])
            elif st[0] == "ec":
                self.s_ctx("ec", cap=st[1])
            elif st[0] == "xc":
                self.s_ctx("xc")
            elif st[0] in ("eo", "xo"):
                self.s_ctx(st[0], st[1])
            elif st[0] == "cap":
                self.s_ctx("cap", cap=st[1])
        while self.anything_active():
            for oi in list(self.obj_depth):
                while self.obj_depth.get(oi, 0) > 0:
                    self.s_ctx("xo", oi)
            while self.ctx_depth > 0:
                self.s_ctx("xc")
        for oi in range(len(self.objs)):
            res = self.call(lambda: self.objs[oi]())
            d = self.disk(self.binding[oi])
            from k1 import strict_eq
            if res[0] != "ok":
                self.fail("C07-post", f"object {oi} unusable after all contexts exited: {res}")
            elif d is not MISSING and not strict_eq(res[1], d):
                self.fail("C07-post", f"object {oi} shows {jsonable(res[1])} but disk holds {jsonable(d)}")
        if self.cls.get_buffer_capacity() != self.exp_cap:
            self.fail("C15-capacity", f"capacity {self.cls.get_buffer_capacity()} after all contexts exited, expected {self.exp_cap}")

    def s_ext_init(self, fi, v):
        with open(self.files[fi], "wb") as f:
            f.write(json.dumps(v).encode())
        before = [self.stampf(i) for i in range(len(self.files))]
        self.emit(f"(BExt {fi} {c_val(v)})", "XAny", before, {"op": "init", "file": fi, "value": jsonable(v)})
        self.logical[fi] = copy.deepcopy(v)

    def gen_op(self, oi):
        import gen as gmod
        g = gmod.G(self.g.r.randrange(10 ** 9))
        g.value = lambda depth=2, small=False: self.g.value(min(depth, 2))
        g.scalar = lambda small=False: self.g.scalar()
        g.key = lambda: self.g.r.choice(KEYS)
        fi = self.binding[oi]
        if (self.p.get("first_reset") and self.any_buffered(oi) and not self.entered.get(fi)
                and self.g.r.random() < self.p["first_reset"]):
            # the first buffered access to a file is a root reset (no load): also on a file that does not exist yet
            self.count("first-access-reset")
            return [], (("LReset", self.g.container("list", 1)) if self.kind == "list" else ("DReset", self.g.container("dict", 1)))
        # choose a path into the object's current in-memory data (no loads)
        data = self.objs[oi]._to_base()
        path = []
        cur = data
        allow_nested = self.p.get("nested", True) and (self.strat == "Ser" or self.binding.count(fi) == 1)
        while allow_nested and self.g.r.random() < 0.4:
            if isinstance(cur, dict):
                ks = [k for k, v in cur.items() if isinstance(v, (dict, list))]
            elif isinstance(cur, list):
                ks = [i for i, v in enumerate(cur) if isinstance(v, (dict, list))]
            else:
                ks = []
            if not ks:
                break
            k = self.g.r.choice(ks)
            path.append(k)
            cur = cur[k]
        want_read = self.g.r.random() < self.p.get("reads", 0.3)
        if isinstance(cur, list):
            op = g.list_read(cur) if want_read else g.list_mut(cur, 2)
        else:
            op = g.dict_read(cur) if want_read else g.dict_mut(cur, 2)
        if op[0] == "DPopitem" and self.strat == "Shm" and self.binding.count(fi) > 1:
            # which item is last depends on key order, which is unspecified after a root reset merged into the shared
            # container (the flat model replaces the content there): not comparable, use another operation
            op = ("DLen",)
        if not want_read and self.g.r.random() < 0.22:
            # overwrite a slot with the value that is == to it but of another JSON type (1 <-> True <-> 1.0, 0 <-> False)
            twin = {1: True, True: 1, 0: False, False: 0}
            if isinstance(cur, dict):
                ks = [k for k, v in cur.items() if type(v) in (int, bool) and v in (0, 1)]
                if ks:
                    k = self.g.r.choice(ks)
                    op = ("DSet", k, (not cur[k]) if False else ({True: 1, False: 0}[cur[k]] if isinstance(cur[k], bool) else bool(cur[k])))
            elif isinstance(cur, list):
                ks = [i for i, v in enumerate(cur) if type(v) in (int, bool) and v in (0, 1)]
                if ks:
                    k = self.g.r.choice(ks)
                    op = ("LSet", k, ({True: 1, False: 0}[cur[k]] if isinstance(cur[k], bool) else bool(cur[k])))
        return path, op

    def block(self, depth):
        n = self.g.r.randint(2, 6)
        for _ in range(n):
            if self.budget <= 0:
                return
            self.budget -= 1
            if (self.strat == "Shm" and len(set(self.binding)) < len(self.binding) and not self.anything_active()
                    and self.used_buffer):
                # known finding D19: after a common shared-memory session the objects of one file stay
                # entangled; histories that continue past that point are outside what is claimed
                self.budget = 0
                return
            k = self.g.r.random()
            oi = self.g.r.randrange(len(self.objs))
            p = self.p
            if k < p.get("w_op", 0.55):
                path, op = self.gen_op(oi)
                try:
                    (c_lop if op[0].startswith("L") else c_dop)(op)
                    json.dumps(jsonable(op[1:]))
                except Exception:  # noqa
                    continue
                if not self.valid_op(op) or op[0] in ("LIndex", "LCount", "LContains"):
                    continue      # these compare element-wise and load once per visited element (covered by K1)
                self.s_op(oi, path, op)
            elif k < p.get("w_op", 0.55) + p.get("w_ext", 0.0):
                self.s_ext(self.g.r.randrange(len(self.files)), self.g.container(self.kind, 2), keep_mtime=self.g.r.random() < 0.2)
            elif k < p.get("w_op", 0.55) + p.get("w_ext", 0.0) + p.get("w_reorder", 0.0):
                # outside writer stores the SAME content with another key order (only while the file is not buffered)
                fi = self.g.r.randrange(len(self.files))
                cur = self.disk(fi)
                if cur is not MISSING and isinstance(cur, dict) and len(cur) > 1 and not self.anything_active():
                    ks = list(cur)
                    self.g.r.shuffle(ks)
                    self.s_ext(fi, {k_: cur[k_] for k_ in ks})
                    self.ext_seen = False      # same logical content: the plain oracle stays applicable
            elif k < p.get("w_op", 0.55) + p.get("w_ext", 0.0) + p.get("w_reorder", 0.0) + p.get("w_cap", 0.0):
                cap = self.g.r.choice(p.get("caps", [0, 1, 2, 30, 80, 10 ** 6]))
                if self.ctx_depth == 0:
                    self.cap_changed_at_top = True
                self.s_ctx("cap", cap=cap)
            elif depth < 3 and self.g.r.random() < 0.5:
                cap = self.g.r.choice(p.get("ctx_caps", [None]))
                self.s_ctx("ec", cap=cap)
                if self.log[-1]["result"][0] != "ok":
                    # __enter__ raised: the with-body and __exit__ are skipped by Python
                    self.ctx_depth -= 0
                self.block(depth + 1)
                self.s_ctx("xc")
            elif depth < 3:
                group = [oi]
                if p.get("uniform", True):
                    group = [i for i, b in enumerate(self.binding) if b == self.binding[oi]]
                    self.g.r.shuffle(group)
                for i in group:
                    self.s_ctx("eo", i)
                self.block(depth + 1)
                self.g.r.shuffle(group)
                for i in group:
                    self.s_ctx("xo", i)

    def valid_op(self, op):
        # values restricted to the fragment blen_json covers: no floats, ASCII strings
        def ok(v):
            if isinstance(v, float):
                return False
            if isinstance(v, str):
                return all(32 <= ord(c) < 127 and c not in '"\\' for c in v)
            if isinstance(v, dict):
                return all(ok(k) and ok(x) for k, x in v.items())
            if isinstance(v, (list, tuple)):
                return all(ok(x) for x in v)
            return isinstance(v, (int, bool)) or v is None or isinstance(v, slice)
        return all(ok(a) for a in op[1:])

    def reset_class(self):
        reset_buffer_class(self.cls, self.default_cap)

    def coq_case(self):
        return f"({self.strat}, ({self.default_cap})%Z, [" + ";\n ".join(self.steps) + "])"


READS = {"LGet", "LGetSlice", "LLen", "LCall", "LIter", "LReversed", "LIndex", "LCount", "LContains", "LEq", "LCmp",
         "DGet", "DGetDefault", "DLen", "DCall", "DIter", "DKeys", "DValues", "DItems", "DContains", "DEq"}


def strict_eq_m(a, b):
    from k1 import strict_eq
    if a is MISSING or b is MISSING:
        return a is b
    return strict_eq(a, b)


BPROFILES = {
    "C05": {"files": 2, "binding": [0, 1], "w_op": 0.6, "reads": 0.35, "ctx_caps": [None, None, None, 10 ** 6], "init_p": 0.75, "first_reset": 0.3},
    "C05cap": {"files": 2, "binding": [0, 1], "w_op": 0.55, "w_cap": 0.08, "reads": 0.3, "ctx_caps": [None, 0, 1, 2, 40, 100], "caps": [0, 1, 2, 30, 80, 10 ** 6], "init_p": 0.85},
    "C06": {"files": 2, "binding": [0, 0, 1], "w_op": 0.6, "reads": 0.4, "ctx_caps": [None]},
    "C06b": {"files": 1, "binding": [0, 0, 0], "w_op": 0.6, "reads": 0.4, "ctx_caps": [None], "nested": False},
    "C07": {"files": 2, "binding": [0, 0, 1], "w_op": 0.5, "w_ext": 0.12, "reads": 0.4, "ctx_caps": [None, None, 10 ** 6]},
    "C07cap": {"files": 2, "binding": [0, 0, 1], "w_op": 0.5, "w_ext": 0.1, "w_cap": 0.06, "reads": 0.3, "ctx_caps": [None, 0, 1, 50], "caps": [0, 1, 40, 10 ** 6]},
    "C15": {"files": 2, "binding": [0, 0, 1], "w_op": 0.5, "w_ext": 0.04, "w_cap": 0.1, "reads": 0.3, "ctx_caps": [None, 0, 1, 2, 25, 60, 10 ** 6], "caps": [0, 1, 2, 20, 40, 10 ** 6]},
    "C17": {"files": 2, "binding": [0, 0, 1], "w_op": 0.55, "reads": 1.0, "ctx_caps": [None, None, 10 ** 6], "init_p": 0.65, "w_reorder": 0.12},
    "C17cap": {"files": 2, "binding": [0, 0, 1], "w_op": 0.55, "w_cap": 0.1, "reads": 1.0, "ctx_caps": [None, 0, 1, 5, 30], "caps": [0, 1, 10, 10 ** 6], "init_p": 0.8},
}


def grid_scripts(kind, strat, seed, tier):
    """Small-scope enumeration for C07 / C15: context shapes x per-file (access, outside change) assignments."""
    import itertools
    rnd = random.Random(seed)
    small = 10 if strat == "Ser" else 0
    big = 10 ** 6
    shapes = {
        "cls": [("ec", None)], "obj": [("eo", 0), ("eo", 1)], "obj_in_cls": [("ec", None), ("eo", 0), ("eo", 1)],
        "big_in_small": [("ec", small), ("ec", big)], "big_after_setcap_small": [("cap", small), ("ec", big)],
        "small_in_big": [("ec", big), ("ec", small)],
    }
    combos = list(itertools.product(["mod", "read", "none"], ["before", "after", "never"], repeat=2))
    if tier == "quick":
        combos = rnd.sample(combos, 14) + [("mod", "after", "mod", "never"), ("mod", "after", "mod", "after"), ("read", "after", "mod", "never"),
                                           ("mod", "never", "mod", "after")]
    mod_op = (lambda i: ("LAppend", "v" * 24 + str(i))) if kind == "list" else (lambda i: ("DSet", "k", "v" * 24 + str(i)))
    read_op = ("LCall",) if kind == "list" else ("DCall",)
    outv = (lambda i: ["outside", i]) if kind == "list" else (lambda i: {"outside": i})
    for shape, enters in shapes.items():
        for a0, e0, a1, e1 in combos:
            sc = []
            for fi, e in ((0, e0), (1, e1)):
                if e == "before":
                    sc.append(("ext", fi, outv(fi)))
            sc += list(enters)
            for fi, a in ((0, a0), (1, a1)):
                if a == "mod":
                    sc.append(("op", fi, [], mod_op(fi)))
                elif a == "read":
                    sc.append(("op", fi, [], read_op))
            for fi, e in ((0, e0), (1, e1)):
                if e == "after":
                    sc.append(("ext", fi, outv(fi + 10)))
            # a second modification after the outside change (what a forced flush must not forget)
            if a0 == "mod" and rnd.random() < 0.5:
                sc.append(("op", 0, [], mod_op(7)))
            for en in reversed(enters):
                if en[0] == "ec":
                    sc.append(("xc",))
                elif en[0] == "eo":
                    sc.append(("xo", en[1]))
            sc.append(("op", 0, [], read_op))
            sc.append(("op", 1, [], read_op))
            yield f"{shape}:{a0}/{e0},{a1}/{e1}", sc
        # the outside writer preserves the file's modification time (only its size tells)
        for a1 in ("mod", "none"):
            sc = list(enters) + [("op", 0, [], mod_op(0))]
            if a1 == "mod":
                sc.append(("op", 1, [], mod_op(1)))
            sc.append(("ext", 0, outv(30), "keep-mtime"))
            for en in reversed(enters):
                if en[0] == "ec":
                    sc.append(("xc",))
                elif en[0] == "eo":
                    sc.append(("xo", en[1]))
            sc += [("op", 0, [], read_op), ("op", 1, [], read_op)]
            yield f"{shape}:mod/after-keeping-mtime,{a1}/never", sc
        # file 0 does not exist when it enters the buffer and is created by an outside writer before the flush
        for a0 in ("mod", "read"):
            for a1 in ("mod", "none"):
                sc = [("missing", [0])] + list(enters)
                sc.append(("op", 0, [], mod_op(0) if a0 == "mod" else read_op))
                if a1 == "mod":
                    sc.append(("op", 1, [], mod_op(1)))
                sc.append(("ext", 0, outv(20)))
                for en in reversed(enters):
                    sc.append(("xc",) if en[0] == "ec" else (("xo", en[1]) if en[0] == "eo" else ("nop",)))
                sc = [x for x in sc if x[0] != "nop"]
                sc += [("op", 0, [], read_op), ("op", 1, [], read_op)]
                yield f"{shape}:{a0}/created-outside,{a1}/never", sc


def run_grid(seed, tier, classes=None):
    ns = import_library()
    cj = ns.cj
    classes = classes or ([cj.BufferedJSONDict, cj.MemoryBufferedJSONDict] if tier == "quick" else
                          [cj.BufferedJSONDict, cj.MemoryBufferedJSONDict, cj.BufferedJSONList, cj.MemoryBufferedJSONList])
    tmp = tempfile.mkdtemp(prefix="verif_kgrid_")
    out = {"cases": [], "logs": [], "oracle": [], "stats": {}, "classes": {}, "meta": []}
    try:
        i = 0
        for cls in classes:
            probe = BSession(ns, cls, 0, {"files": 2, "binding": [0, 1]}, tmp)
            for name, sc in grid_scripts(probe.kind, probe.strat, seed, tier):
                s = BSession(ns, cls, seed * 100003 + i, {"files": 2, "binding": [0, 1]}, tmp)
                s.reset_class()
                try:
                    s.run_script(sc)
                except Exception:  # noqa
                    import traceback
                    s.fails.append({"oracle": "harness", "step": len(s.log), "detail": traceback.format_exc()[-1500:]})
                finally:
                    s.reset_class()
                out["cases"].append(s.coq_case())
                out["logs"].append(s.log)
                out["meta"].append({"session": i, "class": cls.__name__, "seed": s.seed, "strategy": s.strat, "script": name})
                for f in s.fails:
                    f = dict(f)
                    f.update(session=i, cls=cls.__name__, seed=s.seed, script=name)
                    out["oracle"].append(f)
                out["classes"][cls.__name__] = out["classes"].get(cls.__name__, 0) + 1
                i += 1
    finally:
        shutil.rmtree(tmp, ignore_errors=True)
    return out


def buffered_classes(ns):
    cj = ns.cj
    return [cj.BufferedJSONDict, cj.BufferedJSONList, cj.MemoryBufferedJSONDict, cj.MemoryBufferedJSONList,
            cj.BufferedJSONAttrDict, cj.BufferedJSONAttrList, cj.MemoryBufferedJSONAttrDict, cj.MemoryBufferedJSONAttrList]


def run_sessions(profile, seed, nsessions, budget, classes=None):
    ns = import_library()
    classes = classes or buffered_classes(ns)
    tmp = tempfile.mkdtemp(prefix="verif_kbuf_")
    out = {"cases": [], "logs": [], "oracle": [], "stats": {}, "classes": {}, "meta": []}
    try:
        for i in range(nsessions):
            cls = classes[(seed + i) % len(classes)]
            s = BSession(ns, cls, seed * 100003 + i, BPROFILES[profile], tmp)
            s.reset_class()
            try:
                s.run(budget)
            except Exception:  # noqa
                import traceback
                s.fails.append({"oracle": "harness", "step": len(s.log), "detail": traceback.format_exc()[-1500:]})
            finally:
                s.reset_class()
            out["cases"].append(s.coq_case())
            out["logs"].append(s.log)
            out["meta"].append({"session": i, "class": cls.__name__, "seed": s.seed, "strategy": s.strat})
            for f in s.fails:
                f = dict(f)
                f.update(session=i, cls=cls.__name__, seed=s.seed)
                out["oracle"].append(f)
            for k, v in s.stats.items():
                out["stats"][k] = out["stats"].get(k, 0) + v
            out["classes"][cls.__name__] = out["classes"].get(cls.__name__, 0) + 1
    finally:
        shutil.rmtree(tmp, ignore_errors=True)
    return out


def check_against_model(out):
    bad = run_case_files(HEADER, "(strategy * Z * list bkstep)", "check_bcase", out["cases"], shard=30)
    diags = []
    for b in bad[:3]:
        c = out["cases"][b]
        strat, rest = c[1:].split(",", 1)
        txt = coq_eval(HEADER, f"match {c} with (st, cap, ks) => diag_bcase st cap ks end")
        diags.append((b, txt.strip()[-300:]))
    return bad, diags


if __name__ == "__main__":
    import sys
    prof = sys.argv[1] if len(sys.argv) > 1 else "C05"
    seed = int(sys.argv[2]) if len(sys.argv) > 2 else 1
    n = int(sys.argv[3]) if len(sys.argv) > 3 else 40
    budget = int(sys.argv[4]) if len(sys.argv) > 4 else 40
    t = time.time()
    out = run_grid(seed, "quick" if n < 100 else "thorough") if prof == "GRID" else run_sessions(prof, seed, n, budget)
    print("sessions", n, "impl time", round(time.time() - t, 1), "steps", sum(len(l) for l in out["logs"]), "oracle failures", len(out["oracle"]))
    for f in out["oracle"][:8]:
        print("  ORACLE", f["oracle"], f["cls"], "session", f["session"], "step", f["step"], f["detail"][:300])
    ok, log = coq_build()
    if not ok:
        print(log[-2000:])
        sys.exit(2)
    bad, diags = check_against_model(out)
    print("model mismatches", len(bad), bad[:20], "total", round(time.time() - t, 1))
    for b, txt in diags:
        print("session", b, out["meta"][b], txt)
        m = re.search(r"Some \((\d+), (\d+)\)", txt)
        if m:
            st = int(m.group(1))
            for j in range(max(0, st - 5), st + 1):
                print("   ", j, json.dumps(out["logs"][b][j], default=repr)[:500])
    print(sorted(out["stats"].items()))


# ------------------------------------------------------------------------------------------ C05: buffered vs unbuffered, same code
def run_c05_diff(prop, tier, seed):
    """C05 read literally: the same operation sequence (including operations that FAIL half-way, e.g. update() with a valid
    entry followed by a forbidden one) is run unbuffered and inside every nesting of buffered contexts; every result, every
    read in between and the final file content must agree.  Pure implementation-vs-specification oracle (no model)."""
    import gen as gmod
    from k1 import strict_eq
    ns = import_library()
    tmp = tempfile.mkdtemp(prefix="verif_c05d_")
    res = {"name": "C05-differential", "model_mismatches": [], "oracle_failures": [], "samples": [], "stats": {}}
    n = 6 if tier == "quick" else 120
    nestings = ["none", "obj", "cls", "cls>obj", "obj>cls", "obj>obj"]
    ev = 0

    def script_for(g, kind):
        """Items: ("op", path, op) navigated afresh | ("take", path, hid) keep a nested handle | ("use", hid, op) operate
        through a kept handle | ("enter", kind) / ("exit",) a nested context in the middle (skipped in the unbuffered run)."""
        items = []
        shadow = g.container(kind, 2, small=True)
        if isinstance(shadow, dict):
            shadow.setdefault("a", {"x": 1, "l": [1, {"y": 2}]})
        else:
            shadow.append({"x": 1, "l": [1, {"y": 2}]})
        init = copy.deepcopy(shadow)
        nhandles = 0
        open_ctx = 0
        for _ in range(g.r.randint(5, 11)):
            r = g.r.random()
            paths = [[]]
            if isinstance(shadow, dict):
                paths += [[k] for k, v in shadow.items() if isinstance(v, (dict, list))]
            else:
                paths += [[i] for i, v in enumerate(shadow) if isinstance(v, (dict, list))]
            if r < 0.15 and len(paths) > 1:
                items.append(("take", g.r.choice(paths[1:]), nhandles))
                nhandles += 1
                continue
            if r < 0.27 and open_ctx < 2:
                items.append(("enter", g.r.choice(["obj", "cls"])))
                open_ctx += 1
                continue
            if r < 0.37 and open_ctx > 0:
                items.append(("exit",))
                open_ctx -= 1
                continue
            if r < 0.55 and nhandles:
                # through a kept handle: simple operations that are valid on a dict or a list alike are chosen at run time
                items.append(("use", g.r.randrange(nhandles), g.r.choice(["set", "read", "clear", "grow"])))
                continue
            path = g.r.choice(paths)
            tgt = shadow
            for k in path:
                tgt = tgt[k]
            if g.r.random() < 0.3:
                op = g.list_read(tgt) if isinstance(tgt, list) else g.dict_read(tgt)
                if op[0] in ("LIndex", "LCount", "LContains"):
                    continue
            else:
                op = g.list_mut(tgt, 2) if isinstance(tgt, list) else g.dict_mut(tgt, 2)
                if g.r.random() < 0.3:
                    bad = BAD_VALUES[g.r.choice([1, 2, 3])]
                    if op[0] in ("DUpdate", "DReset") and isinstance(op[1], dict):
                        v = dict(op[1]); v.setdefault("a", 1); v["zz_bad"] = bad
                        op = (op[0], v)
                    elif op[0] in ("LExtend", "LIAdd", "LReset") and isinstance(op[1], list):
                        op = (op[0], list(op[1]) + [1, bad, 2])
            items.append(("op", path, op))
            try:
                apply_lop(tgt, copy.deepcopy(op)) if isinstance(tgt, list) else apply_dop(tgt, copy.deepcopy(op))
            except Exception:  # noqa
                pass
        items += [("exit",)] * open_ctx
        return init, items

    def run(cls, fn, init, ops, nesting):
        with open(fn, "w") as fh:
            json.dump(init, fh)
        x = cls(fn)
        trace = []
        handles = {}
        conv = lambda v: v._to_base() if hasattr(v, "_to_base") else v   # noqa
        with contextlib.ExitStack() as stack:
            for lvl in ([] if nesting == "none" else nesting.split(">")):
                stack.enter_context(x.buffered if lvl == "obj" else cls.buffer_backend())
            inner = []
            for it in ops:
                try:
                    if it[0] == "enter":
                        if nesting != "none":
                            c_ = x.buffered if it[1] == "obj" else cls.buffer_backend()
                            c_.__enter__()
                            inner.append(c_)
                        continue
                    if it[0] == "exit":
                        if nesting != "none" and inner:
                            inner.pop().__exit__(None, None, None)
                        continue
                    if it[0] == "take":
                        tgt = x
                        for k in it[1]:
                            tgt = tgt[k]
                        handles[it[2]] = tgt
                        r = ("ok", "taken" if hasattr(tgt, "_to_base") else "scalar")
                    elif it[0] == "use":
                        h = handles.get(it[1])
                        if h is None or not hasattr(h, "_to_base"):
                            r = ("ok", "no-handle")
                        else:
                            is_list = isinstance(object.__getattribute__(h, "_data"), list)
                            if it[2] == "set":
                                r = ("ok", (h.append("via-handle") if is_list else h.__setitem__("via_handle", [1])))
                            elif it[2] == "grow":
                                r = ("ok", (h.extend([{"g": 1}]) if is_list else h.update({"g": {"h": 1}})))
                            elif it[2] == "clear":
                                r = ("ok", h.clear())
                            else:
                                r = ("ok", copy.deepcopy(h()))
                    else:
                        _, path, op = it
                        tgt = x
                        for k in path:
                            tgt = tgt[k]
                        is_list = isinstance(object.__getattribute__(tgt, "_data"), list)
                        r = apply_lop(tgt, copy.deepcopy(op), conv) if is_list else apply_dop(tgt, copy.deepcopy(op), conv)
                        r = ("ok", copy.deepcopy(r))
                except Exception as e:  # noqa
                    r = ("err", err_class(e))
                trace.append((r, copy.deepcopy(x())))
            while inner:
                inner.pop().__exit__(None, None, None)
        with open(fn) as fh:
            final = json.load(fh)
        return trace, final, copy.deepcopy(x())
    try:
        classes = buffered_classes(ns)
        for ci, cls in enumerate(classes):
            kind = "list" if cls.__name__.endswith("List") else "dict"
            directed = []
            dinit = {"a": {"x": 1, "l": [1, {"y": 2}]}, "b": 1} if kind == "dict" else [1, {"x": 1, "l": [1, {"y": 2}]}]
            hp = ["a"] if kind == "dict" else [1]
            same = ("DReset", {"a": {"x": 2}}) if kind == "dict" else ("LReset", [1, {"x": 2}])
            other = ("DReset", {"q": 1}) if kind == "dict" else ("LReset", [5])
            clear = ("DClear",) if kind == "dict" else ("LClear",)
            for mid in ([("enter", "obj"), ("exit",)], [("enter", "cls"), ("exit",)], [("enter", "obj"), ("enter", "cls"), ("exit",), ("exit",)], []):
                for root_op in (same, other, clear):
                    for use in ("set", "grow", "read"):
                        directed.append((copy.deepcopy(dinit), [("take", hp, 0)] + mid + [("op", [], root_op), ("use", 0, use), ("op", [], ("DCall",) if kind == "dict" else ("LCall",))]))
                        directed.append((copy.deepcopy(dinit), [("take", hp, 0), ("use", 0, "set")] + mid + [("use", 0, use), ("op", [], root_op)]))
            if tier == "quick":
                directed = directed[:: 3] + directed[1:: 7]
            for rep in range(n + len(directed)):
                g = gmod.G(seed * 7919 + ci * 1009 + rep)
                init, ops = directed[rep - n] if rep >= n else script_for(g, kind)
                base = None
                for nesting in nestings:
                    fn = os.path.join(tmp, f"d{ci}_{rep}_{nesting.replace('>', '_')}.json")
                    try:
                        got = run(cls, fn, init, ops, nesting)
                    except Exception as e:  # noqa
                        res["oracle_failures"].append({"oracle": "C05-differential", "cls": cls.__name__, "nesting": nesting, "seed": seed,
                                                       "detail": f"the run itself raised {type(e).__name__}: {e}", "init": jsonable(init), "ops": jsonable(ops)})
                        continue
                    finally:
                        BSession.reset_class(type("R", (), {"cls": cls, "default_cap": cls.get_buffer_capacity()})())
                    ev += len(ops)
                    if len(got[0]) != len([it for it in ops if it[0] not in ("enter", "exit")]):
                        res["oracle_failures"].append({"oracle": "harness", "cls": cls.__name__, "detail": "trace length mismatch"})
                        continue
                    if base is None:
                        base = got
                        continue
                    why = None
                    traced = [it for it in ops if it[0] not in ("enter", "exit")]
                    for i, ((r0, s0), (r1, s1)) in enumerate(zip(base[0], got[0])):
                        same_r = r0[0] == r1[0] and (strict_eq(r0[1], r1[1]) if r0[0] == "ok" else r0[1] == r1[1])
                        if traced[i][0] == "op" and op_order_free(traced[i][2]) and r0[0] == "ok" and r1[0] == "ok":
                            from k1 import canon_key
                            same_r = strict_eq(sorted(r0[1], key=canon_key), sorted(r1[1], key=canon_key))
                        if not same_r:
                            why = f"step {i} {jsonable(traced[i])} returned {jsonable(r1)} inside [{nesting}], {jsonable(r0)} unbuffered"
                        elif not strict_eq(s0, s1):
                            why = f"after step {i} {jsonable(traced[i])} (result {jsonable(r1)}) the collection reads {jsonable(s1)} inside [{nesting}], {jsonable(s0)} unbuffered"
                        if why:
                            break
                    if why is None and not strict_eq(base[1], got[1]):
                        why = f"after leaving [{nesting}] the file holds {jsonable(got[1])}; unbuffered it holds {jsonable(base[1])}"
                    if why is None and not strict_eq(got[1], got[2]):
                        why = f"after leaving [{nesting}] the file holds {jsonable(got[1])} but the collection reads {jsonable(got[2])}"
                    if why:
                        res["oracle_failures"].append({"oracle": "C05-differential", "cls": cls.__name__, "nesting": nesting, "seed": seed,
                                                       "detail": why, "init": jsonable(init), "ops": jsonable(ops)})
                key = f"{cls.__name__}"
                res["stats"][key] = res["stats"].get(key, 0) + 1
                if len(res["samples"]) < 2:
                    res["samples"].append({"class": cls.__name__, "init": jsonable(init), "ops": jsonable(ops)})
    finally:
        shutil.rmtree(tmp, ignore_errors=True)
    res.update(evaluations=ev, distinct_nontrivial=sum(res["stats"].values()), traces=0,
               rule="random operation scripts (with operations failing half-way) per buffered class, run unbuffered and under 5 context nestings; "
                    "distinct = scripts (seeded, one per (class, repetition))")
    return res


def op_order_free(op):
    return op[0] in ("DIter", "DKeys", "DValues", "DItems")


# ------------------------------------------------------------------------------------------ C05 / C15: faults at the file system
def run_buf_faults(prop, tier, seed):
    """(A) one collection's write fails with an OSError at the backend-wide exit (its directory is gone): the exit reports it
    and every OTHER collection's file still holds its final content (C05), the buffer is empty and the size is 0 (C15).
    (B) the file cannot be stat'ed when it enters the buffer (a path component is a regular file): the operation raises, the
    reported size equals what is actually buffered, and it is 0 after the contexts have exited (C15)."""
    ns = import_library()
    tmp = tempfile.mkdtemp(prefix="verif_bfault_")
    res = {"name": "buffer-faults", "model_mismatches": [], "oracle_failures": [], "samples": [], "stats": {}}
    ev = 0

    def actual_size(cls):
        tot = 0
        for e in cls._buffer.values():
            c = e["contents"]
            tot += len(c) if isinstance(c, (bytes, bytearray)) else (1 if e.get("modified") else 0)
        return tot
    try:
        for ci, cls in enumerate(buffered_classes(ns)):
            is_list = cls.__name__.endswith("List")
            init = [1, {"a": 1}] if is_list else {"a": 1, "n": {"k": 1}}
            for victim, victim_exists in ((0, True), (1, True), (2, True), (0, False), (1, False), (2, False)):
                base = os.path.join(tmp, f"A{ci}_{victim}_{victim_exists}")
                files = []
                for j in range(3):
                    d = os.path.join(base, f"d{j}")
                    os.makedirs(d)
                    fn = os.path.join(d, "doc.json")
                    if j != victim or victim_exists:
                        with open(fn, "w") as fh:
                            json.dump(init, fh)
                    files.append(fn)
                objs = [cls(f) for f in files]
                raised = None
                try:
                    with cls.buffer_backend():
                        for j, o in enumerate(objs):
                            (o.append(j) if is_list else o.__setitem__("w", j))
                        shutil.rmtree(os.path.dirname(files[victim]))
                except BaseException as e:  # noqa
                    raised = type(e).__name__
                ev += 1
                for j, fn in enumerate(files):
                    if j == victim:
                        continue
                    with open(fn) as fh:
                        disk = json.load(fh)
                    want = (init + [j]) if is_list else dict(init, w=j)
                    if disk != want:
                        res["oracle_failures"].append({"oracle": "C05-final-fault", "cls": cls.__name__, "victim": victim, "file": j, "raised": raised,
                                                       "detail": f"the directory of collection {victim} was removed before buffer_backend() exited; collection {j} is healthy "
                                                                 f"but its file holds {disk} instead of its final content {want} (exit raised {raised})"})
                if raised is None:
                    res["oracle_failures"].append({"oracle": "C05-final-fault", "cls": cls.__name__, "victim": victim,
                                                   "detail": "a collection could not be written at the exit, yet the exit raised nothing"})
                # C17: once the failed exit is over, a context that only READS the healthy collections writes nothing
                stamps = {}
                for j, fn in enumerate(files):
                    if j != victim:
                        st_ = os.stat(fn)
                        stamps[j] = (st_.st_ino, st_.st_mtime_ns, st_.st_size)
                try:
                    with cls.buffer_backend():
                        for j, o in enumerate(objs):
                            if j != victim:
                                o()
                except BaseException as e:  # noqa
                    res["oracle_failures"].append({"oracle": "C17-after-fault", "cls": cls.__name__, "victim": victim,
                                                   "detail": f"a read-only context after the failed exit raised {type(e).__name__}: {e}"})
                for j, fn in enumerate(files):
                    if j != victim:
                        st_ = os.stat(fn)
                        if stamps[j] != (st_.st_ino, st_.st_mtime_ns, st_.st_size):
                            res["oracle_failures"].append({"oracle": "C17-after-fault", "cls": cls.__name__, "victim": victim, "file": j,
                                                           "detail": f"a buffered context that only read collection {j} rewrote its file (the previous exit had failed for collection {victim})"})
                if cls.get_current_buffer_size() != 0 or cls._buffer:
                    res["oracle_failures"].append({"oracle": "C15-zero", "cls": cls.__name__, "victim": victim,
                                                   "detail": f"after the exit (which raised {raised}) size is {cls.get_current_buffer_size()} and {len(cls._buffer)} entries remain"})
                reset_buffer_class(cls)
            # (B)
            for first in ("reset", "clear", "read-then-set"):
                d = os.path.join(tmp, f"B{ci}_{first}")
                os.makedirs(d)
                with open(os.path.join(d, "plain"), "w") as fh:
                    fh.write("x")
                good = os.path.join(d, "good.json")
                with open(good, "w") as fh:
                    json.dump(init, fh)
                bad = cls(os.path.join(d, "plain", "doc.json"))      # ENOTDIR on stat
                ok_ = cls(good)
                sizes = []
                try:
                    with cls.buffer_backend():
                        ok_()
                        try:
                            if first == "reset":
                                bad.reset([1] if is_list else {"r": 1})
                            elif first == "clear":
                                bad.clear()
                            else:
                                bad()
                                (bad.append(1) if is_list else bad.__setitem__("k", 1))
                        except OSError:
                            pass
                        sizes.append((cls.get_current_buffer_size(), actual_size(cls)))
                        (ok_.append(2) if is_list else ok_.__setitem__("k", 2))
                        sizes.append((cls.get_current_buffer_size(), actual_size(cls)))
                except BaseException:  # noqa
                    pass
                ev += 1
                for rep, act in sizes:
                    if rep != act:
                        res["oracle_failures"].append({"oracle": "C15-size", "cls": cls.__name__, "first": first,
                                                       "detail": f"a file that cannot be stat'ed entered the buffer through {first}: reported size {rep}, actually buffered {act}"})
                        break
                if cls.get_current_buffer_size() != 0:
                    res["oracle_failures"].append({"oracle": "C15-zero", "cls": cls.__name__, "first": first,
                                                   "detail": f"size {cls.get_current_buffer_size()} after all contexts exited (a file that cannot be stat'ed was used inside)"})
                reset_buffer_class(cls)
            res["stats"][cls.__name__] = 6
        res["samples"] = [{"scenario": "A", "classes": 8, "victims": 3}, {"scenario": "B", "first_operation": ["reset", "clear", "read-then-set"]}]
    finally:
        shutil.rmtree(tmp, ignore_errors=True)
    res.update(evaluations=ev, distinct_nontrivial=ev, traces=0,
               rule="8 buffered classes x (3 victims of a removed directory at the backend-wide exit + 3 first operations on a path that cannot be stat'ed)")
    return res


# ------------------------------------------------------------------------------------------ C06: directed scripts, two objects on one file
def c06_scripts(kind):
    mod = (lambda i: ("LAppend", "w" + str(i))) if kind == "list" else (lambda i: ("DSet", "w" + str(i), i))
    read = ("LCall",) if kind == "list" else ("DCall",)
    reset = ("LReset", ["r"]) if kind == "list" else ("DReset", {"r": 1})
    out = {
        "b never touches the buffer and leaves first": [("eo", 0), ("eo", 1), ("op", 0, [], mod(0)), ("xo", 1), ("xo", 0)],
        "a leaves first, b wrote last": [("eo", 0), ("eo", 1), ("op", 0, [], mod(0)), ("op", 1, [], mod(1)), ("xo", 0), ("xo", 1)],
        "b leaves first, a wrote last": [("eo", 0), ("eo", 1), ("op", 1, [], mod(1)), ("op", 0, [], mod(0)), ("xo", 1), ("xo", 0)],
        "backend-wide: a, b, a": [("ec", None), ("op", 0, [], mod(0)), ("op", 1, [], mod(1)), ("op", 0, [], mod(2)), ("xc",)],
        "backend-wide: b only reads, a writes": [("ec", None), ("op", 1, [], read), ("op", 0, [], mod(0)), ("op", 1, [], read), ("xc",)],
        "backend-wide: b resets without reading": [("ec", None), ("op", 0, [], mod(0)), ("op", 1, [], reset), ("op", 0, [], read), ("xc",)],
        "nested: backend > a > b": [("ec", None), ("eo", 0), ("eo", 1), ("op", 0, [], mod(0)), ("op", 1, [], mod(1)), ("xo", 1), ("op", 0, [], mod(2)), ("xo", 0), ("xc",)],
        "other file in between": [("ec", None), ("op", 0, [], mod(0)), ("op", 2, [], mod(5)), ("op", 1, [], mod(1)), ("xc",)],
    }
    for name, sc in out.items():
        yield name, sc + [("op", 0, [], read), ("op", 1, [], read), ("op", 2, [], read)]


def run_c06_directed(seed, tier):
    ns = import_library()
    tmp = tempfile.mkdtemp(prefix="verif_kc06_")
    out = {"cases": [], "logs": [], "oracle": [], "stats": {}, "classes": {}, "meta": []}
    try:
        i = 0
        for cls in buffered_classes(ns):
            probe = BSession(ns, cls, 0, {"files": 2, "binding": [0, 0, 1]}, tmp)
            for name, sc in c06_scripts(probe.kind):
                s = BSession(ns, cls, seed * 100003 + i, {"files": 2, "binding": [0, 0, 1]}, tmp)
                s.reset_class()
                try:
                    s.run_script(sc)
                except Exception:  # noqa
                    import traceback
                    s.fails.append({"oracle": "harness", "step": len(s.log), "detail": traceback.format_exc()[-1500:]})
                finally:
                    s.reset_class()
                out["cases"].append(s.coq_case())
                out["logs"].append(s.log)
                out["meta"].append({"session": i, "class": cls.__name__, "seed": s.seed, "strategy": s.strat, "script": name})
                for f in s.fails:
                    f = dict(f)
                    f.update(session=i, cls=cls.__name__, seed=s.seed, script=name)
                    out["oracle"].append(f)
                out["classes"][cls.__name__] = out["classes"].get(cls.__name__, 0) + 1
                i += 1
    finally:
        shutil.rmtree(tmp, ignore_errors=True)
    return out
