(* Attr.v — data_types/attr_dict.py: where attribute syntax is routed (C18). *)
From Coq Require Import List NArith Bool.
From SC Require Import Model.Val.
Import ListNotations.

Inductive verb := VGet | VSet | VDel.
Inductive route := RObject     (* the object's own attribute (normal attribute machinery) *)
                 | RItem       (* forwarded to __getitem__ / __setitem__ / __delitem__, KeyError -> AttributeError *)
                 | RAttrError. (* AttributeError without looking at the data *)

Definition is_dunder (s : str) : bool :=
  match s with 95%N :: 95%N :: _ => true | _ => false end.

(* [protected]: name in _PROTECTED_KEYS; [has_attr]: normal lookup finds it (instance or class attribute).
   __getattr__ is only consulted when normal lookup fails; __setattr__/__delattr__ always run first. *)
Definition route_of (v : verb) (name : str) (protected has_attr : bool) : route :=
  match v with
  | VGet => if has_attr then RObject else if is_dunder name then RAttrError else RItem
  | VSet | VDel => if protected || is_dunder name then RObject else RItem
  end.

Definition route_eqb (a b : route) : bool :=
  match a, b with RObject, RObject | RItem, RItem | RAttrError, RAttrError => true | _, _ => false end.

Definition check_route (c : verb * str * bool * bool * route) : bool :=
  match c with (v, name, p, h, r) => route_eqb (route_of v name p h) r end.

Definition smem (a : str) (l : list str) : bool := existsb (str_eqb a) l.
(* every attribute an instance ever carries is a protected name (so no item can shadow it) *)
Definition covered (protected inst : list str) : bool := forallb (fun a => smem a protected) inst.
