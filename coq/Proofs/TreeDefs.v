(* TreeDefs.v — vocabulary used to STATE the theorems about Tree.v / Machine.v. *)
From Coq Require Import List ZArith NArith Bool Lia.
From SC Require Import Model.Val Model.Plain Model.Ops Model.Valid Model.Class Model.Tree.
Import ListNotations.

(* --- the language a validator list accepts, as three requirements --- *)
Record lang := { l_str_keys : bool; l_json_leaves : bool; l_no_dots : bool }.

Definition lang1 (n : vname) : lang :=
  match n with
  | VRequireStringKey => {| l_str_keys := true; l_json_leaves := false; l_no_dots := false |}
  | VJsonFormat => {| l_str_keys := true; l_json_leaves := true; l_no_dots := false |}
  | VNoDot => {| l_str_keys := true; l_json_leaves := false; l_no_dots := true |}
  | VJsonAttr => {| l_str_keys := true; l_json_leaves := true; l_no_dots := true |}
  end.

Definition lang_or (a b : lang) : lang :=
  {| l_str_keys := l_str_keys a || l_str_keys b;
     l_json_leaves := l_json_leaves a || l_json_leaves b;
     l_no_dots := l_no_dots a || l_no_dots b |}.

Definition lang_none : lang := {| l_str_keys := false; l_json_leaves := false; l_no_dots := false |}.
Definition lang3 (vs : list vname) : lang := fold_right (fun n acc => lang_or (lang1 n) acc) lang_none vs.

Definition lang_eqb (a b : lang) : bool :=
  Bool.eqb (l_str_keys a) (l_str_keys b) && Bool.eqb (l_json_leaves a) (l_json_leaves b)
  && Bool.eqb (l_no_dots a) (l_no_dots b).

(* v satisfies the requirements of L at every depth *)
Definition val_ok (L : lang) (v : val) : bool :=
  (negb (l_str_keys L) || str_keys v) && (negb (l_json_leaves L) || json_leaves v)
  && (negb (l_no_dots L) || no_dots v).

(* --- class-table facts (discharged by vm_compute on the generated table) --- *)
Definition in_backend (T : class_table) (b c : nat) : bool :=
  Nat.ltb c (length T) && Nat.eqb (c_backend (get_cls T c)) b.

(* all classes of one backend accept the same language *)
Definition uniform_backend (T : class_table) (b : nat) (L : lang) : bool :=
  forallb (fun c => negb (Nat.eqb (c_backend c) b) || lang_eqb (lang3 (c_validators c)) L) T.

Definition backend_has_both (T : class_table) (b : nat) : bool :=
  match find_cls T b KDict 0, find_cls T b KList 0 with Some _, Some _ => true | _, _ => false end.

(* --- trees --- *)
Fixpoint node_classes (n : node) : list nat :=
  match n with
  | NV _ => []
  | NL _ c l => c :: flat_map node_classes l
  | ND _ c d => c :: flat_map (fun kn : key * node => node_classes (snd kn)) d
  end.

Definition node_in_backend (T : class_table) (b : nat) (n : node) : Prop :=
  forall c, In c (node_classes n) -> in_backend T b c = true.

(* leaves are scalars: no raw (unsynced) container anywhere *)
Fixpoint leaves_scalar (n : node) : bool :=
  match n with
  | NV (VS _) => true
  | NV _ => false
  | NL _ _ l => forallb leaves_scalar l
  | ND _ _ d => forallb (fun kn : key * node => leaves_scalar (snd kn)) d
  end.

(* container class matches container kind *)
Fixpoint kinds_match (T : class_table) (n : node) : bool :=
  match n with
  | NV _ => true
  | NL _ c l => kind_eqb (c_kind (get_cls T c)) KList && forallb (kinds_match T) l
  | ND _ c d => kind_eqb (c_kind (get_cls T c)) KDict
                && forallb (fun kn : key * node => kinds_match T (snd kn)) d
  end.

Definition clean (L : lang) (n : node) : Prop := val_ok L (to_base n) = true.

Definition node_kind (n : node) : kind :=
  match n with NV v => kind_of v | NL _ _ _ => KList | ND _ _ _ => KDict end.

(* --- equality up to dict key order and the sign of float zero, as a relation --- *)
Inductive VEq : val -> val -> Prop :=
  | VEq_s a b : seq_strict a b = true -> VEq (VS a) (VS b)
  | VEq_l l m : Forall2 VEq l m -> VEq (VL l) (VL m)
  | VEq_d d e :
      (forall k x, alookup k d = Some x -> exists y, alookup k e = Some y /\ VEq x y) ->
      (forall k, alookup k d = None -> alookup k e = None) ->
      VEq (VD d) (VD e).

(* --- paths --- *)

Definition node_child (s : pstep) (n : node) : option node :=
  match s, n with
  | PKey k, ND _ _ d => alookup k d
  | PIdx i, NL _ _ l => nth_error l i
  | _, _ => None
  end.
Fixpoint node_at (p : path) (n : node) : option node :=
  match p with
  | [] => Some n
  | s :: p' => match node_child s n with Some m => node_at p' m | None => None end
  end.

Definition val_child (s : pstep) (v : val) : option val :=
  match s, v with
  | PKey k, VD d => alookup k d
  | PIdx i, VL l => nth_error l i
  | _, _ => None
  end.
Fixpoint val_at (p : path) (v : val) : option val :=
  match p with
  | [] => Some v
  | s :: p' => match val_child s v with Some w => val_at p' w | None => None end
  end.

(* along the whole path, the data holds a container of the same kind as the tree *)
Fixpoint same_kinds_along (p : path) (n : node) (v : val) : Prop :=
  node_is_container n = true /\ node_kind n = kind_of v /\
  match p with
  | [] => True
  | s :: p' => match node_child s n, val_child s v with
               | Some m, Some w => same_kinds_along p' m w
               | _, _ => False
               end
  end.

Fixpoint node_keys_unique (n : node) : bool :=
  match n with
  | NV v => wf_val v
  | NL _ _ l => forallb node_keys_unique l
  | ND _ _ d => keys_unique d && forallb (fun kn : key * node => node_keys_unique (snd kn)) d
  end.
