"""K-res (C19): (a) Resolver.v against the real AbstractTypeResolver on synthetic identifier tables;
(b) the library's own resolvers measured on a pool of types (type-determinedness, generated obligation);
(c) fresh-process vs warmed-up outcomes of validation / conversion / merging for a pool of diverse values.

(b) and (c) run in forked children of a process that imported the library with a small fake `numpy`
(numpy itself is absent from this sandbox), so that the blocklisted type (ndarray) exists.
"""
import collections
import json
import os
import random
import sys
import types

sys.path.insert(0, os.path.dirname(os.path.abspath(__file__)))
from common import *  # noqa

HEADER = ("From Coq Require Import List Arith Bool.\nFrom SC Require Import Model.Resolver Corr.KRes Corr.KPlain.\nImport ListNotations.\n")


# --------------------------------------------------------------------- (a) synthetic differential
def synthetic_cases(seed, n):
    ns = import_library()
    from synced_collections.utils import AbstractTypeResolver
    rnd = random.Random(seed)
    cases, descr = [], []
    for ci in range(n):
        ntypes = rnd.randint(2, 5)
        same_name = rnd.random() < 0.4
        tys = []
        for t in range(ntypes):
            name = "T" if same_name and t < 2 else f"T{t}"
            tys.append(type(name, (), {}))
        block_idx = [t for t in range(ntypes) if rnd.random() < 0.3]
        nids = rnd.randint(1, 3)
        ids = []
        for c in range(nids):
            trues = set()
            for t in range(ntypes):
                if t in block_idx or rnd.random() < 0.25:
                    for i in range(3):
                        if rnd.random() < 0.5:
                            trues.add((t, i))
                elif rnd.random() < 0.5:
                    trues |= {(t, 0), (t, 1), (t, 2)}
            ids.append((c + 1, sorted(trues)))

        def mk(trues):
            s = set(trues)
            return lambda obj: (tys.index(type(obj)), obj.inst) in s
        use_block = rnd.random() < 0.8
        kw = {"cache_blocklist": tuple(tys[t] for t in block_idx)} if use_block else {}
        r = AbstractTypeResolver({f"C{c}": mk(tr) for c, tr in ids}, **kw)
        hist, answers = [], []
        for _ in range(rnd.randint(1, 10)):
            t, i = rnd.randrange(ntypes), rnd.randrange(3)
            o = tys[t]()
            o.inst = i
            a = r.get_type(o)
            hist.append((t, i))
            answers.append(None if a is None else int(a[1:]))
        cached = sorted(tys.index(k) if k in tys else 999 for k in r.type_map)
        blk = block_idx if use_block else []
        cases.append("{| rc_ids := [%s]; rc_block := [%s]; rc_hist := [%s]; rc_answers := [%s]; rc_cached := [%s] |}" % (
            ";".join(f"({c},[{';'.join(f'({t},{i})' for t, i in tr)}])" for c, tr in ids),
            ";".join(map(str, blk)), ";".join(f"({t},{i})" for t, i in hist),
            ";".join("None" if a is None else f"Some {a}" for a in answers), ";".join(map(str, cached))))
        descr.append({"types": ntypes, "same_name": same_name, "blocklist": blk, "identifiers": ids, "history": hist,
                      "answers": answers, "cached_types": cached})
    return cases, descr


# --------------------------------------------------------------------- fake numpy + pool (children only)
def install_fake_numpy():
    np = types.ModuleType("numpy")

    class number:
        def __init__(self, v):
            self.v = v

        def item(self):
            return self.v

    class bool_(number):
        pass

    class ndarray:
        def __init__(self, data):
            self.data = data
            self.ndim = 0 if not isinstance(data, list) else 1

        def tolist(self):
            return self.data

        def item(self):
            return self.data

        def __len__(self):
            if self.ndim == 0:
                raise TypeError("len() of unsized object")
            return len(self.data)

        def __iter__(self):
            return iter(self.data)

    np.number, np.bool_, np.ndarray = number, bool_, ndarray
    np.iscomplexobj = lambda x: isinstance(x, complex)
    sys.modules["numpy"] = np
    return np


def build_pool(np):
    from collections.abc import Mapping, Sequence

    class MyDict(dict):
        pass

    class MyList(list):
        pass

    class MyStr(str):
        pass

    class UMap(Mapping):
        def __init__(self, d):
            self.d = d

        def __getitem__(self, k):
            return self.d[k]

        def __iter__(self):
            return iter(self.d)

        def __len__(self):
            return len(self.d)

    class USeq(Sequence):
        def __init__(self, l):
            self.l = l

        def __getitem__(self, i):
            return self.l[i]

        def __len__(self):
            return len(self.l)

    class Hybrid(UMap, Sequence):
        pass

    # a user hierarchy in which storable types share a plain base class with non-storable objects
    class Entity:
        pass

    class Settings(Entity, UMap):
        pass

    class Track(Entity, USeq):
        pass

    class Name(Entity, str):
        pass

    def same_name_pair():
        A = type("Twin", (dict,), {})
        B = type("Twin", (), {})
        return A, B
    TwinMap, TwinObj = same_name_pair()
    import collections as c
    import types as ty
    pool = [
        ("dict", {"a": 1}), ("dict2", {"b": [1]}), ("list", [1, 2]), ("list2", []), ("tuple", (1, 2)), ("str", "ab"), ("str2", ""),
        ("int", 3), ("float", 2.5), ("bool", True), ("none", None), ("bytes", b"ab"),
        ("MyDict", MyDict(a=1)), ("MyList", MyList([1])), ("MyStr", MyStr("s")),
        ("OrderedDict", c.OrderedDict(a=1)), ("defaultdict", c.defaultdict(int, a=1)), ("UserDict", c.UserDict(a=1)),
        ("UserList", c.UserList([1])), ("deque", c.deque([1])), ("range", range(2)), ("mappingproxy", ty.MappingProxyType({"a": 1})),
        ("UMap", UMap({"a": 1})), ("USeq", USeq([1, 2])), ("Hybrid", Hybrid({0: 1})),
        ("TwinMap", TwinMap(a=1)), ("TwinObj", TwinObj()),
        ("nd0", np.ndarray(5)), ("nd1", np.ndarray([1, 2])), ("nd1b", np.ndarray([])), ("npnum", np.number(3)), ("npbool", np.bool_(True)),
        ("set", {1}), ("object", object()), ("complex", 1j),
        ("Entity", Entity()), ("Settings", Settings({"a": 1})), ("Track", Track([1, 2])), ("Name", Name("n")),
        # rejected values with SEVERAL offences (what is left behind after the first one is reported must not matter)
        ("bad2", {"row1": {1: "a"}, "row2": {2: "b"}}), ("bad2l", [{1: "a"}, {"fine": 1}, {2.5: "b"}]),
        ("bad2dot", {"x": {"a.b": 1}, "y": [{"c.d": 2}, {1: 2}]}), ("nested_ok", {"k": [1, {"m": 2}]}),
    ]
    return pool


ACTIONS = ["v_json", "v_rsk", "v_nodot", "v_attr", "dict_set", "list_append", "attr_set", "reset_list", "is_seq", "is_map", "from_base", "update"]


def perform(action, value, tmp):
    """Run one entry point on value; returns a canonical outcome."""
    import warnings
    warnings.simplefilter("ignore")
    from synced_collections import validators as V
    from synced_collections.backends import collection_json as cj

    def plain(x):
        if hasattr(x, "_to_base"):
            return [type(x).__name__, plain(x._to_base())]
        if isinstance(x, dict):
            return {str(k): plain(v) for k, v in x.items()}
        if isinstance(x, (list, tuple)):
            return [plain(v) for v in x]
        if isinstance(x, (str, int, float, bool)) or x is None:
            return x
        return "<" + type(x).__name__ + ">"
    try:
        if action == "v_json":
            V.json_format_validator(value); return ["ok"]
        if action == "v_rsk":
            V.require_string_key(value); return ["ok"]
        if action == "v_nodot":
            V.no_dot_in_key(value); return ["ok"]
        if action == "v_attr":
            cj.json_attr_dict_validator(value); return ["ok"]
        if action == "dict_set":
            x = cj.JSONDict(os.path.join(tmp, "d.json")); x["k"] = value
            return ["ok", plain(object.__getattribute__(x, "_data")["k"])]
        if action == "attr_set":
            x = cj.JSONAttrDict(os.path.join(tmp, "ad.json")); x["k"] = [value]
            return ["ok", plain(object.__getattribute__(x, "_data")["k"])]
        if action == "list_append":
            x = cj.JSONList(os.path.join(tmp, "l.json")); x.append(value)
            return ["ok", plain(object.__getattribute__(x, "_data")[-1])]
        if action == "reset_list":
            x = cj.JSONList(os.path.join(tmp, "r.json")); x.reset(value)
            return ["ok", plain(x._to_base())]
        if action == "update":
            x = cj.JSONDict(os.path.join(tmp, "u.json")); x.reset({"k": {"old": 1}}); x.update({"k": value})
            return ["ok", plain(object.__getattribute__(x, "_data")["k"])]
        if action == "is_seq":
            return ["ok", bool(cj.JSONList.is_base_type(value))]
        if action == "is_map":
            return ["ok", bool(cj.JSONDict.is_base_type(value))]
        if action == "from_base":
            x = cj.JSONDict(os.path.join(tmp, "f.json"))
            return ["ok", plain(cj.JSONDict._from_base(value, parent=x))]
    except BaseException as e:  # noqa
        return ["err", err_class(e), type(e).__name__]
    return ["?"]


def forked(fn):
    """Run fn() in a forked child and return its JSON-able result."""
    r, w = os.pipe()
    pid = os.fork()
    if pid == 0:
        try:
            os.close(r)
            out = json.dumps(fn(), default=repr).encode()
            os.write(w, out)
        finally:
            os._exit(0)
    os.close(w)
    chunks = []
    while True:
        b = os.read(r, 65536)
        if not b:
            break
        chunks.append(b)
    os.close(r)
    os.waitpid(pid, 0)
    return json.loads(b"".join(chunks).decode() or "null")


def warm_vs_fresh(seed, npairs, nperm):
    """Runs inside a dedicated process (see main): returns disagreements and the measured rows."""
    import tempfile
    np = install_fake_numpy()
    ns = import_library()
    pool = build_pool(np)
    rnd = random.Random(seed)
    tmp = tempfile.mkdtemp(prefix="verif_kres_")
    fresh = {}

    def fresh_outcome(a, vi):
        if (a, vi) not in fresh:
            fresh[(a, vi)] = forked(lambda: perform(a, pool[vi][1], tmp))
        return fresh[(a, vi)]
    disagreements, evals, samples = [], 0, []
    for k in range(npairs):
        names_ = [n for n, _ in pool]
        ambiguous = [names_.index(n) for n in ("Hybrid", "TwinMap", "TwinObj", "nd0", "nd1", "nd1b", "UMap", "USeq", "deque", "range", "mappingproxy",
                                               "Settings", "Track", "Name", "nested_ok", "dict")]
        stores = ["dict_set", "list_append", "attr_set", "from_base", "update", "reset_list"]
        a = rnd.choice(stores) if rnd.random() < 0.6 else rnd.choice(ACTIONS)
        vi = rnd.choice(ambiguous) if rnd.random() < 0.55 else rnd.randrange(len(pool))
        if k % 5 == 0:
            vi = names_.index("Hybrid")          # a value matching several categories, probed regularly
        hist = [(rnd.choice(ACTIONS), rnd.randrange(len(pool))) for _ in range(rnd.randint(1, 6))]
        # histories that make the same backend convert a plain list and a plain dict first
        hist.insert(rnd.randrange(len(hist) + 1), (rnd.choice(stores[:5]), names_.index(rnd.choice(["list", "tuple", "list2"]))))
        if rnd.random() < 0.6:
            hist.insert(rnd.randrange(len(hist) + 1), (rnd.choice(stores[:5]), names_.index(rnd.choice(["dict", "dict2", "OrderedDict"]))))
        # bias: warm up with a value of the same type but another shape / a same-named type
        twins = {"nd0": ["nd1", "nd1b"], "nd1": ["nd0"], "nd1b": ["nd0"], "TwinMap": ["TwinObj"], "TwinObj": ["TwinMap"],
                 "dict": ["dict2"], "list": ["list2"], "str": ["str2"],
                 "Settings": ["Entity"], "Track": ["Entity"], "Name": ["Entity"]}
        if rnd.random() < 0.35:
            # a value with several offences is rejected somewhere in the history
            hist.insert(rnd.randrange(len(hist) + 1), (rnd.choice(["v_rsk", "v_nodot", "v_attr", "dict_set", "list_append", "attr_set", "update"]),
                                                       names_.index(rnd.choice(["bad2", "bad2l", "bad2dot"]))))
        name = pool[vi][0]
        if name in twins and rnd.random() < 0.7:
            tw = rnd.choice(twins[name])
            hist.append((rnd.choice(ACTIONS), [n for n, _ in pool].index(tw)))

        def warm_run():
            for ha, hv in hist:
                perform(ha, pool[hv][1], tmp)
            return perform(a, pool[vi][1], tmp)
        w = forked(warm_run)
        f = fresh_outcome(a, vi)
        evals += 1
        if len(samples) < 3:
            samples.append({"history": [(ha, pool[hv][0]) for ha, hv in hist], "probe": (a, name), "fresh": f, "warm": w})
        if w != f:
            disagreements.append({"oracle": "C19-history", "history": [(ha, pool[hv][0]) for ha, hv in hist], "probe": [a, name],
                                  "fresh": f, "warm": w, "seed": seed, "pair": k})
    # measured rows for the library's own resolvers

    def measure():
        from synced_collections.utils import AbstractTypeResolver
        import synced_collections.data_types.synced_collection as m1
        import synced_collections.data_types.synced_dict as m2
        import synced_collections.data_types.synced_list as m3
        import synced_collections.validators as m4
        import synced_collections.backends.collection_json as m5
        rows = []
        by_type = collections.OrderedDict()
        for n, v in pool:
            by_type.setdefault(type(v), []).append((n, v))
        for mod in (m1, m2, m3, m4, m5):
            for rn, r in vars(mod).items():
                if isinstance(r, AbstractTypeResolver):
                    for t, insts in by_type.items():
                        if len(insts) < 2:
                            continue
                        blocked = t in (r.cache_blocklist or ())
                        vals = []
                        for n, v in insts[:3]:
                            vals.append([bool(f(v)) for f in r.abstract_type_identifiers.values()])
                        for other in vals[1:]:
                            rows.append([f"{mod.__name__.split('.')[-1]}.{rn}", t.__name__, blocked, vals[0], other])
        return rows
    rows = forked(measure)
    import shutil
    shutil.rmtree(tmp, ignore_errors=True)
    return {"disagreements": disagreements, "evaluations": evals, "rows": rows, "samples": samples, "pool": [n for n, _ in pool]}


def run(prop, tier, seed):
    import subprocess
    t = time.time()
    res = {"name": "K-res", "model_mismatches": [], "oracle_failures": [], "samples": [], "stats": {}}
    n_syn = 400 if tier == "quick" else 6000
    cases, descr = synthetic_cases(seed, n_syn)
    bad = run_case_files(HEADER, "rcase", "check_rcase", cases, shard=300)
    for b in bad[:5]:
        res["model_mismatches"].append({"correspondence": "K-res (Corr/KRes.v check_rcase): Resolver.v vs AbstractTypeResolver", "case": descr[b]})
    # the oracle on the synthetic resolvers: answers must equal the fresh classification whenever the
    # identifiers are type-determined outside the blocklist
    for d in descr:
        td = True
        for c, trues in d["identifiers"]:
            s = set(map(tuple, trues))
            for t_ in range(d["types"]):
                if t_ in d["blocklist"]:
                    continue
                vals = {(t_, i) in s for i in range(3)}
                if len(vals) > 1:
                    td = False
        if not td:
            continue
        for (t_, i), a in zip(d["history"], d["answers"]):
            exp = next((c for c, trues in d["identifiers"] if (t_, i) in set(map(tuple, trues))), None)
            if a != exp:
                res["oracle_failures"].append({"oracle": "C19-synthetic", "detail": f"type {t_} instance {i} classified {a}, fresh classification {exp}", "case": d})
                break
    npairs = 150 if tier == "quick" else 5000
    p = subprocess.run([sys.executable, os.path.abspath(__file__), "child", str(seed), str(npairs)], capture_output=True, text=True,
                       env=dict(os.environ, PYTHONHASHSEED="0", PYTHONWARNINGS="ignore"), timeout=3000)
    try:
        out = json.loads(p.stdout.strip().splitlines()[-1])
    except Exception:  # noqa
        res["model_mismatches"].append({"correspondence": "K-res child", "stderr": p.stderr[-1500:], "stdout": p.stdout[-500:]})
        out = {"disagreements": [], "evaluations": 0, "rows": [], "samples": [], "pool": []}
    res["oracle_failures"] += out["disagreements"][:10]
    # generated obligation: the library's resolvers are type-determined on the pool outside their blocklists
    rows = out["rows"]
    if rows:
        term = "[" + ";".join("(%s,[%s],[%s])" % ("true" if r[2] else "false", ";".join("true" if x else "false" for x in r[3]),
                                                 ";".join("true" if x else "false" for x in r[4])) for r in rows) + "]"
        txt = coq_eval(HEADER, f"(rows_type_determined {term}, length {term})")
        ok = re.search(r"=\s*\(true,", txt) is not None
        res["gen_obligations"] = 1 if ok else 0
        if not ok:
            badrows = [r for r in rows if not r[2] and r[3] != r[4]]
            res["model_mismatches"].append({"obligation": "resolvers_type_determined (generated from the measured identifier values)",
                                            "rows_not_type_determined": badrows[:6], "coq": txt[-300:]})
    res.update(evaluations=len(cases) + out["evaluations"], distinct_nontrivial=len({json.dumps(d, sort_keys=True) for d in descr}),
               traces=len(cases), rule="synthetic resolver configurations x query histories (distinct configurations counted); "
               "plus (history, probe) pairs over a pool of %d values of diverse types, fresh fork vs warmed-up fork" % len(out["pool"]),
               samples=[descr[0]] + out["samples"][:2], stats={"synthetic": len(cases), "warm_vs_fresh_pairs": out["evaluations"], "measured_rows": len(rows)},
               wall_s=round(time.time() - t, 1))
    return res


if __name__ == "__main__":
    if len(sys.argv) > 1 and sys.argv[1] == "child":
        out = warm_vs_fresh(int(sys.argv[2]), int(sys.argv[3]), 0)
        print(json.dumps(out, default=repr))
    else:
        r = run("C19", sys.argv[1] if len(sys.argv) > 1 else "quick", 1)
        print(json.dumps({k: v for k, v in r.items() if k != "samples"}, indent=1, default=repr)[:3000])
