#!/bin/bash
# import_mutants.sh Cxx : copy agent-produced mutants into /verif/seeded and confirm them
p=$1
for m in /tmp/mut/$p/MUTANTS/${2:-m*}; do
  [ -f $m/patch.diff ] || continue
  d=/verif/seeded/M-$p-$(basename $m)
  mkdir -p $d; cp $m/patch.diff $m/demo.py $d/
  /venv/bin/python - "$m/meta.json" "$d/meta.json" "$p" <<'PY'
import json,sys
try: meta=json.load(open(sys.argv[1]))
except Exception as e: meta={"note":"agent meta unreadable: %r"%e}
meta["property"]=sys.argv[3]; meta["source"]="independent sub-agent given only the property text and a scratch worktree"
json.dump(meta,open(sys.argv[2],"w"),indent=1)
PY
  /venv/bin/python /verif/harness/verify_seeded.py $d 2>&1 | grep -v conda
done
