(* PART B — handles as paths: find_node / replace_node vs. plain_at; VEq congruence; update() *)
From Coq Require Import List ZArith NArith Bool Lia Arith.
From SC Require Import Model.Val Model.Plain Model.Ops Model.Valid Model.Class Model.Tree Model.Machine.
From SC Require Import Proofs.TreeDefs Proofs.TreeLemmas Proofs.MachineDefs.
Import ListNotations.

(* ---------- nlookup / nset ---------- *)
Lemma nlookup_nset_same {A} k (v : A) l : nlookup k (nset k v l) = Some v.
Proof.
  induction l as [|[k' v'] l IH]; cbn [nset nlookup].
  - rewrite Nat.eqb_refl. reflexivity.
  - destruct (Nat.eqb k k') eqn:E; cbn [nlookup].
    + rewrite Nat.eqb_refl. reflexivity.
    + rewrite E. exact IH.
Qed.

Lemma nlookup_nset_other {A} k k0 (v : A) l : k0 <> k -> nlookup k0 (nset k v l) = nlookup k0 l.
Proof.
  intros Hne. induction l as [|[k' v'] l IH]; cbn [nset nlookup].
  - apply Nat.eqb_neq in Hne. rewrite Hne. reflexivity.
  - destruct (Nat.eqb k k') eqn:E; cbn [nlookup].
    + apply Nat.eqb_eq in E. subst k'. apply Nat.eqb_neq in Hne. rewrite Hne. reflexivity.
    + destruct (Nat.eqb k0 k'); [reflexivity|exact IH].
Qed.

(* ---------- NoDup helpers ---------- *)
Lemma NoDup_app_inv {A} (a b : list A) :
  NoDup (a ++ b) -> NoDup a /\ NoDup b /\ (forall x, In x a -> ~ In x b).
Proof.
  induction a as [|x a IH]; cbn; intros H.
  - split; [constructor|]. split; [exact H|]. intros x [].
  - inversion H as [|? ? Hn Hd]; subst. destruct (IH Hd) as [A1 [A2 A3]].
    split. { constructor; [|exact A1]. intros Hin. apply Hn. apply in_or_app; auto. }
    split; [exact A2|]. intros y [<-|Hy] Hb.
    + apply Hn. apply in_or_app; auto.
    + exact (A3 y Hy Hb).
Qed.

Lemma NoDup_flat_map_In {A B} (f : A -> list B) l x :
  NoDup (flat_map f l) -> In x l -> NoDup (f x).
Proof.
  induction l as [|a l IH]; cbn; intros Hd Hin; [contradiction|].
  apply NoDup_app_inv in Hd. destruct Hd as [D1 [D2 _]].
  destruct Hin as [<-|Hin]; auto.
Qed.

Lemma NoDup_flat_map_same {A B} (f : A -> list B) l x y h :
  NoDup (flat_map f l) -> In x l -> In y l -> In h (f x) -> In h (f y) -> x = y.
Proof.
  induction l as [|a l IH]; cbn; intros Hd Hx Hy Hhx Hhy; [contradiction|].
  apply NoDup_app_inv in Hd. destruct Hd as [D1 [D2 D3]].
  destruct Hx as [<-|Hx], Hy as [<-|Hy].
  - reflexivity.
  - exfalso. apply (D3 h Hhx). apply in_flat_map. eauto.
  - exfalso. apply (D3 h Hhy). apply in_flat_map. eauto.
  - auto.
Qed.

(* ---------- find_node ---------- *)
Lemma find_in_list_Some {A} (f : A -> option node) l r :
  find_in_list f l = Some r -> exists x, In x l /\ f x = Some r.
Proof.
  induction l as [|x l IH]; cbn; intros H; [discriminate|].
  destruct (f x) eqn:E.
  - inversion H; subst. exists x. auto.
  - destruct (IH H) as [y [Hy1 Hy2]]. exists y. auto.
Qed.

Lemma find_node_NL h id c l :
  find_node h (NL id c l) = if Nat.eqb id h then Some (NL id c l) else find_in_list (find_node h) l.
Proof. reflexivity. Qed.
Lemma find_node_ND h id c d :
  find_node h (ND id c d) = if Nat.eqb id h then Some (ND id c d)
                            else find_in_list (fun kn : key * node => find_node h (snd kn)) d.
Proof. reflexivity. Qed.
Lemma replace_node_NL h r id c l :
  replace_node h r (NL id c l) = if Nat.eqb id h then r else NL id c (map (replace_node h r) l).
Proof. reflexivity. Qed.
Lemma replace_node_ND h r id c d :
  replace_node h r (ND id c d) = if Nat.eqb id h then r
    else ND id c (map (fun kn : key * node => (fst kn, replace_node h r (snd kn))) d).
Proof. reflexivity. Qed.

Lemma find_node_In h n : forall m, find_node h n = Some m -> node_id m = Some h /\ In h (node_ids n).
Proof.
  induction n as [v|id c l IH|id c d IH] using node_ind2; intros m H.
  - discriminate.
  - rewrite find_node_NL in H. destruct (Nat.eqb id h) eqn:E.
    + apply Nat.eqb_eq in E. inversion H; subst. cbn. auto.
    + apply find_in_list_Some in H. destruct H as [x [Hx Hf]].
      rewrite Forall_forall in IH. destruct (IH x Hx m Hf) as [A B]. split; [exact A|].
      cbn. right. apply in_flat_map. eauto.
  - rewrite find_node_ND in H. destruct (Nat.eqb id h) eqn:E.
    + apply Nat.eqb_eq in E. inversion H; subst. cbn. auto.
    + apply find_in_list_Some in H. destruct H as [x [Hx Hf]].
      rewrite Forall_forall in IH. destruct (IH x Hx m Hf) as [A B]. split; [exact A|].
      cbn. right. apply in_flat_map. eauto.
Qed.

Lemma find_node_path h root : forall n,
  node_keys_unique root = true -> find_node h root = Some n ->
  exists p, node_at p root = Some n /\ node_id n = Some h.
Proof.
  induction root as [v|id c l IH|id c d IH] using node_ind2; intros n Hu H.
  - discriminate.
  - rewrite find_node_NL in H. destruct (Nat.eqb id h) eqn:E.
    + apply Nat.eqb_eq in E. inversion H; subst. exists []. cbn. auto.
    + apply find_in_list_Some in H. destruct H as [x [Hx Hf]].
      cbn [node_keys_unique] in Hu. rewrite forallb_forall in Hu.
      rewrite Forall_forall in IH. destruct (IH x Hx n (Hu x Hx) Hf) as [p [P1 P2]].
      apply In_nth_error in Hx. destruct Hx as [i Hi].
      exists (PIdx i :: p). cbn [node_at node_child]. rewrite Hi. auto.
  - rewrite find_node_ND in H. destruct (Nat.eqb id h) eqn:E.
    + apply Nat.eqb_eq in E. inversion H; subst. exists []. cbn. auto.
    + apply find_in_list_Some in H. destruct H as [[k x] [Hx Hf]]. cbn [snd] in Hf.
      cbn [node_keys_unique] in Hu. apply andb_true_iff in Hu. destruct Hu as [Hku Hu].
      rewrite forallb_forall in Hu.
      rewrite Forall_forall in IH. destruct (IH (k, x) Hx n (Hu (k, x) Hx) Hf) as [p [P1 P2]].
      exists (PKey k :: p). cbn [node_at node_child].
      rewrite (In_alookup_unique _ _ _ Hku Hx). auto.
Qed.

(* ---------- sub-nodes inherit the tree's properties ---------- *)
Lemma node_child_incl s n m : node_child s n = Some m ->
  incl (node_ids m) (node_ids n) /\ incl (node_classes m) (node_classes n).
Proof.
  destruct s as [k|i], n as [v|id c l|id c d]; cbn; intros H; try discriminate.
  - apply alookup_In in H. split; intros x Hx; right; apply in_flat_map; exists (k, m); auto.
  - apply nth_error_In in H. split; intros x Hx; right; apply in_flat_map; exists m; auto.
Qed.

Lemma node_child_nku s n m :
  node_child s n = Some m -> node_keys_unique n = true -> node_keys_unique m = true.
Proof.
  destruct s as [k|i], n as [v|id c l|id c d]; cbn; intros H U; try discriminate.
  - apply andb_true_iff in U. destruct U as [_ U]. rewrite forallb_forall in U.
    apply alookup_In in H. apply (U (k, m) H).
  - rewrite forallb_forall in U. apply nth_error_In in H. auto.
Qed.

Lemma node_child_nodup s n m :
  node_child s n = Some m -> NoDup (node_ids n) -> NoDup (node_ids m).
Proof.
  destruct s as [k|i], n as [v|id c l|id c d]; cbn; intros H U; try discriminate;
    inversion U as [|? ? _ U']; subst.
  - apply alookup_In in H.
    apply (NoDup_flat_map_In (fun kn : key * node => node_ids (snd kn)) d (k, m) U' H).
  - apply nth_error_In in H. apply (NoDup_flat_map_In node_ids l m U' H).
Qed.

Lemma node_at_sub p : forall root n, node_at p root = Some n ->
  incl (node_ids n) (node_ids root) /\ incl (node_classes n) (node_classes root)
  /\ (node_keys_unique root = true -> node_keys_unique n = true).
Proof.
  induction p as [|s p IH]; intros root n H; cbn [node_at] in H.
  - inversion H; subst. split; [apply incl_refl|]. split; [apply incl_refl|auto].
  - destruct (node_child s root) as [m|] eqn:E; [|discriminate].
    destruct (IH m n H) as [A [B C]]. destruct (node_child_incl _ _ _ E) as [A' B'].
    split; [eapply incl_tran; eauto|]. split; [eapply incl_tran; eauto|].
    intros U. apply C. eapply node_child_nku; eauto.
Qed.

Lemma node_at_in_backend T b p root n :
  node_at p root = Some n -> node_in_backend T b root -> node_in_backend T b n.
Proof.
  intros H Hb c Hc. apply Hb. destruct (node_at_sub _ _ _ H) as [_ [B _]]. apply B. exact Hc.
Qed.

Lemma node_at_val_at p : forall root n,
  node_at p root = Some n -> val_at p (to_base root) = Some (to_base n).
Proof.
  induction p as [|s p IH]; intros root n H; cbn [node_at val_at] in *.
  - inversion H; reflexivity.
  - destruct (node_child s root) as [m|] eqn:E; [|discriminate].
    assert (E' : val_child s (to_base root) = Some (to_base m)).
    { destruct s as [k|i], root as [v|id c l|id c d]; cbn in *; try discriminate.
      - rewrite (alookup_map to_base), E. reflexivity.
      - apply map_nth_error. exact E. }
    rewrite E'. apply IH; exact H.
Qed.

(* ---------- replacing the content at a path in plain data ---------- *)
Fixpoint put_at (p : path) (v c' : val) : val :=
  match p with
  | [] => c'
  | PKey k :: p' =>
      match v with
      | VD d => match alookup k d with
                | Some c => VD (dict_set d k (put_at p' c c'))
                | None => v
                end
      | _ => v
      end
  | PIdx i :: p' =>
      match v with
      | VL l => match nth_error l i with
                | Some c => VL (set_nth l i (put_at p' c c'))
                | None => v
                end
      | _ => v
      end
  end.

Lemma plain_at_put p o : forall v w r c',
  val_at p v = Some w -> plain_nop w o = Some (r, c') ->
  plain_at p o v = Some (r, put_at p v c').
Proof.
  induction p as [|[k|i] p IH]; intros v w r c' Hv Hp; cbn [val_at plain_at put_at] in *.
  - inversion Hv; subst. exact Hp.
  - destruct v as [s|l|d]; cbn [val_child] in Hv; try discriminate.
    destruct (alookup k d) as [x|] eqn:E; [|discriminate].
    rewrite (IH x w r c' Hv Hp). reflexivity.
  - destruct v as [s|l|d]; cbn [val_child] in Hv; try discriminate.
    destruct (nth_error l i) as [x|] eqn:E; [|discriminate].
    rewrite (IH x w r c' Hv Hp). reflexivity.
Qed.

Lemma alookup_dict_set {A} (d : list (key * A)) k k0 n :
  alookup k0 (dict_set d k n) = if key_eqb k0 k then Some n else alookup k0 d.
Proof.
  destruct (key_eqb k0 k) eqn:E.
  - apply key_eqb_eq in E. subst. apply alookup_dict_set_same.
  - apply alookup_dict_set_other. apply key_eqb_neq. exact E.
Qed.

Lemma Forall2_VEq_refl l : Forall2 VEq l l.
Proof. induction l; constructor; auto using VEq_refl. Qed.

Lemma VEq_dict_set d k x y : VEq x y -> VEq (VD (dict_set d k x)) (VD (dict_set d k y)).
Proof.
  intros H. constructor.
  - intros k0 z Hz. rewrite alookup_dict_set in *. destruct (key_eqb k0 k).
    + inversion Hz; subst. eauto.
    + exists z. split; [exact Hz|apply VEq_refl].
  - intros k0 Hz. rewrite alookup_dict_set in *. destruct (key_eqb k0 k); [discriminate|exact Hz].
Qed.

Lemma VEq_set_nth l i x y : VEq x y -> VEq (VL (set_nth l i x)) (VL (set_nth l i y)).
Proof.
  intros H. constructor. revert i. induction l as [|a l IH]; intros i; cbn [set_nth].
  - constructor.
  - destruct i; constructor; auto using VEq_refl, Forall2_VEq_refl.
Qed.

Lemma VEq_put p : forall v a b, VEq a b -> VEq (put_at p v a) (put_at p v b).
Proof.
  induction p as [|[k|i] p IH]; intros v a b H; cbn [put_at].
  - exact H.
  - destruct v as [s|l|d]; try apply VEq_refl.
    destruct (alookup k d); [|apply VEq_refl]. apply VEq_dict_set. apply IH; exact H.
  - destruct v as [s|l|d]; try apply VEq_refl.
    destruct (nth_error l i); [|apply VEq_refl]. apply VEq_set_nth. apply IH; exact H.
Qed.

(* ---------- replace_node = put_at on the plain view ---------- *)
Lemma replace_notin h r n : ~ In h (node_ids n) -> replace_node h r n = n.
Proof.
  induction n as [v|id c l IH|id c d IH] using node_ind2; intros Hn.
  - reflexivity.
  - rewrite replace_node_NL. cbn [node_ids] in Hn. destruct (Nat.eqb id h) eqn:E.
    { apply Nat.eqb_eq in E. exfalso. apply Hn. left. exact E. }
    f_equal. rewrite <- (map_id l) at 2. apply map_ext_in. intros x Hx.
    rewrite Forall_forall in IH. apply IH; auto.
    intros Hin. apply Hn. right. apply in_flat_map. eauto.
  - rewrite replace_node_ND. cbn [node_ids] in Hn. destruct (Nat.eqb id h) eqn:E.
    { apply Nat.eqb_eq in E. exfalso. apply Hn. left. exact E. }
    f_equal. rewrite <- (map_id d) at 2. apply map_ext_in. intros [k x] Hx. cbn [fst snd].
    rewrite Forall_forall in IH. pose proof (IH (k, x) Hx) as Hk. cbn [snd] in Hk.
    rewrite Hk; auto.
    intros Hin. apply Hn. right. apply in_flat_map. exists (k, x). auto.
Qed.

Lemma map_replace_list h r : forall l i m,
  nth_error l i = Some m -> NoDup (flat_map node_ids l) -> In h (node_ids m) ->
  map (fun x => to_base (replace_node h r x)) l
  = set_nth (map to_base l) i (to_base (replace_node h r m)).
Proof.
  induction l as [|a l IH]; intros i m Hn Hd Hin.
  - destruct i; discriminate.
  - cbn [flat_map] in Hd. apply NoDup_app_inv in Hd. destruct Hd as [D1 [D2 D3]].
    destruct i as [|i]; cbn [nth_error] in Hn; cbn [map set_nth].
    + inversion Hn; subst a. f_equal.
      apply map_ext_in. intros x Hx. rewrite replace_notin; [reflexivity|].
      intros Hc. apply (D3 h Hin). apply in_flat_map. eauto.
    + f_equal.
      * rewrite replace_notin; [reflexivity|]. intros Hc. apply (D3 h Hc).
        apply in_flat_map. exists m. split; [eapply nth_error_In; eauto|exact Hin].
      * apply IH; auto.
Qed.

Lemma map_replace_dict h r : forall (d : list (key * node)) k m,
  alookup k d = Some m ->
  NoDup (flat_map (fun kn : key * node => node_ids (snd kn)) d) -> In h (node_ids m) ->
  map (fun kn : key * node => (fst kn, to_base (replace_node h r (snd kn)))) d
  = dict_set (map (fun kn : key * node => (fst kn, to_base (snd kn))) d) k (to_base (replace_node h r m)).
Proof.
  induction d as [|[k' m'] d IH]; intros k m Hl Hd Hin; [discriminate|].
  cbn [flat_map snd] in Hd. apply NoDup_app_inv in Hd. destruct Hd as [D1 [D2 D3]].
  cbn [alookup] in Hl. cbn [map dict_set fst snd]. destruct (key_eqb k k') eqn:E.
  - inversion Hl; subst m'. f_equal.
    apply map_ext_in. intros [k2 m2] Hx. cbn [fst snd]. rewrite replace_notin; [reflexivity|].
    intros Hc. apply (D3 h Hin). apply in_flat_map. exists (k2, m2). auto.
  - f_equal.
    + rewrite replace_notin; [reflexivity|]. intros Hc. apply (D3 h Hc).
      apply in_flat_map. exists (k, m). split; [apply alookup_In; exact Hl|exact Hin].
    + apply IH; auto.
Qed.

Lemma node_id_In n h : node_id n = Some h -> In h (node_ids n).
Proof. destruct n; cbn; intros H; try discriminate; inversion H; auto. Qed.

Lemma replace_node_put h r p : forall root n,
  node_at p root = Some n -> node_id n = Some h -> NoDup (node_ids root) ->
  to_base (replace_node h r root) = put_at p (to_base root) (to_base r).
Proof.
  induction p as [|s p IH]; intros root n Hat Hid Hd.
  - cbn in Hat. inversion Hat; subst n.
    destruct root as [v|id c l|id c d]; cbn in Hid; try discriminate; inversion Hid; subst;
      cbn [replace_node]; rewrite Nat.eqb_refl; reflexivity.
  - cbn [node_at] in Hat. destruct (node_child s root) as [m|] eqn:Ec; [|discriminate].
    assert (Hin : In h (node_ids m)).
    { destruct (node_at_sub _ _ _ Hat) as [I _]. apply I. apply node_id_In; exact Hid. }
    pose proof (node_child_nodup _ _ _ Ec Hd) as Hdm.
    pose proof (IH m n Hat Hid Hdm) as IHm.
    destruct s as [k|i], root as [v|id c l|id c d]; cbn [node_child] in Ec; try discriminate.
    + cbn [node_ids] in Hd. inversion Hd as [|? ? Hn Hd']; subst.
      assert (Hne : Nat.eqb id h = false).
      { apply Nat.eqb_neq. intros ->. apply Hn. apply in_flat_map. exists (k, m).
        split; [apply alookup_In; exact Ec|exact Hin]. }
      rewrite replace_node_ND, Hne. cbn [to_base put_at]. rewrite map_map. cbn [fst snd].
      rewrite (alookup_map to_base), Ec. cbn [option_map].
      rewrite (map_replace_dict h r d k m Ec Hd' Hin). rewrite IHm. reflexivity.
    + cbn [node_ids] in Hd. inversion Hd as [|? ? Hn Hd']; subst.
      assert (Hne : Nat.eqb id h = false).
      { apply Nat.eqb_neq. intros ->. apply Hn. apply in_flat_map. exists m.
        split; [eapply nth_error_In; eauto|exact Hin]. }
      rewrite replace_node_NL, Hne. cbn [to_base put_at]. rewrite map_map.
      rewrite (map_nth_error to_base _ _ Ec).
      rewrite (map_replace_list h r l i m Ec Hd' Hin). rewrite IHm. reflexivity.
Qed.

Lemma replace_same h : forall root n,
  NoDup (node_ids root) -> find_node h root = Some n -> replace_node h n root = root.
Proof.
  induction root as [v|id c l IH|id c d IH] using node_ind2; intros n Hd H.
  - discriminate.
  - rewrite find_node_NL in H. rewrite replace_node_NL. destruct (Nat.eqb id h) eqn:E.
    + inversion H; reflexivity.
    + apply find_in_list_Some in H. destruct H as [x [Hx Hf]].
      cbn [node_ids] in Hd. inversion Hd as [|? ? _ Hd']; subst.
      f_equal. rewrite <- (map_id l) at 2. apply map_ext_in. intros y Hy.
      destruct (in_dec Nat.eq_dec h (node_ids y)) as [Hin|Hnin].
      * assert (x = y).
        { eapply (NoDup_flat_map_same node_ids l x y h); eauto.
          apply (find_node_In _ _ _ Hf). }
        subst y. rewrite Forall_forall in IH. apply IH; auto.
        eapply NoDup_flat_map_In; eauto.
      * apply replace_notin; exact Hnin.
  - rewrite find_node_ND in H. rewrite replace_node_ND. destruct (Nat.eqb id h) eqn:E.
    + inversion H; reflexivity.
    + apply find_in_list_Some in H. destruct H as [x [Hx Hf]].
      cbn [node_ids] in Hd. inversion Hd as [|? ? _ Hd']; subst.
      f_equal. rewrite <- (map_id d) at 2. apply map_ext_in. intros y Hy.
      destruct (in_dec Nat.eq_dec h (node_ids (snd y))) as [Hin|Hnin].
      * assert (x = y).
        { eapply (NoDup_flat_map_same (fun kn : key * node => node_ids (snd kn)) d x y h); eauto.
          apply (find_node_In _ _ _ Hf). }
        subst y. rewrite Forall_forall in IH. rewrite (IH x Hx n); auto.
        { destruct x; reflexivity. }
        apply (NoDup_flat_map_In (fun kn : key * node => node_ids (snd kn)) d x Hd' Hx).
      * rewrite replace_notin by exact Hnin. destruct y; reflexivity.
Qed.
