(* C17 — Reading never writes.  Property theorems only. *)
From Coq Require Import List Bool.
From SC Require Import Model.Val Model.Ops Model.Class Model.Tree Model.Machine Proofs.MachineReads.
Import ListNotations.

(* every read operation (item access, get, len, iteration, membership, comparisons, (),
   keys/values/items) through a root or a nested handle, attached or detached, from every
   state: no resource changes content, none is created, nothing is written *)
Theorem C17_reads_pure : forall T s op,
  mop_is_read op = true ->
  m_res (fst (step T s op)) = m_res s /\ m_writes (fst (step T s op)) = m_writes s.
Proof. exact step_read_pure. Qed.
Print Assumptions C17_reads_pure.

Theorem C17_read_sequences_pure : forall T ops s,
  forallb mop_is_read ops = true ->
  m_res (fst (fold_left (fun st op => (fst (step T (fst st) op), tt)) ops (s, tt))) = m_res s
  /\ m_writes (fst (fold_left (fun st op => (fst (step T (fst st) op), tt)) ops (s, tt))) = m_writes s.
Proof. exact run_reads_pure. Qed.
Print Assumptions C17_read_sequences_pure.
