import sys, os, json, tempfile, itertools
import sched2
from sched2 import *
from synced_collections.backends.collection_json import JSONDict, JSONList, BufferedJSONDict, MemoryBufferedJSONDict, BufferedJSONList
install([JSONDict, JSONList, BufferedJSONDict, MemoryBufferedJSONDict, BufferedJSONList])
exec(open('/tmp/scratch/run_sched2.py').read().split("# sanity:")[0].split("install([")[1].split("\n",1)[1])
for cls in (BufferedJSONDict, MemoryBufferedJSONDict):
    n = cls.__name__[:3]
    scenario(n+'_buf_set_set_2obj', cls, {'a': 0}, [('T1', lambda o: o.__setitem__('x', 1)), ('T2', lambda o: o.__setitem__('y', 2))],
             [('T1', lambda p: p.__setitem__('x', 1)), ('T2', lambda p: p.__setitem__('y', 2))], same_object=False, buffered=True, limit=1500)
    scenario(n+'_buf_clear_set_2obj', cls, {'a': 0}, [('T1', lambda o: o.clear()), ('T2', lambda o: o.__setitem__('y', 2))],
             [('T1', lambda p: p.clear()), ('T2', lambda p: p.__setitem__('y', 2))], same_object=False, buffered=True, limit=1500)
    scenario(n+'_buf_reset_set_1obj_cap0', cls, {'a': 0}, [('T1', lambda o: o.reset({'r': 1})), ('T2', lambda o: o.__setitem__('y', 2))],
             [('T1', lambda p: (p.clear(), p.update({'r': 1}))[0]), ('T2', lambda p: p.__setitem__('y', 2))], same_object=True, buffered=True, cap=0, limit=1500)
    cls.set_buffer_capacity(1000 if 'Memory' in cls.__name__ else 32*2**20)
