import json, os, tempfile, sys, traceback, time, threading, types
sys.path.insert(0, '/repo')
# stub optional deps for mongo / zarr
bson = types.ModuleType('bson'); bson.errors = types.ModuleType('bson.errors')
class InvalidDocument(Exception): pass
bson.errors.InvalidDocument = InvalidDocument
sys.modules['bson'] = bson; sys.modules['bson.errors'] = bson.errors
numcodecs = types.ModuleType('numcodecs')
class JSONCodec: pass
numcodecs.JSON = JSONCodec
sys.modules['numcodecs'] = numcodecs
from synced_collections.backends.collection_json import *
from synced_collections.backends.collection_redis import RedisDict, RedisList
from synced_collections.backends.collection_mongodb import MongoDBDict, MongoDBList
from synced_collections.backends.collection_zarr import ZarrDict, ZarrList
from synced_collections import SyncedCollection
import copy
class FakeRedis:
    def __init__(self): self.kv = {}; self.sets = 0
    def get(self, k): return self.kv.get(k)
    def set(self, k, v): self.kv[k] = v; self.sets += 1
class FakeMongo:
    def __init__(self): self.docs = []
    def find_one(self, uid):
        for d in self.docs:
            if all(d.get(k) == v for k, v in uid.items()): return copy.deepcopy(d)
        return None
    def replace_one(self, uid, doc, upsert):
        for i, d in enumerate(self.docs):
            if all(d.get(k) == v for k, v in uid.items()): self.docs[i] = copy.deepcopy(doc); return
        if upsert: self.docs.append(copy.deepcopy(doc))
class FakeDataset:
    def __init__(self): self.v = [None]
    def __getitem__(self, i): return json.loads(self.v[i])
    def __setitem__(self, i, val): self.v[i] = json.dumps(val)
class FakeGroup:
    def __init__(self): self.ds = {}
    def __getitem__(self, n): return self.ds[n]
    def require_dataset(self, name, overwrite, shape, dtype, object_codec):
        self.ds[name] = FakeDataset(); return self.ds[name]
d = tempfile.mkdtemp()
def fn(n): return os.path.join(d, n)
print({k.split('.')[-1] if 'collection_' not in k.split('.')[-1] else k.split('.')[-1]: [c.__name__ for c in v] for k, v in SyncedCollection.registry.items()})
mk = {
 'JSONDict': lambda: JSONDict(fn('a.json')), 'JSONAttrDict': lambda: JSONAttrDict(fn('b.json')),
 'BufferedJSONAttrDict': lambda: BufferedJSONAttrDict(fn('c.json')), 'MemoryBufferedJSONAttrDict': lambda: MemoryBufferedJSONAttrDict(fn('d.json')),
 'RedisDict': lambda: RedisDict(FakeRedis(), 'k'), 'MongoDBDict': lambda: MongoDBDict(FakeMongo(), {'id': 1}), 'ZarrDict': lambda: ZarrDict(FakeGroup(), 'n'),
}
def attempt(thunk):
    try: thunk(); return 'ACCEPTED'
    except Exception as e: return 'rej:' + type(e).__name__
for name, m in mk.items():
    print('\n==', name, 'validators', [v.__name__ for v in type(m())._all_validators])
    x = m(); x['l'] = []; x['d'] = {}
    print('  list child type', type(x['l']).__name__, [v.__name__ for v in type(x['l'])._all_validators])
    bad_dot = {'a.b': 1}; bad_key = {1: 2}; bad_val = object()
    for label, bad in [('dot', bad_dot), ('intkey', bad_key), ('obj', {'k': bad_val})]:
        row = []
        row.append(('root[k]=bad', attempt(lambda: x.__setitem__('k', bad))))
        row.append(('root[k]=[bad]', attempt(lambda: x.__setitem__('k', [bad]))))
        row.append(('l.append(bad)', attempt(lambda: x['l'].append(bad))))
        row.append(('l.extend([[bad]])', attempt(lambda: x['l'].extend([[bad]]))))
        row.append(('update l:[bad]', attempt(lambda: x.update({'l': [bad]}))))
        row.append(('d.update(bad)', attempt(lambda: x['d'].update(bad))))
        row.append(('reset', attempt(lambda: x.reset({'l': [], 'd': {}, 'z': [bad]}))))
        print('  ', label, row)
        x.reset({'l': [], 'd': {}})
    print('   final', x())
