(* BufferInv.v — invariants of the file-buffering layer (Model/Buffer.v): C15, C07, C17 (buffered part).
   Part 1: association lists, frames, flush_one case analysis, accounting (acct / acctb).
   Part 2: registration invariant (reg_inv), what a forced flush achieves.
   Part 3: capacity / stack tracking, the size bound, read-only sessions, issues of a flush.
   Part 4: registered collections are known objects.
   Part 5: the stated theorems.

   Statements that were FALSE as first given carry a (* CHANGED *) comment, preceded by a
   vm_compute counterexample of the original statement:
     step_reg            needs distinct buffer keys, and BNew must not reuse a registered id
     capacity_restored   needs every set_buffer_capacity to be inside a context that carries a capacity
     readonly_step_pure / readonly_run_pure   need distinct buffer keys *)
From Coq Require Import List ZArith NArith Bool Lia.
From SC Require Import Model.Val Model.Plain Model.Ops Model.Buffer Proofs.TreeDefs Proofs.TreeBase Proofs.BufferDefs.
From SC Require Import Corr.KBuf.
Import ListNotations.
Local Open Scope Z_scope.

(* ################################################################## *)
(* Part 1 *)
(* ------------------------------------------------------------------ *)
(* association lists keyed by nat *)
Section NList.
  Context {A : Type}.
  Implicit Types (l : list (nat * A)).

  Lemma nlookup_nset k k' v l :
    nlookup k' (nset k v l) = if Nat.eqb k' k then Some v else nlookup k' l.
  Proof.
    induction l as [|[k0 v0] l IH]; simpl.
    - reflexivity.
    - destruct (Nat.eqb k k0) eqn:E; simpl.
      + apply Nat.eqb_eq in E; subst k0. destruct (Nat.eqb k' k); reflexivity.
      + rewrite IH. destruct (Nat.eqb k' k0) eqn:E2; [|reflexivity].
        apply Nat.eqb_eq in E2; subst k0.
        destruct (Nat.eqb k' k) eqn:E3; [|reflexivity].
        apply Nat.eqb_eq in E3; subst. rewrite Nat.eqb_refl in E. discriminate.
  Qed.

  Lemma nlookup_nset_same k v l : nlookup k (nset k v l) = Some v.
  Proof. rewrite nlookup_nset, Nat.eqb_refl. reflexivity. Qed.

  Lemma nlookup_nset_other k k' v l : k' <> k -> nlookup k' (nset k v l) = nlookup k' l.
  Proof. intros H. rewrite nlookup_nset. apply Nat.eqb_neq in H. rewrite H. reflexivity. Qed.

  Lemma nlookup_none_iff k l : nlookup k l = None <-> ~ In k (map fst l).
  Proof.
    induction l as [|[k0 v0] l IH]; simpl.
    - split; [intros _ []|reflexivity].
    - destruct (Nat.eqb k k0) eqn:E.
      + apply Nat.eqb_eq in E. subst. split; [discriminate|]. intros H. exfalso. apply H. left; reflexivity.
      + apply Nat.eqb_neq in E. rewrite IH. split.
        * intros H [H1|H1]; [congruence|contradiction].
        * intros H H1. apply H. right. exact H1.
  Qed.

  Lemma nlookup_In k v l : nlookup k l = Some v -> In (k, v) l.
  Proof.
    induction l as [|[k0 v0] l IH]; simpl; [discriminate|].
    destruct (Nat.eqb k k0) eqn:E.
    - apply Nat.eqb_eq in E. subst. intros H; inversion H; subst. left; reflexivity.
    - intros H. right. apply IH. exact H.
  Qed.

  Lemma nlookup_In_keys k v l : nlookup k l = Some v -> In k (map fst l).
  Proof. intros H. apply nlookup_In in H. apply (in_map fst) in H. exact H. Qed.

  Lemma In_nlookup k v l : NoDup (map fst l) -> In (k, v) l -> nlookup k l = Some v.
  Proof.
    induction l as [|[k0 v0] l IH]; simpl; [intros _ []|].
    intros ND [H|H].
    - inversion H; subst. rewrite Nat.eqb_refl. reflexivity.
    - inversion ND as [|x xs Hn ND']; subst.
      destruct (Nat.eqb k k0) eqn:E.
      + apply Nat.eqb_eq in E. subst. exfalso. apply Hn. apply (in_map fst) in H. exact H.
      + apply IH; assumption.
  Qed.

  Lemma In_keys_nremove x k l : In x (map fst (nremove k l)) -> In x (map fst l).
  Proof.
    induction l as [|[k0 v0] l IH]; simpl; [intros []|].
    destruct (Nat.eqb k k0); simpl.
    - intros H; right; exact H.
    - intros [H|H]; [left; exact H|right; apply IH; exact H].
  Qed.

  Lemma NoDup_nremove k l : NoDup (map fst l) -> NoDup (map fst (nremove k l)).
  Proof.
    induction l as [|[k0 v0] l IH]; simpl; [intros H; exact H|].
    intros ND. inversion ND as [|x xs Hn ND']; subst.
    destruct (Nat.eqb k k0); simpl; [exact ND'|].
    constructor; [|apply IH; exact ND'].
    intros H. apply Hn. eapply In_keys_nremove. exact H.
  Qed.

  Lemma nlookup_nremove_ne k k' l : k' <> k -> nlookup k' (nremove k l) = nlookup k' l.
  Proof.
    intros Hne. induction l as [|[k0 v0] l IH]; simpl; [reflexivity|].
    destruct (Nat.eqb k k0) eqn:E; simpl.
    - apply Nat.eqb_eq in E. subst k0. apply Nat.eqb_neq in Hne. rewrite Hne. reflexivity.
    - rewrite IH. reflexivity.
  Qed.

  Lemma nlookup_nremove_eq k l : NoDup (map fst l) -> nlookup k (nremove k l) = None.
  Proof.
    induction l as [|[k0 v0] l IH]; simpl; [reflexivity|].
    intros ND. inversion ND as [|x xs Hn ND']; subst.
    destruct (Nat.eqb k k0) eqn:E; simpl.
    - apply Nat.eqb_eq in E. subst k0. apply nlookup_none_iff. exact Hn.
    - rewrite E. apply IH. exact ND'.
  Qed.

  Lemma nlookup_nremove_none k k' l : nlookup k' l = None -> nlookup k' (nremove k l) = None.
  Proof.
    rewrite !nlookup_none_iff. intros H H1. apply H. eapply In_keys_nremove. exact H1.
  Qed.

  Lemma nlookup_nremove_some k k' l v : NoDup (map fst l) ->
    nlookup k' (nremove k l) = Some v -> k' <> k /\ nlookup k' l = Some v.
  Proof.
    intros ND H. destruct (Nat.eq_dec k' k) as [->|Hne].
    - rewrite nlookup_nremove_eq in H by exact ND. discriminate.
    - split; [exact Hne|]. rewrite nlookup_nremove_ne in H by exact Hne. exact H.
  Qed.

  Lemma keys_nset_in k v l : In k (map fst l) -> map fst (nset k v l) = map fst l.
  Proof.
    induction l as [|[k0 v0] l IH]; simpl; [intros []|].
    destruct (Nat.eqb k k0) eqn:E; simpl.
    - apply Nat.eqb_eq in E. subst. reflexivity.
    - apply Nat.eqb_neq in E. intros [H|H]; [congruence|]. rewrite IH by exact H. reflexivity.
  Qed.

  Lemma keys_nset_notin k v l : ~ In k (map fst l) -> map fst (nset k v l) = map fst l ++ [k].
  Proof.
    induction l as [|[k0 v0] l IH]; simpl; [reflexivity|].
    intros H. destruct (Nat.eqb k k0) eqn:E; simpl.
    - apply Nat.eqb_eq in E. subst. exfalso. apply H. left; reflexivity.
    - rewrite IH; [reflexivity|]. intros H1. apply H. right. exact H1.
  Qed.

  Lemma NoDup_snoc (B : Type) (x : B) (m : list B) : NoDup m -> ~ In x m -> NoDup (m ++ [x]).
  Proof.
    induction m as [|y m IH]; simpl; intros ND Hn.
    - constructor; [intros []|constructor].
    - inversion ND as [|z zs Hy ND']; subst. constructor.
      + rewrite in_app_iff. intros [H|[H|[]]]; [contradiction|]. subst. apply Hn. left; reflexivity.
      + apply IH; [exact ND'|]. intros H. apply Hn. right. exact H.
  Qed.

  Lemma NoDup_nset k v l : NoDup (map fst l) -> NoDup (map fst (nset k v l)).
  Proof.
    intros ND. destruct (in_dec Nat.eq_dec k (map fst l)) as [H|H].
    - rewrite keys_nset_in by exact H. exact ND.
    - rewrite keys_nset_notin by exact H. apply NoDup_snoc; assumption.
  Qed.

  (* weighted sums *)
  Variable w : A -> Z.
  Definition wsum l : Z := fold_right (fun (fe : nat * A) acc => w (snd fe) + acc) 0 l.
  Definition wof (o : option A) : Z := match o with Some a => w a | None => 0 end.

  Lemma wsum_nset k v l : wsum (nset k v l) = wsum l - wof (nlookup k l) + w v.
  Proof.
    unfold wsum, wof. induction l as [|[k0 v0] l IH]; simpl.
    - lia.
    - destruct (Nat.eqb k k0) eqn:E; simpl.
      + lia.
      + rewrite IH. lia.
  Qed.

  Lemma wsum_nremove k l : wsum (nremove k l) = wsum l - wof (nlookup k l).
  Proof.
    unfold wsum, wof. induction l as [|[k0 v0] l IH]; simpl.
    - lia.
    - destruct (Nat.eqb k k0) eqn:E; simpl.
      + lia.
      + rewrite IH. lia.
  Qed.

  Lemma wsum_zero l : (forall k a, In (k, a) l -> w a = 0) -> wsum l = 0.
  Proof.
    unfold wsum. induction l as [|[k0 v0] l IH]; simpl; [reflexivity|].
    intros H. rewrite IH.
    - rewrite (H k0 v0) by (left; reflexivity). reflexivity.
    - intros k a Hin. apply (H k a). right. exact Hin.
  Qed.
End NList.

Lemma nmem_In k l : nmem k l = true <-> In k l.
Proof.
  unfold nmem. rewrite existsb_exists. split.
  - intros [x [Hin E]]. apply Nat.eqb_eq in E. subst. exact Hin.
  - intros H. exists k. split; [exact H|apply Nat.eqb_refl].
Qed.

Lemma nmem_false k l : nmem k l = false <-> ~ In k l.
Proof.
  rewrite <- nmem_In. destruct (nmem k l); split; congruence.
Qed.

(* ------------------------------------------------------------------ *)
(* simplification of record projections over the update functions *)
Ltac bsimpl :=
  cbn [fst snd b_files b_clock b_writes b_heap b_nloc b_objs b_buffer b_size b_cap b_stack b_ctx b_bcs b_forced
       upd_files upd_heap upd_objs upd_buffer upd_size upd_cap upd_stack upd_ctx upd_bcs
       write_disk write_disk_raw set_data set_loc set_buf update_root set_entry del_entry note_forced].
Tactic Notation "bsimpl" "in" hyp(H) :=
  cbn [fst snd b_files b_clock b_writes b_heap b_nloc b_objs b_buffer b_size b_cap b_stack b_ctx b_bcs b_forced
       upd_files upd_heap upd_objs upd_buffer upd_size upd_cap upd_stack upd_ctx upd_bcs
       write_disk write_disk_raw set_data set_loc set_buf update_root set_entry del_entry note_forced] in H.

(* ------------------------------------------------------------------ *)
(* objects *)
Lemma get_obj_eq s s' o : b_objs s' = b_objs s -> get_obj s' o = get_obj s o.
Proof. intros H. unfold get_obj. rewrite H. reflexivity. Qed.

Lemma get_obj_nset s s' oid ob o :
  b_objs s' = nset oid ob (b_objs s) -> get_obj s' o = if Nat.eqb o oid then ob else get_obj s o.
Proof.
  intros H. unfold get_obj. rewrite H, nlookup_nset. destruct (Nat.eqb o oid); reflexivity.
Qed.

(* the control part of the state: what is_buffered, the stack and the capacity depend on *)
Definition frame (s s' : bstate) : Prop :=
  b_ctx s' = b_ctx s /\ b_stack s' = b_stack s /\ b_cap s' = b_cap s /\
  (forall o, bo_file (get_obj s' o) = bo_file (get_obj s o)) /\
  (forall o, bo_buf (get_obj s' o) = bo_buf (get_obj s o)).

Lemma frame_refl s : frame s s.
Proof. repeat split. Qed.

Lemma frame_trans s1 s2 s3 : frame s1 s2 -> frame s2 s3 -> frame s1 s3.
Proof.
  intros (A1 & A2 & A3 & A4 & A5) (B1 & B2 & B3 & B4 & B5).
  split; [congruence|]. split; [congruence|]. split; [congruence|]. split; intros o.
  - rewrite B4. apply A4.
  - rewrite B5. apply A5.
Qed.

Lemma frame_objs_eq s s' :
  b_objs s' = b_objs s -> b_ctx s' = b_ctx s -> b_stack s' = b_stack s -> b_cap s' = b_cap s -> frame s s'.
Proof.
  intros H1 H2 H3 H4. repeat split; try assumption; intros o; rewrite (get_obj_eq s s' o H1); reflexivity.
Qed.

Lemma frame_set_loc s oid loc : frame s (set_loc s oid loc).
Proof.
  repeat split; intros o; rewrite (get_obj_nset s (set_loc s oid loc) oid _ o eq_refl);
    destruct (Nat.eqb o oid) eqn:E; try reflexivity; apply Nat.eqb_eq in E; subst; reflexivity.
Qed.

Lemma frame_is_buffered s s' o : frame s s' -> is_buffered s' o = is_buffered s o.
Proof. intros (A1 & _ & _ & _ & A5). unfold is_buffered. rewrite A1, A5. reflexivity. Qed.

Lemma frame_file s s' o : frame s s' -> bo_file (get_obj s' o) = bo_file (get_obj s o).
Proof. intros (_ & _ & _ & A4 & _). apply A4. Qed.

Lemma frame_cap s s' : frame s s' -> b_cap s' = b_cap s.
Proof. intros (_ & _ & A3 & _). exact A3. Qed.
Lemma frame_stack s s' : frame s s' -> b_stack s' = b_stack s.
Proof. intros (_ & A2 & _). exact A2. Qed.
Lemma frame_ctx s s' : frame s s' -> b_ctx s' = b_ctx s.
Proof. intros (A1 & _). exact A1. Qed.

Lemma register_fields s oid :
  b_objs (register s oid) = b_objs s /\ b_ctx (register s oid) = b_ctx s /\ b_stack (register s oid) = b_stack s
  /\ b_cap (register s oid) = b_cap s /\ b_buffer (register s oid) = b_buffer s /\ b_size (register s oid) = b_size s
  /\ b_files (register s oid) = b_files s /\ b_writes (register s oid) = b_writes s /\ b_heap (register s oid) = b_heap s.
Proof. unfold register. destruct (nmem oid (b_bcs s)); repeat split. Qed.

Lemma register_bcs s oid o : In o (b_bcs (register s oid)) <-> o = oid \/ In o (b_bcs s).
Proof.
  unfold register. destruct (nmem oid (b_bcs s)) eqn:E.
  - apply nmem_In in E. split; [intros H; right; exact H|]. intros [->|H]; assumption.
  - bsimpl. rewrite in_app_iff. simpl. split.
    + intros [H|[H|[]]]; [right; exact H|left; symmetry; exact H].
    + intros [->|H]; [right; left; reflexivity|left; exact H].
Qed.

Lemma frame_register s oid : frame s (register s oid).
Proof.
  destruct (register_fields s oid) as (H1 & H2 & H3 & H4 & _). apply frame_objs_eq; assumption.
Qed.

Lemma get_obj_register s oid o : get_obj (register s oid) o = get_obj s o.
Proof. apply get_obj_eq. apply register_fields. Qed.

(* ------------------------------------------------------------------ *)
(* flush_one: case analysis *)
Ltac fo_cases strat s oid force :=
  unfold flush_one;
  destruct (negb (is_buffered s oid) || force) eqn:Hcond;
  [ let e := fresh "e" in
    destruct (nlookup (bo_file (get_obj s oid)) (b_buffer s)) as [e|] eqn:Hlk;
    [ destruct strat;
      [ destruct (veq_text (e_val e) (e_hash e)) eqn:Hveq;
        [| destruct (negb (opt_nat_eqb (e_meta e) (stamp s (bo_file (get_obj s oid))))) eqn:Hmeta ]
      | destruct (e_mod e) eqn:Hmod;
        [ destruct (negb (opt_nat_eqb (e_meta e) (stamp s (bo_file (get_obj s oid))))) eqn:Hmeta |];
        destruct force eqn:Hforce ]
    | destruct strat; [| destruct force eqn:Hforce ] ]
  | destruct strat ].

Lemma flush_one_frame strat blen s oid force :
  let s' := fst (flush_one strat blen s oid force) in
  frame s s' /\ b_bcs s' = b_bcs s /\ b_forced s' = b_forced s.
Proof.
  fo_cases strat s oid force; bsimpl; (split; [|split; reflexivity]);
    try (apply frame_objs_eq; reflexivity);
    try (eapply frame_trans; [apply frame_set_loc|apply frame_objs_eq; reflexivity]).
Qed.

Lemma flush_one_is_buffered strat blen s oid force o :
  is_buffered (fst (flush_one strat blen s oid force)) o = is_buffered s o.
Proof. apply frame_is_buffered. apply flush_one_frame. Qed.

Lemma flush_one_file strat blen s oid force o :
  bo_file (get_obj (fst (flush_one strat blen s oid force)) o) = bo_file (get_obj s o).
Proof. apply frame_file. apply flush_one_frame. Qed.

(* ------------------------------------------------------------------ *)
(* accounting *)
Definition ew (strat : strategy) (blen : val -> Z) (e : entry) : Z :=
  match strat with Ser => blen (e_val e) | Shm => if e_mod e then 1 else 0 end.

Lemma expected_size_wsum strat blen s : expected_size strat blen s = wsum (ew strat blen) (b_buffer s).
Proof. destruct strat; reflexivity. Qed.

(* [acctb true] is acct; [acctb false] is just the absence of duplicate keys *)
Definition acctb (b : bool) (strat : strategy) (blen : val -> Z) (s : bstate) : Prop :=
  (b = true -> b_size s = wsum (ew strat blen) (b_buffer s)) /\ NoDup (map fst (b_buffer s)).

Lemma acctb_true strat blen s : acctb true strat blen s <-> acct strat blen s.
Proof.
  unfold acctb, acct. rewrite expected_size_wsum. split; intros [H1 H2]; split; auto.
Qed.
Lemma acctb_false strat blen s : acctb false strat blen s <-> NoDup (map fst (b_buffer s)).
Proof. unfold acctb. split; [intros [_ H]; exact H|intros H; split; [discriminate|exact H]]. Qed.
Lemma acctb_nodup b strat blen s : acctb b strat blen s -> NoDup (map fst (b_buffer s)).
Proof. intros [_ H]. exact H. Qed.

Lemma acct_nodup strat blen s : acct strat blen s -> NoDup (map fst (b_buffer s)).
Proof. intros [_ H]. exact H. Qed.

Lemma acct_same b strat blen s s' :
  b_buffer s' = b_buffer s -> b_size s' = b_size s -> acctb b strat blen s -> acctb b strat blen s'.
Proof. unfold acctb. intros -> ->. intros H; exact H. Qed.

Lemma acct_del b strat blen s s' f e :
  acctb b strat blen s -> nlookup f (b_buffer s) = Some e ->
  b_buffer s' = nremove f (b_buffer s) -> b_size s' = b_size s - ew strat blen e -> acctb b strat blen s'.
Proof.
  unfold acctb. intros [H1 H2] Hl -> ->. split.
  - intros Hb. rewrite wsum_nremove, Hl, (H1 Hb). simpl. lia.
  - apply NoDup_nremove. exact H2.
Qed.

Lemma acct_set b strat blen s s' f e' :
  acctb b strat blen s -> b_buffer s' = nset f e' (b_buffer s) ->
  b_size s' = b_size s - wof (ew strat blen) (nlookup f (b_buffer s)) + ew strat blen e' -> acctb b strat blen s'.
Proof.
  unfold acctb. intros [H1 H2] -> ->. split.
  - intros Hb. rewrite wsum_nset, (H1 Hb). lia.
  - apply NoDup_nset. exact H2.
Qed.

Lemma flush_one_acct b strat blen s oid force :
  acctb b strat blen s -> acctb b strat blen (fst (flush_one strat blen s oid force)).
Proof.
  intros HA.
  fo_cases strat s oid force; bsimpl;
    try (eapply acct_same; [| |exact HA]; reflexivity);
    try (eapply acct_del; [exact HA|exact Hlk|reflexivity|]; bsimpl; cbn [ew]; try rewrite Hmod; try reflexivity; lia);
    try (eapply acct_set; [exact HA|reflexivity|]; bsimpl; rewrite Hlk; cbn [ew wof e_mod]; try rewrite Hmod; lia).
Qed.

(* generic lifting through flush_loop / flush_buffer / check_capacity / set_capacity *)
Lemma flush_loop_pres strat blen (P : bstate -> Prop) force :
  (forall s oid, P s -> P (fst (flush_one strat blen s oid force))) ->
  forall todo s rem iss, P s -> P (fst (fst (flush_loop strat blen todo s force rem iss))).
Proof.
  intros HP. induction todo as [|oid todo IH]; intros s rem iss Hs; simpl.
  - exact Hs.
  - destruct (is_buffered s oid && negb force).
    + apply IH. exact Hs.
    + specialize (HP s oid Hs).
      destruct (flush_one strat blen s oid force) as [s1 [[f|fs]|]]; apply IH; exact HP.
Qed.

Definition closed_ctl (P : bstate -> Prop) : Prop :=
  (forall s l, P s -> P (upd_bcs s l)) /\ (forall s, P s -> P (note_forced s)) /\ (forall s n, P s -> P (upd_cap s n)).

Lemma flush_buffer_fst strat blen s force :
  fst (flush_buffer strat blen s force) =
  upd_bcs (fst (fst (flush_loop strat blen (rev (b_bcs s)) (upd_bcs s []) force [] [])))
          (snd (fst (flush_loop strat blen (rev (b_bcs s)) (upd_bcs s []) force [] []))).
Proof.
  unfold flush_buffer. destruct (flush_loop strat blen (rev (b_bcs s)) (upd_bcs s []) force [] []) as [[s1 rem] iss].
  destruct iss; reflexivity.
Qed.

Lemma flush_buffer_pres strat blen (P : bstate -> Prop) force :
  closed_ctl P ->
  (forall s oid, P s -> P (fst (flush_one strat blen s oid force))) ->
  forall s, P s -> P (fst (flush_buffer strat blen s force)).
Proof.
  intros (C1 & _) HP s Hs. rewrite flush_buffer_fst. apply C1. apply flush_loop_pres; [exact HP|]. apply C1. exact Hs.
Qed.

Lemma check_capacity_pres strat blen (P : bstate -> Prop) :
  closed_ctl P ->
  (forall s oid, P s -> P (fst (flush_one strat blen s oid true))) ->
  forall s, P s -> P (fst (check_capacity strat blen s)).
Proof.
  intros C HP s Hs. unfold check_capacity. destruct (b_cap s <? b_size s); [|exact Hs].
  apply flush_buffer_pres; try assumption. apply C. exact Hs.
Qed.

Lemma set_capacity_pres strat blen (P : bstate -> Prop) :
  closed_ctl P ->
  (forall s oid, P s -> P (fst (flush_one strat blen s oid true))) ->
  forall s n, P s -> P (fst (set_capacity strat blen s n)).
Proof.
  intros C HP s n Hs. unfold set_capacity.
  assert (H1 : P (upd_cap s n)) by (apply C; exact Hs).
  destruct (n <? b_size (upd_cap s n)); [|exact H1].
  apply flush_buffer_pres; try assumption. apply C. exact H1.
Qed.

Lemma acct_closed b strat blen : closed_ctl (acctb b strat blen).
Proof. split; [|split]; intros; (eapply acct_same; [| |eassumption]; reflexivity). Qed.

(* ------------------------------------------------------------------ *)
(* states that differ only in heap / allocation pointer *)
Definition heap_only (s s' : bstate) : Prop :=
  b_objs s' = b_objs s /\ b_buffer s' = b_buffer s /\ b_size s' = b_size s /\ b_ctx s' = b_ctx s /\
  b_stack s' = b_stack s /\ b_cap s' = b_cap s /\ b_bcs s' = b_bcs s /\ b_files s' = b_files s /\
  b_writes s' = b_writes s /\ b_clock s' = b_clock s.

Lemma set_data_heap_only s oid v : heap_only s (set_data s oid v).
Proof. repeat split. Qed.
Lemma update_root_heap_only s oid d : heap_only s (update_root s oid d).
Proof. destruct d; repeat split. Qed.

Lemma heap_only_frame s s' : heap_only s s' -> frame s s'.
Proof. intros (H1 & _ & _ & H4 & H5 & H6 & _). apply frame_objs_eq; assumption. Qed.
Lemma heap_only_acct b strat blen s s' : heap_only s s' -> acctb b strat blen s -> acctb b strat blen s'.
Proof. intros (_ & H2 & H3 & _). apply acct_same; assumption. Qed.
Lemma heap_only_get_obj s s' o : heap_only s s' -> get_obj s' o = get_obj s o.
Proof. intros (H1 & _). apply get_obj_eq. exact H1. Qed.
Lemma heap_only_read_disk s s' f : heap_only s s' -> read_disk s' f = read_disk s f.
Proof. intros (_ & _ & _ & _ & _ & _ & _ & H & _). unfold read_disk. rewrite H. reflexivity. Qed.
Lemma heap_only_stamp s s' f : heap_only s s' -> stamp s' f = stamp s f.
Proof. intros (_ & _ & _ & _ & _ & _ & _ & H & _). unfold stamp. rewrite H. reflexivity. Qed.

(* ------------------------------------------------------------------ *)
(* the pieces of bstep_fn *)
Definition stb_pre (strat : strategy) (blen : val -> Z) (s : bstate) (oid : nat) : bstate :=
  let s0 := register s oid in
  let o := get_obj s0 oid in
  let f := bo_file o in
  match strat, nlookup f (b_buffer s0) with
  | Ser, Some e =>
      let d := data_of s0 oid in
      upd_size (set_entry s0 f {| e_val := d; e_loc := e_loc e; e_hash := e_hash e; e_meta := e_meta e; e_mod := e_mod e |})
               (b_size s0 + blen d - blen (e_val e))
  | Ser, None =>
      let s' := init_entry strat blen s0 oid false in
      match nlookup f (b_buffer s') with
      | Some e => set_entry s' f {| e_val := e_val e; e_loc := e_loc e;
                                    e_hash := match read_disk s' f with Some d => d | None => VS SNull end;
                                    e_meta := e_meta e; e_mod := e_mod e |}
      | None => s'
      end
  | Shm, Some e =>
      let s' := if Nat.eqb (e_loc e) (bo_loc o) then s0
                else set_loc (upd_heap s0 (nset (e_loc e) (data_of s0 oid) (b_heap s0))) oid (e_loc e) in
      if e_mod e then s'
      else upd_size (set_entry s' f {| e_val := e_val e; e_loc := e_loc e; e_hash := e_hash e;
                                       e_meta := e_meta e; e_mod := true |}) (b_size s' + 1)
  | Shm, None => let s' := init_entry strat blen s0 oid true in upd_size s' (b_size s' + 1)
  end.

Lemma save_to_buffer_eq strat blen s oid :
  save_to_buffer strat blen s oid = check_capacity strat blen (stb_pre strat blen s oid).
Proof. destruct strat; reflexivity. Qed.

Definition load2 (strat : strategy) (blen : val -> Z) (o : nop) (oid : nat) (s0 : bstate) : bstate * option exn :=
  match o with
  | OL (LEq _) | OD (DEq _) =>
      match load strat blen s0 oid with
      | (s1, Some x) => (s1, Some x)
      | (s1, None) => load strat blen s1 oid
      end
  | _ => load strat blen s0 oid
  end.

Lemma load2_cases strat blen o oid s :
  load2 strat blen o oid s = load strat blen s oid
  \/ (exists x, snd (load strat blen s oid) = Some x /\ load2 strat blen o oid s = load strat blen s oid)
  \/ (snd (load strat blen s oid) = None /\
      load2 strat blen o oid s = load strat blen (fst (load strat blen s oid)) oid).
Proof.
  assert (D : match load strat blen s oid with (s1, Some x) => (s1, Some x) | (s1, None) => load strat blen s1 oid end
              = load strat blen s oid
           \/ (snd (load strat blen s oid) = None /\
               match load strat blen s oid with (s1, Some x) => (s1, Some x) | (s1, None) => load strat blen s1 oid end
               = load strat blen (fst (load strat blen s oid)) oid)).
  { destruct (load strat blen s oid) as [s1 [x|]]; [left; reflexivity|right; split; reflexivity]. }
  destruct o as [lo|d]; [destruct lo|destruct d]; simpl; try (left; reflexivity);
    (destruct D as [D|D]; [left; exact D|right; right; exact D]).
Qed.

Lemma load2_pres strat blen (P : bstate -> Prop) o oid :
  (forall s, P s -> P (fst (load strat blen s oid))) ->
  forall s, P s -> P (fst (load2 strat blen o oid s)).
Proof.
  intros HP s Hs. destruct (load2_cases strat blen o oid s) as [E|[(x & _ & E)|(_ & E)]]; rewrite E.
  - apply HP; exact Hs.
  - apply HP; exact Hs.
  - apply HP. apply HP. exact Hs.
Qed.

Definition bop_fst (strat : strategy) (blen : val -> Z) (s : bstate) (oid : nat) (p : path) (o : nop) : bstate :=
  match pre_err o with
  | Some _ => s
  | None =>
      if (match p with [] => true | _ => false end) && nop_no_load o then
        match apply_at p o (data_of s oid) with
        | None => s
        | Some (Err _, _) => s
        | Some (Ok _, d') => fst (save strat blen (set_data s oid d') oid)
        end
      else
        let s1 := fst (load2 strat blen o oid s) in
        match snd (load2 strat blen o oid s) with
        | Some _ => s1
        | None =>
            match apply_at p o (data_of s1 oid) with
            | None => s1
            | Some (_, d') => if nop_is_read o then s1 else fst (save strat blen (set_data s1 oid d') oid)
            end
        end
  end.

Definition orig_of (st : list (option Z)) : option Z := match st with o :: _ => o | [] => None end.

Definition exit_s2 (strat : strategy) (blen : val -> Z) (s : bstate) : bstate :=
  let s1 := upd_ctx s (Nat.pred (b_ctx s)) in
  if Nat.eqb (b_ctx s1) 0 then fst (flush_buffer strat blen s1 false) else s1.

Definition step_fst (strat : strategy) (blen : val -> Z) (s : bstate) (op : bop) : bstate :=
  match op with
  | BNew oid f k =>
      let loc := b_nloc s in
      {| b_files := b_files s; b_clock := b_clock s; b_writes := b_writes s;
         b_heap := nset loc (empty_of k) (b_heap s); b_nloc := S loc;
         b_objs := nset oid {| bo_file := f; bo_loc := loc; bo_buf := 0; bo_kind := k |} (b_objs s);
         b_buffer := b_buffer s; b_size := b_size s; b_cap := b_cap s; b_stack := b_stack s;
         b_ctx := b_ctx s; b_bcs := b_bcs s; b_forced := b_forced s |}
  | BExt f v => write_disk_raw s f v
  | BOp oid p o => bop_fst strat blen s oid p o
  | BEnterObj oid => set_buf s oid (S (bo_buf (get_obj s oid)))
  | BExitObj oid =>
      let n := Nat.pred (bo_buf (get_obj s oid)) in
      let s1 := set_buf s oid n in
      if Nat.eqb n 0 then fst (flush_one strat blen s1 oid false) else s1
  | BEnterCls cap =>
      let s1 := upd_ctx s (S (b_ctx s)) in
      match cap with
      | None => upd_stack s1 (None :: b_stack s1)
      | Some c => fst (set_capacity strat blen (upd_stack s1 (Some (b_cap s1) :: b_stack s1)) c)
      end
  | BExitCls =>
      let s2 := exit_s2 strat blen s in
      let s3 := upd_stack s2 (tl (b_stack s2)) in
      match orig_of (b_stack s2) with
      | Some c => fst (set_capacity strat blen s3 c)
      | None => s3
      end
  | BSetCap n => fst (set_capacity strat blen s n)
  end.

Lemma bstep_fst strat blen s op : fst (bstep_fn strat blen s op) = step_fst strat blen s op.
Proof.
  destruct op as [oid f k|f v|oid p o|oid|oid|cap| |n]; cbn [bstep_fn step_fst].
  - reflexivity.
  - reflexivity.
  - unfold bop_fst. fold (load2 strat blen o oid s).
    destruct (pre_err o); [reflexivity|].
    destruct ((match p with [] => true | _ => false end) && nop_no_load o).
    + destruct (apply_at p o (data_of s oid)) as [[[v|e] d']|]; try reflexivity.
      destruct (save strat blen (set_data s oid d') oid) as [s2 [x|]]; reflexivity.
    + destruct (load2 strat blen o oid s) as [s1 [x|]]; cbn [fst snd]; [reflexivity|].
      destruct (apply_at p o (data_of s1 oid)) as [[r d']|]; [|reflexivity].
      destruct (nop_is_read o); [reflexivity|].
      destruct (save strat blen (set_data s1 oid d') oid) as [s2 [x|]]; reflexivity.
  - reflexivity.
  - cbv zeta. destruct (Nat.eqb (Nat.pred (bo_buf (get_obj s oid))) 0); [|reflexivity].
    destruct (flush_one strat blen _ oid false) as [s2 [x|]]; reflexivity.
  - cbv zeta. destruct cap as [c|]; [|reflexivity].
    destruct (set_capacity strat blen _ c) as [s3 [x|]]; reflexivity.
  - unfold exit_s2. cbv zeta.
    destruct (Nat.eqb (b_ctx (upd_ctx s (Nat.pred (b_ctx s)))) 0).
    + destruct (flush_buffer strat blen (upd_ctx s (Nat.pred (b_ctx s))) false) as [s2 x1]. cbn [fst].
      destruct (b_stack s2) as [|[c|] st]; cbn [orig_of tl].
      * destruct x1; reflexivity.
      * destruct (set_capacity strat blen _ c) as [s4 [x|]]; destruct x1; reflexivity.
      * destruct x1; reflexivity.
    + destruct (b_stack (upd_ctx s (Nat.pred (b_ctx s)))) as [|[c|] st]; cbn [orig_of tl].
      * reflexivity.
      * destruct (set_capacity strat blen _ c) as [s4 [x|]]; reflexivity.
      * reflexivity.
  - destruct (set_capacity strat blen s n) as [s1 [x|]]; reflexivity.
Qed.

(* ------------------------------------------------------------------ *)
(* acct through load / save / step *)
Lemma init_entry_acct b strat blen s oid m :
  acctb b strat blen s -> nlookup (bo_file (get_obj s oid)) (b_buffer s) = None ->
  acctb b strat blen
    (match strat with
     | Ser => init_entry strat blen s oid m
     | Shm => if m then upd_size (init_entry strat blen s oid m) (b_size (init_entry strat blen s oid m) + 1)
              else init_entry strat blen s oid m
     end).
Proof.
  intros HA Hl. unfold init_entry. destruct strat; [|destruct m]; bsimpl;
    (eapply acct_set; [exact HA|reflexivity|]; bsimpl; rewrite Hl; cbn [ew wof e_val e_mod]; lia).
Qed.

Lemma init_entry_buffer strat blen s oid m :
  exists e, b_buffer (init_entry strat blen s oid m) = nset (bo_file (get_obj s oid)) e (b_buffer s)
            /\ e_mod e = m /\ e_val e = data_of s oid /\ e_hash e = data_of s oid.
Proof. unfold init_entry. destruct strat; bsimpl; eexists; (split; [reflexivity|]); repeat split. Qed.

Lemma init_entry_fields strat blen s oid m :
  let s' := init_entry strat blen s oid m in
  b_objs s' = b_objs s /\ b_ctx s' = b_ctx s /\ b_stack s' = b_stack s /\ b_cap s' = b_cap s /\ b_bcs s' = b_bcs s
  /\ b_files s' = b_files s /\ b_writes s' = b_writes s /\ b_heap s' = b_heap s.
Proof. unfold init_entry. destruct strat; repeat split. Qed.

Lemma lfbb_acct b strat blen s oid :
  acctb b strat blen s -> acctb b strat blen (load_from_buffer_base strat blen s oid).
Proof.
  intros HA. unfold load_from_buffer_base.
  destruct (nlookup (bo_file (get_obj s oid)) (b_buffer s)) eqn:Hl.
  - eapply acct_same; [| |exact HA]; apply register_fields.
  - set (s' := update_root s oid (read_disk s (bo_file (get_obj s oid)))).
    assert (HO : heap_only s s') by apply update_root_heap_only.
    assert (HA' : acctb b strat blen s') by (eapply heap_only_acct; eassumption).
    assert (Hl' : nlookup (bo_file (get_obj s' oid)) (b_buffer s') = None).
    { rewrite (heap_only_get_obj s s' oid HO). destruct HO as (_ & -> & _). exact Hl. }
    pose proof (init_entry_acct b strat blen s' oid false HA' Hl') as H.
    eapply acct_same; [| |]; [apply register_fields|apply register_fields|].
    destruct strat; exact H.
Qed.

Lemma check_capacity_acct b strat blen s :
  acctb b strat blen s -> acctb b strat blen (fst (check_capacity strat blen s)).
Proof. apply check_capacity_pres; [apply acct_closed|]. intros; apply flush_one_acct; assumption. Qed.

Lemma set_capacity_acct b strat blen s n :
  acctb b strat blen s -> acctb b strat blen (fst (set_capacity strat blen s n)).
Proof. apply set_capacity_pres; [apply acct_closed|]. intros; apply flush_one_acct; assumption. Qed.

Lemma flush_buffer_acct b strat blen s force :
  acctb b strat blen s -> acctb b strat blen (fst (flush_buffer strat blen s force)).
Proof. apply flush_buffer_pres; [apply acct_closed|]. intros; apply flush_one_acct; assumption. Qed.

Lemma load_acct b strat blen s oid :
  acctb b strat blen s -> acctb b strat blen (fst (load strat blen s oid)).
Proof.
  intros HA. unfold load. destruct (is_buffered s oid).
  - pose proof (lfbb_acct b strat blen s oid HA) as H1.
    destruct strat.
    + pose proof (check_capacity_acct b Ser blen _ H1) as H2.
      destruct (check_capacity Ser blen (load_from_buffer_base Ser blen s oid)) as [s2 [x|]]; cbn [fst] in *.
      * exact H2.
      * eapply heap_only_acct; [apply update_root_heap_only|exact H2].
    + destruct (nlookup _ _); cbn [fst]; [|exact H1].
      eapply acct_same; [| |exact H1]; reflexivity.
  - cbn [fst]. eapply heap_only_acct; [apply update_root_heap_only|exact HA].
Qed.

Lemma stb_pre_acct b strat blen s oid :
  acctb b strat blen s -> acctb b strat blen (stb_pre strat blen s oid).
Proof.
  intros HA.
  assert (HA0 : acctb b strat blen (register s oid)) by (eapply acct_same; [| |exact HA]; apply register_fields).
  unfold stb_pre. set (s0 := register s oid) in *. set (f := bo_file (get_obj s0 oid)).
  destruct strat; destruct (nlookup f (b_buffer s0)) as [e|] eqn:Hl.
  - eapply acct_set; [exact HA0|reflexivity|]. bsimpl. rewrite Hl. cbn [ew wof e_val]. lia.
  - pose proof (init_entry_acct b Ser blen s0 oid false HA0 Hl) as H1. cbv beta iota in H1.
    destruct (init_entry_buffer Ser blen s0 oid false) as (e0 & Hb & _).
    fold f in Hb. rewrite Hb, nlookup_nset_same.
    eapply acct_set; [exact H1|reflexivity|]. bsimpl. rewrite Hb, nlookup_nset_same. cbn [ew wof e_val]. lia.
  - set (s' := if Nat.eqb (e_loc e) (bo_loc (get_obj s0 oid)) then s0 else _).
    assert (Hs' : b_buffer s' = b_buffer s0 /\ b_size s' = b_size s0).
    { subst s'. destruct (Nat.eqb _ _); split; reflexivity. }
    destruct Hs' as [Hb Hz].
    assert (HA' : acctb b Shm blen s') by (eapply acct_same; eassumption).
    destruct (e_mod e) eqn:Hm; [exact HA'|].
    eapply acct_set; [exact HA'|reflexivity|]. bsimpl. rewrite Hb, Hl. cbn [ew wof e_mod]. rewrite Hm. lia.
  - exact (init_entry_acct b Shm blen s0 oid true HA0 Hl).
Qed.

Lemma save_acct b strat blen s oid :
  acctb b strat blen s -> acctb b strat blen (fst (save strat blen s oid)).
Proof.
  intros HA. unfold save. destruct (is_buffered s oid).
  - rewrite save_to_buffer_eq. apply check_capacity_acct. apply stb_pre_acct. exact HA.
  - cbn [fst]. eapply acct_same; [| |exact HA]; reflexivity.
Qed.

Lemma bop_fst_pres strat blen (P : bstate -> Prop) oid :
  (forall s v, P s -> P (set_data s oid v)) ->
  (forall s, P s -> P (fst (load strat blen s oid))) ->
  (forall s, P s -> P (fst (save strat blen s oid))) ->
  forall s p o, P s -> P (bop_fst strat blen s oid p o).
Proof.
  intros H1 H2 H3 s p o Hs. unfold bop_fst.
  destruct (pre_err o); [exact Hs|].
  destruct (_ && _).
  - destruct (apply_at p o (data_of s oid)) as [[[v|e] d']|]; try exact Hs.
    apply H3. apply H1. exact Hs.
  - pose proof (load2_pres strat blen P o oid H2 s Hs) as HL.
    cbv zeta. destruct (snd (load2 strat blen o oid s)); [exact HL|].
    destruct (apply_at p o _) as [[r d']|]; [|exact HL].
    destruct (nop_is_read o); [exact HL|]. apply H3. apply H1. exact HL.
Qed.

Theorem step_acct_aux b strat blen s op :
  acctb b strat blen s -> acctb b strat blen (step_fst strat blen s op).
Proof.
  intros HA. destruct op as [oid f k|f v|oid p o|oid|oid|cap| |n]; cbn [step_fst].
  - eapply acct_same; [| |exact HA]; reflexivity.
  - eapply acct_same; [| |exact HA]; reflexivity.
  - apply bop_fst_pres; try assumption.
    + intros s0 v H. eapply acct_same; [| |exact H]; reflexivity.
    + intros s0. apply load_acct.
    + intros s0. apply save_acct.
  - eapply acct_same; [| |exact HA]; reflexivity.
  - cbv zeta. destruct (Nat.eqb _ 0).
    + apply flush_one_acct. eapply acct_same; [| |exact HA]; reflexivity.
    + eapply acct_same; [| |exact HA]; reflexivity.
  - cbv zeta. destruct cap as [c|].
    + apply set_capacity_acct. eapply acct_same; [| |exact HA]; reflexivity.
    + eapply acct_same; [| |exact HA]; reflexivity.
  - assert (H2 : acctb b strat blen (exit_s2 strat blen s)).
    { unfold exit_s2. cbv zeta. destruct (Nat.eqb _ 0).
      - apply flush_buffer_acct. eapply acct_same; [| |exact HA]; reflexivity.
      - eapply acct_same; [| |exact HA]; reflexivity. }
    cbv zeta. destruct (orig_of _).
    + apply set_capacity_acct. eapply acct_same; [| |exact H2]; reflexivity.
    + eapply acct_same; [| |exact H2]; reflexivity.
  - apply set_capacity_acct. exact HA.
Qed.

(* ################################################################## *)
(* Part 2 *)
Definition nodup (s : bstate) : Prop := NoDup (map fst (b_buffer s)).
Lemma nodup_of_acctb strat blen s : acctb false strat blen s -> nodup s.
Proof. intros [_ H]. exact H. Qed.
Lemma acctb_of_nodup strat blen s : nodup s -> acctb false strat blen s.
Proof. intros H. split; [discriminate|exact H]. Qed.

(* every buffered file has a registered holder (buffered or not) *)
Definition reg_weak (s : bstate) : Prop :=
  forall f e, nlookup f (b_buffer s) = Some e -> exists oid, In oid (b_bcs s) /\ bo_file (get_obj s oid) = f.

Lemma reg_inv_weak s : reg_inv s -> reg_weak s.
Proof. intros H f e Hl. destruct (H f e Hl) as (o & H1 & H2 & _). exists o. split; assumption. Qed.

(* an entry is settled when it weighs nothing in the accounting *)
Definition settled (strat : strategy) (s : bstate) (f : nat) : Prop :=
  forall e, nlookup f (b_buffer s) = Some e -> strat = Shm /\ e_mod e = false.

(* ------------------------------------------------------------------ *)
(* flush_one and the buffer *)
Lemma fo_nodup strat blen s oid force : nodup s -> nodup (fst (flush_one strat blen s oid force)).
Proof.
  intros H. apply (nodup_of_acctb strat blen). apply flush_one_acct. apply acctb_of_nodup. exact H.
Qed.

Lemma fo_none_pres strat blen s oid force f' :
  nlookup f' (b_buffer s) = None -> nlookup f' (b_buffer (fst (flush_one strat blen s oid force))) = None.
Proof.
  intros H. fo_cases strat s oid force; bsimpl; try exact H; try (apply nlookup_nremove_none; exact H);
    (rewrite nlookup_nset; destruct (Nat.eqb f' _) eqn:E; [apply Nat.eqb_eq in E; subst f'; congruence|exact H]).
Qed.

Lemma fo_deleted strat blen s oid force :
  nodup s -> (negb (is_buffered s oid) || force) = true -> (strat = Ser \/ force = false) ->
  nlookup (bo_file (get_obj s oid)) (b_buffer (fst (flush_one strat blen s oid force))) = None.
Proof.
  unfold nodup. intros ND Hc Hor.
  fo_cases strat s oid force; bsimpl; try discriminate; try exact Hlk;
    try (apply nlookup_nremove_eq; exact ND);
    destruct Hor; discriminate.
Qed.

Lemma fo_settled strat blen s oid force :
  nodup s -> force = true ->
  settled strat (fst (flush_one strat blen s oid force)) (bo_file (get_obj s oid)).
Proof.
  unfold nodup, settled. intros ND Hf e0.
  fo_cases strat s oid force; bsimpl; try discriminate;
    try (rewrite Hlk; discriminate);
    try (rewrite nlookup_nremove_eq by exact ND; discriminate);
    try (rewrite nlookup_nset_same; intros H; inversion H; subst; split; reflexivity).
  all: rewrite Hf in Hcond; rewrite orb_true_r in Hcond; discriminate.
Qed.

Lemma fo_settled_pres strat blen s oid force f' :
  nodup s -> settled strat s f' -> settled strat (fst (flush_one strat blen s oid force)) f'.
Proof.
  unfold nodup, settled. intros ND H e0.
  fo_cases strat s oid force; bsimpl; try apply H;
    try (intros H1; apply (nlookup_nremove_some _ _ _ _ ND) in H1; destruct H1 as [_ H1]; apply H; exact H1);
    (rewrite nlookup_nset; destruct (Nat.eqb f' _); [intros H1; inversion H1; subst; split; reflexivity|apply H]).
Qed.

(* ------------------------------------------------------------------ *)
(* flush_loop *)
Definition rem_of (strat : strategy) (s : bstate) (force : bool) (todo : list nat) : list nat :=
  if force then match strat with Ser => [] | Shm => todo end else filter (is_buffered s) todo.

Lemma filter_ext' {A} (f g : A -> bool) l : (forall x, f x = g x) -> filter f l = filter g l.
Proof. intros H. induction l as [|x l IH]; simpl; [reflexivity|]. rewrite H, IH. reflexivity. Qed.

Lemma flush_loop_rem strat blen force todo :
  forall s rem iss,
  snd (fst (flush_loop strat blen todo s force rem iss)) = rem ++ rem_of strat s force todo.
Proof.
  induction todo as [|oid todo IH]; intros s rem iss; simpl.
  - unfold rem_of. destruct force; [destruct strat|]; simpl; rewrite app_nil_r; reflexivity.
  - destruct force.
    + rewrite andb_false_r.
      destruct (flush_one strat blen s oid true) as [s1 [[f|fs]|]]; rewrite IH; unfold rem_of;
        destruct strat; simpl; rewrite <- ?app_assoc; reflexivity.
    + rewrite andb_true_r. unfold rem_of. simpl. destruct (is_buffered s oid) eqn:Eb.
      * rewrite IH. unfold rem_of. rewrite <- app_assoc. reflexivity.
      * pose proof (flush_one_is_buffered strat blen s oid false) as Hb.
        destruct (flush_one strat blen s oid false) as [s1 [[f|fs]|]]; cbn [fst] in Hb;
          rewrite IH; unfold rem_of; rewrite (filter_ext' _ _ todo Hb);
          destruct strat; reflexivity.
Qed.

Lemma flush_loop_each strat blen force (P : bstate -> Prop) (D : nat -> bstate -> Prop) :
  (forall s oid, P s -> P (fst (flush_one strat blen s oid force))) ->
  (forall s oid, P s -> is_buffered s oid && negb force = false -> D oid (fst (flush_one strat blen s oid force))) ->
  (forall s oid o', P s -> D o' s -> D o' (fst (flush_one strat blen s oid force))) ->
  forall todo s rem iss, P s ->
  forall o', D o' s \/ (In o' todo /\ is_buffered s o' && negb force = false) ->
  D o' (fst (fst (flush_loop strat blen todo s force rem iss))).
Proof.
  intros HP HA HD. induction todo as [|oid todo IH]; intros s rem iss Hs o' H; simpl.
  - destruct H as [H|[[] _]]. exact H.
  - destruct (is_buffered s oid && negb force) eqn:Esk.
    + apply IH; [exact Hs|]. destruct H as [H|[[->|Hin] Hb]].
      * left; exact H.
      * congruence.
      * right. split; assumption.
    + pose proof (HP s oid Hs) as Hs1. pose proof (HA s oid Hs Esk) as Ha.
      pose proof (flush_one_is_buffered strat blen s oid force) as Hb.
      assert (Hn : D o' (fst (flush_one strat blen s oid force)) \/
                   (In o' todo /\ is_buffered (fst (flush_one strat blen s oid force)) o' && negb force = false)).
      { destruct H as [H|[[->|Hin] Hb']].
        - left. apply HD; assumption.
        - left. exact Ha.
        - right. split; [exact Hin|]. rewrite Hb. exact Hb'. }
      destruct (flush_one strat blen s oid force) as [s1 [[f|fs]|]]; cbn [fst] in *; apply IH; assumption.
Qed.

(* ------------------------------------------------------------------ *)
(* flush_buffer *)
Section FlushBuffer.
  Variable strat : strategy.
  Variable blen : val -> Z.
  Variable s : bstate.
  Variable force : bool.

  Let L := flush_loop strat blen (rev (b_bcs s)) (upd_bcs s []) force [] [].
  Let sf := fst (fst L).

  Lemma fb_state : fst (flush_buffer strat blen s force) = upd_bcs sf (rem_of strat s force (rev (b_bcs s))).
  Proof.
    rewrite flush_buffer_fst. fold L. fold sf. f_equal.
    unfold L. rewrite flush_loop_rem. reflexivity.
  Qed.

  Lemma fb_frame : frame s sf.
  Proof.
    unfold sf, L. apply (flush_loop_pres strat blen (frame s)).
    - intros s0 oid H. eapply frame_trans; [exact H|]. apply flush_one_frame.
    - apply frame_objs_eq; reflexivity.
  Qed.

  Lemma fb_none f : nlookup f (b_buffer s) = None -> nlookup f (b_buffer sf) = None.
  Proof.
    intros H. unfold sf, L. apply (flush_loop_pres strat blen (fun s0 => nlookup f (b_buffer s0) = None)).
    - intros s0 oid H0. apply fo_none_pres. exact H0.
    - exact H.
  Qed.

  Lemma fb_some f e : nlookup f (b_buffer sf) = Some e -> exists e0, nlookup f (b_buffer s) = Some e0.
  Proof.
    intros H. destruct (nlookup f (b_buffer s)) as [e0|] eqn:E; [exists e0; reflexivity|].
    apply fb_none in E. congruence.
  Qed.

  Lemma fb_nodup : nodup s -> nodup sf.
  Proof.
    intros H. unfold sf, L. apply (flush_loop_pres strat blen nodup).
    - intros s0 oid H0. apply fo_nodup. exact H0.
    - exact H.
  Qed.

  Lemma fb_deleted o :
    nodup s -> In o (b_bcs s) -> is_buffered s o && negb force = false -> (strat = Ser \/ force = false) ->
    nlookup (bo_file (get_obj s o)) (b_buffer sf) = None.
  Proof.
    intros ND Hin Hb Hor.
    rewrite <- (frame_file s sf o fb_frame).
    unfold sf, L.
    apply (flush_loop_each strat blen force nodup
             (fun o s0 => nlookup (bo_file (get_obj s0 o)) (b_buffer s0) = None)).
    - intros s0 oid H0. apply fo_nodup. exact H0.
    - intros s0 oid H0 Hs. rewrite flush_one_file. apply fo_deleted; [exact H0| |exact Hor].
      destruct (is_buffered s0 oid); destruct force; simpl in *; congruence.
    - intros s0 oid o' H0 Hd. rewrite flush_one_file. apply fo_none_pres. exact Hd.
    - exact ND.
    - right. split; [apply in_rev in Hin; exact Hin|exact Hb].
  Qed.

  Lemma fb_settled o :
    nodup s -> In o (b_bcs s) -> force = true -> settled strat sf (bo_file (get_obj s o)).
  Proof.
    intros ND Hin Hf.
    rewrite <- (frame_file s sf o fb_frame).
    unfold sf, L.
    apply (flush_loop_each strat blen force nodup
             (fun o s0 => settled strat s0 (bo_file (get_obj s0 o)))).
    - intros s0 oid H0. apply fo_nodup. exact H0.
    - intros s0 oid H0 Hs. rewrite flush_one_file. apply fo_settled; assumption.
    - intros s0 oid o' H0 Hd. rewrite flush_one_file. apply fo_settled_pres; assumption.
    - exact ND.
    - right. split; [apply in_rev in Hin; exact Hin|]. rewrite Hf. apply andb_false_r.
  Qed.
End FlushBuffer.

Lemma flush_buffer_frame strat blen s force : frame s (fst (flush_buffer strat blen s force)).
Proof.
  rewrite fb_state. eapply frame_trans; [apply fb_frame|]. apply frame_objs_eq; reflexivity.
Qed.

Lemma flush_buffer_nodup strat blen s force : nodup s -> nodup (fst (flush_buffer strat blen s force)).
Proof. intros H. rewrite fb_state. apply (fb_nodup strat blen s force H). Qed.

(* a non-forced backend-wide flush re-establishes reg_inv from the weak form *)
Lemma flush_buffer_reg_false strat blen s :
  nodup s -> reg_weak s -> reg_inv (fst (flush_buffer strat blen s false)).
Proof.
  intros ND HW f e Hl. rewrite fb_state in *. bsimpl in Hl.
  set (sf := fst (fst (flush_loop strat blen (rev (b_bcs s)) (upd_bcs s []) false [] []))) in *.
  pose proof (fb_frame strat blen s false) as HF. fold sf in HF.
  destruct (fb_some strat blen s false f e Hl) as (e0 & Hl0).
  destruct (HW f e0 Hl0) as (o & Hin & Hfile).
  destruct (is_buffered s o) eqn:Eb.
  - exists o. split; [|split].
    + change (In o (rem_of strat s false (rev (b_bcs s)))).
      unfold rem_of. apply filter_In. split; [apply in_rev in Hin; exact Hin|exact Eb].
    + change (bo_file (get_obj sf o) = f). rewrite (frame_file s sf o HF). exact Hfile.
    + change (is_buffered sf o = true). rewrite (frame_is_buffered s sf o HF). exact Eb.
  - exfalso.
    assert (Hd : nlookup (bo_file (get_obj s o)) (b_buffer sf) = None).
    { apply (fb_deleted strat blen s false o ND Hin); [rewrite Eb; reflexivity|right; reflexivity]. }
    rewrite Hfile in Hd. congruence.
Qed.

(* a forced flush settles every entry *)
Lemma flush_buffer_forced_settled strat blen s f :
  nodup s -> reg_weak s -> settled strat (fst (flush_buffer strat blen s true)) f.
Proof.
  intros ND HW e Hl. rewrite fb_state in Hl. bsimpl in Hl.
  destruct (fb_some strat blen s true f e Hl) as (e0 & Hl0).
  destruct (HW f e0 Hl0) as (o & Hin & Hfile).
  pose proof (fb_settled strat blen s true o ND Hin eq_refl) as H. rewrite Hfile in H. apply H. exact Hl.
Qed.

Lemma flush_buffer_forced_size strat blen s :
  acct strat blen s -> reg_weak s -> b_size (fst (flush_buffer strat blen s true)) = 0.
Proof.
  intros HA HW.
  pose proof (flush_buffer_acct true strat blen s true (proj2 (acctb_true strat blen s) HA)) as [H1 H2].
  rewrite (H1 eq_refl). apply wsum_zero. intros k a Hin.
  apply In_nlookup in Hin; [|exact H2].
  destruct (flush_buffer_forced_settled strat blen s k (acct_nodup _ _ _ HA) HW a Hin) as [-> Hm].
  cbn [ew]. rewrite Hm. reflexivity.
Qed.

Lemma flush_buffer_reg_true strat blen s :
  nodup s -> reg_inv s -> reg_inv (fst (flush_buffer strat blen s true)).
Proof.
  intros ND HR f e Hl.
  destruct (flush_buffer_forced_settled strat blen s f ND (reg_inv_weak s HR) e Hl) as [-> _].
  rewrite fb_state in *. bsimpl in Hl.
  set (sf := fst (fst (flush_loop Shm blen (rev (b_bcs s)) (upd_bcs s []) true [] []))) in *.
  pose proof (fb_frame Shm blen s true) as HF. fold sf in HF.
  destruct (fb_some Shm blen s true f e Hl) as (e0 & Hl0).
  destruct (HR f e0 Hl0) as (o & Hin & Hfile & Hb).
  exists o. split; [|split].
  - change (In o (rem_of Shm s true (rev (b_bcs s)))). unfold rem_of. apply in_rev in Hin. exact Hin.
  - change (bo_file (get_obj sf o) = f). rewrite (frame_file s sf o HF). exact Hfile.
  - change (is_buffered sf o = true). rewrite (frame_is_buffered s sf o HF). exact Hb.
Qed.

(* ------------------------------------------------------------------ *)
(* the combined invariant and its transfer *)
Definition regI (s : bstate) : Prop := nodup s /\ reg_inv s.

Lemma reg_inv_gen s s' :
  (forall f' e', nlookup f' (b_buffer s') = Some e' ->
     (exists e'', nlookup f' (b_buffer s) = Some e'')
     \/ (exists oid, In oid (b_bcs s') /\ bo_file (get_obj s' oid) = f' /\ is_buffered s' oid = true)) ->
  (forall o, In o (b_bcs s) -> is_buffered s o = true ->
     In o (b_bcs s') /\ bo_file (get_obj s' o) = bo_file (get_obj s o) /\ is_buffered s' o = true) ->
  reg_inv s -> reg_inv s'.
Proof.
  intros H1 H2 HR f e Hl. destruct (H1 f e Hl) as [(e0 & Hl0)|H]; [|exact H].
  destruct (HR f e0 Hl0) as (o & Hin & Hfile & Hb).
  destruct (H2 o Hin Hb) as (A & B & C). exists o. split; [exact A|]. split; [congruence|exact C].
Qed.

Lemma reg_inv_same s s' :
  frame s s' -> b_buffer s' = b_buffer s -> (forall o, In o (b_bcs s) -> In o (b_bcs s')) ->
  reg_inv s -> reg_inv s'.
Proof.
  intros HF Hb Hin. apply reg_inv_gen.
  - intros f' e' Hl. left. exists e'. rewrite <- Hb. exact Hl.
  - intros o Ho Hbuf. split; [apply Hin; exact Ho|]. split; [apply frame_file; exact HF|].
    rewrite (frame_is_buffered s s' o HF). exact Hbuf.
Qed.

Lemma regI_same s s' :
  frame s s' -> b_buffer s' = b_buffer s -> (forall o, In o (b_bcs s) -> In o (b_bcs s')) ->
  regI s -> regI s'.
Proof.
  intros HF Hb Hin [H1 H2]. split; [unfold nodup; rewrite Hb; exact H1|]. eapply reg_inv_same; eassumption.
Qed.

Lemma regI_conv s s' :
  b_buffer s' = b_buffer s -> b_bcs s' = b_bcs s -> b_objs s' = b_objs s -> b_ctx s' = b_ctx s ->
  regI s -> regI s'.
Proof.
  intros Hb Hbcs Ho Hc [ND HR]. split; [unfold nodup; rewrite Hb; exact ND|].
  apply (reg_inv_gen s); [| |exact HR].
  - intros f' e' Hl. left. exists e'. rewrite <- Hb. exact Hl.
  - intros o Hin Hbuf. rewrite Hbcs. split; [exact Hin|]. rewrite (get_obj_eq s s' o Ho). split; [reflexivity|].
    unfold is_buffered in *. rewrite (get_obj_eq s s' o Ho), Hc. exact Hbuf.
Qed.

Lemma heap_only_regI s s' : heap_only s s' -> regI s -> regI s'.
Proof.
  intros HO. pose proof (heap_only_frame s s' HO) as HF. destruct HO as (_ & Hb & _ & _ & _ & _ & Hbcs & _).
  apply regI_same; try assumption. intros o. rewrite Hbcs. auto.
Qed.

Lemma check_capacity_regI strat blen s : regI s -> regI (fst (check_capacity strat blen s)).
Proof.
  intros HI. unfold check_capacity. destruct (b_cap s <? b_size s); [|exact HI].
  assert (HI' : regI (note_forced s)).
  { eapply regI_same; [| | |exact HI]; [apply frame_objs_eq; reflexivity|reflexivity|auto]. }
  destruct HI' as [A B]. split; [apply flush_buffer_nodup; exact A|apply flush_buffer_reg_true; assumption].
Qed.

Lemma set_capacity_regI strat blen s n : regI s -> regI (fst (set_capacity strat blen s n)).
Proof.
  intros [A B]. unfold set_capacity.
  assert (HI1 : nodup (upd_cap s n) /\ reg_inv (upd_cap s n)) by (split; [exact A|exact B]).
  destruct (n <? b_size (upd_cap s n)); [|exact HI1].
  destruct HI1 as [A1 B1].
  split; [apply flush_buffer_nodup; exact A1|apply flush_buffer_reg_true; assumption].
Qed.

(* adding / replacing the entry of a buffered, registered holder *)
Lemma reg_inv_grow s s' oid :
  frame s s' -> (forall o, In o (b_bcs s) -> In o (b_bcs s')) -> In oid (b_bcs s') ->
  is_buffered s oid = true ->
  (forall f' e', nlookup f' (b_buffer s') = Some e' ->
     f' = bo_file (get_obj s oid) \/ exists e'', nlookup f' (b_buffer s) = Some e'') ->
  reg_inv s -> reg_inv s'.
Proof.
  intros HF Hin Ho Hb Hk. apply reg_inv_gen.
  - intros f' e' Hl. destruct (Hk f' e' Hl) as [->|H]; [right|left; exact H].
    exists oid. split; [exact Ho|]. split; [apply frame_file; exact HF|].
    rewrite (frame_is_buffered s s' oid HF). exact Hb.
  - intros o Hino Hbuf. split; [apply Hin; exact Hino|]. split; [apply frame_file; exact HF|].
    rewrite (frame_is_buffered s s' o HF). exact Hbuf.
Qed.

Lemma nlookup_nset_keys {A} f (e : A) l f' e' :
  nlookup f' (nset f e l) = Some e' -> f' = f \/ exists e'', nlookup f' l = Some e''.
Proof.
  rewrite nlookup_nset. destruct (Nat.eqb f' f) eqn:E.
  - apply Nat.eqb_eq in E. left; exact E.
  - intros H. right. exists e'. exact H.
Qed.

Lemma lfbb_regI strat blen s oid :
  is_buffered s oid = true -> regI s -> regI (load_from_buffer_base strat blen s oid).
Proof.
  intros Hb [ND HR]. split.
  { apply (nodup_of_acctb strat blen). apply lfbb_acct. apply acctb_of_nodup. exact ND. }
  unfold load_from_buffer_base.
  destruct (nlookup (bo_file (get_obj s oid)) (b_buffer s)) eqn:Hl.
  - eapply reg_inv_same; [apply frame_register|apply register_fields| |exact HR].
    intros o Ho. apply register_bcs. right; exact Ho.
  - set (s1 := update_root s oid (read_disk s (bo_file (get_obj s oid)))).
    assert (HO : heap_only s s1) by apply update_root_heap_only.
    set (s2 := init_entry strat blen s1 oid false).
    destruct (init_entry_fields strat blen s1 oid false) as (F1 & F2 & F3 & F4 & F5 & _). fold s2 in F1, F2, F3, F4, F5.
    assert (HF : frame s (register s2 oid)).
    { eapply frame_trans; [apply heap_only_frame; exact HO|].
      eapply frame_trans; [apply frame_objs_eq; eassumption|apply frame_register]. }
    apply (reg_inv_grow s (register s2 oid) oid HF).
    + intros o Ho. apply register_bcs. right. rewrite F5. destruct HO as (_ & _ & _ & _ & _ & _ & -> & _). exact Ho.
    + apply register_bcs. left; reflexivity.
    + exact Hb.
    + intros f' e'. destruct (register_fields s2 oid) as (_ & _ & _ & _ & -> & _).
      destruct (init_entry_buffer strat blen s1 oid false) as (e0 & Hbuf & _). fold s2 in Hbuf. rewrite Hbuf.
      rewrite (heap_only_get_obj s s1 oid HO). destruct HO as (_ & -> & _). apply nlookup_nset_keys.
    + exact HR.
Qed.

Lemma load_regI strat blen s oid : regI s -> regI (fst (load strat blen s oid)).
Proof.
  intros HI. unfold load. destruct (is_buffered s oid) eqn:Hb.
  - pose proof (lfbb_regI strat blen s oid Hb HI) as H1.
    destruct strat.
    + pose proof (check_capacity_regI Ser blen _ H1) as H2.
      destruct (check_capacity Ser blen (load_from_buffer_base Ser blen s oid)) as [s2 [x|]]; cbn [fst] in *.
      * exact H2.
      * eapply heap_only_regI; [apply update_root_heap_only|exact H2].
    + destruct (nlookup _ _); cbn [fst]; [|exact H1].
      eapply regI_same; [apply frame_set_loc|reflexivity|auto|exact H1].
  - cbn [fst]. eapply heap_only_regI; [apply update_root_heap_only|exact HI].
Qed.

Lemma stb_pre_frame strat blen s oid : frame s (stb_pre strat blen s oid).
Proof.
  unfold stb_pre. set (s0 := register s oid). set (f := bo_file (get_obj s0 oid)).
  eapply frame_trans; [apply (frame_register s oid)|]. fold s0.
  destruct strat; destruct (nlookup f (b_buffer s0)) as [e|].
  - apply frame_objs_eq; reflexivity.
  - destruct (init_entry_fields Ser blen s0 oid false) as (F1 & F2 & F3 & F4 & _).
    destruct (nlookup f _); apply frame_objs_eq; assumption.
  - set (s' := if Nat.eqb (e_loc e) (bo_loc (get_obj s0 oid)) then s0 else _).
    assert (HF : frame s0 s').
    { subst s'. destruct (Nat.eqb _ _); [apply frame_refl|].
      eapply frame_trans; [|apply frame_set_loc]. apply frame_objs_eq; reflexivity. }
    destruct (e_mod e); [exact HF|]. eapply frame_trans; [exact HF|]. apply frame_objs_eq; reflexivity.
  - destruct (init_entry_fields Shm blen s0 oid true) as (F1 & F2 & F3 & F4 & _).
    apply frame_objs_eq; assumption.
Qed.

Lemma stb_pre_bcs strat blen s oid : b_bcs (stb_pre strat blen s oid) = b_bcs (register s oid).
Proof.
  unfold stb_pre. set (s0 := register s oid). set (f := bo_file (get_obj s0 oid)).
  destruct strat; destruct (nlookup f (b_buffer s0)) as [e|].
  - reflexivity.
  - destruct (init_entry_fields Ser blen s0 oid false) as (_ & _ & _ & _ & F5 & _).
    destruct (nlookup f _); exact F5.
  - destruct (Nat.eqb _ _); destruct (e_mod e); reflexivity.
  - destruct (init_entry_fields Shm blen s0 oid true) as (_ & _ & _ & _ & F5 & _). exact F5.
Qed.

Lemma stb_pre_keys strat blen s oid f' e' :
  nlookup f' (b_buffer (stb_pre strat blen s oid)) = Some e' ->
  f' = bo_file (get_obj s oid) \/ exists e'', nlookup f' (b_buffer s) = Some e''.
Proof.
  unfold stb_pre. rewrite (get_obj_register s oid oid).
  destruct (register_fields s oid) as (_ & _ & _ & _ & Hbuf & _).
  set (s0 := register s oid) in *. set (f := bo_file (get_obj s oid)). rewrite <- Hbuf.
  assert (Hg : get_obj s0 oid = get_obj s oid) by apply get_obj_register.
  destruct strat; destruct (nlookup f (b_buffer s0)) as [e|] eqn:Hl.
  - bsimpl. apply nlookup_nset_keys.
  - destruct (init_entry_buffer Ser blen s0 oid false) as (e0 & Hb & _).
    rewrite Hg in Hb. fold f in Hb.
    rewrite Hb, nlookup_nset_same. bsimpl. rewrite Hb. intros H.
    apply nlookup_nset_keys in H. destruct H as [H|(e2 & H)]; [left; exact H|].
    apply nlookup_nset_keys in H. exact H.
  - set (s' := if Nat.eqb (e_loc e) _ then s0 else _).
    assert (Hs' : b_buffer s' = b_buffer s0) by (subst s'; destruct (Nat.eqb _ _); reflexivity).
    destruct (e_mod e).
    + rewrite Hs'. intros H. right. exists e'. exact H.
    + bsimpl. rewrite Hs'. apply nlookup_nset_keys.
  - destruct (init_entry_buffer Shm blen s0 oid true) as (e0 & Hb & _).
    rewrite Hg in Hb. fold f in Hb. bsimpl. rewrite Hb. apply nlookup_nset_keys.
Qed.

Lemma stb_pre_regI strat blen s oid :
  is_buffered s oid = true -> regI s -> regI (stb_pre strat blen s oid).
Proof.
  intros Hb [ND HR]. split.
  { apply (nodup_of_acctb strat blen). apply stb_pre_acct. apply acctb_of_nodup. exact ND. }
  apply (reg_inv_grow s _ oid (stb_pre_frame strat blen s oid)).
  - intros o Ho. rewrite stb_pre_bcs. apply register_bcs. right; exact Ho.
  - rewrite stb_pre_bcs. apply register_bcs. left; reflexivity.
  - exact Hb.
  - apply stb_pre_keys.
  - exact HR.
Qed.

Lemma save_regI strat blen s oid : regI s -> regI (fst (save strat blen s oid)).
Proof.
  intros HI. unfold save. destruct (is_buffered s oid) eqn:Hb.
  - rewrite save_to_buffer_eq. apply check_capacity_regI. apply stb_pre_regI; assumption.
  - cbn [fst]. eapply regI_same; [| | |exact HI]; [apply frame_objs_eq; reflexivity|reflexivity|auto].
Qed.

(* one collection leaves its buffered mode *)
Lemma fo_reg_exit strat blen s oid :
  nodup s ->
  (forall f' e', nlookup f' (b_buffer s) = Some e' ->
     exists o, In o (b_bcs s) /\ bo_file (get_obj s o) = f' /\ (is_buffered s o = true \/ o = oid)) ->
  reg_inv (fst (flush_one strat blen s oid false)).
Proof.
  intros ND H f e Hl.
  pose proof (flush_one_frame strat blen s oid false) as (HF & Hbcs & _).
  set (s2 := fst (flush_one strat blen s oid false)) in *.
  destruct (nlookup f (b_buffer s)) as [e0|] eqn:Hl0.
  2:{ apply (fo_none_pres strat blen s oid false) in Hl0. fold s2 in Hl0. congruence. }
  destruct (H f e0 Hl0) as (o & Hin & Hfile & Hor).
  assert (Hb : is_buffered s o = true).
  { destruct (is_buffered s o) eqn:Eb; [reflexivity|]. destruct Hor as [Hor| ->]; [discriminate|].
    exfalso. pose proof (fo_deleted strat blen s oid false ND) as Hd. fold s2 in Hd.
    rewrite Eb in Hd. specialize (Hd eq_refl (or_intror eq_refl)). rewrite Hfile in Hd. congruence. }
  exists o. split; [rewrite Hbcs; exact Hin|]. split; [rewrite (frame_file s s2 o HF); exact Hfile|].
  rewrite (frame_is_buffered s s2 o HF). exact Hb.
Qed.

(* ------------------------------------------------------------------ *)
(* get_obj after set_buf *)
Lemma get_obj_set_buf s oid n o :
  get_obj (set_buf s oid n) o =
  if Nat.eqb o oid then {| bo_file := bo_file (get_obj s oid); bo_loc := bo_loc (get_obj s oid); bo_buf := n;
                           bo_kind := bo_kind (get_obj s oid) |}
  else get_obj s o.
Proof. apply (get_obj_nset s (set_buf s oid n) oid _ o eq_refl). Qed.

Lemma set_buf_file s oid n o : bo_file (get_obj (set_buf s oid n) o) = bo_file (get_obj s o).
Proof.
  rewrite get_obj_set_buf. destruct (Nat.eqb o oid) eqn:E; [|reflexivity].
  apply Nat.eqb_eq in E. subst. reflexivity.
Qed.

Lemma set_buf_is_buffered_other s oid n o : o <> oid -> is_buffered (set_buf s oid n) o = is_buffered s o.
Proof.
  intros Hne. unfold is_buffered. rewrite get_obj_set_buf. apply Nat.eqb_neq in Hne. rewrite Hne. reflexivity.
Qed.

Lemma set_buf_is_buffered_same s oid n :
  is_buffered (set_buf s oid n) oid = Nat.ltb 0 n || Nat.ltb 0 (b_ctx s).
Proof. unfold is_buffered. rewrite get_obj_set_buf, Nat.eqb_refl. reflexivity. Qed.

Lemma is_buffered_ctx s o : (0 < b_ctx s)%nat -> is_buffered s o = true.
Proof. intros H. unfold is_buffered. apply Nat.ltb_lt in H. rewrite H. apply orb_true_r. Qed.

(* ------------------------------------------------------------------ *)
Theorem step_regI strat blen s op :
  (forall oid f k, op = BNew oid f k -> ~ In oid (b_bcs s)) ->
  regI s -> regI (step_fst strat blen s op).
Proof.
  intros Hnew HI. destruct op as [oid f k|f v|oid p o|oid|oid|cap| |n]; cbn [step_fst].
  - destruct HI as [ND HR]. split; [exact ND|].
    specialize (Hnew oid f k eq_refl).
    apply (reg_inv_gen s); [| |exact HR].
    + intros f' e' Hl. left. exists e'. exact Hl.
    + intros o Ho Hb. split; [exact Ho|].
      assert (Hne : o <> oid) by (intros ->; contradiction).
      assert (Hg : get_obj {| b_files := b_files s; b_clock := b_clock s; b_writes := b_writes s;
                   b_heap := nset (b_nloc s) (empty_of k) (b_heap s); b_nloc := S (b_nloc s);
                   b_objs := nset oid {| bo_file := f; bo_loc := b_nloc s; bo_buf := 0; bo_kind := k |} (b_objs s);
                   b_buffer := b_buffer s; b_size := b_size s; b_cap := b_cap s; b_stack := b_stack s;
                   b_ctx := b_ctx s; b_bcs := b_bcs s; b_forced := b_forced s |} o = get_obj s o).
      { erewrite get_obj_nset; [|reflexivity]. apply Nat.eqb_neq in Hne. rewrite Hne. reflexivity. }
      split; [rewrite Hg; reflexivity|]. unfold is_buffered in *. rewrite Hg. exact Hb.
  - eapply regI_same; [| | |exact HI]; [apply frame_objs_eq; reflexivity|reflexivity|auto].
  - apply bop_fst_pres; try assumption.
    + intros s0 v H. eapply heap_only_regI; [apply set_data_heap_only|exact H].
    + intros s0. apply load_regI.
    + intros s0. apply save_regI.
  - destruct HI as [ND HR]. split; [exact ND|].
    apply (reg_inv_gen s); [| |exact HR].
    + intros f' e' Hl. left. exists e'. exact Hl.
    + intros o Ho Hb. split; [exact Ho|]. split; [apply set_buf_file|].
      destruct (Nat.eq_dec o oid) as [->|Hne].
      * rewrite set_buf_is_buffered_same. reflexivity.
      * rewrite set_buf_is_buffered_other by exact Hne. exact Hb.
  - cbv zeta. destruct HI as [ND HR].
    set (n := Nat.pred (bo_buf (get_obj s oid))). set (s1 := set_buf s oid n).
    assert (ND1 : nodup s1) by exact ND.
    assert (H1 : forall f' e', nlookup f' (b_buffer s1) = Some e' ->
              exists o, In o (b_bcs s1) /\ bo_file (get_obj s1 o) = f' /\ (is_buffered s1 o = true \/ o = oid)).
    { intros f' e' Hl. destruct (HR f' e' Hl) as (o & Hin & Hfile & Hb).
      exists o. split; [exact Hin|]. split; [unfold s1; rewrite set_buf_file; exact Hfile|].
      destruct (Nat.eq_dec o oid) as [->|Hne]; [right; reflexivity|left].
      unfold s1. rewrite set_buf_is_buffered_other by exact Hne. exact Hb. }
    destruct (Nat.eqb n 0) eqn:En.
    + split; [apply fo_nodup; exact ND1|apply fo_reg_exit; assumption].
    + split; [exact ND1|]. intros f' e' Hl. destruct (H1 f' e' Hl) as (o & Hin & Hfile & [Hb| ->]).
      * exists o. repeat split; assumption.
      * exists oid. split; [exact Hin|]. split; [exact Hfile|].
        unfold s1. rewrite set_buf_is_buffered_same. apply Nat.eqb_neq in En.
        destruct n; [congruence|reflexivity].
  - cbv zeta.
    assert (H1 : forall st, regI (upd_stack (upd_ctx s (S (b_ctx s))) st)).
    { intros st. destruct HI as [ND HR]. split; [exact ND|].
      apply (reg_inv_gen s); [| |exact HR].
      - intros f' e' Hl. left. exists e'. exact Hl.
      - intros o Ho Hb. split; [exact Ho|]. split; [reflexivity|]. apply is_buffered_ctx. simpl. lia. }
    destruct cap as [c|]; [apply set_capacity_regI|]; apply H1.
  - assert (H2 : regI (exit_s2 strat blen s)).
    { unfold exit_s2. cbv zeta. destruct HI as [ND HR].
      destruct (Nat.eqb (b_ctx (upd_ctx s (Nat.pred (b_ctx s)))) 0) eqn:E0.
      - split; [apply flush_buffer_nodup; exact ND|]. apply flush_buffer_reg_false; [exact ND|].
        apply (reg_inv_weak s HR).
      - split; [exact ND|]. apply (reg_inv_gen s); [| |exact HR].
        + intros f' e' Hl. left. exists e'. exact Hl.
        + intros o Ho Hb. split; [exact Ho|]. split; [reflexivity|]. apply is_buffered_ctx.
          apply Nat.eqb_neq in E0. simpl in *. lia. }
    cbv zeta.
    assert (H3 : regI (upd_stack (exit_s2 strat blen s) (tl (b_stack (exit_s2 strat blen s))))).
    { eapply regI_conv; [| | | |exact H2]; reflexivity. }
    destruct (orig_of _); [apply set_capacity_regI|]; exact H3.
  - apply set_capacity_regI. exact HI.
Qed.

(* ################################################################## *)
(* Part 3 *)
(* ------------------------------------------------------------------ *)
(* frames of the compound functions *)
Lemma check_capacity_frame strat blen s : frame s (fst (check_capacity strat blen s)).
Proof.
  unfold check_capacity. destruct (b_cap s <? b_size s); [|apply frame_refl].
  eapply frame_trans; [|apply flush_buffer_frame]. apply frame_objs_eq; reflexivity.
Qed.

Lemma set_capacity_cs strat blen s n :
  let s' := fst (set_capacity strat blen s n) in
  b_cap s' = n /\ b_stack s' = b_stack s /\ b_ctx s' = b_ctx s.
Proof.
  unfold set_capacity. destruct (n <? b_size (upd_cap s n)); [|repeat split].
  pose proof (flush_buffer_frame strat blen (note_forced (upd_cap s n)) true) as (A1 & A2 & A3 & _).
  cbv zeta. rewrite A1, A2, A3. repeat split.
Qed.

Lemma init_entry_frame strat blen s oid m : frame s (init_entry strat blen s oid m).
Proof. destruct (init_entry_fields strat blen s oid m) as (F1 & F2 & F3 & F4 & _). apply frame_objs_eq; assumption. Qed.

Lemma lfbb_frame strat blen s oid : frame s (load_from_buffer_base strat blen s oid).
Proof.
  unfold load_from_buffer_base. destruct (nlookup _ _).
  - apply frame_register.
  - eapply frame_trans; [|apply frame_register].
    eapply frame_trans; [apply heap_only_frame; apply update_root_heap_only|apply init_entry_frame].
Qed.

Lemma load_frame strat blen s oid : frame s (fst (load strat blen s oid)).
Proof.
  unfold load. destruct (is_buffered s oid).
  - pose proof (lfbb_frame strat blen s oid) as H1. destruct strat.
    + pose proof (check_capacity_frame Ser blen (load_from_buffer_base Ser blen s oid)) as H2.
      destruct (check_capacity Ser blen _) as [s2 [x|]]; cbn [fst] in *.
      * eapply frame_trans; eassumption.
      * eapply frame_trans; [eapply frame_trans; eassumption|]. apply heap_only_frame, update_root_heap_only.
    + destruct (nlookup _ _); cbn [fst]; [|exact H1]. eapply frame_trans; [exact H1|apply frame_set_loc].
  - apply heap_only_frame, update_root_heap_only.
Qed.

Lemma save_frame strat blen s oid : frame s (fst (save strat blen s oid)).
Proof.
  unfold save. destruct (is_buffered s oid).
  - rewrite save_to_buffer_eq. eapply frame_trans; [apply stb_pre_frame|apply check_capacity_frame].
  - apply frame_objs_eq; reflexivity.
Qed.

Lemma bop_fst_frame strat blen s oid p o : frame s (bop_fst strat blen s oid p o).
Proof.
  apply (bop_fst_pres strat blen (frame s) oid).
  - intros s0 v H. eapply frame_trans; [exact H|]. apply heap_only_frame, set_data_heap_only.
  - intros s0 H. eapply frame_trans; [exact H|apply load_frame].
  - intros s0 H. eapply frame_trans; [exact H|apply save_frame].
  - apply frame_refl.
Qed.

Lemma exit_s2_cs strat blen s :
  b_cap (exit_s2 strat blen s) = b_cap s /\ b_stack (exit_s2 strat blen s) = b_stack s.
Proof.
  unfold exit_s2. cbv zeta. destruct (Nat.eqb _ 0); [|split; reflexivity].
  pose proof (flush_buffer_frame strat blen (upd_ctx s (Nat.pred (b_ctx s))) false) as (_ & A2 & A3 & _).
  rewrite A2, A3. split; reflexivity.
Qed.

(* ------------------------------------------------------------------ *)
(* the capacity and the stack of saved capacities evolve independently of everything else *)
Definition cs_step (op : bop) (cs : Z * list (option Z)) : Z * list (option Z) :=
  let (c, st) := cs in
  match op with
  | BEnterCls None => (c, None :: st)
  | BEnterCls (Some n) => (n, Some c :: st)
  | BExitCls => (match orig_of st with Some c' => c' | None => c end, tl st)
  | BSetCap n => (n, st)
  | _ => (c, st)
  end.

Lemma step_cs strat blen s op :
  (b_cap (step_fst strat blen s op), b_stack (step_fst strat blen s op)) = cs_step op (b_cap s, b_stack s).
Proof.
  destruct op as [oid f k|f v|oid p o|oid|oid|cap| |n]; cbn [step_fst cs_step].
  - reflexivity.
  - reflexivity.
  - pose proof (bop_fst_frame strat blen s oid p o) as (_ & A2 & A3 & _). rewrite A2, A3. reflexivity.
  - reflexivity.
  - cbv zeta. destruct (Nat.eqb _ 0); [|reflexivity].
    pose proof (flush_one_frame strat blen (set_buf s oid (Nat.pred (bo_buf (get_obj s oid)))) oid false)
      as ((_ & A2 & A3 & _) & _).
    cbv zeta in A2, A3. rewrite A2, A3. reflexivity.
  - cbv zeta. destruct cap as [c|]; [|reflexivity].
    destruct (set_capacity_cs strat blen
                (upd_stack (upd_ctx s (S (b_ctx s))) (Some (b_cap (upd_ctx s (S (b_ctx s)))) :: b_stack (upd_ctx s (S (b_ctx s))))) c)
      as (A1 & A2 & _).
    cbv zeta in A1, A2. rewrite A1, A2. reflexivity.
  - cbv zeta. destruct (exit_s2_cs strat blen s) as [E1 E2].
    set (s2 := exit_s2 strat blen s) in *. rewrite <- E2, <- E1.
    destruct (orig_of (b_stack s2)) as [c|].
    + destruct (set_capacity_cs strat blen (upd_stack s2 (tl (b_stack s2))) c) as (A1 & A2 & _).
      cbv zeta in A1, A2. rewrite A1, A2. reflexivity.
    + reflexivity.
  - destruct (set_capacity_cs strat blen s n) as (A1 & A2 & _). cbv zeta in A1, A2. rewrite A1, A2. reflexivity.
Qed.

Definition crun (ops : list bop) (cs : Z * list (option Z)) : Z * list (option Z) :=
  fold_left (fun cs op => cs_step op cs) ops cs.

Lemma brun_cs strat blen ops : forall s,
  (b_cap (brun strat blen ops s), b_stack (brun strat blen ops s)) = crun ops (b_cap s, b_stack s).
Proof.
  induction ops as [|op ops IH]; intros s; [reflexivity|].
  unfold brun, crun in *. cbn [fold_left]. rewrite IH, bstep_fst, step_cs. reflexivity.
Qed.

Lemma crun_app a b cs : crun (a ++ b) cs = crun b (crun a cs).
Proof. unfold crun. apply fold_left_app. Qed.

(* which open contexts carry a capacity *)
Definition has_cap (o : option Z) : bool := match o with Some _ => true | None => false end.

(* every set_buffer_capacity happens inside some context that was given a capacity;
   [g] lists, innermost first, whether each currently open context has one *)
Fixpoint setcap_guarded (ops : list bop) (g : list bool) : bool :=
  match ops with
  | [] => true
  | BEnterCls c :: r => setcap_guarded r (has_cap c :: g)
  | BExitCls :: r => setcap_guarded r (tl g)
  | BSetCap _ :: r => existsb (fun b => b) g && setcap_guarded r g
  | _ :: r => setcap_guarded r g
  end.

(* the capacity in force once the contexts in [pre] (innermost first) have all exited *)
Fixpoint unwind (c : Z) (pre : list (option Z)) : Z :=
  match pre with
  | [] => c
  | Some c' :: p => unwind c' p
  | None :: p => unwind c p
  end.

Lemma unwind_guarded c n pre : existsb (fun b => b) (map has_cap pre) = true -> unwind n pre = unwind c pre.
Proof.
  induction pre as [|[c'|] pre IH]; simpl; intros H; [discriminate|reflexivity|apply IH; exact H].
Qed.

Lemma crun_balanced ops : forall pre rest c,
  ctx_balanced ops (length pre) = true -> setcap_guarded ops (map has_cap pre) = true ->
  crun ops (c, pre ++ rest) = (unwind c pre, rest).
Proof.
  induction ops as [|op ops IH]; intros pre rest c Hb Hg.
  - simpl in Hb. apply Nat.eqb_eq in Hb. destruct pre; [reflexivity|discriminate].
  - unfold crun. cbn [fold_left]. fold (crun ops).
    destruct op as [oid f k|f v|oid p o|oid|oid|cap| |n]; cbn [ctx_balanced setcap_guarded cs_step] in *;
      try (apply IH; assumption).
    + destruct cap as [n|].
      * change (Some c :: pre ++ rest) with ((Some c :: pre) ++ rest). rewrite IH; [reflexivity|exact Hb|exact Hg].
      * change (None :: pre ++ rest) with ((None :: pre) ++ rest). rewrite IH; [reflexivity|exact Hb|exact Hg].
    + destruct pre as [|x pre]; [discriminate|]. cbn [length map tl app orig_of] in *.
      rewrite IH; [|exact Hb|exact Hg]. destruct x; reflexivity.
    + apply andb_true_iff in Hg. destruct Hg as [Hg1 Hg2].
      rewrite IH; [|exact Hb|exact Hg2]. rewrite (unwind_guarded c n pre Hg1). reflexivity.
Qed.

Lemma ctx_balanced_snoc body : forall d,
  ctx_balanced body d = true -> ctx_balanced (body ++ [BExitCls]) (S d) = true.
Proof.
  induction body as [|op body IH]; intros d H.
  - simpl in *. apply Nat.eqb_eq in H. subst. reflexivity.
  - destruct op; cbn [app ctx_balanced] in *; try (apply IH; exact H).
    destruct d; [discriminate|]. apply IH. exact H.
Qed.

Lemma setcap_guarded_snoc body : forall g,
  setcap_guarded body g = true -> setcap_guarded (body ++ [BExitCls]) g = true.
Proof.
  induction body as [|op body IH]; intros g H; [reflexivity|].
  destruct op; cbn [app setcap_guarded] in *; try (apply IH; exact H).
  apply andb_true_iff in H. destruct H as [H1 H2]. rewrite H1. apply IH. exact H2.
Qed.

Lemma setcap_guarded_bottom body : forall g,
  ctx_balanced body (length g) = true -> setcap_guarded body (g ++ [true]) = true.
Proof.
  induction body as [|op body IH]; intros g H; [reflexivity|].
  destruct op as [oid f k|f v|oid p o|oid|oid|cap| |n]; cbn [ctx_balanced setcap_guarded] in *;
    try (apply IH; exact H).
  - change (has_cap cap :: g ++ [true]) with ((has_cap cap :: g) ++ [true]). apply IH. exact H.
  - destruct g as [|b g]; [discriminate|]. cbn [length app tl] in *. apply IH. exact H.
  - rewrite existsb_app. simpl. rewrite orb_true_r. simpl. apply IH. exact H.
Qed.

Lemma crun_context cap body c st :
  ctx_balanced body 0 = true -> setcap_guarded body [has_cap cap] = true ->
  crun (BEnterCls cap :: body ++ [BExitCls]) (c, st) = (c, st).
Proof.
  intros Hb Hg.
  change (crun (BEnterCls cap :: body ++ [BExitCls]) (c, st))
    with (crun (body ++ [BExitCls]) (cs_step (BEnterCls cap) (c, st))).
  pose proof (ctx_balanced_snoc body 0 Hb) as Hb'. pose proof (setcap_guarded_snoc body _ Hg) as Hg'.
  destruct cap as [n|]; cbn [cs_step has_cap] in *.
  - exact (crun_balanced (body ++ [BExitCls]) [Some c] st n Hb' Hg').
  - exact (crun_balanced (body ++ [BExitCls]) [None] st c Hb' Hg').
Qed.

(* ------------------------------------------------------------------ *)
(* the size bound *)
Lemma fo_size_le strat blen s oid force :
  (forall v, 0 <= blen v) -> b_size (fst (flush_one strat blen s oid force)) <= b_size s.
Proof.
  intros Hpos. fo_cases strat s oid force; bsimpl; try lia; pose proof (Hpos (e_val e)); lia.
Qed.

Lemma flush_buffer_size_le strat blen s force :
  (forall v, 0 <= blen v) -> b_size (fst (flush_buffer strat blen s force)) <= b_size s.
Proof.
  intros Hpos. apply (flush_buffer_pres strat blen (fun s' => b_size s' <= b_size s)).
  - repeat split; intros; assumption.
  - intros s0 oid H. pose proof (fo_size_le strat blen s0 oid force Hpos). lia.
  - lia.
Qed.

Lemma check_capacity_bnd strat blen s :
  acct strat blen s -> reg_weak s -> 0 <= b_cap s ->
  b_size (fst (check_capacity strat blen s)) <= b_cap (fst (check_capacity strat blen s)).
Proof.
  intros HA HW Hc. pose proof (check_capacity_frame strat blen s) as (_ & _ & A3 & _). rewrite A3.
  unfold check_capacity. destruct (b_cap s <? b_size s) eqn:E.
  - rewrite (flush_buffer_forced_size strat blen (note_forced s)); [exact Hc|exact HA|exact HW].
  - apply Z.ltb_ge in E. exact E.
Qed.

Lemma set_capacity_bnd strat blen s n :
  acct strat blen s -> reg_weak s -> 0 <= n ->
  b_size (fst (set_capacity strat blen s n)) <= b_cap (fst (set_capacity strat blen s n)).
Proof.
  intros HA HW Hc. destruct (set_capacity_cs strat blen s n) as (A1 & _). cbv zeta in A1. rewrite A1.
  unfold set_capacity. destruct (n <? b_size (upd_cap s n)) eqn:E.
  - rewrite (flush_buffer_forced_size strat blen (note_forced (upd_cap s n))); [exact Hc|exact HA|exact HW].
  - apply Z.ltb_ge in E. exact E.
Qed.

Definition BI (strat : strategy) (blen : val -> Z) (s : bstate) : Prop :=
  acct strat blen s /\ regI s /\ b_size s <= b_cap s /\ 0 <= b_cap s.

Lemma acct_true_pres strat blen (F : bstate -> bstate) :
  (forall b s, acctb b strat blen s -> acctb b strat blen (F s)) ->
  forall s, acct strat blen s -> acct strat blen (F s).
Proof. intros H s HA. apply acctb_true. apply H. apply acctb_true. exact HA. Qed.

Lemma lfbb_size_shm blen s oid : b_size (load_from_buffer_base Shm blen s oid) = b_size s.
Proof.
  unfold load_from_buffer_base. destruct (nlookup _ _).
  - apply register_fields.
  - destruct (register_fields (init_entry Shm blen (update_root s oid (read_disk s (bo_file (get_obj s oid)))) oid false) oid)
      as (_ & _ & _ & _ & _ & -> & _).
    unfold init_entry. bsimpl. apply (update_root_heap_only s oid).
Qed.

Lemma load_BI strat blen s oid : BI strat blen s -> BI strat blen (fst (load strat blen s oid)).
Proof.
  intros (HA & HI & Hb & Hc).
  pose proof (load_frame strat blen s oid) as HF.
  split; [apply (acct_true_pres strat blen (fun s => fst (load strat blen s oid))); [intros; apply load_acct; assumption|exact HA]|].
  split; [apply load_regI; exact HI|].
  split; [|rewrite (frame_cap _ _ HF); exact Hc].
  clear HF. unfold load. destruct (is_buffered s oid) eqn:Ebuf.
  - pose proof (lfbb_frame strat blen s oid) as HF1.
    assert (HA1 : acct strat blen (load_from_buffer_base strat blen s oid)).
    { apply (acct_true_pres strat blen (fun s => load_from_buffer_base strat blen s oid)); [intros; apply lfbb_acct; assumption|exact HA]. }
    pose proof (lfbb_regI strat blen s oid Ebuf HI) as [_ HR1].
    destruct strat.
    + pose proof (check_capacity_bnd Ser blen _ HA1 (reg_inv_weak _ HR1)) as H2.
      rewrite (frame_cap _ _ HF1) in H2. specialize (H2 Hc).
      destruct (check_capacity Ser blen (load_from_buffer_base Ser blen s oid)) as [s2 [x|]]; cbn [fst] in *.
      * exact H2.
      * destruct (update_root_heap_only s2 oid
                    (match nlookup (bo_file (get_obj s oid)) (b_buffer (load_from_buffer_base Ser blen s oid)) with
                     | Some e => Some (e_val e) | None => None end)) as (_ & _ & -> & _ & _ & -> & _).
        exact H2.
    + assert (H : b_size (load_from_buffer_base Shm blen s oid) <= b_cap (load_from_buffer_base Shm blen s oid)).
      { rewrite lfbb_size_shm, (frame_cap _ _ HF1). exact Hb. }
      destruct (nlookup _ _); cbn [fst]; exact H.
  - cbn [fst]. destruct (update_root_heap_only s oid (read_disk s (bo_file (get_obj s oid)))) as (_ & _ & -> & _ & _ & -> & _).
    exact Hb.
Qed.

Lemma save_BI strat blen s oid : BI strat blen s -> BI strat blen (fst (save strat blen s oid)).
Proof.
  intros (HA & HI & Hb & Hc).
  pose proof (save_frame strat blen s oid) as HF.
  split; [apply (acct_true_pres strat blen (fun s => fst (save strat blen s oid))); [intros; apply save_acct; assumption|exact HA]|].
  split; [apply save_regI; exact HI|].
  split; [|rewrite (frame_cap _ _ HF); exact Hc].
  clear HF. unfold save. destruct (is_buffered s oid) eqn:Ebuf.
  - rewrite save_to_buffer_eq. apply check_capacity_bnd.
    + apply (acct_true_pres strat blen (fun s => stb_pre strat blen s oid)); [intros; apply stb_pre_acct; assumption|exact HA].
    + apply reg_inv_weak. apply stb_pre_regI; assumption.
    + rewrite (frame_cap _ _ (stb_pre_frame strat blen s oid)). exact Hc.
  - cbn [fst]. exact Hb.
Qed.

Lemma enter_regI s st : regI s -> regI (upd_stack (upd_ctx s (S (b_ctx s))) st).
Proof.
  intros [ND HR]. split; [exact ND|].
  apply (reg_inv_gen s); [| |exact HR].
  - intros f' e' Hl. left. exists e'. exact Hl.
  - intros o Ho Hb. split; [exact Ho|]. split; [reflexivity|]. apply is_buffered_ctx. simpl. lia.
Qed.

Lemma exit_s2_regI strat blen s : regI s -> regI (exit_s2 strat blen s).
Proof.
  intros [ND HR]. unfold exit_s2. cbv zeta.
  destruct (Nat.eqb (b_ctx (upd_ctx s (Nat.pred (b_ctx s)))) 0) eqn:E0.
  - split; [apply flush_buffer_nodup; exact ND|]. apply flush_buffer_reg_false; [exact ND|].
    apply (reg_inv_weak s HR).
  - split; [exact ND|]. apply (reg_inv_gen s); [| |exact HR].
    + intros f' e' Hl. left. exists e'. exact Hl.
    + intros o Ho Hb. split; [exact Ho|]. split; [reflexivity|]. apply is_buffered_ctx.
      apply Nat.eqb_neq in E0. simpl in *. lia.
Qed.

Lemma exit_s2_acct b strat blen s : acctb b strat blen s -> acctb b strat blen (exit_s2 strat blen s).
Proof.
  intros HA. unfold exit_s2. cbv zeta. destruct (Nat.eqb _ 0).
  - apply flush_buffer_acct. eapply acct_same; [| |exact HA]; reflexivity.
  - eapply acct_same; [| |exact HA]; reflexivity.
Qed.

Lemma exit_s2_size_le strat blen s :
  (forall v, 0 <= blen v) -> b_size (exit_s2 strat blen s) <= b_size s.
Proof.
  intros Hpos. unfold exit_s2. cbv zeta. destruct (Nat.eqb _ 0); [|simpl; lia].
  apply (flush_buffer_size_le strat blen (upd_ctx s (Nat.pred (b_ctx s))) false Hpos).
Qed.

Theorem step_bnd strat blen s op :
  acct strat blen s -> regI s -> stack_ok s -> op_caps_ok op -> b_size s <= b_cap s ->
  (forall v, 0 <= blen v) ->
  b_size (step_fst strat blen s op) <= b_cap (step_fst strat blen s op).
Proof.
  intros HA HI [Hc Hst] Hop Hb Hpos.
  destruct op as [oid f k|f v|oid p o|oid|oid|cap| |n]; cbn [step_fst].
  - exact Hb.
  - exact Hb.
  - assert (H : BI strat blen (bop_fst strat blen s oid p o)).
    { apply (bop_fst_pres strat blen (BI strat blen) oid).
      + intros s0 v (A & B & C & D). split; [exact A|]. split; [|split; assumption].
        eapply heap_only_regI; [apply set_data_heap_only|exact B].
      + intros s0. apply load_BI.
      + intros s0. apply save_BI.
      + split; [exact HA|]. split; [exact HI|]. split; assumption. }
    destruct H as (_ & _ & H & _). exact H.
  - exact Hb.
  - cbv zeta. destruct (Nat.eqb _ 0); [|exact Hb].
    set (s1 := set_buf s oid (Nat.pred (bo_buf (get_obj s oid)))).
    pose proof (fo_size_le strat blen s1 oid false Hpos) as H1.
    pose proof (flush_one_frame strat blen s1 oid false) as ((_ & _ & A3 & _) & _). cbv zeta in A3.
    rewrite A3. change (b_size s1) with (b_size s) in H1. change (b_cap s1) with (b_cap s). lia.
  - cbv zeta. destruct cap as [c|]; [|exact Hb].
    apply set_capacity_bnd; [exact HA| |exact Hop].
    apply reg_inv_weak. apply (enter_regI s _ HI).
  - cbv zeta.
    pose proof (exit_s2_regI strat blen s HI) as HI2.
    assert (HA2 : acct strat blen (exit_s2 strat blen s)).
    { apply acctb_true. apply exit_s2_acct. apply acctb_true. exact HA. }
    pose proof (exit_s2_size_le strat blen s Hpos) as Hs2.
    destruct (exit_s2_cs strat blen s) as [E1 E2].
    destruct (orig_of (b_stack (exit_s2 strat blen s))) as [c|] eqn:Eo.
    + apply set_capacity_bnd; [exact HA2| |].
      * apply reg_inv_weak. destruct HI2 as [_ HR2]. exact HR2.
      * apply Hst. rewrite E2 in Eo. destruct (b_stack s) as [|x st]; simpl in Eo; [discriminate|].
        subst x. left; reflexivity.
    + cbn [b_size b_cap upd_stack]. lia.
  - apply set_capacity_bnd; [exact HA| |exact Hop]. apply reg_inv_weak. apply HI.
Qed.

Lemma cs_step_stack_ok op c st :
  op_caps_ok op -> 0 <= c -> (forall x, In (Some x) st -> 0 <= x) ->
  0 <= fst (cs_step op (c, st)) /\ (forall x, In (Some x) (snd (cs_step op (c, st))) -> 0 <= x).
Proof.
  intros Hop Hc Hst. destruct op as [oid f k|f v|oid p o|oid|oid|cap| |n]; cbn [cs_step fst snd]; try (split; assumption).
  - destruct cap as [n|]; cbn [fst snd]; split; try assumption.
    + intros x [H|H]; [inversion H; subst; exact Hc|apply Hst; exact H].
    + intros x [H|H]; [discriminate|apply Hst; exact H].
  - split.
    + destruct st as [|[x|] st]; simpl; try exact Hc. apply Hst. left; reflexivity.
    + intros x H. apply Hst. destruct st; [destruct H|right; exact H].
Qed.

Lemma step_stack_ok strat blen s op :
  op_caps_ok op -> stack_ok s -> stack_ok (step_fst strat blen s op).
Proof.
  intros Hop [Hc Hst]. pose proof (step_cs strat blen s op) as H.
  destruct (cs_step_stack_ok op (b_cap s) (b_stack s) Hop Hc Hst) as [A B].
  rewrite <- H in A, B. exact (conj A B).
Qed.

(* ------------------------------------------------------------------ *)
(* read-only sessions *)
Lemma seq_text_refl a : seq_text a a = true.
Proof.
  destruct a as [| | |[x|m e]| |]; simpl; try reflexivity;
    try apply Z.eqb_refl; try apply str_eqb_refl; try apply N.eqb_refl.
  - destruct b; reflexivity.
  - apply Bool.eqb_reflx.
  - rewrite !Z.eqb_refl. reflexivity.
Qed.

Lemma veq_text_refl v : veq_text v v = true.
Proof.
  induction v as [a|l IH|d IH] using val_ind2.
  - apply seq_text_refl.
  - simpl. induction IH as [|x l Hx _ IHl]; simpl; [reflexivity|]. rewrite Hx. exact IHl.
  - simpl. induction IH as [|[k w] d Hx _ IHd]; simpl; [reflexivity|].
    simpl in Hx. rewrite key_eqb_refl, Hx. exact IHd.
Qed.

Definition RO (strat : strategy) (s0 s : bstate) : Prop :=
  b_files s = b_files s0 /\ b_writes s = b_writes s0 /\ clean_entries strat s /\ nodup s.

Lemma RO_conv strat s0 s s' :
  b_files s' = b_files s -> b_writes s' = b_writes s -> b_buffer s' = b_buffer s -> RO strat s0 s -> RO strat s0 s'.
Proof.
  intros H1 H2 H3 (A & B & C & D). unfold RO, nodup, clean_entries, entry_modified in *.
  rewrite H1, H2, H3. repeat split; assumption.
Qed.

Lemma RO_closed strat s0 : closed_ctl (RO strat s0).
Proof. split; [|split]; intros; (eapply RO_conv; [| | |eassumption]; reflexivity). Qed.

Lemma clean_ser s e f : clean_entries Ser s -> nlookup f (b_buffer s) = Some e -> veq_text (e_val e) (e_hash e) = true.
Proof. intros H Hl. specialize (H f e Hl). unfold entry_modified in H. apply negb_false_iff in H. exact H. Qed.

Lemma clean_shm s e f : clean_entries Shm s -> nlookup f (b_buffer s) = Some e -> e_mod e = false.
Proof. intros H Hl. exact (H f e Hl). Qed.

Lemma flush_one_RO strat blen s0 s oid force :
  RO strat s0 s -> RO strat s0 (fst (flush_one strat blen s oid force)).
Proof.
  intros (A & B & C & D). unfold RO.
  split; [|split; [|split; [|apply fo_nodup; exact D]]].
  - rewrite <- A. fo_cases strat s oid force; bsimpl; try reflexivity;
      try (rewrite (clean_ser s e _ C Hlk) in Hveq; discriminate);
      (rewrite (clean_shm s e _ C Hlk) in Hmod; discriminate).
  - rewrite <- B. fo_cases strat s oid force; bsimpl; try reflexivity;
      try (rewrite (clean_ser s e _ C Hlk) in Hveq; discriminate);
      (rewrite (clean_shm s e _ C Hlk) in Hmod; discriminate).
  - unfold nodup in D. intros f' e'. unfold entry_modified.
    fo_cases strat s oid force; bsimpl; try apply C;
      try (intros H1; apply (nlookup_nremove_some _ _ _ _ D) in H1; destruct H1 as [_ H1]; exact (C f' e' H1));
      (rewrite nlookup_nset; destruct (Nat.eqb f' _); [intros H1; inversion H1; subst; reflexivity|apply C]).
Qed.

Lemma set_capacity_RO strat blen s0 s n : RO strat s0 s -> RO strat s0 (fst (set_capacity strat blen s n)).
Proof. apply set_capacity_pres; [apply RO_closed|]. intros; apply flush_one_RO; assumption. Qed.
Lemma check_capacity_RO strat blen s0 s : RO strat s0 s -> RO strat s0 (fst (check_capacity strat blen s)).
Proof. apply check_capacity_pres; [apply RO_closed|]. intros; apply flush_one_RO; assumption. Qed.
Lemma flush_buffer_RO strat blen s0 s force : RO strat s0 s -> RO strat s0 (fst (flush_buffer strat blen s force)).
Proof. apply flush_buffer_pres; [apply RO_closed|]. intros; apply flush_one_RO; assumption. Qed.

Lemma heap_only_RO strat s0 s s' : heap_only s s' -> RO strat s0 s -> RO strat s0 s'.
Proof. intros (_ & H3 & _ & _ & _ & _ & _ & H1 & H2 & _). apply RO_conv; assumption. Qed.

Lemma lfbb_RO strat blen s0 s oid : RO strat s0 s -> RO strat s0 (load_from_buffer_base strat blen s oid).
Proof.
  intros HR. unfold load_from_buffer_base.
  destruct (nlookup (bo_file (get_obj s oid)) (b_buffer s)) eqn:Hl.
  - eapply RO_conv; [| | |exact HR]; apply register_fields.
  - set (s1 := update_root s oid (read_disk s (bo_file (get_obj s oid)))).
    assert (H1 : RO strat s0 s1) by (eapply heap_only_RO; [apply update_root_heap_only|exact HR]).
    destruct H1 as (A & B & C & D).
    set (s2 := init_entry strat blen s1 oid false).
    destruct (init_entry_fields strat blen s1 oid false) as (_ & _ & _ & _ & _ & F6 & F7 & _). fold s2 in F6, F7.
    destruct (init_entry_buffer strat blen s1 oid false) as (e0 & Hb & Hm & Hv & Hh). fold s2 in Hb.
    eapply RO_conv; [apply register_fields|apply register_fields|apply register_fields|].
    split; [congruence|]. split; [congruence|]. split.
    + intros f' e'. rewrite Hb, nlookup_nset. destruct (Nat.eqb f' _).
      * intros H; inversion H; subst e'. unfold entry_modified. destruct strat; [|exact Hm].
        rewrite Hv, Hh, veq_text_refl. reflexivity.
      * apply C.
    + unfold nodup. rewrite Hb. apply NoDup_nset. exact D.
Qed.

Lemma load_RO strat blen s0 s oid : RO strat s0 s -> RO strat s0 (fst (load strat blen s oid)).
Proof.
  intros HR. unfold load. destruct (is_buffered s oid).
  - pose proof (lfbb_RO strat blen s0 s oid HR) as H1. destruct strat.
    + pose proof (check_capacity_RO Ser blen s0 _ H1) as H2.
      destruct (check_capacity Ser blen (load_from_buffer_base Ser blen s oid)) as [s2 [x|]]; cbn [fst] in *.
      * exact H2.
      * eapply heap_only_RO; [apply update_root_heap_only|exact H2].
    + destruct (nlookup _ _); cbn [fst]; [|exact H1]. eapply RO_conv; [| | |exact H1]; reflexivity.
  - cbn [fst]. eapply heap_only_RO; [apply update_root_heap_only|exact HR].
Qed.

Lemma read_not_no_load o : nop_is_read o = true -> nop_no_load o = false.
Proof. destruct o as [l|d]; [destruct l|destruct d]; simpl; intros H; try reflexivity; discriminate. Qed.

Theorem step_RO strat blen s0 s op :
  bop_is_readonly op = true -> RO strat s0 s -> RO strat s0 (step_fst strat blen s op).
Proof.
  intros Hro HR. destruct op as [oid f k|f v|oid p o|oid|oid|cap| |n]; cbn [step_fst bop_is_readonly] in *.
  - eapply RO_conv; [| | |exact HR]; reflexivity.
  - discriminate.
  - unfold bop_fst. destruct (pre_err o); [exact HR|].
    rewrite (read_not_no_load o Hro), andb_false_r, Hro. cbv zeta.
    pose proof (load2_pres strat blen (RO strat s0) o oid (fun s1 => load_RO strat blen s0 s1 oid) s HR) as HL.
    destruct (snd (load2 strat blen o oid s)); [exact HL|].
    destruct (apply_at p o _) as [[r d']|]; exact HL.
  - eapply RO_conv; [| | |exact HR]; reflexivity.
  - cbv zeta. destruct (Nat.eqb _ 0).
    + apply flush_one_RO. eapply RO_conv; [| | |exact HR]; reflexivity.
    + eapply RO_conv; [| | |exact HR]; reflexivity.
  - cbv zeta. destruct cap as [c|].
    + apply set_capacity_RO. eapply RO_conv; [| | |exact HR]; reflexivity.
    + eapply RO_conv; [| | |exact HR]; reflexivity.
  - assert (H2 : RO strat s0 (exit_s2 strat blen s)).
    { unfold exit_s2. cbv zeta. destruct (Nat.eqb _ 0).
      - apply flush_buffer_RO. eapply RO_conv; [| | |exact HR]; reflexivity.
      - eapply RO_conv; [| | |exact HR]; reflexivity. }
    cbv zeta. destruct (orig_of _).
    + apply set_capacity_RO. eapply RO_conv; [| | |exact H2]; reflexivity.
    + eapply RO_conv; [| | |exact H2]; reflexivity.
  - apply set_capacity_RO. exact HR.
Qed.

(* ------------------------------------------------------------------ *)
(* issues of a backend-wide flush *)
Lemma fo_exn strat blen s oid force x :
  snd (flush_one strat blen s oid force) = Some x -> x = XMeta (bo_file (get_obj s oid)).
Proof.
  fo_cases strat s oid force; bsimpl; intros H; try discriminate; inversion H; reflexivity.
Qed.

Lemma flush_loop_issues strat blen force todo : forall s rem iss f,
  In f (snd (flush_loop strat blen todo s force rem iss)) ->
  In f iss \/ exists oid, In oid todo /\ bo_file (get_obj s oid) = f.
Proof.
  induction todo as [|oid todo IH]; intros s rem iss f H; simpl in H.
  - left. exact H.
  - destruct (is_buffered s oid && negb force).
    + destruct (IH _ _ _ _ H) as [H1|(o & Ho & Hf)]; [left; exact H1|right].
      exists o. split; [right; exact Ho|exact Hf].
    + pose proof (fo_exn strat blen s oid force) as Hx.
      pose proof (flush_one_file strat blen s oid force) as Hfile.
      destruct (flush_one strat blen s oid force) as [s1 [[g|fs]|]]; cbn [fst snd] in *.
      * specialize (Hx _ eq_refl). inversion Hx; subst g.
        destruct (IH _ _ _ _ H) as [H1|(o & Ho & Hf)].
        -- destruct (nmem (bo_file (get_obj s oid)) iss); [left; exact H1|].
           apply in_app_iff in H1. destruct H1 as [H1|[H1|[]]]; [left; exact H1|right].
           exists oid. split; [left; reflexivity|exact H1].
        -- right. exists o. split; [right; exact Ho|]. rewrite <- Hfile. exact Hf.
      * specialize (Hx _ eq_refl). discriminate.
      * destruct (IH _ _ _ _ H) as [H1|(o & Ho & Hf)]; [left; exact H1|right].
        exists o. split; [right; exact Ho|]. rewrite <- Hfile. exact Hf.
Qed.

(* ################################################################## *)
(* Part 4 *)
Definition bcs_known (s : bstate) : Prop :=
  forall oid, In oid (b_bcs s) -> nlookup oid (b_objs s) <> None.

(* objects are never forgotten; registrations only come from [oids] *)
Definition grow (oids : list nat) (s s' : bstate) : Prop :=
  (forall o, nlookup o (b_objs s) <> None -> nlookup o (b_objs s') <> None)
  /\ (forall o, In o (b_bcs s') -> In o (b_bcs s) \/ In o oids).

Lemma grow_refl oids s : grow oids s s.
Proof. split; auto. Qed.

Lemma grow_trans oids s1 s2 s3 : grow oids s1 s2 -> grow oids s2 s3 -> grow oids s1 s3.
Proof.
  intros [A1 A2] [B1 B2]. split; [auto|]. intros o Ho. destruct (B2 o Ho) as [H|H]; [apply A2; exact H|right; exact H].
Qed.

Lemma grow_eq oids s s' : b_objs s' = b_objs s -> b_bcs s' = b_bcs s -> grow oids s s'.
Proof. intros H1 H2. split; [rewrite H1; auto|rewrite H2; auto]. Qed.

Lemma grow_nset oids s s' oid ob : b_objs s' = nset oid ob (b_objs s) -> b_bcs s' = b_bcs s -> grow oids s s'.
Proof.
  intros H1 H2. split; [|rewrite H2; auto]. intros o Ho. rewrite H1, nlookup_nset.
  destruct (Nat.eqb o oid); [discriminate|exact Ho].
Qed.

Lemma grow_bcs_known oids s s' :
  grow oids s s' -> (forall o, In o oids -> nlookup o (b_objs s) <> None) -> bcs_known s -> bcs_known s'.
Proof.
  intros [A1 A2] Hk HB o Ho. apply A1. destruct (A2 o Ho) as [H|H]; [apply HB; exact H|apply Hk; exact H].
Qed.

Lemma flush_one_grow strat blen oids s oid force : grow oids s (fst (flush_one strat blen s oid force)).
Proof.
  fo_cases strat s oid force; bsimpl;
    try (apply grow_eq; reflexivity);
    try (eapply grow_nset; reflexivity).
Qed.

Lemma flush_buffer_grow strat blen oids s force : grow oids s (fst (flush_buffer strat blen s force)).
Proof.
  rewrite fb_state. split.
  - assert (H : grow oids (upd_bcs s []) (fst (fst (flush_loop strat blen (rev (b_bcs s)) (upd_bcs s []) force [] [])))).
    { apply (flush_loop_pres strat blen (grow oids (upd_bcs s []))).
      - intros s0 o H. eapply grow_trans; [exact H|apply flush_one_grow].
      - apply grow_refl. }
    exact (proj1 H).
  - intros o Ho. left. bsimpl in Ho. unfold rem_of in Ho.
    destruct force; [destruct strat; [destruct Ho|apply in_rev; exact Ho]|].
    apply filter_In in Ho. apply in_rev. exact (proj1 Ho).
Qed.

Lemma check_capacity_grow strat blen oids s : grow oids s (fst (check_capacity strat blen s)).
Proof.
  unfold check_capacity. destruct (b_cap s <? b_size s); [|apply grow_refl].
  eapply grow_trans; [|apply flush_buffer_grow]. apply grow_eq; reflexivity.
Qed.

Lemma set_capacity_grow strat blen oids s n : grow oids s (fst (set_capacity strat blen s n)).
Proof.
  unfold set_capacity. destruct (n <? b_size (upd_cap s n)); [|apply grow_eq; reflexivity].
  eapply grow_trans; [|apply flush_buffer_grow]. apply grow_eq; reflexivity.
Qed.

Lemma register_grow s oid : grow [oid] s (register s oid).
Proof.
  split; [rewrite (proj1 (register_fields s oid)); auto|].
  intros o Ho. apply register_bcs in Ho. destruct Ho as [->|H]; [right; left; reflexivity|left; exact H].
Qed.

Lemma heap_only_grow oids s s' : heap_only s s' -> grow oids s s'.
Proof. intros (H1 & _ & _ & _ & _ & _ & H2 & _). apply grow_eq; assumption. Qed.

Lemma init_entry_grow strat blen oids s oid m : grow oids s (init_entry strat blen s oid m).
Proof. destruct (init_entry_fields strat blen s oid m) as (F1 & _ & _ & _ & F5 & _). apply grow_eq; assumption. Qed.

Lemma lfbb_grow strat blen s oid : grow [oid] s (load_from_buffer_base strat blen s oid).
Proof.
  unfold load_from_buffer_base. destruct (nlookup _ _).
  - apply register_grow.
  - eapply grow_trans; [|apply register_grow].
    eapply grow_trans; [apply heap_only_grow, update_root_heap_only|apply init_entry_grow].
Qed.

Lemma load_grow strat blen s oid : grow [oid] s (fst (load strat blen s oid)).
Proof.
  unfold load. destruct (is_buffered s oid).
  - pose proof (lfbb_grow strat blen s oid) as H1. destruct strat.
    + pose proof (check_capacity_grow Ser blen [oid] (load_from_buffer_base Ser blen s oid)) as H2.
      destruct (check_capacity Ser blen _) as [s2 [x|]]; cbn [fst] in *.
      * eapply grow_trans; eassumption.
      * eapply grow_trans; [eapply grow_trans; eassumption|]. apply heap_only_grow, update_root_heap_only.
    + destruct (nlookup _ _); cbn [fst]; [|exact H1]. eapply grow_trans; [exact H1|].
      eapply grow_nset; reflexivity.
  - apply heap_only_grow, update_root_heap_only.
Qed.

Lemma stb_pre_grow strat blen s oid : grow [oid] s (stb_pre strat blen s oid).
Proof.
  eapply grow_trans; [apply (register_grow s oid)|].
  unfold stb_pre. set (s0 := register s oid). set (f := bo_file (get_obj s0 oid)).
  destruct strat; destruct (nlookup f (b_buffer s0)) as [e|].
  - apply grow_eq; reflexivity.
  - destruct (init_entry_fields Ser blen s0 oid false) as (F1 & _ & _ & _ & F5 & _).
    destruct (nlookup f _); apply grow_eq; assumption.
  - set (s' := if Nat.eqb (e_loc e) (bo_loc (get_obj s0 oid)) then s0 else _).
    assert (HF : grow [oid] s0 s').
    { subst s'. destruct (Nat.eqb _ _); [apply grow_refl|]. eapply grow_nset; reflexivity. }
    destruct (e_mod e); [exact HF|]. eapply grow_trans; [exact HF|]. apply grow_eq; reflexivity.
  - destruct (init_entry_fields Shm blen s0 oid true) as (F1 & _ & _ & _ & F5 & _).
    apply grow_eq; assumption.
Qed.

Lemma save_grow strat blen s oid : grow [oid] s (fst (save strat blen s oid)).
Proof.
  unfold save. destruct (is_buffered s oid).
  - rewrite save_to_buffer_eq. eapply grow_trans; [apply stb_pre_grow|apply check_capacity_grow].
  - apply grow_eq; reflexivity.
Qed.

Definition op_oids (op : bop) : list nat := match op with BOp oid _ _ => [oid] | _ => [] end.

Lemma step_grow strat blen s op : grow (op_oids op) s (step_fst strat blen s op).
Proof.
  destruct op as [oid f k|f v|oid p o|oid|oid|cap| |n]; cbn [step_fst op_oids].
  - eapply grow_nset; reflexivity.
  - apply grow_eq; reflexivity.
  - apply (bop_fst_pres strat blen (grow [oid] s) oid).
    + intros s0 v H. eapply grow_trans; [exact H|]. apply heap_only_grow, set_data_heap_only.
    + intros s0 H. eapply grow_trans; [exact H|apply load_grow].
    + intros s0 H. eapply grow_trans; [exact H|apply save_grow].
    + apply grow_refl.
  - eapply grow_nset; reflexivity.
  - cbv zeta. destruct (Nat.eqb _ 0).
    + eapply grow_trans; [|apply flush_one_grow]. eapply grow_nset; reflexivity.
    + eapply grow_nset; reflexivity.
  - cbv zeta. destruct cap as [c|].
    + eapply grow_trans; [|apply set_capacity_grow]. apply grow_eq; reflexivity.
    + apply grow_eq; reflexivity.
  - assert (H2 : grow [] s (exit_s2 strat blen s)).
    { unfold exit_s2. cbv zeta. destruct (Nat.eqb _ 0).
      - eapply grow_trans; [|apply flush_buffer_grow]. apply grow_eq; reflexivity.
      - apply grow_eq; reflexivity. }
    cbv zeta. destruct (orig_of _).
    + eapply grow_trans; [exact H2|]. eapply grow_trans; [|apply set_capacity_grow]. apply grow_eq; reflexivity.
    + eapply grow_trans; [exact H2|]. apply grow_eq; reflexivity.
  - apply set_capacity_grow.
Qed.

(* ################################################################## *)
(* Part 5: the stated theorems *)
(* ================================================================== *)
(* C15: the reported size is exact *)
Lemma acct_init strat blen cap : acct strat blen (b_init cap).
Proof. split; [destruct strat; reflexivity|constructor]. Qed.

Theorem step_acct strat blen s op :
  acct strat blen s -> acct strat blen (fst (bstep_fn strat blen s op)).
Proof.
  intros H. rewrite bstep_fst. apply acctb_true. apply step_acct_aux. apply acctb_true. exact H.
Qed.

Theorem run_acct strat blen ops s : acct strat blen s -> acct strat blen (brun strat blen ops s).
Proof.
  revert s. induction ops as [|op ops IH]; intros s H; [exact H|].
  unfold brun in *. cbn [fold_left]. apply IH. apply step_acct. exact H.
Qed.

(* distinct buffer keys alone are preserved too (no assumption on the size field) *)
Theorem step_nodup strat blen s op :
  NoDup (map fst (b_buffer s)) -> NoDup (map fst (b_buffer (fst (bstep_fn strat blen s op)))).
Proof.
  intros H. rewrite bstep_fst. apply (nodup_of_acctb strat blen). apply step_acct_aux. apply acctb_of_nodup. exact H.
Qed.

(* ================================================================== *)
(* every buffered file keeps a registered, buffered holder *)
Lemma reg_init cap : reg_inv (b_init cap).
Proof. intros f e H. discriminate. Qed.

Definition cx_entry : entry := {| e_val := VD []; e_loc := 0; e_hash := VD []; e_meta := None; e_mod := false |}.

(* counterexample 1 to step_reg as first stated: a buffer with a duplicated key (unreachable, but allowed by
   reg_inv alone).  The holder leaves its buffered mode, its flush deletes the first copy only. *)
Definition cx_dup : bstate :=
  {| b_files := []; b_clock := 0; b_writes := []; b_heap := []; b_nloc := 0;
     b_objs := [(1%nat, {| bo_file := 5; bo_loc := 0; bo_buf := 1; bo_kind := KDict |})];
     b_buffer := [(5%nat, cx_entry); (5%nat, cx_entry)]; b_size := 0; b_cap := 10; b_stack := []; b_ctx := 0;
     b_bcs := [1%nat]; b_forced := 0 |}.

Example step_reg_original_false_dup :
  (forall oid f k, BExitObj 1 = BNew oid f k -> nlookup oid (b_objs cx_dup) = None)
  /\ reg_inv cx_dup
  /\ ~ reg_inv (fst (bstep_fn Ser blen_json cx_dup (BExitObj 1))).
Proof.
  split; [intros; discriminate|]. split.
  - intros f e H. simpl in H. destruct (Nat.eqb f 5) eqn:E; [|discriminate].
    apply Nat.eqb_eq in E. subst f. exists 1%nat. repeat split. left; reflexivity.
  - intros H. specialize (H 5%nat cx_entry).
    assert (Hl : nlookup 5 (b_buffer (fst (bstep_fn Ser blen_json cx_dup (BExitObj 1)))) = Some cx_entry)
      by (vm_compute; reflexivity).
    destruct (H Hl) as (o & Hin & _ & Hb).
    assert (Hbcs : b_bcs (fst (bstep_fn Ser blen_json cx_dup (BExitObj 1))) = [1%nat]) by (vm_compute; reflexivity).
    rewrite Hbcs in Hin. destruct Hin as [<-|[]].
    vm_compute in Hb. discriminate.
Qed.

(* counterexample 2: an object id that was used (hence registered, holding the file of the default object)
   before being created; creating it rebinds the id to another file *)
Definition cx_new : bstate :=
  {| b_files := []; b_clock := 0; b_writes := []; b_heap := []; b_nloc := 0; b_objs := [];
     b_buffer := [(0%nat, cx_entry)]; b_size := 0; b_cap := 10; b_stack := [None]; b_ctx := 1;
     b_bcs := [7%nat]; b_forced := 0 |}.

Example step_reg_original_false_new :
  (forall oid f k, BNew 7 5 KDict = BNew oid f k -> nlookup oid (b_objs cx_new) = None)
  /\ NoDup (map fst (b_buffer cx_new))
  /\ reg_inv cx_new
  /\ ~ reg_inv (fst (bstep_fn Ser blen_json cx_new (BNew 7 5 KDict))).
Proof.
  split; [intros; reflexivity|]. split; [repeat constructor; intros []|]. split.
  - intros f e H. simpl in H. destruct (Nat.eqb f 0) eqn:E; [|discriminate].
    apply Nat.eqb_eq in E. subst f. exists 7%nat. repeat split. left; reflexivity.
  - intros H. destruct (H 0%nat cx_entry eq_refl) as (o & Hin & Hf & _).
    simpl in Hin. destruct Hin as [<-|[]]. vm_compute in Hf. discriminate.
Qed.

(* CHANGED: two extra hypotheses.  (1) The keys of the buffer are distinct (part of acct; preserved on its own
   by step_nodup) — without it a flush deletes only the first copy of a duplicated key.  (2) "Objects are
   created once" must say that the new id is not REGISTERED: an id that is used before BNew is registered
   with the default object's file (0), and BNew then rebinds it.  With (2) the original freshness hypothesis
   [nlookup oid (b_objs s) = None] is not needed at all; bcs_known below derives (2) from it. *)
Theorem step_reg strat blen s op :
  (forall oid f k, op = BNew oid f k -> ~ In oid (b_bcs s)) ->
  NoDup (map fst (b_buffer s)) ->
  reg_inv s -> reg_inv (fst (bstep_fn strat blen s op)).
Proof.
  intros Hnew ND HR. rewrite bstep_fst. apply (step_regI strat blen s op Hnew). split; assumption.
Qed.

(* registered collections are known objects: this is how "objects are created before they are used, once"
   yields the BNew hypothesis of step_reg *)
Lemma bcs_known_init cap : bcs_known (b_init cap).
Proof. intros o []. Qed.

Theorem step_bcs_known strat blen s op :
  (forall oid p o, op = BOp oid p o -> nlookup oid (b_objs s) <> None) ->
  bcs_known s -> bcs_known (fst (bstep_fn strat blen s op)).
Proof.
  intros Hop HB. rewrite bstep_fst. apply (grow_bcs_known (op_oids op) s _ (step_grow strat blen s op)); [|exact HB].
  intros o Ho. destruct op; simpl in Ho; try contradiction. destruct Ho as [<-|[]]. eapply Hop. reflexivity.
Qed.

Corollary step_reg_known strat blen s op :
  (forall oid f k, op = BNew oid f k -> nlookup oid (b_objs s) = None) ->
  bcs_known s -> NoDup (map fst (b_buffer s)) ->
  reg_inv s -> reg_inv (fst (bstep_fn strat blen s op)).
Proof.
  intros Hnew HB. apply step_reg. intros oid f k E Hin. exact (HB oid Hin (Hnew oid f k E)).
Qed.

(* ================================================================== *)
(* C15: size is 0 and the buffer is empty whenever no buffered context is active *)
Theorem zero_outside strat blen s : acct strat blen s -> reg_inv s -> nobody_buffered s ->
  b_buffer s = [] /\ b_size s = 0%Z.
Proof.
  intros [HA _] HR [Hctx Hobjs].
  assert (Hb : b_buffer s = []).
  { destruct (b_buffer s) as [|[f e] l] eqn:E; [reflexivity|exfalso].
    assert (Hl : nlookup f (b_buffer s) = Some e) by (rewrite E; simpl; rewrite Nat.eqb_refl; reflexivity).
    destruct (HR f e Hl) as (o & _ & _ & Hbuf).
    unfold is_buffered in Hbuf. rewrite Hctx in Hbuf. simpl in Hbuf. rewrite orb_false_r in Hbuf.
    unfold get_obj in Hbuf. destruct (nlookup o (b_objs s)) as [ob|] eqn:Eo.
    - rewrite (Hobjs o ob Eo) in Hbuf. discriminate.
    - discriminate. }
  split; [exact Hb|]. rewrite HA. unfold expected_size. rewrite Hb. destruct strat; reflexivity.
Qed.

(* ================================================================== *)
(* C15: never above capacity after an operation (whatever it returned).  Proved as stated; the hypothesis on
   BNew is not used. *)
Theorem step_bounded strat blen s op :
  (forall oid f k, op = BNew oid f k -> nlookup oid (b_objs s) = None) ->
  acct strat blen s -> reg_inv s -> stack_ok s -> op_caps_ok op -> (b_size s <= b_cap s)%Z ->
  (forall v, 0 <= blen v)%Z ->
  let s' := fst (bstep_fn strat blen s op) in (b_size s' <= b_cap s')%Z /\ stack_ok s'.
Proof.
  intros _ HA HR Hst Hop Hb Hpos. cbv zeta. rewrite bstep_fst. split.
  - apply step_bnd; try assumption. split; [exact (acct_nodup _ _ _ HA)|exact HR].
  - apply step_stack_ok; assumption.
Qed.

(* ================================================================== *)
(* C15 / C07: capacity restoration *)

(* counterexample to capacity_restored as first stated: the outer context carries no capacity, and
   set_buffer_capacity is called inside a nested context that carries none either.  The call is not at the
   nesting level of the outer context, yet nothing restores the capacity. *)
Example capacity_restored_original_false :
  let body := [BEnterCls None; BSetCap 7; BExitCls] in
  ctx_balanced body 0 = true /\ no_setcap_at_depth0 body
  /\ b_cap (brun Ser blen_json (BEnterCls None :: body ++ [BExitCls]) (b_init 3)) <> b_cap (b_init 3).
Proof.
  cbv zeta. split; [reflexivity|]. split.
  - intros pre n post H.
    destruct pre as [|a [|b [|c pre]]]; simpl in H; inversion H; subst; try reflexivity.
    destruct pre; discriminate.
  - vm_compute. discriminate.
Qed.

(* CHANGED: [no_setcap_at_depth0 body] is replaced by [setcap_guarded body [has_cap cap]]
   (Part 3): every BSetCap of the body lies inside a context — the outer one or a nested one — that
   was given a capacity, because only such a context restores the capacity when it exits.  This is weaker
   than the original hypothesis when [cap = Some _] (then NO restriction on the body is needed:
   capacity_restored_some) and stronger when [cap = None] (see the counterexample above). *)
Theorem capacity_restored strat blen cap body s :
  ctx_balanced body 0 = true -> setcap_guarded body [has_cap cap] = true ->
  b_cap (brun strat blen (BEnterCls cap :: body ++ [BExitCls]) s) = b_cap s
  /\ b_stack (brun strat blen (BEnterCls cap :: body ++ [BExitCls]) s) = b_stack s.
Proof.
  intros Hb Hg.
  pose proof (brun_cs strat blen (BEnterCls cap :: body ++ [BExitCls]) s) as H.
  rewrite (crun_context cap body (b_cap s) (b_stack s) Hb Hg) in H.
  split; [exact (f_equal fst H)|exact (f_equal snd H)].
Qed.

(* a context that is given a capacity restores the previous one whatever happens inside *)
Theorem capacity_restored_some strat blen c body s :
  ctx_balanced body 0 = true ->
  b_cap (brun strat blen (BEnterCls (Some c) :: body ++ [BExitCls]) s) = b_cap s
  /\ b_stack (brun strat blen (BEnterCls (Some c) :: body ++ [BExitCls]) s) = b_stack s.
Proof.
  intros Hb. apply capacity_restored; [exact Hb|]. exact (setcap_guarded_bottom body [] Hb).
Qed.

(* a context without a capacity leaves capacity and stack alone if the body never sets the capacity outside
   nested capacity-carrying contexts; in particular if it never calls set_buffer_capacity *)
Lemma setcap_guarded_no_setcap body g :
  (forall n, ~ In (BSetCap n) body) -> setcap_guarded body g = true.
Proof.
  revert g. induction body as [|op body IH]; intros g H; [reflexivity|].
  assert (H' : forall n, ~ In (BSetCap n) body) by (intros n Hn; apply (H n); right; exact Hn).
  destruct op; cbn [setcap_guarded]; try (apply IH; exact H').
  exfalso. eapply H. left. reflexivity.
Qed.

(* ================================================================== *)
(* C17 (buffered part) *)

(* counterexample to readonly_step_pure / readonly_run_pure as first stated: a duplicated key hides a modified
   entry behind a clean one; leaving the buffered mode drops the clean copy, the next exit writes the other *)
Definition cx_dirty : entry := {| e_val := VD []; e_loc := 0; e_hash := VL []; e_meta := None; e_mod := true |}.
Definition cx_ro : bstate :=
  {| b_files := []; b_clock := 0; b_writes := []; b_heap := []; b_nloc := 0;
     b_objs := [(1%nat, {| bo_file := 5; bo_loc := 0; bo_buf := 1; bo_kind := KDict |})];
     b_buffer := [(5%nat, cx_entry); (5%nat, cx_dirty)]; b_size := 0; b_cap := 10; b_stack := []; b_ctx := 0;
     b_bcs := [1%nat]; b_forced := 0 |}.

Example readonly_original_false :
  clean_entries Ser cx_ro
  /\ ~ clean_entries Ser (fst (bstep_fn Ser blen_json cx_ro (BExitObj 1)))
  /\ forallb bop_is_readonly [BExitObj 1; BEnterObj 1; BExitObj 1] = true
  /\ b_writes (brun Ser blen_json [BExitObj 1; BEnterObj 1; BExitObj 1] cx_ro) <> b_writes cx_ro.
Proof.
  split; [|split; [|split]].
  - intros f e H. simpl in H. destruct (Nat.eqb f 5); [|discriminate]. inversion H; subst. reflexivity.
  - intros H. specialize (H 5%nat cx_dirty).
    assert (Hl : nlookup 5 (b_buffer (fst (bstep_fn Ser blen_json cx_ro (BExitObj 1)))) = Some cx_dirty)
      by (vm_compute; reflexivity).
    specialize (H Hl). vm_compute in H. discriminate.
  - reflexivity.
  - vm_compute. discriminate.
Qed.

(* CHANGED: the keys of the buffer are distinct (hypothesis and conclusion; see the counterexample) *)
Theorem readonly_step_pure strat blen s op :
  bop_is_readonly op = true -> clean_entries strat s -> NoDup (map fst (b_buffer s)) ->
  let s' := fst (bstep_fn strat blen s op) in
  b_files s' = b_files s /\ b_writes s' = b_writes s /\ clean_entries strat s' /\ NoDup (map fst (b_buffer s')).
Proof.
  intros Hro Hc ND. cbv zeta. rewrite bstep_fst.
  apply (step_RO strat blen s s op Hro). repeat split; assumption.
Qed.

(* CHANGED: the keys of the buffer are distinct *)
Theorem readonly_run_pure strat blen ops s :
  forallb bop_is_readonly ops = true -> clean_entries strat s -> NoDup (map fst (b_buffer s)) ->
  b_files (brun strat blen ops s) = b_files s /\ b_writes (brun strat blen ops s) = b_writes s.
Proof.
  intros Hro Hc ND.
  assert (H : RO strat s (brun strat blen ops s)).
  { assert (H0 : RO strat s s) by (repeat split; assumption).
    clear Hc ND. revert Hro H0. generalize s at 2 4 as s1. induction ops as [|op ops IH]; intros s1 Hro H0; [exact H0|].
    simpl in Hro. apply andb_true_iff in Hro. destruct Hro as [H1 H2].
    unfold brun in *. cbn [fold_left]. apply IH; [exact H2|]. rewrite bstep_fst. apply step_RO; assumption. }
  destruct H as (A & B & _). split; assumption.
Qed.

(* ================================================================== *)
(* C07: what one flush does, by cases *)
Theorem flush_conflict_raises strat blen s oid force e :
  (negb (is_buffered s oid) || force) = true ->
  nlookup (bo_file (get_obj s oid)) (b_buffer s) = Some e ->
  entry_modified strat s e = true -> opt_nat_eqb (e_meta e) (stamp s (bo_file (get_obj s oid))) = false ->
  snd (flush_one strat blen s oid force) = Some (XMeta (bo_file (get_obj s oid)))
  /\ b_files (fst (flush_one strat blen s oid force)) = b_files s
  /\ b_writes (fst (flush_one strat blen s oid force)) = b_writes s.
Proof.
  intros Hc Hl Hm Hmeta. unfold flush_one. rewrite Hc, Hl. unfold entry_modified in Hm. destruct strat.
  - apply negb_true_iff in Hm. rewrite Hm, Hmeta. cbn [negb]. repeat split.
  - rewrite Hm, Hmeta. cbn [negb]. destruct force; repeat split.
Qed.

Theorem flush_unmodified_silent strat blen s oid force e :
  nlookup (bo_file (get_obj s oid)) (b_buffer s) = Some e -> entry_modified strat s e = false ->
  snd (flush_one strat blen s oid force) = None
  /\ b_files (fst (flush_one strat blen s oid force)) = b_files s
  /\ b_writes (fst (flush_one strat blen s oid force)) = b_writes s.
Proof.
  intros Hl Hm. unfold flush_one. rewrite Hl. unfold entry_modified in Hm.
  destruct (negb (is_buffered s oid) || force); destruct strat; try (repeat split; fail).
  - apply negb_false_iff in Hm. rewrite Hm. repeat split.
  - rewrite Hm. destruct force; repeat split.
Qed.

Theorem flush_clean_written strat blen s oid force e :
  (negb (is_buffered s oid) || force) = true ->
  nlookup (bo_file (get_obj s oid)) (b_buffer s) = Some e ->
  entry_modified strat s e = true -> opt_nat_eqb (e_meta e) (stamp s (bo_file (get_obj s oid))) = true ->
  let s' := fst (flush_one strat blen s oid force) in
  snd (flush_one strat blen s oid force) = None
  /\ b_writes s' = bo_file (get_obj s oid) :: b_writes s
  /\ exists v, read_disk s' (bo_file (get_obj s oid)) = Some v
       /\ (forall g, g <> bo_file (get_obj s oid) -> read_disk s' g = read_disk s g).
Proof.
  intros Hc Hl Hm Hmeta. cbv zeta. unfold flush_one. rewrite Hc, Hl. unfold entry_modified in Hm. destruct strat.
  - apply negb_true_iff in Hm. rewrite Hm, Hmeta. cbn [negb]. bsimpl.
    split; [reflexivity|]. split; [reflexivity|]. eexists. split.
    + unfold read_disk. bsimpl. rewrite nlookup_nset_same. reflexivity.
    + intros g Hg. unfold read_disk. bsimpl. rewrite nlookup_nset_other by exact Hg. reflexivity.
  - rewrite Hm, Hmeta. cbn [negb]. destruct force; bsimpl;
      (split; [reflexivity|]; split; [reflexivity|]; eexists; split;
       [unfold read_disk; bsimpl; rewrite nlookup_nset_same; reflexivity
       |intros g Hg; unfold read_disk; bsimpl; rewrite nlookup_nset_other by exact Hg; reflexivity]).
Qed.

(* the error of a backend-wide flush names exactly files whose flush raised *)
Theorem flush_buffer_issues strat blen s force s' x :
  flush_buffer strat blen s force = (s', x) ->
  match x with
  | None => True
  | Some (XBuf fs) => fs <> [] /\ forall f, In f fs -> exists oid, In oid (b_bcs s) /\ bo_file (get_obj s oid) = f
  | Some (XMeta _) => False
  end.
Proof.
  intros H. unfold flush_buffer in H.
  destruct (flush_loop strat blen (rev (b_bcs s)) (upd_bcs s []) force [] []) as [[s1 rem] iss] eqn:E.
  destruct iss as [|i iss]; inversion H; subst; [exact I|].
  split; [discriminate|]. intros f Hf.
  pose proof (flush_loop_issues strat blen force (rev (b_bcs s)) (upd_bcs s []) [] [] f) as H1.
  rewrite E in H1. destruct (H1 Hf) as [[]|(o & Ho & Hfile)].
  exists o. split; [apply in_rev; exact Ho|exact Hfile].
Qed.

Print Assumptions acct_init.
Print Assumptions step_acct.
Print Assumptions run_acct.
Print Assumptions step_nodup.
Print Assumptions reg_init.
Print Assumptions step_reg_original_false_dup.
Print Assumptions step_reg_original_false_new.
Print Assumptions step_reg.
Print Assumptions step_bcs_known.
Print Assumptions step_reg_known.
Print Assumptions zero_outside.
Print Assumptions step_bounded.
Print Assumptions capacity_restored_original_false.
Print Assumptions capacity_restored.
Print Assumptions capacity_restored_some.
Print Assumptions readonly_original_false.
Print Assumptions readonly_step_pure.
Print Assumptions readonly_run_pure.
Print Assumptions flush_conflict_raises.
Print Assumptions flush_unmodified_silent.
Print Assumptions flush_clean_written.
Print Assumptions flush_buffer_issues.
