"""Prototype K3: deterministic scheduler with lock proxies + bounded-preemption DFS (stateless)."""
import sys, threading, json, os, tempfile, itertools, shutil
REPO = os.environ.get('REPO', '/repo')
sys.path.insert(0, REPO)
import synced_collections.data_types.synced_collection as sc
import synced_collections.buffers.file_buffered_collection as fbc
from synced_collections.backends import collection_json as cj

GRAN = os.environ.get('GRAN', 'call')   # 'call' or 'line'


class Deadlock(Exception):
    pass


class Sched:
    cur = None  # the active scheduler (one at a time)

    def __init__(self):
        self.sem = {}; self.main = threading.Semaphore(0)
        self.state = {}      # name -> 'ready' | 'blocked' | 'done'
        self.waiting_on = {}
        self.trace = []
        self.results = {}

    # ---- called from worker threads
    def park(self, name, label):
        self.trace.append((name, label))
        self.main.release(); self.sem[name].acquire()

    def tracer(self, name):
        def t(frame, event, arg):
            fn = frame.f_code.co_filename
            if 'synced_collections' not in fn:
                return None
            if event == 'call':
                self.park(name, 'call ' + frame.f_code.co_name)
                return t if GRAN == 'line' else None
            if event == 'line' and GRAN == 'line':
                self.park(name, f'line {os.path.basename(fn)}:{frame.f_lineno}')
            return t
        return t

    def spawn(self, name, fn):
        self.sem[name] = threading.Semaphore(0); self.state[name] = 'ready'
        def run():
            self.sem[name].acquire()
            threading.current_thread().sched_name = name
            sys.settrace(self.tracer(name))
            try:
                self.results[name] = ('ok', fn())
            except BaseException as e:
                self.results[name] = ('exc', type(e).__name__, str(e)[:80])
            finally:
                sys.settrace(None)
                self.state[name] = 'done'; self.main.release()
        th = threading.Thread(target=run, daemon=True); th.start(); return th

    # ---- called from main
    def enabled(self):
        out = []
        for n, st in self.state.items():
            if st == 'ready': out.append(n)
            elif st == 'blocked' and self.waiting_on[n].free_for(n): out.append(n)
        return out

    def step(self, name):
        self.sem[name].release(); self.main.acquire()


class PLock:
    """Re-entrant lock proxy: a failed acquire parks the thread as 'blocked' instead of blocking the OS thread."""
    def __init__(self, label='?'):
        self.owner = None; self.depth = 0; self.label = label
    def free_for(self, name): return self.owner is None or self.owner == name
    def _me(self): return getattr(threading.current_thread(), 'sched_name', None)
    def __enter__(self):
        me = self._me(); s = Sched.cur
        if me is None or s is None:   # main thread, outside scheduling
            self.owner = 'MAIN' if self.owner in (None, 'MAIN') else self.owner; self.depth += 1; return self
        sys.settrace(None)
        try:
            while not self.free_for(me):
                s.state[me] = 'blocked'; s.waiting_on[me] = self
                s.park(me, f'BLOCKED on {self.label}')
            s.state[me] = 'ready'
            self.owner = me; self.depth += 1
            s.trace.append((me, f'ACQ {self.label}'))
        finally:
            sys.settrace(s.tracer(me))
        return self
    def __exit__(self, *a):
        self.depth -= 1
        if self.depth == 0: self.owner = None
        me = self._me()
        if me and Sched.cur: Sched.cur.trace.append((me, f'REL {self.label}'))
    acquire = __enter__
    def release(self): self.__exit__()


class LockDict(dict):
    """cls._locks replacement creating labelled proxies."""
    def __setitem__(self, k, v):
        if not isinstance(v, PLock): v = PLock(f'coll:{os.path.basename(k) if k else k}')
        super().__setitem__(k, v)


def install(classes):
    sc.RLock = lambda: PLock('coll')
    for c in classes:
        c._cls_lock = PLock('cls:' + c.__name__)
        c._locks = LockDict()
        if hasattr(c, '_BUFFER_LOCK'): c._BUFFER_LOCK = PLock('buf:' + c.__name__)


def run_schedule(setup, prefix):
    """Run one execution: follow `prefix` (thread names), then non-preemptive default. Returns (choices, enabled_sets, outcome)."""
    s = Sched(); Sched.cur = s
    threads, finish = setup(s)
    choices = []; enabled_sets = []
    last = None; outcome = None
    while True:
        en = s.enabled()
        alive = [n for n, st in s.state.items() if st != 'done']
        if not alive: break
        if not en:
            outcome = ('DEADLOCK', dict(s.state)); break
        i = len(choices)
        if i < len(prefix) and prefix[i] in en: pick = prefix[i]
        elif last in en: pick = last
        else: pick = en[0]
        enabled_sets.append(en); choices.append(pick); last = pick
        s.step(pick)
    Sched.cur = None
    if outcome is None: outcome = finish(s)
    return choices, enabled_sets, outcome, s.trace


def explore(setup, check, max_preempt=2, limit=20000):
    """Stateless DFS over schedules with at most max_preempt preemptions."""
    seen = 0; stack = [([], 0)]; bad = []
    visited = set()
    while stack and seen < limit:
        prefix, _ = stack.pop()
        choices, ens, outcome, trace = run_schedule(setup, prefix)
        key = tuple(choices)
        if key in visited: continue
        visited.add(key); seen += 1
        ok = check(outcome)
        if not ok:
            bad.append((choices, outcome, trace))
            if len(bad) >= 1: break
        # branch
        for i in range(len(prefix), len(choices)):
            for alt in ens[i]:
                if alt == choices[i]: continue
                newp = choices[:i] + [alt]
                # count preemptions in newp: switch away from a thread that is still enabled
                pre = 0
                for j in range(1, len(newp)):
                    if newp[j] != newp[j-1] and newp[j-1] in ens[j]: pre += 1
                if pre <= max_preempt: stack.append((newp, pre))
    return seen, bad
