(* Machine.v — unbuffered collections: resources, objects, handles, and the
   step function for every public operation.  Definitions only. *)
From Coq Require Import List ZArith NArith Bool.
From SC Require Import Model.Val Model.Plain Model.Ops Model.Valid Model.Class Model.Tree.
Import ListNotations.
Local Open Scope Z_scope.

(* ---------- operations on one container node (the body inside the load/save context) *)

Definition elem_res (n : node) : res val * option nat := (Ok (to_base n), node_id n).
Definition plain_res (r : res val) : res val * option nat := (r, None).

Definition node_eq_probe (h : node) (x : val) : bool := veq_py (to_base h) x.

(* iter(<what _from_base(value) returned>) for slice assignment *)
Definition elems_of_node (n : node) : res (list node) :=
  match n with
  | NL _ _ kids => Ok kids
  | ND _ _ d => Ok (map (fun kn : key * node => NV (vkey (fst kn))) d)
  | NV v => bind (iter_val v) (fun vs => Ok (map NV vs))
  end.

(* errors raised before the load-and-save context is entered: nothing happens at all *)
Definition pre_lop (T : class_table) (c : nat) (o : lop) : option err :=
  match o with
  | LSet _ v | LInsert _ v | LAppend v | LSetSlice _ v => validate (validators_of T c) v
  | LExtend v | LIAdd v =>
      match iter_val v with
      | Err e => Some e
      | Ok vs => validate (validators_of T c) (VL vs)
      end
  | LReset v => match v with VL _ => None | _ => Some EValue end
  | _ => None
  end.

Definition pre_dop (T : class_table) (c : nat) (o : dop) : option err :=
  match o with
  | DSet k v => validate (validators_of T c) (VD [(k, v)])
  | DUpdate v => match as_mapping v with Err e => Some e | Ok _ => None end
  | DReset v => match v with VD _ => None | _ => Some EValue end
  | _ => None
  end.

(* result, handle of the result, new children, new id supply *)
Definition in_lop (T : class_table) (id c : nat) (l : list node) (o : lop) (nx : nat)
  : (res val * option nat) * node * nat :=
  let same r := (r, NL id c l, nx) in
  let mu (r : res (list node)) (nx' : nat) :=
    match r with
    | Ok l' => (plain_res (Ok vnone), NL id c l', nx')
    | Err e => (plain_res (Err e), NL id c l, nx')
    end in
  let tb := map to_base l in
  match o with
  | LGet i => same (match list_get l i with Ok n => elem_res n | Err e => plain_res (Err e) end)
  | LGetSlice s => same (plain_res (bind (list_getslice l s) (fun x => Ok (VL (map to_base x)))))
  | LLen => same (plain_res (Ok (vint (zlen l))))
  | LCall | LIter => same (plain_res (Ok (VL tb)))
  | LReversed => same (plain_res (Ok (VL (rev tb))))
  | LIndex v => same (plain_res (bind (list_index node_eq_probe l v) (fun z => Ok (vint z))))
  | LCount v => same (plain_res (Ok (vint (list_count node_eq_probe l v))))
  | LContains v => same (plain_res (Ok (vbool (list_contains node_eq_probe l v))))
  | LEq v => same (plain_res (Ok (vbool (veq_py (VL tb) v))))
  | LCmp cm v => same (plain_res (bind (list_compare cm tb v) (fun b => Ok (vbool b))))
  | LSet i v => let (n, nx1) := from_base T c v nx in mu (list_set l i n) nx1
  | LSetSlice s v =>
      let (n, nx1) := from_base T c v nx in
      mu (bind (slice_adjust (zlen l) s) (fun _ =>
          bind (elems_of_node n) (fun es => list_setslice l s es))) nx1
  | LDel i => mu (list_del l i) nx
  | LDelSlice s => mu (list_delslice l s) nx
  | LInsert i v => let (n, nx1) := from_base T c v nx in mu (Ok (list_insert l i n)) nx1
  | LAppend v => let (n, nx1) := from_base T c v nx in mu (Ok (l ++ [n])) nx1
  | LExtend v | LIAdd v =>
      match iter_val v with
      | Err e => mu (Err e) nx
      | Ok vs => let (ns, nx1) := map_st (from_base T c) vs nx in mu (Ok (l ++ ns)) nx1
      end
  | LRemove v => mu (list_remove node_eq_probe l v) nx
  | LPop i =>
      match list_pop l (match i with Some z => z | None => -1 end) with
      | Ok (n, l') => (plain_res (Ok (to_base n)), NL id c l', nx)
      | Err e => same (plain_res (Err e))
      end
  | LReverse => mu (Ok (rev l)) nx
  | LClear => mu (Ok []) nx
  | LReset v =>
      match upd T v (NL id c l) nx with
      | (n', nx', None) => (plain_res (Ok vnone), n', nx')
      | (n', nx', Some e) => (plain_res (Err e), n', nx')
      end
  end.

(* update(other): the entries of {**data, **other} that come from other, in merged order *)
Definition update_entries (d : list (key * node)) (o : list (key * val)) : list (key * val) :=
  let od := dict_update [] o in
  flat_map (fun kn : key * node => match alookup (fst kn) od with
                                  | Some v => [(fst kn, v)] | None => [] end) d
  ++ filter (fun kv : key * val => negb (dict_has d (fst kv))) od.

Definition in_dop (T : class_table) (id c : nat) (d : list (key * node)) (o : dop) (nx : nat)
  : (res val * option nat) * node * nat :=
  let same r := (r, ND id c d, nx) in
  let tb := map (fun kn : key * node => (fst kn, to_base (snd kn))) d in
  match o with
  | DGet k => same (match dict_get d k with Ok n => elem_res n | Err e => plain_res (Err e) end)
  | DGetDefault k dflt =>
      same (match alookup k d with Some n => elem_res n | None => plain_res (Ok dflt) end)
  | DLen => same (plain_res (Ok (vint (zlen d))))
  | DCall => same (plain_res (Ok (VD tb)))
  | DIter | DKeys => same (plain_res (Ok (VL (map vkey (dict_keys d)))))
  | DValues => same (plain_res (Ok (VL (map snd tb))))
  | DItems => same (plain_res (Ok (items_val tb)))
  | DContains k => same (plain_res (Ok (vbool (dict_has d k))))
  | DEq v => same (plain_res (Ok (vbool (veq_py (VD tb) v))))
  | DSet k v => let (n, nx1) := from_base T c v nx in
                (plain_res (Ok vnone), ND id c (dict_set d k n), nx1)
  | DDel k => match dict_del d k with
              | Ok d' => (plain_res (Ok vnone), ND id c d', nx)
              | Err e => same (plain_res (Err e))
              end
  | DPop k => match alookup k d with
              | Some n => (plain_res (Ok (to_base n)), ND id c (dict_remove d k), nx)
              | None => same (plain_res (Ok vnone))
              end
  | DPopitem => match dict_popitem d with
                | Ok ((k, n), d') => (plain_res (Ok (VL [vkey k; to_base n])), ND id c d', nx)
                | Err e => same (plain_res (Err e))
                end
  | DClear => (plain_res (Ok vnone), ND id c [], nx)
  | DUpdate v =>
      match as_mapping v with
      | Err e => same (plain_res (Err e))
      | Ok od =>
          match upd_entries T (fun w => upd T w) c (update_entries d od) d nx with
          | (d', nx', None) => (plain_res (Ok vnone), ND id c d', nx')
          | (d', nx', Some e) => (plain_res (Err e), ND id c d', nx')
          end
      end
  | DSetdefault k v =>
      match alookup k d with
      | Some n => same (elem_res n)
      | None =>
          match validate (validators_of T c) (VD [(k, v)]) with
          | Some e => same (plain_res (Err e))
          | None => let (n, nx1) := from_base T c v nx in
                    ((Ok v, node_id n), ND id c (dict_set d k n), nx1)
          end
      end
  | DReset v =>
      match upd T v (ND id c d) nx with
      | (n', nx', None) => (plain_res (Ok vnone), n', nx')
      | (n', nx', Some e) => (plain_res (Err e), n', nx')
      end
  end.

Definition nop_no_load_at_root (o : nop) : bool := nop_no_load o.

Definition pre_nop (T : class_table) (n : node) (o : nop) : option (option err) :=
  match n, o with
  | NL _ c _, OL o => Some (pre_lop T c o)
  | ND _ c _, OD o => Some (pre_dop T c o)
  | _, _ => None
  end.

Definition in_nop (T : class_table) (n : node) (o : nop) (nx : nat)
  : option ((res val * option nat) * node * nat) :=
  match n, o with
  | NL id c l, OL o => Some (in_lop T id c l o nx)
  | ND id c d, OD o => Some (in_dop T id c d o nx)
  | _, _ => None
  end.

(* ---------- locating handles in a tree *)
Section Find.
  Context {A : Type}.
  Variable find : A -> option node.
  Fixpoint find_in_list (l : list A) : option node :=
    match l with
    | [] => None
    | n :: l' => match find n with Some r => Some r | None => find_in_list l' end
    end.
End Find.

Fixpoint find_node (h : nat) (n : node) {struct n} : option node :=
  match n with
  | NV _ => None
  | NL id _ l => if Nat.eqb id h then Some n else find_in_list (find_node h) l
  | ND id _ d => if Nat.eqb id h then Some n else find_in_list (fun kn : key * node => find_node h (snd kn)) d
  end.

Fixpoint replace_node (h : nat) (r : node) (n : node) {struct n} : node :=
  match n with
  | NV _ => n
  | NL id c l => if Nat.eqb id h then r else NL id c (map (replace_node h r) l)
  | ND id c d => if Nat.eqb id h then r
                 else ND id c (map (fun kn : key * node => (fst kn, replace_node h r (snd kn))) d)
  end.

(* ---------- machine state *)
Record obj := { o_cls : nat; o_rid : nat; o_root : node }.
Record mstate := {
  m_res : list (nat * val);      (* resource content; absent = missing *)
  m_writes : list nat;           (* log of library writes (resource ids), newest first *)
  m_objs : list (nat * obj);
  m_next : nat;
}.

Definition m_init : mstate := {| m_res := []; m_writes := []; m_objs := []; m_next := 0 |}.

Fixpoint nlookup {A} (k : nat) (l : list (nat * A)) : option A :=
  match l with
  | [] => None
  | (k', v) :: l' => if Nat.eqb k k' then Some v else nlookup k l'
  end.
Fixpoint nset {A} (k : nat) (v : A) (l : list (nat * A)) : list (nat * A) :=
  match l with
  | [] => [(k, v)]
  | (k', v') :: l' => if Nat.eqb k k' then (k, v) :: l' else (k', v') :: nset k v l'
  end.
Fixpoint nremove {A} (k : nat) (l : list (nat * A)) : list (nat * A) :=
  match l with
  | [] => []
  | (k', v') :: l' => if Nat.eqb k k' then l' else (k', v') :: nremove k l'
  end.

Inductive mop :=
  | MNew (oid c rid : nat) (data : option val)
  | MExt (rid : nat) (content : option val)
  | MOp (oid hid : nat) (o : nop)
  | MTouch (oid : nat) (mut : bool).

Inductive mresult :=
  | MR (r : res val) (h : option nat)
  | MDetached
  | MBad.

Definition set_root (o : obj) (n : node) : obj := {| o_cls := o_cls o; o_rid := o_rid o; o_root := n |}.

(* SyncedCollection._load at a root: merge the resource content into the tree *)
Definition load_root (T : class_table) (s : mstate) (o : obj) : node * nat * option err :=
  match nlookup (o_rid o) (m_res s) with
  | None => (o_root o, m_next s, None)
  | Some content => upd T content (o_root o) (m_next s)
  end.

Definition save_root (s : mstate) (oid : nat) (o : obj) (root : node) (nx : nat) : mstate :=
  {| m_res := nset (o_rid o) (to_base root) (m_res s);
     m_writes := o_rid o :: m_writes s;
     m_objs := nset oid (set_root o root) (m_objs s);
     m_next := nx |}.

Definition keep_root (s : mstate) (oid : nat) (o : obj) (root : node) (nx : nat) : mstate :=
  {| m_res := m_res s; m_writes := m_writes s;
     m_objs := nset oid (set_root o root) (m_objs s); m_next := nx |}.

Definition empty_root (T : class_table) (c : nat) (id : nat) : node :=
  match c_kind (get_cls T c) with KList => NL id c [] | _ => ND id c [] end.

Definition step (T : class_table) (s : mstate) (op : mop) : mstate * mresult :=
  match op with
  | MNew oid c rid data =>
      let id := m_next s in
      match data with
      | None =>
          ({| m_res := m_res s; m_writes := m_writes s;
              m_objs := nset oid {| o_cls := c; o_rid := rid; o_root := empty_root T c id |} (m_objs s);
              m_next := S id |}, MR (Ok vnone) (Some id))
      | Some v =>
          match validate (validators_of T c) v with
          | Some e => (s, MR (Err e) None)
          | None =>
              let mk (root : node) (nx : nat) :=
                ({| m_res := m_res s; m_writes := m_writes s;
                    m_objs := nset oid {| o_cls := c; o_rid := rid; o_root := root |} (m_objs s);
                    m_next := nx |}, MR (Ok vnone) (Some id)) in
              match c_kind (get_cls T c), v with
              | KList, VL l => let (l', nx) := map_st (from_base T c) l (S id) in mk (NL id c l') nx
              | KDict, VD d =>
                  let (d', nx) := map_st (fun (kv : key * val) st =>
                                     let (n, st') := from_base T c (snd kv) st in ((fst kv, n), st'))
                                   d (S id) in mk (ND id c d') nx
              | _, _ => (s, MBad)
              end
          end
      end
  | MExt rid content =>
      ({| m_res := match content with Some v => nset rid v (m_res s) | None => nremove rid (m_res s) end;
          m_writes := m_writes s; m_objs := m_objs s; m_next := m_next s |}, MR (Ok vnone) None)
  | MTouch oid mut =>
      match nlookup oid (m_objs s) with
      | None => (s, MBad)
      | Some o =>
          match load_root T s o with
          | (root1, nx1, Some e) => (keep_root s oid o root1 nx1, MR (Err e) None)
          | (root1, nx1, None) =>
              if mut then (save_root s oid o root1 nx1, MDetached)
              else (keep_root s oid o root1 nx1, MDetached)
          end
      end
  | MOp oid hid o =>
      match nlookup oid (m_objs s) with
      | None => (s, MBad)
      | Some ob =>
          match find_node hid (o_root ob) with
          | None => (s, MBad)
          | Some n0 =>
              match pre_nop T n0 o with
              | None => (s, MBad)
              | Some (Some e) => (s, MR (Err e) None)
              | Some None =>
                  let at_root := match node_id (o_root ob) with Some r => Nat.eqb r hid | None => false end in
                  let skip_load := at_root && nop_no_load_at_root o in
                  match (if skip_load then (o_root ob, m_next s, None) else load_root T s ob) with
                  | (root1, nx1, Some e) => (keep_root s oid ob root1 nx1, MR (Err e) None)
                  | (root1, nx1, None) =>
                      match find_node hid root1 with
                      | None =>
                          if nop_is_read o then (keep_root s oid ob root1 nx1, MDetached)
                          else (save_root s oid ob root1 nx1, MDetached)
                      | Some n1 =>
                          match in_nop T n1 o nx1 with
                          | None => (s, MBad)
                          | Some ((r, h), n2, nx2) =>
                              let root2 := replace_node hid n2 root1 in
                              if nop_is_read o then (keep_root s oid ob root2 nx2, MR r h)
                              else (save_root s oid ob root2 nx2, MR r h)   (* __exit__ saves, also when the body raised *)
                          end
                      end
                  end
              end
          end
      end
  end.

Definition run (T : class_table) (ops : list mop) (s : mstate) : mstate * list mresult :=
  fold_left (fun (acc : mstate * list mresult) op =>
               let (s', r) := step T (fst acc) op in (s', snd acc ++ [r])) ops (s, []).
