(* ConcMutex.v — Part A of Conc.v: every interleaving of lock-protected operations is serializable
   in lock-release order (any number of locks, any step granularity); nothing is lost or reordered;
   mutual exclusion. *)
From Coq Require Import List Arith Lia Bool.
From SC Require Import Model.Conc.
Import ListNotations.

Section MutexProofs.
Variables S R Lc : Type.

(* inside the section only: make the type parameters implicit *)
Arguments op_lock {S R Lc} _.
Arguments init_lc {S R Lc} _.
Arguments steps {S R Lc} _.
Arguments result {S R Lc} _ _.
Arguments run_steps {S Lc} _ _.
Arguments run_op {S R Lc} _ _.
Arguments todo {S R Lc} _.
Arguments cur {S R Lc} _.
Arguments done {S R Lc} _.
Arguments mkthr {S R Lc} _ _ _.
Arguments sh {S R Lc} _ _.
Arguments holder {S R Lc} _ _.
Arguments thrs {S R Lc} _ _.
Arguments log {S R Lc} _.
Arguments mkcfg {S R Lc} _ _ _ _.
Arguments cstep {S R Lc} _ _.
Arguments exec {S R Lc} _ _.
Arguments serial {S R Lc} _ _.
Arguments mine {R} _ _.
Arguments init_config {S R Lc} _ _.
Arguments quiescent {S R Lc} _.

Notation opd := (opd S R Lc).
Notation config := (config S R Lc).

(* ---------------------------------------------------------------- algebra *)
Lemma fupd_same {A} (f : nat -> A) k v : fupd f k v k = v.
Proof. unfold fupd. rewrite Nat.eqb_refl. reflexivity. Qed.

Lemma fupd_other {A} (f : nat -> A) k v u : u <> k -> fupd f k v u = f u.
Proof. unfold fupd. intros H. apply Nat.eqb_neq in H. rewrite H. reflexivity. Qed.

Lemma serial_app (l : list (nat * opd)) t o (s : nat -> S) :
  serial (l ++ [(t, o)]) s =
  (fst (run_op o (fst (serial l s))), snd (serial l s) ++ [(t, snd (run_op o (fst (serial l s))))]).
Proof.
  revert s; induction l as [|[t' o'] l IH]; intros s; simpl; [reflexivity|].
  rewrite IH. reflexivity.
Qed.

(* run_op changes only the component of its own lock *)
Lemma run_op_same (o : opd) (s : nat -> S) :
  fst (run_op o s) (op_lock o) = fst (run_steps (steps o) (s (op_lock o), init_lc o)).
Proof. unfold run_op. simpl. apply fupd_same. Qed.

Lemma run_op_other (o : opd) (s : nat -> S) l : l <> op_lock o -> fst (run_op o s) l = s l.
Proof. intros H. unfold run_op. simpl. apply fupd_other. exact H. Qed.

(* appending an operation on another lock does not affect the serial result at component l *)
Lemma serial_app_other (lg : list (nat * opd)) t o (s : nat -> S) l :
  l <> op_lock o -> fst (serial (lg ++ [(t, o)]) s) l = fst (serial lg s) l.
Proof. intros H. rewrite serial_app. cbn [fst snd]. apply run_op_other. exact H. Qed.

Lemma mine_app t (res : list (nat * R)) u x :
  mine t (res ++ [(u, x)]) = mine t res ++ (if Nat.eqb u t then [x] else []).
Proof. unfold mine. rewrite filter_app, map_app. simpl. destruct (Nat.eqb u t); reflexivity. Qed.

(* ---------------------------------------------------------------- the invariant *)
Definition Inv (s0 : nat -> S) (c : config) : Prop :=
  (forall t, done (thrs c t) = mine t (snd (serial (log c) s0))) /\
  (forall l, match holder c l with
             | None => sh c l = fst (serial (log c) s0) l
             | Some h =>
                 exists o fs lc, cur (thrs c h) = Some (o, fs, lc) /\ op_lock o = l /\
                   run_steps fs (sh c l, lc) = run_steps (steps o) (fst (serial (log c) s0) l, init_lc o)
             end) /\
  (forall t o fs lc, cur (thrs c t) = Some (o, fs, lc) -> holder c (op_lock o) = Some t).

(* a thread outside any operation holds no lock (consequence of the invariant) *)
Lemma Inv_idle_holds_nothing s0 c t l : Inv s0 c -> cur (thrs c t) = None -> holder c l <> Some t.
Proof.
  intros (_ & Hh & _) Hn Hl. specialize (Hh l). rewrite Hl in Hh.
  destruct Hh as (o & fs & lc & Hc & _). rewrite Hn in Hc. discriminate.
Qed.

Lemma init_inv s0 (ths : nat -> list opd) : Inv s0 (init_config s0 ths).
Proof.
  unfold init_config. split; [|split]; simpl.
  - reflexivity.
  - reflexivity.
  - intros; discriminate.
Qed.

Lemma cstep_inv s0 c t : Inv s0 c -> Inv s0 (cstep c t).
Proof.
  intros (Hdone & Hh & Hcur). unfold cstep.
  destruct (cur (thrs c t)) as [[[o fs] lc]|] eqn:Ecur.
  - (* t is inside operation o, hence the holder of op_lock o *)
    pose proof (Hcur _ _ _ _ Ecur) as Hk.
    pose proof (Hh (op_lock o)) as Hhk. rewrite Hk in Hhk.
    destruct Hhk as (o' & fs' & lc' & Hc & _ & Hrun).
    rewrite Ecur in Hc. inversion Hc; subst o' fs' lc'. clear Hc.
    assert (Hoth : forall l h, l <> op_lock o -> holder c l = Some h -> h <> t).
    { intros l h Hl Hhl ->. specialize (Hh l). rewrite Hhl in Hh.
      destruct Hh as (o' & fs' & lc' & Hc & Hlk & _). rewrite Ecur in Hc.
      inversion Hc; subst. congruence. }
    destruct fs as [|f fs].
    + (* release *)
      split; [|split]; simpl.
      * intros u. rewrite serial_app. simpl. rewrite mine_app.
        destruct (Nat.eq_dec u t) as [->|Hne].
        -- rewrite fupd_same, Nat.eqb_refl. simpl. rewrite Hdone. f_equal. f_equal.
           unfold run_op. simpl. simpl in Hrun. rewrite <- Hrun. reflexivity.
        -- rewrite fupd_other by auto.
           assert (Nat.eqb t u = false) as -> by (apply Nat.eqb_neq; auto).
           rewrite app_nil_r. apply Hdone.
      * intros l. destruct (Nat.eq_dec l (op_lock o)) as [->|Hl].
        -- rewrite fupd_same. rewrite serial_app. cbn [fst snd]. rewrite run_op_same.
           simpl in Hrun. rewrite <- Hrun. reflexivity.
        -- rewrite fupd_other by auto. rewrite serial_app_other by auto.
           specialize (Hh l). destruct (holder c l) as [h|] eqn:Ehl; [|exact Hh].
           rewrite fupd_other by (eapply Hoth; eauto). exact Hh.
      * intros u o' fs' lc' Hc.
        destruct (Nat.eq_dec u t) as [->|Hne].
        { rewrite fupd_same in Hc. simpl in Hc. discriminate. }
        rewrite fupd_other in Hc by auto. apply Hcur in Hc.
        destruct (Nat.eq_dec (op_lock o') (op_lock o)) as [E|E].
        { rewrite E in Hc. rewrite Hk in Hc. congruence. }
        rewrite fupd_other by auto. exact Hc.
    + (* one body step *)
      split; [|split]; simpl.
      * intros u. destruct (Nat.eq_dec u t) as [->|Hne];
          [rewrite fupd_same; simpl; apply Hdone | rewrite fupd_other by auto; apply Hdone].
      * intros l. destruct (Nat.eq_dec l (op_lock o)) as [->|Hl].
        -- rewrite Hk. exists o, fs, (snd (f (sh c (op_lock o), lc))).
           rewrite !fupd_same. simpl. split; [reflexivity|]. split; [reflexivity|].
           rewrite <- Hrun. simpl. destruct (f (sh c (op_lock o), lc)); reflexivity.
        -- rewrite fupd_other by auto.
           specialize (Hh l). destruct (holder c l) as [h|] eqn:Ehl; [|exact Hh].
           rewrite fupd_other by (eapply Hoth; eauto). exact Hh.
      * intros u o' fs' lc' Hc.
        destruct (Nat.eq_dec u t) as [->|Hne].
        { rewrite fupd_same in Hc. simpl in Hc. inversion Hc; subst. exact Hk. }
        rewrite fupd_other in Hc by auto. eapply Hcur; eauto.
  - (* t is outside: tries to acquire *)
    destruct (todo (thrs c t)) as [|o rest] eqn:Etodo; [split; [|split]; assumption|].
    destruct (holder c (op_lock o)) as [h0|] eqn:Ek; [split; [|split]; assumption|].
    assert (Hoth : forall l h, holder c l = Some h -> h <> t).
    { intros l h Hhl ->. specialize (Hh l). rewrite Hhl in Hh.
      destruct Hh as (o' & fs' & lc' & Hc & _). rewrite Ecur in Hc. discriminate. }
    split; [|split]; simpl.
    + intros u. destruct (Nat.eq_dec u t) as [->|Hne];
        [rewrite fupd_same; simpl; apply Hdone | rewrite fupd_other by auto; apply Hdone].
    + intros l. destruct (Nat.eq_dec l (op_lock o)) as [->|Hl].
      * rewrite fupd_same. exists o, (steps o), (init_lc o).
        rewrite fupd_same. simpl. split; [reflexivity|]. split; [reflexivity|].
        specialize (Hh (op_lock o)). rewrite Ek in Hh. rewrite Hh. reflexivity.
      * rewrite fupd_other by auto.
        specialize (Hh l). destruct (holder c l) as [h|] eqn:Ehl; [|exact Hh].
        rewrite fupd_other by (eapply Hoth; eauto). exact Hh.
    + intros u o' fs' lc' Hc.
      destruct (Nat.eq_dec u t) as [->|Hne].
      { rewrite fupd_same in Hc. simpl in Hc. inversion Hc; subst. apply fupd_same. }
      rewrite fupd_other in Hc by auto. apply Hcur in Hc.
      destruct (Nat.eq_dec (op_lock o') (op_lock o)) as [E|E].
      { rewrite E in Hc. congruence. }
      rewrite fupd_other by auto. exact Hc.
Qed.

Lemma exec_inv s0 c sched : Inv s0 c -> Inv s0 (exec c sched).
Proof.
  unfold exec. revert c. induction sched as [|t r IH]; intros c H; simpl; [exact H|].
  apply IH. apply cstep_inv. exact H.
Qed.

(* every schedule of lock-protected operations ends, whenever no lock is held, in exactly the state and
   with exactly the per-thread results of executing the completed operations one at a time in the order
   in which they released their lock *)
Theorem mutex_serializable (s0 : nat -> S) (ths : nat -> list opd) (sched : list nat) :
  let c := exec (init_config s0 ths) sched in
  quiescent c ->
  (forall l, sh c l = fst (serial (log c) s0) l)
  /\ (forall t, done (thrs c t) = mine t (snd (serial (log c) s0))).
Proof.
  intros c Hq.
  destruct (exec_inv s0 (init_config s0 ths) sched (init_inv s0 ths)) as (Hd & Hh & _).
  fold c in Hd, Hh. split; [|exact Hd].
  intros l. specialize (Hh l). rewrite (Hq l) in Hh. exact Hh.
Qed.

(* the same under the invariant, for locks that happen to be free (stronger: no global quiescence needed) *)
Theorem mutex_serializable_per_lock (s0 : nat -> S) (ths : nat -> list opd) (sched : list nat) (l : nat) :
  let c := exec (init_config s0 ths) sched in
  holder c l = None -> sh c l = fst (serial (log c) s0) l.
Proof.
  intros c Hq.
  destruct (exec_inv s0 (init_config s0 ths) sched (init_inv s0 ths)) as (_ & Hh & _).
  fold c in Hh. specialize (Hh l). rewrite Hq in Hh. exact Hh.
Qed.

(* ---------------------------------------------------------------- completeness of the log *)
Definition progress_of (c : config) (t : nat) : list opd :=
  map snd (filter (fun p => Nat.eqb (fst p) t) (log c))
  ++ (match cur (thrs c t) with Some (o, _, _) => [o] | None => [] end)
  ++ todo (thrs c t).

Lemma cstep_progress c t u : progress_of (cstep c t) u = progress_of c u.
Proof.
  unfold progress_of, cstep.
  destruct (cur (thrs c t)) as [[[o fs] lc]|] eqn:Ecur.
  - destruct fs as [|f fs]; simpl.
    + rewrite filter_app, map_app. simpl.
      destruct (Nat.eq_dec u t) as [->|Hne].
      * rewrite fupd_same, Nat.eqb_refl, Ecur. simpl. rewrite <- app_assoc. reflexivity.
      * rewrite fupd_other by auto.
        assert (Nat.eqb t u = false) as -> by (apply Nat.eqb_neq; auto).
        simpl. rewrite app_nil_r. reflexivity.
    + destruct (Nat.eq_dec u t) as [->|Hne].
      * rewrite fupd_same, Ecur. reflexivity.
      * rewrite fupd_other by auto. reflexivity.
  - destruct (todo (thrs c t)) as [|o rest] eqn:Etodo; [reflexivity|].
    destruct (holder c (op_lock o)); [reflexivity|]. simpl.
    destruct (Nat.eq_dec u t) as [->|Hne].
    + rewrite fupd_same, Ecur, Etodo. reflexivity.
    + rewrite fupd_other by auto. reflexivity.
Qed.

Lemma exec_progress c sched u : progress_of (exec c sched) u = progress_of c u.
Proof.
  unfold exec. revert c. induction sched as [|t r IH]; intros c; simpl; [reflexivity|].
  rewrite IH. apply cstep_progress.
Qed.

(* nothing is lost or reordered: each thread's completed operations, then the one in progress, then the
   ones still to do, are exactly its program *)
Theorem mutex_log_complete (s0 : nat -> S) (ths : nat -> list opd) (sched : list nat) (t : nat) :
  let c := exec (init_config s0 ths) sched in
  map snd (filter (fun p => Nat.eqb (fst p) t) (log c))
  ++ (match cur (thrs c t) with Some (o, _, _) => [o] | None => [] end)
  ++ todo (thrs c t) = ths t.
Proof.
  intros c. change (progress_of c t = ths t). unfold c. rewrite exec_progress. reflexivity.
Qed.

(* mutual exclusion: a thread inside an operation holds that operation's lock, and only one thread does *)
Theorem mutex_exclusion (s0 : nat -> S) (ths : nat -> list opd) (sched : list nat) (t : nat) o fs lc :
  let c := exec (init_config s0 ths) sched in
  cur (thrs c t) = Some (o, fs, lc) -> holder c (op_lock o) = Some t.
Proof.
  intros c Hc.
  destruct (exec_inv s0 (init_config s0 ths) sched (init_inv s0 ths)) as (_ & _ & Hcur).
  eapply Hcur. exact Hc.
Qed.

(* corollary: two threads inside operations on the same lock are the same thread *)
Corollary mutex_exclusion_unique (s0 : nat -> S) (ths : nat -> list opd) (sched : list nat) t u o fs lc o' fs' lc' :
  let c := exec (init_config s0 ths) sched in
  cur (thrs c t) = Some (o, fs, lc) -> cur (thrs c u) = Some (o', fs', lc') ->
  op_lock o = op_lock o' -> t = u.
Proof.
  intros c H1 H2 E.
  apply (mutex_exclusion s0 ths sched) in H1. apply (mutex_exclusion s0 ths sched) in H2.
  rewrite E in H1. rewrite H1 in H2. congruence.
Qed.

End MutexProofs.

Check mutex_serializable.
Check mutex_log_complete.
Check mutex_exclusion.
Print Assumptions mutex_serializable.
Print Assumptions mutex_serializable_per_lock.
Print Assumptions mutex_log_complete.
Print Assumptions mutex_exclusion.
Print Assumptions mutex_exclusion_unique.
