(* Correspondence K-res: Resolver.v against utils.AbstractTypeResolver on synthetic identifier tables,
   and the generated obligation that the library's own resolvers are type-determined on the pool. *)
From Coq Require Import List Arith Bool.
From SC Require Import Model.Resolver.
Import ListNotations.

(* an identifier given by the list of (type, instance) pairs on which it is true *)
Definition tbl_pred (trues : list (nat * nat)) (o : pyobj) : bool :=
  existsb (fun p => Nat.eqb (o_ty o) (fst p) && Nat.eqb (o_inst o) (snd p)) trues.

Definition mk_resolver (ids : list (nat * list (nat * nat))) (block : list nat) : resolver :=
  {| r_ids := map (fun ct => (fst ct, tbl_pred (snd ct))) ids; r_block := block |}.

Definition ocat_eqb (a b : option nat) : bool :=
  match a, b with Some x, Some y => Nat.eqb x y | None, None => true | _, _ => false end.

Fixpoint ocats_eqb (a b : list (option nat)) : bool :=
  match a, b with
  | [], [] => true
  | x :: a', y :: b' => ocat_eqb x y && ocats_eqb a' b'
  | _, _ => false
  end.

Record rcase := {
  rc_ids : list (nat * list (nat * nat));
  rc_block : list nat;
  rc_hist : list (nat * nat);                 (* objects (type, instance), in order *)
  rc_answers : list (option nat);             (* what the implementation returned *)
  rc_cached : list nat;                       (* keys of type_map afterwards *)
}.

Definition check_rcase (c : rcase) : bool :=
  let r := mk_resolver (rc_ids c) (rc_block c) in
  let hist := map (fun p => {| o_ty := fst p; o_inst := snd p |}) (rc_hist c) in
  ocats_eqb (answers r [] hist) (rc_answers c)
  && (let m := warm r hist in
      forallb (fun t => match clookup t m with Some _ => true | None => false end) (rc_cached c)
      && forallb (fun te => existsb (Nat.eqb (fst te)) (rc_cached c)) m).

(* measured rows for the library's own resolvers: (blocked, identifier values on instance A, on instance B) *)
Definition row_ok (row : bool * list bool * list bool) : bool :=
  match row with (blocked, a, b) =>
    blocked || (Nat.eqb (length a) (length b) && forallb (fun p => Bool.eqb (fst p) (snd p)) (combine a b))
  end.
Definition rows_type_determined (rows : list (bool * list bool * list bool)) : bool := forallb row_ok rows.
