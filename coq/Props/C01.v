(* C01 — Write-through: every mutation is in the backend when the call returns.  Property theorems only. *)
From Coq Require Import List Bool.
From SC Require Import Model.Val Model.Plain Model.Ops Model.Valid Model.Class Model.Tree Model.Machine.
From SC Require Import Proofs.TreeDefs Proofs.MachineDefs Proofs.MachineRefine Proofs.MachineInv.
From SC Require Import Gen.ClassTable Gen.Obligations.
Import ListNotations.

(* any mutator, issued through the root or a nested handle at any depth, of any class, from ANY state:
   when it returns, the resource holds exactly the object's whole new content, and it was written once *)
Theorem C01_write_through : forall T s oid hid o s' v h,
  nop_is_read o = false -> step T s (MOp oid hid o) = (s', MR (Ok v) h) ->
  exists ob', nlookup oid (m_objs s') = Some ob'
    /\ nlookup (o_rid ob') (m_res s') = Some (to_base (o_root ob'))
    /\ m_writes s' = o_rid ob' :: m_writes s.
Proof. exact mutator_writes_through. Qed.
Print Assumptions C01_write_through.

(* that content is what the same operation produces on built-in dicts and lists: the result and the new
   content are those of the plain operation applied, at the handle's position p, to data j equal (up to
   dict key order) to the resource's content before the call *)
Theorem C01_refines_plain : forall T s oid hid o s' r h ob c,
  table_ok T = true -> Inv T s -> res_valid T s ->
  nlookup oid (m_objs s) = Some ob -> nlookup (o_rid ob) (m_res s) = Some c ->
  args_ok (lang_of T (o_cls ob)) o = true ->
  (forall v od, o = OD (DUpdate v) -> as_mapping v = Ok od -> val_ok (lang_of T (o_cls ob)) (VD od) = true) ->
  (is_root_handle ob hid && nop_no_load o) = false ->
  step T s (MOp oid hid o) = (s', MR r h) ->
  (s' = s /\ exists e, r = Err e /\ forall v r' new, plain_nop v o = Some (r', new) -> r' = Err e /\ new = v)
  \/
  (exists j p new ob',
     VEq j c /\ plain_at p o j = Some (r, new)
     /\ nlookup oid (m_objs s') = Some ob'
     /\ (nop_merges o = false -> to_base (o_root ob') = new)
     /\ VEq (to_base (o_root ob')) new
     /\ (nop_is_read o = false -> nlookup (o_rid ob) (m_res s') = Some (to_base (o_root ob')))
     /\ (nop_is_read o = true -> m_res s' = m_res s /\ m_writes s' = m_writes s)).
Proof. exact step_refines_plain. Qed.
Print Assumptions C01_refines_plain.

(* clear() and reset() on a root (which do not load) leave exactly the requested content in the resource *)
Theorem C01_root_clear_reset : forall T s oid hid o s' r h ob,
  table_ok T = true -> Inv T s -> nlookup oid (m_objs s) = Some ob ->
  is_root_handle ob hid = true -> nop_no_load o = true -> args_ok (lang_of T (o_cls ob)) o = true ->
  step T s (MOp oid hid o) = (s', MR r h) ->
  (exists e, r = Err e /\ s' = s)
  \/ (r = Ok vnone /\ exists ob' new, nlookup oid (m_objs s') = Some ob'
        /\ nlookup (o_rid ob) (m_res s') = Some (to_base (o_root ob'))
        /\ VEq (to_base (o_root ob')) new
        /\ match o with
           | OL LClear => new = VL [] | OD DClear => new = VD []
           | OL (LReset v) | OD (DReset v) => new = v
           | _ => False end).
Proof. exact root_clear_reset. Qed.
Print Assumptions C01_root_clear_reset.

(* the hypotheses are met by every reachable state of the class table generated from the tree under test *)
Theorem C01_reachable_states_satisfy_the_premises : forall ops s,
  Inv class_table s -> res_valid class_table s -> same_family class_table s -> res_nodup s ->
  (forall pre op post, ops = pre ++ op :: post ->
     op_admissible class_table (fst (run class_table pre s)) op /\ op_args_wf op) ->
  Inv class_table (fst (run class_table ops s)) /\ res_valid class_table (fst (run class_table ops s)).
Proof.
  intros ops s I R F N A.
  destruct (run_preserves_inv class_table ops s gen_table_ok I R F N A) as [I' [R' _]]. split; assumption.
Qed.
Print Assumptions C01_reachable_states_satisfy_the_premises.

Example C01_initial_state_ok : Inv class_table m_init /\ res_valid class_table m_init.
Proof. destruct (inv_init class_table) as [A [B _]]. split; assumption. Qed.
