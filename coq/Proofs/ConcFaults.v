(* ConcFaults.v — Parts B, C, D of Conc.v: lock balance under every fault assignment, lock order,
   absence of wait-for cycles, and the computed checks of the library's operation table. *)
From Coq Require Import List Arith ZArith Lia Bool.
From SC Require Import Model.Conc.
Import ListNotations.

(* ------------------------------------------------------------------ Part B *)

Lemma held_add_diff h h' l d m :
  (held_add h l d m - h m = held_add h' l d m - h' m)%Z.
Proof. unfold held_add. destruct (lockid_eqb m l); lia. Qed.

(* the common generalisation of sexec_shift and sexec_ext: fault functions that agree on the program's
   tags, and arbitrary initial counts, give the same outcome, the same events and the same count change *)
Lemma sexec_gen p : forall f g h h',
  (forall t, In t (tags p) -> f t = g t) ->
  fst (fst (sexec p f h)) = fst (fst (sexec p g h'))
  /\ snd (sexec p f h) = snd (sexec p g h')
  /\ forall l, (snd (fst (sexec p f h)) l - h l = snd (fst (sexec p g h')) l - h' l)%Z.
Proof.
  induction p as [|t|k|k|p1 IH1 p2 IH2|p1 IH1 p2 IH2|p1 IH1 p2 IH2]; intros f g h h' Hfg.
  - simpl. repeat split. intros; lia.
  - simpl. rewrite <- (Hfg t) by (simpl; auto). destruct (f t); simpl; repeat split; intros; lia.
  - simpl. repeat split. intros m. apply held_add_diff.
  - simpl. repeat split. intros m. apply held_add_diff.
  - assert (H1 : forall t, In t (tags p1) -> f t = g t) by (intros; apply Hfg; simpl; apply in_or_app; auto).
    assert (H2 : forall t, In t (tags p2) -> f t = g t) by (intros; apply Hfg; simpl; apply in_or_app; auto).
    simpl. specialize (IH1 f g h h' H1).
    destruct (sexec p1 f h) as [[o1 h1] e1], (sexec p1 g h') as [[o1' h1'] e1'].
    simpl in IH1. destruct IH1 as (Eo & Ee & Ed). subst o1' e1'.
    destruct o1.
    + specialize (IH2 f g h1 h1' H2).
      destruct (sexec p2 f h1) as [[o2 h2] e2], (sexec p2 g h1') as [[o2' h2'] e2'].
      simpl in IH2. destruct IH2 as (Eo & Ee & Ed2). subst o2' e2'. simpl.
      repeat split. intros l. specialize (Ed l). specialize (Ed2 l). lia.
    + simpl. repeat split. exact Ed.
  - assert (H1 : forall t, In t (tags p1) -> f t = g t) by (intros; apply Hfg; simpl; apply in_or_app; auto).
    assert (H2 : forall t, In t (tags p2) -> f t = g t) by (intros; apply Hfg; simpl; apply in_or_app; auto).
    simpl. specialize (IH1 f g h h' H1).
    destruct (sexec p1 f h) as [[o1 h1] e1], (sexec p1 g h') as [[o1' h1'] e1'].
    simpl in IH1. destruct IH1 as (Eo & Ee & Ed). subst o1' e1'.
    destruct o1.
    + simpl. repeat split. exact Ed.
    + specialize (IH2 f g h1 h1' H2).
      destruct (sexec p2 f h1) as [[o2 h2] e2], (sexec p2 g h1') as [[o2' h2'] e2'].
      simpl in IH2. destruct IH2 as (Eo & Ee & Ed2). subst o2' e2'. simpl.
      repeat split. intros l. specialize (Ed l). specialize (Ed2 l). lia.
  - assert (H1 : forall t, In t (tags p1) -> f t = g t) by (intros; apply Hfg; simpl; apply in_or_app; auto).
    assert (H2 : forall t, In t (tags p2) -> f t = g t) by (intros; apply Hfg; simpl; apply in_or_app; auto).
    simpl. specialize (IH1 f g h h' H1).
    destruct (sexec p1 f h) as [[o1 h1] e1], (sexec p1 g h') as [[o1' h1'] e1'].
    simpl in IH1. destruct IH1 as (Eo & Ee & Ed). subst o1' e1'.
    specialize (IH2 f g h1 h1' H2).
    destruct (sexec p2 f h1) as [[o2 h2] e2], (sexec p2 g h1') as [[o2' h2'] e2'].
    simpl in IH2. destruct IH2 as (Eo & Ee & Ed2). subst o2' e2'.
    destruct o2; simpl; repeat split; intros l; specialize (Ed l); specialize (Ed2 l); lia.
Qed.

(* the outcome, the events and the held-count CHANGE of a program do not depend on the initial counts *)
Lemma sexec_shift p faults h :
  fst (fst (sexec p faults h)) = fst (fst (sexec p faults held0))
  /\ snd (sexec p faults h) = snd (sexec p faults held0)
  /\ forall l, snd (fst (sexec p faults h)) l = (h l + snd (fst (sexec p faults held0)) l)%Z.
Proof.
  destruct (sexec_gen p faults faults h held0 (fun _ _ => eq_refl)) as (Eo & Ee & Ed).
  repeat split; auto. intros l. specialize (Ed l). unfold held0 in Ed at 2. lia.
Qed.

(* only the fault points that occur in the program matter *)
Lemma sexec_ext p f g h : (forall t, In t (tags p) -> f t = g t) ->
  fst (fst (sexec p f h)) = fst (fst (sexec p g h))
  /\ snd (sexec p f h) = snd (sexec p g h)
  /\ forall l, snd (fst (sexec p f h)) l = snd (fst (sexec p g h)) l.
Proof.
  intros Hfg. destruct (sexec_gen p f g h h Hfg) as (Eo & Ee & Ed).
  repeat split; auto. intros l. specialize (Ed l). lia.
Qed.

(* every fault assignment is represented, as far as the listed tags are concerned, by a member of subsets *)
Lemma subsets_cover l f :
  exists s, In s (subsets l) /\ forall t, fault_fn s t = f t && existsb (Nat.eqb t) l.
Proof.
  induction l as [|x l IH].
  - exists []. split; [simpl; auto|]. intros t. simpl. rewrite andb_false_r. reflexivity.
  - destruct IH as (s & Hin & Hs). destruct (f x) eqn:Efx.
    + exists (x :: s). split.
      * simpl. apply in_or_app. right. apply in_map. exact Hin.
      * intros t. unfold fault_fn in *. simpl. rewrite Hs.
        destruct (Nat.eqb t x) eqn:Etx; simpl; [|reflexivity].
        apply Nat.eqb_eq in Etx. subst t. rewrite Efx. reflexivity.
    + exists s. split.
      * simpl. apply in_or_app. left. exact Hin.
      * intros t. unfold fault_fn in *. simpl. rewrite Hs.
        destruct (Nat.eqb t x) eqn:Etx; simpl; [|reflexivity].
        apply Nat.eqb_eq in Etx. subst t. rewrite Efx. reflexivity.
Qed.

Lemma subsets_cover_tags p faults :
  exists s, In s (subsets (tags p)) /\ forall t, In t (tags p) -> faults t = fault_fn s t.
Proof.
  destruct (subsets_cover (tags p) faults) as (s & Hin & Hs).
  exists s. split; [exact Hin|]. intros t Ht. rewrite Hs.
  assert (existsb (Nat.eqb t) (tags p) = true) as ->.
  { apply existsb_exists. exists t. split; [exact Ht|apply Nat.eqb_refl]. }
  rewrite andb_true_r. reflexivity.
Qed.

Lemma held_zero_sound h : held_zero h = true -> forall l, h l = 0%Z.
Proof.
  unfold held_zero. intros H l.
  apply andb_prop in H. destruct H as [H H3]. apply andb_prop in H. destruct H as [H1 H2].
  apply Z.eqb_eq in H1, H2, H3. destruct l; assumption.
Qed.

(* C10: the finite check decides the property for EVERY fault assignment and every initial lock state *)
Theorem no_leak_sound p : no_leak p = true ->
  forall faults h l, snd (fst (sexec p faults h)) l = h l.
Proof.
  intros Hnl faults h l.
  destruct (sexec_shift p faults h) as (_ & _ & Hsh). rewrite Hsh.
  destruct (subsets_cover_tags p faults) as (s & Hin & Hs).
  destruct (sexec_ext p faults (fault_fn s) held0 Hs) as (_ & _ & Hx). rewrite Hx.
  unfold no_leak in Hnl. rewrite forallb_forall in Hnl. specialize (Hnl s Hin).
  destruct (sexec p (fault_fn s) held0) as [[o1 h1] e1]. simpl.
  rewrite (held_zero_sound h1 Hnl l). lia.
Qed.

Theorem respects_order_sound p : respects_order p = true ->
  forall faults, order_ok_events (snd (sexec p faults held0)) held0 = true.
Proof.
  intros Hro faults.
  destruct (subsets_cover_tags p faults) as (s & Hin & Hs).
  destruct (sexec_ext p faults (fault_fn s) held0 Hs) as (_ & Hx & _). rewrite Hx.
  unfold respects_order in Hro. rewrite forallb_forall in Hro. specialize (Hro s Hin).
  destruct (sexec p (fault_fn s) held0) as [[o1 h1] e1]. simpl. exact Hro.
Qed.

Theorem well_locked_sound p l : well_locked p l = true ->
  forall faults, acts_under_lock (snd (sexec p faults held0)) held0 l T_VALIDATE = true.
Proof.
  intros Hwl faults.
  destruct (subsets_cover_tags p faults) as (s & Hin & Hs).
  destruct (sexec_ext p faults (fault_fn s) held0 Hs) as (_ & Hx & _). rewrite Hx.
  unfold well_locked in Hwl. rewrite forallb_forall in Hwl. specialize (Hwl s Hin).
  destruct (sexec p (fault_fn s) held0) as [[o1 h1] e1]. simpl. exact Hwl.
Qed.

(* ------------------------------------------------------------------ Part C *)

(* at every non-re-entrant acquisition inside an order-respecting trace, everything held ranks below *)
Theorem order_ok_at_acquire : forall pre l post h0,
  order_ok_events (pre ++ EAcq l :: post) h0 = true ->
  let h := fold_left (fun h e => match e with EAcq m => held_add h m 1 | ERel m => held_add h m (-1) | _ => h end) pre h0 in
  (h l <= 0)%Z -> forall m, (0 < h m)%Z -> lock_rank m < lock_rank l.
Proof.
  induction pre as [|e pre IH]; intros l post h0 Hok.
  - cbn [app order_ok_events] in Hok. simpl. intros Hl m Hm.
    apply andb_prop in Hok. destruct Hok as [Hok _].
    apply orb_prop in Hok. destruct Hok as [Hok|Hok].
    { apply Z.ltb_lt in Hok. lia. }
    rewrite forallb_forall in Hok.
    assert (Hin : In m [LColl; LBuf; LCls]) by (destruct m; simpl; auto).
    specialize (Hok m Hin). apply orb_prop in Hok. destruct Hok as [Hok|Hok].
    { apply Z.leb_le in Hok. lia. }
    apply Nat.ltb_lt in Hok. exact Hok.
  - simpl. destruct e as [k|k|t|t]; simpl in Hok.
    + apply andb_prop in Hok. destruct Hok as [_ Hok]. exact (IH l post _ Hok).
    + exact (IH l post _ Hok).
    + exact (IH l post _ Hok).
    + exact (IH l post _ Hok).
Qed.

Lemma wchain_head_waits c t ts last : wchain c t ts last -> exists l, w_waits c t = Some l.
Proof.
  destruct ts as [|u ts]; simpl.
  - intros (l & Hw & _). eauto.
  - intros [(l & Hw & _) _]. eauto.
Qed.

(* ranks strictly increase along a wait-for chain *)
Lemma wchain_rank c : ordered_conf c ->
  forall ts t last l l', wchain c t ts last -> w_waits c t = Some l -> w_waits c last = Some l' ->
  lock_rank l < lock_rank l'.
Proof.
  intros Hord. induction ts as [|u ts IH]; intros t last l l' Hch Hw Hw'; simpl in Hch.
  - destruct Hch as (l1 & Hw1 & Hhold & _). rewrite Hw in Hw1. inversion Hw1; subst l1.
    exact (Hord last l' l Hw' Hhold).
  - destruct Hch as [(l1 & Hw1 & Hhold & _) Hch]. rewrite Hw in Hw1. inversion Hw1; subst l1.
    destruct (wchain_head_waits _ _ _ _ Hch) as (lu & Hwu).
    pose proof (Hord u lu l Hwu Hhold) as H1.
    pose proof (IH u last lu l' Hch Hwu Hw') as H2. lia.
Qed.

(* C10: with a strict lock order there is no wait-for cycle, hence no deadlock *)
Theorem ordered_no_deadlock c : ordered_conf c -> ~ wait_cycle c.
Proof.
  intros Hord (t & ts & Hch).
  destruct (wchain_head_waits _ _ _ _ Hch) as (l & Hw).
  pose proof (wchain_rank c Hord ts t t l l Hch Hw Hw). lia.
Qed.

(* ------------------------------------------------------------------ Part D *)

(* the library's operation table (Part D) satisfies all three checks: computed, not sampled *)
Theorem table_no_leak : forallb no_leak all_progs = true.
Proof. vm_compute. reflexivity. Qed.

Theorem table_respects_order : forallb respects_order all_progs = true.
Proof. vm_compute. reflexivity. Qed.

Theorem table_well_locked :
  forallb (fun fl => forallb (fun v => well_locked (prog_of_op fl v KMutate) LColl
                                        && well_locked (prog_of_op fl v KRootNoLoad) LColl) all_variants) all_flavors = true.
Proof. vm_compute. reflexivity. Qed.

(* consequences for every program of the table, every fault assignment, every initial lock state *)
Corollary table_no_leak_all p : In p all_progs ->
  forall faults h l, snd (fst (sexec p faults h)) l = h l.
Proof.
  intros Hin. apply no_leak_sound.
  pose proof table_no_leak as H. rewrite forallb_forall in H. apply H. exact Hin.
Qed.

Corollary table_respects_order_all p : In p all_progs ->
  forall faults, order_ok_events (snd (sexec p faults held0)) held0 = true.
Proof.
  intros Hin. apply respects_order_sound.
  pose proof table_respects_order as H. rewrite forallb_forall in H. apply H. exact Hin.
Qed.

Print Assumptions sexec_shift.
Print Assumptions sexec_ext.
Print Assumptions no_leak_sound.
Print Assumptions respects_order_sound.
Print Assumptions well_locked_sound.
Print Assumptions order_ok_at_acquire.
Print Assumptions ordered_no_deadlock.
Print Assumptions table_no_leak.
Print Assumptions table_respects_order.
Print Assumptions table_well_locked.
Print Assumptions table_no_leak_all.
Print Assumptions table_respects_order_all.
