import sys, os, json, tempfile
import sched2
from sched2 import *
from synced_collections.backends.collection_json import BufferedJSONDict, MemoryBufferedJSONDict
which = sys.argv[1]
cls = {'ser': BufferedJSONDict, 'mem': MemoryBufferedJSONDict}[which]
d = tempfile.mkdtemp(); f1 = os.path.join(d, 'f1.json'); f2 = os.path.join(d, 'f2.json')
cap = 30 if which == 'ser' else 1
def setup(s):
    install([cls])
    json.dump({'a': 0, 'b': 0}, open(f1, 'w')); json.dump({'v': 0}, open(f2, 'w'))
    o1 = cls(f1); o2 = cls(f2)
    ctx = cls.buffer_backend(cap); ctx.__enter__()
    o1['a'] = 1                      # o1 is in the buffer and modified
    s.spawn('T1', lambda: o1.reset({'r1': 1, 'r2': 2}))
    s.spawn('T2', lambda: o2.__setitem__('y', 'y' * 40))   # exceeds capacity -> forced flush of everything incl. o1
    def finish(s):
        err = None
        try: ctx.__exit__(None, None, None)
        except Exception as e: err = type(e).__name__ + str(e)[:60]
        return json.load(open(f1)), json.load(open(f2)), {k: v[:2] for k, v in s.results.items()}, err, cls.get_current_buffer_size()
    return None, finish
def check(out):
    if out[0] == 'DEADLOCK': return False
    return out[0] == {'r1': 1, 'r2': 2} and out[3] is None and out[4] == 0 and all(v[0] == 'ok' for v in out[2].values())
seen, bad = explore(setup, check, max_preempt=2, limit=2500)
print(which, 'schedules', seen, 'violations', len(bad))
if bad: print('  schedule', ''.join(c[-1] for c in bad[0][0])); print('  outcome', bad[0][1])
os._exit(0)
