(* C08 — A crash during a save leaves each JSON file wholly old or wholly new.  Property theorems only. *)
From Coq Require Import List NArith Bool.
From SC Require Import Model.Crash Proofs.CrashProofs.
Import ListNotations.

(* atomic-write mode, one save, every crash point: after any number k of complete file operations and
   any prefix (cut) of the bytes of the write in progress, the target holds its previous or its new content *)
Theorem C08_atomic_save_old_or_new : forall fs target tmp blob k cut,
  tmp <> target ->
  let fs' := run_crash (save_prog true target tmp (Some blob)) k cut fs in
  fs' target = fs target \/ fs' target = Some blob.
Proof. exact atomic_save_old_or_new_l. Qed.
Print Assumptions C08_atomic_save_old_or_new.

(* a buffer flush of any number of files (each once), every crash point: every file is old or new *)
Theorem C08_flush_old_or_new : forall saves fs k cut,
  names_ok saves -> forall s, In s saves ->
  let fs' := run_crash (flush_prog saves) k cut fs in
  fs' (sv_target s) = fs (sv_target s) \/ fs' (sv_target s) = Some (sv_blob s).
Proof. exact flush_old_or_new_l. Qed.
Print Assumptions C08_flush_old_or_new.

(* content that cannot be serialised damages nothing, in either write mode *)
Theorem C08_unserializable_no_damage : forall atomic target tmp k cut fs,
  run_crash (save_prog atomic target tmp None) k cut fs = fs.
Proof. exact unserializable_no_damage_l. Qed.
Print Assumptions C08_unserializable_no_damage.

(* the temporary file "._<uuid>_<name>" is never the file itself *)
Theorem C08_tmp_name_distinct : forall uuid base, tmp_name uuid base <> base.
Proof. exact tmp_name_distinct_l. Qed.
Print Assumptions C08_tmp_name_distinct.

(* the in-place mode is NOT crash safe in the model: the theorem above is not vacuous about the mode *)
Example C08_inplace_refuted :
  exists fs target blob k cut,
    let fs' := run_crash (save_prog false target target (Some blob)) k cut fs in
    fs' target <> fs target /\ fs' target <> Some blob.
Proof.
  exists (fun _ => Some [1%N; 2%N]), [97%N], [7%N; 8%N; 9%N], 1, 1.
  cbn. split; intro H; discriminate H.
Qed.

(* non-vacuity: a concrete three-file flush satisfies the naming premise *)
Example C08_names_ok_example :
  names_ok [ {| sv_target := [97%N]; sv_tmp := tmp_name [1%N] [97%N]; sv_blob := [1%N] |};
             {| sv_target := [98%N]; sv_tmp := tmp_name [2%N] [98%N]; sv_blob := [2%N] |};
             {| sv_target := [99%N]; sv_tmp := tmp_name [3%N] [99%N]; sv_blob := [] |} ].
Proof.
  split.
  - cbn. repeat constructor; cbn; intuition discriminate.
  - intros s s' Hs Hs'. cbn in Hs, Hs'.
    destruct Hs as [<-|[<-|[<-|[]]]]; destruct Hs' as [<-|[<-|[<-|[]]]]; cbn; discriminate.
Qed.
