(* Struct.v — the synchronisation skeleton of a method, as the translator (harness/gen_tables.py, Python `ast`)
   reads it off the SOURCE of /repo on every run, and the obligations every public method has to meet for the
   operation programs of Machine.v / Conc.v ("load; body; save, all inside the collection's lock") to be what the
   code does.  Gen/Structure.v holds the generated skeletons and discharges the obligations by computation. *)
From Coq Require Import List NArith Bool Arith.
From SC Require Import Model.Val.
Import ListNotations.

Inductive sctx := CLS | CLock | CSusp | CThread | CBuf | COther.
(* what a statement does, as far as synchronisation is concerned *)
Inductive sev :=
  | ELoad | ESave | EValidate | EFromBase | EUpdate
  | ERaise                     (* a raise statement: the path ends here *)
  | EData                      (* any mention of self._data *)
  | EDelegate (name : str).    (* a call of another method of self (which synchronises itself) *)
Inductive sk :=
  | SEv (e : sev)
  | SWith (c : sctx) (body : list sk)
  | SAlt (alts : list (list sk))       (* if/else, except handlers: exactly one alternative runs *)
  | SLoop (body : list sk).

Definition is_ls (c : sctx) : bool := match c with CLS | CLock => true | _ => false end.
Definition needs_ls (e : sev) : bool := match e with EData | EFromBase | EUpdate => true | _ => false end.

(* every access to the in-memory data, every conversion of a value into a child of self and every merge happens
   inside the load-and-save (or lock-and-save) context *)
Fixpoint guarded (inls : bool) (s : sk) : bool :=
  match s with
  | SEv e => negb (needs_ls e) || inls
  | SWith c b =>
      (fix go (l : list sk) := match l with [] => true | x :: r => guarded (inls || is_ls c) x && go r end) b
  | SAlt alts =>
      (fix goa (a : list (list sk)) :=
         match a with
         | [] => true
         | l :: r => (fix go (l : list sk) := match l with [] => true | x :: r' => guarded inls x && go r' end) l && goa r
         end) alts
  | SLoop b =>
      (fix go (l : list sk) := match l with [] => true | x :: r => guarded inls x && go r end) b
  end.
Definition guarded_all (l : list sk) : bool := forallb (guarded false) l.

Definition aborts (l : list sk) : bool :=
  existsb (fun x => match x with SEv ERaise => true | _ => false end) l.

(* number of separate load-and-save sections on a path: (min, max) over all paths that do not end in a raise *)
Fixpoint secs (s : sk) : nat * nat :=
  match s with
  | SEv _ => (0, 0)
  | SWith c b =>
      if is_ls c then (1, 1)
      else (fix go (l : list sk) := match l with [] => (0, 0) | x :: r => let (a, b1) := secs x in let (c1, d) := go r in (a + c1, b1 + d) end) b
  | SAlt alts =>
      (fix goa (a : list (list sk)) : nat * nat :=
         match a with
         | [] => (0, 0)
         | l :: r =>
             let cur := (fix go (l : list sk) := match l with [] => (0, 0) | x :: r' => let (a1, b1) := secs x in let (c1, d) := go r' in (a1 + c1, b1 + d) end) l in
             match r with
             | [] => cur
             | _ =>
                 let (mn, mx) := goa r in
                 if aborts l then (mn, mx)
                 else if forallb aborts r then cur
                 else (Nat.min (fst cur) mn, Nat.max (snd cur) mx)
             end
         end) alts
  | SLoop b =>
      let (_, mx) := (fix go (l : list sk) := match l with [] => (0, 0) | x :: r => let (a, b1) := secs x in let (c1, d) := go r in (a + c1, b1 + d) end) b in
      (0, if Nat.eqb mx 0 then 0 else 2)
  end.
Definition secs_all (l : list sk) : nat * nat :=
  fold_right (fun x acc => let (a, b) := secs x in (a + fst acc, b + snd acc)) (0, 0) l.

(* a mutator: everything guarded, and exactly one section on every path (one atomic step of Conc.v; two sections
   would be two steps another thread can get between - defect D12) *)
Definition mutator_ok (l : list sk) : bool :=
  guarded_all l && let (mn, mx) := secs_all l in Nat.eqb mn 1 && Nat.eqb mx 1.

(* a reader: no access to the data before a load on that path (inside a section counts as loaded); returns
   (ok, loaded afterwards) *)
Fixpoint rd (loaded : bool) (s : sk) : bool * bool :=
  match s with
  | SEv ELoad => (true, true)
  | SEv EData => (loaded, loaded)
  | SEv _ => (true, loaded)
  | SWith c b =>
      (fix go (ld : bool) (l : list sk) : bool * bool :=
         match l with [] => (true, ld) | x :: r => let (ok1, ld1) := rd ld x in let (ok2, ld2) := go ld1 r in (ok1 && ok2, ld2) end)
        (loaded || is_ls c) b
  | SAlt alts =>
      (fix goa (a : list (list sk)) : bool * bool :=
         match a with
         | [] => (true, loaded)
         | l :: r =>
             let cur := (fix go (ld : bool) (l : list sk) : bool * bool :=
                           match l with [] => (true, ld) | x :: r' => let (ok1, ld1) := rd ld x in let (ok2, ld2) := go ld1 r' in (ok1 && ok2, ld2) end)
                          loaded l in
             match r with
             | [] => cur
             | _ => let (ok2, ld2) := goa r in (fst cur && ok2, snd cur && ld2)
             end
         end) alts
  | SLoop b =>
      let res := (fix go (ld : bool) (l : list sk) : bool * bool :=
                    match l with [] => (true, ld) | x :: r => let (ok1, ld1) := rd ld x in let (ok2, ld2) := go ld1 r in (ok1 && ok2, ld2) end)
                   loaded b in
      (fst res, loaded)
  end.
Fixpoint rd_all (loaded : bool) (l : list sk) : bool :=
  match l with
  | [] => true
  | x :: r => let (ok, ld) := rd loaded x in ok && rd_all ld r
  end.
Fixpoint syncs (s : sk) : bool :=
  match s with
  | SEv ELoad | SEv (EDelegate _) => true
  | SEv _ => false
  | SWith c b => is_ls c || (fix go (l : list sk) := match l with [] => false | x :: r => syncs x || go r end) b
  | SAlt alts => (fix goa (a : list (list sk)) := match a with [] => false | l :: r => (fix go (l : list sk) := match l with [] => false | x :: r' => syncs x || go r' end) l || goa r end) alts
  | SLoop b => (fix go (l : list sk) := match l with [] => false | x :: r => syncs x || go r end) b
  end.
Definition reader_ok (l : list sk) : bool := rd_all false l && existsb syncs l.

(* the public mutators (names as in Api.v); every other public operation of the modelled API is a reader *)
Definition mutator_names : list str :=
  [ [95;95;115;101;116;105;116;101;109;95;95]%N;  (* __setitem__ *)
    [95;95;100;101;108;105;116;101;109;95;95]%N;  (* __delitem__ *)
    [95;95;105;97;100;100;95;95]%N;               (* __iadd__ *)
    [114;101;115;101;116]%N; [99;108;101;97;114]%N; [112;111;112]%N; [112;111;112;105;116;101;109]%N;
    [117;112;100;97;116;101]%N; [115;101;116;100;101;102;97;117;108;116]%N;
    [105;110;115;101;114;116]%N; [97;112;112;101;110;100]%N; [101;120;116;101;110;100]%N;
    [114;101;109;111;118;101]%N; [114;101;118;101;114;115;101]%N ].
Definition is_mutator (n : str) : bool := existsb (str_eqb n) mutator_names.

Record smethod := { sm_class : str; sm_name : str; sm_library_owned : bool; sm_body : list sk }.

Definition method_ok (m : smethod) : bool :=
  if is_mutator (sm_name m) then mutator_ok (sm_body m) else reader_ok (sm_body m).

(* every mutator the concrete classes expose is implemented by the library itself (the collections.abc mixin
   versions of pop / reverse / clear / ... are several separately locked steps), with the one exception of names
   the generated table marks as delegating to a single library mutator *)
Definition structure_ok (ms : list smethod) : bool := forallb method_ok ms.

(* --- meaning: a guarded skeleton never touches the data outside a section ------------------------------------ *)
(* the flat trace of one path is not needed for the obligations above; the theorem below states what `guarded`
   buys in the simplest form used by Conc.v: a data event at top level (outside every with) is impossible *)
Lemma guarded_top_level_data_free : forall l, guarded_all l = true -> ~ In (SEv EData) l.
Proof.
  intros l H Hin. unfold guarded_all in H. rewrite forallb_forall in H.
  specialize (H _ Hin). simpl in H. discriminate.
Qed.

(* --- meaning of the obligations: execution paths ---------------------------------------------------------------
   The events of one execution of a skeleton, in order, each tagged with whether a load-and-save section is open at
   that moment.  An SAlt runs exactly one alternative, an SLoop runs its body any number of times. *)
Inductive path1 : bool -> sk -> list (bool * sev) -> Prop :=
  | P_ev : forall inls e, path1 inls (SEv e) [(inls, e)]
  | P_with : forall inls c b tr, paths (inls || is_ls c) b tr -> path1 inls (SWith c b) tr
  | P_alt : forall inls alts a tr, In a alts -> paths inls a tr -> path1 inls (SAlt alts) tr
  | P_loop0 : forall inls b, path1 inls (SLoop b) []
  | P_loopS : forall inls b tr1 tr2, paths inls b tr1 -> path1 inls (SLoop b) tr2 -> path1 inls (SLoop b) (tr1 ++ tr2)
with paths : bool -> list sk -> list (bool * sev) -> Prop :=
  | Ps_nil : forall inls, paths inls [] []
  | Ps_cons : forall inls x r t1 t2, path1 inls x t1 -> paths inls r t2 -> paths inls (x :: r) (t1 ++ t2).

(* "synchronised before use" along a trace: every EData is inside a section or comes after an ELoad *)
Fixpoint loaded_before_data (loaded : bool) (tr : list (bool * sev)) : Prop :=
  match tr with
  | [] => True
  | (inls, ELoad) :: r => loaded_before_data true r
  | (inls, EData) :: r => (loaded = true \/ inls = true) /\ loaded_before_data (loaded || inls) r
  | (inls, _) :: r => loaded_before_data (loaded || inls) r
  end.
