(* Class.v — class descriptors; the concrete table is generated from /repo (Gen/ClassTable.v). *)
From Coq Require Import List ZArith NArith Bool.
From SC Require Import Model.Val Model.Valid.
Import ListNotations.

Inductive bufkind := BufNone | BufSerialized | BufShared.

Record cls := {
  c_name : str;
  c_kind : kind;                 (* KDict or KList *)
  c_backend : nat;               (* index of the _backend string *)
  c_validators : list vname;     (* _all_validators, in order *)
  c_attr : bool;                 (* has AttrDict in its MRO *)
  c_buf : bufkind;
  c_threading : bool;            (* _supports_threading *)
  c_protected : list str;        (* _PROTECTED_KEYS *)
}.

Definition class_table := list cls.

Definition dummy_cls : cls :=
  {| c_name := []; c_kind := KScalar; c_backend := 0; c_validators := []; c_attr := false;
     c_buf := BufNone; c_threading := false; c_protected := [] |}.

Definition get_cls (T : class_table) (c : nat) : cls := nth c T dummy_cls.

(* SyncedCollection._from_base: first class registered for the parent's backend
   whose is_base_type accepts the data (depends on the kind only) *)
Fixpoint find_cls (T : class_table) (backend : nat) (k : kind) (i : nat) : option nat :=
  match T with
  | [] => None
  | c :: T' => if Nat.eqb (c_backend c) backend && kind_eqb (c_kind c) k then Some i
               else find_cls T' backend k (S i)
  end.

Definition child_cls (T : class_table) (parent : nat) (k : kind) : option nat :=
  find_cls T (c_backend (get_cls T parent)) k 0.

(* every backend that has a class has a dict class and a list class *)
Definition wf_registry (T : class_table) : bool :=
  forallb (fun c => match find_cls T (c_backend c) KDict 0, find_cls T (c_backend c) KList 0 with
                    | Some _, Some _ => true
                    | _, _ => false
                    end) T.
