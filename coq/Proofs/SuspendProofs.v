From Coq Require Import List Arith Bool.
From SC Require Import Model.Suspend.
Import ListNotations.

(* executed one at a time, in either order, the writer's update is in the file *)
Lemma serial_reader_first c k v :
  existsb (fun p => Nat.eqb (fst p) k && Nat.eqb (snd p) v)
          (file (run (init c) [RCheckAndRead; RSuspendInc; RMerge; RSuspendDec; WLoad; WMutate k v; WSave])) = true.
Proof.
  cbn. induction c as [|[k' v'] c IH]; cbn.
  - rewrite !Nat.eqb_refl. reflexivity.
  - destruct (Nat.eqb k k') eqn:E; cbn.
    + rewrite !Nat.eqb_refl. reflexivity.
    + rewrite IH. apply orb_true_r.
Qed.

(* D18: the interleaving  reader enters its suspended section — the writer's whole operation — reader merges
   loses the update although the writer returned normally: its load AND its save were skipped, and the
   reader's merge of the stale file content then removes the change from memory *)
Theorem d18_lost_update :
  exists c k v sched,
    sched = [RCheckAndRead; RSuspendInc; WLoad; WMutate k v; WSave; RMerge; RSuspendDec]
    /\ lost (run (init c) sched) k v = true.
Proof. exists [(1, 0)], 7, 9. eexists. split; [reflexivity|]. reflexivity. Qed.
