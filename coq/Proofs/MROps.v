(* MROps.v — the body of every list / dict operation on a tree node is the
   built-in operation on the plain view ([to_base]).  One commutation lemma per
   generic operation of Plain.v ("op on [map f l] = map f of op on [l]"), then
   the two refinement theorems for [in_lop] / [in_dop]. *)
From Coq Require Import List ZArith NArith Bool Lia Arith.
From SC Require Import Model.Val Model.Plain Model.Ops Model.Valid Model.Class Model.Tree Model.Machine.
From SC Require Import Proofs.TreeDefs Proofs.TreeLemmas.
Import ListNotations.

(* ------------------------------------------------------------------ *)
(* results                                                             *)
(* ------------------------------------------------------------------ *)

Definition rmap {A B} (g : A -> B) (r : res A) : res B :=
  match r with Ok a => Ok (g a) | Err e => Err e end.

(* ------------------------------------------------------------------ *)
(* generic list operations commute with map                            *)
(* ------------------------------------------------------------------ *)

Section ListMap.
  Context {A B : Type}.
  Variable f : A -> B.

  Lemma zlen_map (l : list A) : zlen (map f l) = zlen l.
  Proof. unfold zlen. rewrite map_length. reflexivity. Qed.

  Lemma list_get_map (l : list A) i : list_get (map f l) i = rmap f (list_get l i).
  Proof.
    unfold list_get. rewrite zlen_map.
    destruct (norm_idx (zlen l) i) as [j|]; [|reflexivity].
    rewrite nth_error_map. destruct (nth_error l j); reflexivity.
  Qed.

  Lemma set_nth_map (l : list A) j x : set_nth (map f l) j (f x) = map f (set_nth l j x).
  Proof.
    revert j. induction l as [|h t IH]; intros j; cbn [map set_nth].
    - destruct j; reflexivity.
    - destruct j as [|j]; cbn [map]; [reflexivity|]. rewrite IH. reflexivity.
  Qed.

  Lemma del_nth_map (l : list A) j : del_nth (map f l) j = map f (del_nth l j).
  Proof.
    revert j. induction l as [|h t IH]; intros j; cbn [map del_nth].
    - destruct j; reflexivity.
    - destruct j as [|j]; cbn [map]; [reflexivity|]. rewrite IH. reflexivity.
  Qed.

  Lemma list_set_map (l : list A) i x :
    list_set (map f l) i (f x) = rmap (map f) (list_set l i x).
  Proof.
    unfold list_set. rewrite zlen_map.
    destruct (norm_idx (zlen l) i) as [j|]; cbn [rmap]; [|reflexivity].
    rewrite set_nth_map. reflexivity.
  Qed.

  Lemma list_del_map (l : list A) i : list_del (map f l) i = rmap (map f) (list_del l i).
  Proof.
    unfold list_del. rewrite zlen_map.
    destruct (norm_idx (zlen l) i) as [j|]; cbn [rmap]; [|reflexivity].
    rewrite del_nth_map. reflexivity.
  Qed.

  Lemma list_insert_map (l : list A) i x :
    list_insert (map f l) i (f x) = map f (list_insert l i x).
  Proof.
    unfold list_insert. rewrite zlen_map, map_app, firstn_map. cbn [map].
    rewrite skipn_map. reflexivity.
  Qed.

  Lemma list_pop_map (l : list A) i :
    list_pop (map f l) i = rmap (fun p : A * list A => (f (fst p), map f (snd p))) (list_pop l i).
  Proof.
    unfold list_pop. rewrite zlen_map.
    destruct (norm_idx (zlen l) i) as [j|]; [|reflexivity].
    rewrite nth_error_map. destruct (nth_error l j) as [x|]; cbn [option_map rmap fst snd]; [|reflexivity].
    rewrite del_nth_map. reflexivity.
  Qed.

  Section WithProbe.
    Context {C : Type}.
    Variable eqA : A -> C -> bool.
    Variable eqB : B -> C -> bool.
    Hypothesis eq_compat : forall h x, eqB (f h) x = eqA h x.

    Lemma list_remove_map (l : list A) x :
      list_remove eqB (map f l) x = rmap (map f) (list_remove eqA l x).
    Proof.
      induction l as [|h t IH]; cbn [map list_remove rmap]; [reflexivity|].
      rewrite eq_compat. destruct (eqA h x); [reflexivity|].
      rewrite IH. destruct (list_remove eqA t x); reflexivity.
    Qed.

    Lemma list_index_from_map (l : list A) x i :
      list_index_from eqB (map f l) x i = list_index_from eqA l x i.
    Proof.
      revert i. induction l as [|h t IH]; intros i; cbn [map list_index_from]; [reflexivity|].
      rewrite eq_compat. destruct (eqA h x); [reflexivity|]. apply IH.
    Qed.

    Lemma list_index_map (l : list A) x : list_index eqB (map f l) x = list_index eqA l x.
    Proof. apply list_index_from_map. Qed.

    Lemma filter_probe_length (l : list A) x :
      length (filter (fun h => eqB h x) (map f l)) = length (filter (fun h => eqA h x) l).
    Proof.
      induction l as [|h t IH]; cbn [map filter]; [reflexivity|].
      rewrite eq_compat. destruct (eqA h x); cbn [length]; rewrite IH; reflexivity.
    Qed.

    Lemma list_count_map (l : list A) x : list_count eqB (map f l) x = list_count eqA l x.
    Proof. unfold list_count, zlen. rewrite filter_probe_length. reflexivity. Qed.

    Lemma list_contains_map (l : list A) x :
      list_contains eqB (map f l) x = list_contains eqA l x.
    Proof.
      unfold list_contains. induction l as [|h t IH]; cbn [map existsb]; [reflexivity|].
      rewrite eq_compat, IH. reflexivity.
    Qed.
  End WithProbe.

  Lemma pick_map (l : list A) (is : list nat) : pick (map f l) is = map f (pick l is).
  Proof.
    induction is as [|i is IH]; cbn [pick map]; [reflexivity|].
    rewrite nth_error_map. destruct (nth_error l i); cbn [option_map map]; rewrite IH; reflexivity.
  Qed.

  Lemma list_getslice_map (l : list A) s :
    list_getslice (map f l) s = rmap (map f) (list_getslice l s).
  Proof.
    unfold list_getslice. rewrite zlen_map.
    destruct (slice_indices (zlen l) s) as [is|e]; cbn [rmap]; [|reflexivity].
    rewrite pick_map. reflexivity.
  Qed.

  Lemma drop_indices_map (l : list A) is pos :
    drop_indices (map f l) is pos = map f (drop_indices l is pos).
  Proof.
    revert pos. induction l as [|h t IH]; intros pos; cbn [map drop_indices]; [reflexivity|].
    destruct (existsb (Nat.eqb pos) is); cbn [map]; rewrite IH; reflexivity.
  Qed.

  Lemma list_delslice_map (l : list A) s :
    list_delslice (map f l) s = rmap (map f) (list_delslice l s).
  Proof.
    unfold list_delslice. rewrite zlen_map.
    destruct (slice_indices (zlen l) s) as [is|e]; cbn [rmap]; [|reflexivity].
    rewrite drop_indices_map. reflexivity.
  Qed.

  Lemma assign_at_map (l : list A) is vs :
    assign_at (map f l) is (map f vs) = map f (assign_at l is vs).
  Proof.
    revert l vs. induction is as [|i is IH]; intros l vs; cbn [assign_at]; [reflexivity|].
    destruct vs as [|v vs]; cbn [map]; [reflexivity|].
    rewrite set_nth_map. apply IH.
  Qed.

  Lemma list_setslice_map (l : list A) s vs :
    list_setslice (map f l) s (map f vs) = rmap (map f) (list_setslice l s vs).
  Proof.
    unfold list_setslice. rewrite !zlen_map.
    destruct (slice_adjust (zlen l) s) as [[[[start stop] step] cnt]|e]; cbn [rmap]; [|reflexivity].
    destruct (Z.eqb step 1).
    - cbn [rmap]. rewrite !map_app, firstn_map, skipn_map. reflexivity.
    - destruct (Z.eqb (zlen vs) cnt); cbn [rmap]; [|reflexivity].
      rewrite assign_at_map. reflexivity.
  Qed.
End ListMap.

(* ------------------------------------------------------------------ *)
(* generic dict operations commute with mapping the values             *)
(* ------------------------------------------------------------------ *)

Definition dmap {A B} (g : A -> B) (d : list (key * A)) : list (key * B) :=
  map (fun kn : key * A => (fst kn, g (snd kn))) d.

Section DictMap.
  Context {A B : Type}.
  Variable g : A -> B.

  Lemma alookup_dmap k (d : list (key * A)) : alookup k (dmap g d) = option_map g (alookup k d).
  Proof. apply alookup_map. Qed.

  Lemma dict_has_dmap (d : list (key * A)) k : dict_has (dmap g d) k = dict_has d k.
  Proof. unfold dict_has. rewrite alookup_dmap. destruct (alookup k d); reflexivity. Qed.

  Lemma dict_get_dmap (d : list (key * A)) k : dict_get (dmap g d) k = rmap g (dict_get d k).
  Proof. unfold dict_get. rewrite alookup_dmap. destruct (alookup k d); reflexivity. Qed.

  Lemma dict_set_dmap (d : list (key * A)) k v :
    dict_set (dmap g d) k (g v) = dmap g (dict_set d k v).
  Proof.
    unfold dmap. induction d as [|[k' v'] d IH]; cbn [map dict_set fst snd]; [reflexivity|].
    destruct (key_eqb k k'); cbn [map fst snd]; [reflexivity|]. rewrite IH. reflexivity.
  Qed.

  Lemma dict_remove_dmap (d : list (key * A)) k :
    dict_remove (dmap g d) k = dmap g (dict_remove d k).
  Proof.
    unfold dmap. induction d as [|[k' v'] d IH]; cbn [map dict_remove fst snd]; [reflexivity|].
    destruct (key_eqb k k'); cbn [map fst snd]; [reflexivity|]. rewrite IH. reflexivity.
  Qed.

  Lemma dict_del_dmap (d : list (key * A)) k :
    dict_del (dmap g d) k = rmap (dmap g) (dict_del d k).
  Proof.
    unfold dict_del. rewrite dict_has_dmap. destruct (dict_has d k); cbn [rmap]; [|reflexivity].
    rewrite dict_remove_dmap. reflexivity.
  Qed.

  Lemma dict_pop_dmap (d : list (key * A)) k :
    dict_pop (dmap g d) k = (option_map g (fst (dict_pop d k)), dmap g (snd (dict_pop d k))).
  Proof.
    unfold dict_pop. rewrite alookup_dmap.
    destruct (alookup k d); cbn [option_map fst snd]; [|reflexivity].
    rewrite dict_remove_dmap. reflexivity.
  Qed.

  Lemma dict_popitem_dmap (d : list (key * A)) :
    dict_popitem (dmap g d)
    = rmap (fun p : (key * A) * list (key * A) => ((fst (fst p), g (snd (fst p))), dmap g (snd p)))
           (dict_popitem d).
  Proof.
    unfold dict_popitem, dmap. rewrite <- map_rev.
    destruct (rev d) as [|kv r]; cbn [map rmap fst snd]; [reflexivity|].
    rewrite map_rev. reflexivity.
  Qed.

  Lemma dict_keys_dmap (d : list (key * A)) : dict_keys (dmap g d) = dict_keys d.
  Proof. unfold dict_keys, dmap. rewrite map_map. reflexivity. Qed.
End DictMap.

(* ------------------------------------------------------------------ *)
(* from_base and the plain view                                        *)
(* ------------------------------------------------------------------ *)

Lemma from_base_to_base T c v nx n nx1 : from_base T c v nx = (n, nx1) -> to_base n = v.
Proof.
  intros E. pose proof (to_base_from_base T c v nx) as H. rewrite E in H. exact H.
Qed.

Lemma Forall2_to_base_map (vs : list val) (ns : list node) :
  Forall2 (fun v n => to_base n = v) vs ns -> map to_base ns = vs.
Proof.
  intros H. induction H as [|v n vs ns Hv _ IH]; cbn [map]; [reflexivity|].
  rewrite Hv, IH. reflexivity.
Qed.

Lemma map_st_from_base_to_base T c vs nx ns nx1 :
  map_st (from_base T c) vs nx = (ns, nx1) -> map to_base ns = vs.
Proof.
  intros E. apply Forall2_to_base_map.
  eapply map_st_rel_Forall2; [apply map_st_rel_intro; exact E|].
  apply Forall_forall. intros v _ s. apply to_base_from_base.
Qed.

(* iter(node) against iter(plain view of the node) *)
Lemma elems_of_node_spec n :
  match iter_val (to_base n) with
  | Ok vs => exists es, elems_of_node n = Ok es /\ map to_base es = vs
  | Err e => elems_of_node n = Err e
  end.
Proof.
  destruct n as [v|id c kids|id c d]; cbn [to_base elems_of_node].
  - destruct (iter_val v) as [vs|e]; cbn [bind]; [|reflexivity].
    exists (map NV vs). split; [reflexivity|].
    rewrite map_map. cbn [to_base]. apply map_id.
  - cbn [iter_val]. exists kids. split; reflexivity.
  - cbn [iter_val]. eexists. split; [reflexivity|].
    rewrite !map_map. reflexivity.
Qed.

Lemma node_eq_probe_compat h x : veq_py (to_base h) x = node_eq_probe h x.
Proof. reflexivity. Qed.

(* ------------------------------------------------------------------ *)
(* the two refinement theorems                                         *)
(* ------------------------------------------------------------------ *)

Theorem in_lop_refines_plain T id c l o nx :
  match o with LReset _ => False | _ => True end ->
  let '((r, h), n', nx') := in_lop T id c l o nx in
  r = fst (plain_lop (map to_base l) o) /\ to_base n' = VL (snd (plain_lop (map to_base l) o)).
Proof.
  intros Hpre.
  pose proof (fun x : val => @list_index_map node val to_base val node_eq_probe
                (fun h y => veq_py h y) node_eq_probe_compat l x) as Hidx.
  pose proof (fun x : val => @list_count_map node val to_base val node_eq_probe
                (fun h y => veq_py h y) node_eq_probe_compat l x) as Hcnt.
  pose proof (fun x : val => @list_contains_map node val to_base val node_eq_probe
                (fun h y => veq_py h y) node_eq_probe_compat l x) as Hcon.
  pose proof (fun x : val => @list_remove_map node val to_base val node_eq_probe
                (fun h y => veq_py h y) node_eq_probe_compat l x) as Hrem.
  destruct o as [i|s| | | | |v|v|v|v|cm v|i v|s v|i|s|i v|v|v|v|v|i| | |v];
    unfold in_lop, plain_lop, plain_res, elem_res; cbv beta zeta.
  - (* LGet *)
    rewrite list_get_map. destruct (list_get l i) as [n|e]; cbn [rmap fst snd to_base]; auto.
  - (* LGetSlice *)
    rewrite list_getslice_map.
    destruct (list_getslice l s) as [x|e]; cbn [rmap bind fst snd to_base]; auto.
  - (* LLen *) rewrite zlen_map. cbn [fst snd to_base]. auto.
  - (* LCall *) cbn [fst snd to_base]. auto.
  - (* LIter *) cbn [fst snd to_base]. auto.
  - (* LReversed *) cbn [fst snd to_base]. auto.
  - (* LIndex *) rewrite Hidx. cbn [fst snd to_base]. auto.
  - (* LCount *) rewrite Hcnt. cbn [fst snd to_base]. auto.
  - (* LContains *) rewrite Hcon. cbn [fst snd to_base]. auto.
  - (* LEq *) cbn [fst snd to_base]. auto.
  - (* LCmp *) cbn [fst snd to_base]. auto.
  - (* LSet *)
    destruct (from_base T c v nx) as [n nx1] eqn:E.
    apply from_base_to_base in E. subst v.
    rewrite list_set_map. destruct (list_set l i n) as [l'|e]; cbn [rmap fst snd to_base]; auto.
  - (* LSetSlice *)
    destruct (from_base T c v nx) as [n nx1] eqn:E.
    apply from_base_to_base in E. subst v.
    rewrite zlen_map.
    destruct (slice_adjust (zlen l) s) as [q|e]; cbn [bind]; [|cbn [fst snd to_base]; auto].
    pose proof (elems_of_node_spec n) as He.
    destruct (iter_val (to_base n)) as [vs|e].
    + destruct He as [es [He Hm]]. rewrite He. subst vs. cbn [bind].
      rewrite list_setslice_map.
      destruct (list_setslice l s es) as [l'|e]; cbn [rmap fst snd to_base]; auto.
    + rewrite He. cbn [bind fst snd to_base]. auto.
  - (* LDel *)
    rewrite list_del_map. destruct (list_del l i) as [l'|e]; cbn [rmap fst snd to_base]; auto.
  - (* LDelSlice *)
    rewrite list_delslice_map.
    destruct (list_delslice l s) as [l'|e]; cbn [rmap fst snd to_base]; auto.
  - (* LInsert *)
    destruct (from_base T c v nx) as [n nx1] eqn:E.
    apply from_base_to_base in E. subst v.
    rewrite list_insert_map. cbn [fst snd to_base]. auto.
  - (* LAppend *)
    destruct (from_base T c v nx) as [n nx1] eqn:E.
    apply from_base_to_base in E. subst v.
    cbn [fst snd to_base]. rewrite map_app. auto.
  - (* LExtend *)
    destruct (iter_val v) as [vs|e]; cbn [bind]; [|cbn [fst snd to_base]; auto].
    destruct (map_st (from_base T c) vs nx) as [ns nx1] eqn:E.
    apply map_st_from_base_to_base in E. subst vs.
    cbn [fst snd to_base]. rewrite map_app. auto.
  - (* LIAdd *)
    destruct (iter_val v) as [vs|e]; cbn [bind]; [|cbn [fst snd to_base]; auto].
    destruct (map_st (from_base T c) vs nx) as [ns nx1] eqn:E.
    apply map_st_from_base_to_base in E. subst vs.
    cbn [fst snd to_base]. rewrite map_app. auto.
  - (* LRemove *)
    rewrite Hrem.
    destruct (list_remove node_eq_probe l v) as [l'|e]; cbn [rmap fst snd to_base]; auto.
  - (* LPop *)
    rewrite list_pop_map.
    destruct (list_pop l match i with Some z => z | None => (-1)%Z end) as [[n l']|e];
      cbn [rmap fst snd to_base]; auto.
  - (* LReverse *) cbn [fst snd to_base]. rewrite map_rev. auto.
  - (* LClear *) cbn [fst snd to_base map]. auto.
  - (* LReset *) contradiction.
Qed.

Theorem in_dop_refines_plain T id c d o nx :
  match o with
  | DReset _ | DUpdate _ => False
  | DSetdefault k v => validate (validators_of T c) (VD [(k, v)]) = None
  | _ => True end ->
  let '((r, h), n', nx') := in_dop T id c d o nx in
  r = fst (plain_dop (map (fun kn : key * node => (fst kn, to_base (snd kn))) d) o)
  /\ to_base n' = VD (snd (plain_dop (map (fun kn : key * node => (fst kn, to_base (snd kn))) d) o)).
Proof.
  intros Hpre.
  change (map (fun kn : key * node => (fst kn, to_base (snd kn))) d) with (dmap to_base d).
  destruct o as [k|k dflt| | | | | | |k|v|k v|k|k| | |v|k v|v];
    unfold in_dop, plain_dop, plain_res, elem_res; cbv beta zeta;
    change (map (fun kn : key * node => (fst kn, to_base (snd kn))) d) with (dmap to_base d).
  - (* DGet *)
    rewrite dict_get_dmap. destruct (dict_get d k) as [n|e]; cbn [rmap fst snd to_base]; auto.
  - (* DGetDefault *)
    rewrite alookup_dmap. destruct (alookup k d) as [n|]; cbn [option_map fst snd to_base]; auto.
  - (* DLen *) unfold dmap at 1. rewrite zlen_map. cbn [fst snd to_base]. auto.
  - (* DCall *) cbn [fst snd to_base]. auto.
  - (* DIter *) rewrite dict_keys_dmap. cbn [fst snd to_base]. auto.
  - (* DKeys *) rewrite dict_keys_dmap. cbn [fst snd to_base]. auto.
  - (* DValues *) cbn [fst snd to_base]. auto.
  - (* DItems *) cbn [fst snd to_base]. auto.
  - (* DContains *) rewrite dict_has_dmap. cbn [fst snd to_base]. auto.
  - (* DEq *) cbn [fst snd to_base]. auto.
  - (* DSet *)
    destruct (from_base T c v nx) as [n nx1] eqn:E.
    apply from_base_to_base in E. subst v.
    rewrite dict_set_dmap. cbn [fst snd to_base]. auto.
  - (* DDel *)
    rewrite dict_del_dmap. destruct (dict_del d k) as [d'|e]; cbn [rmap fst snd to_base]; auto.
  - (* DPop *)
    rewrite dict_pop_dmap. unfold dict_pop.
    destruct (alookup k d) as [n|]; cbn [option_map fst snd to_base]; auto.
  - (* DPopitem *)
    rewrite dict_popitem_dmap.
    destruct (dict_popitem d) as [[[k n] d']|e]; cbn [rmap fst snd to_base]; auto.
  - (* DClear *) cbn [fst snd to_base map]. auto.
  - (* DUpdate *) contradiction.
  - (* DSetdefault *)
    rewrite alookup_dmap. destruct (alookup k d) as [n|]; cbn [option_map fst snd to_base]; auto.
    rewrite Hpre.
    destruct (from_base T c v nx) as [n nx1] eqn:E.
    apply from_base_to_base in E. subst v.
    rewrite dict_set_dmap. cbn [fst snd to_base]. auto.
  - (* DReset *) contradiction.
Qed.

Print Assumptions in_lop_refines_plain.
Print Assumptions in_dop_refines_plain.
