import json, os, tempfile, sys, traceback, time
sys.path.insert(0, '/repo')
from synced_collections.backends.collection_json import *
from synced_collections.errors import *
d = tempfile.mkdtemp()
def fn(n): return os.path.join(d, n)
def store(f, data):
    with open(f, 'w') as fh: json.dump(data, fh)
    st = os.stat(f); os.utime(f, ns=(st.st_atime_ns, st.st_mtime_ns + 10_000_000))
def disk(f):
    try:
        with open(f) as fh: return json.load(fh)
    except FileNotFoundError: return 'MISSING'
D = MemoryBufferedJSONDict
f1 = fn('cap1.json'); f2 = fn('cap2.json')
for f in (f1,f2): store(f, {'v': 0})
o1 = D(f1); o2 = D(f2)
try:
    with D.buffer_backend(buffer_capacity=1):
        o1['x'] = 1
        store(f1, {'ext': 1})
        try:
            o2['y'] = 1   # forces flush
        except Exception as e:
            print('   forcing op raised', type(e).__name__, [os.path.basename(k) for k in e.files])
        print('  inside: size', D.get_current_buffer_size(), 'buffer', [os.path.basename(k) for k in D._buffer], 'bc', len(D._buffered_collections))
except Exception as e:
    print('  exit raised', type(e).__name__)
print('  after exit: size', D.get_current_buffer_size(), 'buffer', [os.path.basename(k) for k in D._buffer], 'bc', len(D._buffered_collections), 'cap', D.get_buffer_capacity())
print('  disks', disk(f1), disk(f2))
store(f2, {'fresh': 1})
with D.buffer_backend():
    print('  next session o2 reads', o2(), 'disk', disk(f2))
print('  objs', o1(), o2())
print('  after: buffer', [os.path.basename(k) for k in D._buffer], D.get_current_buffer_size())
