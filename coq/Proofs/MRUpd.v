(* PART C — arguments: iter_val / as_mapping on valid data; update() as a merge *)
From Coq Require Import List ZArith NArith Bool Lia Arith.
From SC Require Import Model.Val Model.Plain Model.Ops Model.Valid Model.Class Model.Tree Model.Machine.
From SC Require Import Proofs.TreeDefs Proofs.TreeLemmas Proofs.MachineDefs Proofs.MRPath.
Import ListNotations.

(* ---------- dict_update ---------- *)
Fixpoint lastv {A} (k : key) (o : list (key * A)) : option A :=
  match o with
  | [] => None
  | (k', v) :: o' => match lastv k o' with
                     | Some y => Some y
                     | None => if key_eqb k k' then Some v else None
                     end
  end.

Lemma dict_update_cons {A} (D : list (key * A)) k v o :
  dict_update D ((k, v) :: o) = dict_update (dict_set D k v) o.
Proof. reflexivity. Qed.

Lemma alookup_dict_update_last {A} k (o : list (key * A)) : forall D,
  alookup k (dict_update D o) = match lastv k o with Some y => Some y | None => alookup k D end.
Proof.
  induction o as [|[k' v] o IH]; intros D; cbn [lastv].
  - reflexivity.
  - rewrite dict_update_cons, IH. destruct (lastv k o); [reflexivity|].
    rewrite alookup_dict_set. destruct (key_eqb k k'); reflexivity.
Qed.

Lemma alookup_dict_update {A} k (D o : list (key * A)) :
  alookup k (dict_update D o)
  = match alookup k (dict_update [] o) with Some y => Some y | None => alookup k D end.
Proof.
  rewrite !alookup_dict_update_last. destruct (lastv k o); reflexivity.
Qed.

Lemma keys_unique_dict_update {A} (o : list (key * A)) : forall D,
  keys_unique D = true -> keys_unique (dict_update D o) = true.
Proof.
  induction o as [|[k v] o IH]; intros D H; [exact H|].
  rewrite dict_update_cons. apply IH. apply keys_unique_dict_set. exact H.
Qed.

Lemma Forall_dict_update {A} (Q : key * A -> Prop) (o : list (key * A)) : forall D,
  Forall Q D -> Forall Q o -> Forall Q (dict_update D o).
Proof.
  induction o as [|[k v] o IH]; intros D HD Ho; [exact HD|].
  rewrite dict_update_cons. inversion Ho; subst. apply IH; auto. apply Forall_dict_set; auto.
Qed.

Lemma alookup_app {A} k (a b : list (key * A)) :
  alookup k (a ++ b) = match alookup k a with Some x => Some x | None => alookup k b end.
Proof.
  induction a as [|[k' v] a IH]; cbn [app alookup]; [reflexivity|].
  destruct (key_eqb k k'); [reflexivity|exact IH].
Qed.

Lemma keys_unique_app {A} (a b : list (key * A)) :
  keys_unique a = true -> keys_unique b = true ->
  (forall k x, alookup k a = Some x -> alookup k b = None) ->
  keys_unique (a ++ b) = true.
Proof.
  induction a as [|[k v] a IH]; cbn [app keys_unique]; intros Ha Hb Hd; [exact Hb|].
  destruct (alookup k a) eqn:E; [discriminate|].
  rewrite alookup_app, E. rewrite (Hd k v).
  - apply IH; auto. intros k0 x Hx. apply (Hd k0 x). cbn [alookup].
    destruct (key_eqb k0 k) eqn:E0; [|exact Hx].
    apply key_eqb_eq in E0. subst. congruence.
  - cbn [alookup]. rewrite key_eqb_refl. reflexivity.
Qed.

(* ---------- update_entries ---------- *)
Definition sel_entries {A} (od : list (key * val)) (d : list (key * A)) : list (key * val) :=
  flat_map (fun kn : key * A => match alookup (fst kn) od with
                                | Some v => [(fst kn, v)] | None => [] end) d.

Lemma alookup_sel_entries {A} (od : list (key * val)) (d : list (key * A)) k :
  alookup k (sel_entries od d) = match alookup k d with Some _ => alookup k od | None => None end.
Proof.
  unfold sel_entries. induction d as [|[k' x] d IH]; cbn [flat_map alookup fst].
  - reflexivity.
  - destruct (key_eqb k k') eqn:E.
    + apply key_eqb_eq in E. subst k'. destruct (alookup k od) eqn:E2; cbn [app alookup].
      * rewrite key_eqb_refl. reflexivity.
      * rewrite IH. destruct (alookup k d); auto.
    + destruct (alookup k' od); cbn [app alookup]; rewrite ?E; exact IH.
Qed.

Lemma keys_unique_sel_entries {A} (od : list (key * val)) (d : list (key * A)) :
  keys_unique d = true -> keys_unique (sel_entries od d) = true.
Proof.
  induction d as [|[k' x] d IH]; intros Hu; [reflexivity|].
  cbn [keys_unique] in Hu. destruct (alookup k' d) eqn:E; [discriminate|].
  change (sel_entries od ((k', x) :: d))
    with ((match alookup k' od with Some v => [(k', v)] | None => [] end) ++ sel_entries od d).
  destruct (alookup k' od); cbn [app keys_unique]; [|auto].
  rewrite alookup_sel_entries, E. auto.
Qed.

Lemma update_entries_eq d o :
  update_entries d o = sel_entries (dict_update [] o) d
                       ++ filter (fun kv : key * val => negb (dict_has d (fst kv))) (dict_update [] o).
Proof. reflexivity. Qed.

Lemma alookup_update_entries d o k :
  alookup k (update_entries d o) = alookup k (dict_update [] o).
Proof.
  rewrite update_entries_eq, alookup_app, alookup_sel_entries.
  rewrite (alookup_filter_key (fun k => negb (dict_has d k))). unfold dict_has.
  destruct (alookup k d); cbn [negb].
  - destruct (alookup k (dict_update [] o)); reflexivity.
  - reflexivity.
Qed.

Lemma keys_unique_update_entries d o :
  keys_unique d = true -> keys_unique (update_entries d o) = true.
Proof.
  intros Hd. rewrite update_entries_eq. apply keys_unique_app.
  - apply keys_unique_sel_entries; exact Hd.
  - apply (keys_unique_filter_key (fun k => negb (dict_has d k))).
    apply keys_unique_dict_update. reflexivity.
  - intros k x Hx. rewrite alookup_sel_entries in Hx.
    rewrite (alookup_filter_key (fun k => negb (dict_has d k))). unfold dict_has.
    destruct (alookup k d); [reflexivity|discriminate].
Qed.

Lemma Forall_update_entries (Q : key * val -> Prop) d o :
  Forall Q o -> Forall Q (update_entries d o).
Proof.
  intros Ho. assert (Hod : Forall Q (dict_update [] o)) by (apply Forall_dict_update; auto).
  rewrite update_entries_eq. apply Forall_app. split.
  - unfold sel_entries. apply Forall_forall. intros [k v] Hin. apply in_flat_map in Hin.
    destruct Hin as [[k' x] [_ Hin]]. cbn [fst] in Hin.
    destruct (alookup k' (dict_update [] o)) eqn:E; [|contradiction].
    destruct Hin as [Hin|[]]. inversion Hin; subst.
    apply alookup_In in E. rewrite Forall_forall in Hod. apply Hod; exact E.
  - apply Forall_filter'. exact Hod.
Qed.

(* ---------- update() on a dict node is a merge ---------- *)
Definition tbd (d : list (key * node)) : list (key * val) :=
  map (fun kn : key * node => (fst kn, to_base (snd kn))) d.

Lemma dupdate_ok T b L c d od nx :
  backend_has_both T b = true -> uniform_backend T b L = true ->
  in_backend T b c = true -> val_ok L (VD od) = true ->
  Forall (fun kv : key * val => wf_val (snd kv) = true) od ->
  Forall (nib_entry T b) d -> Forall nku_entry d -> keys_unique d = true ->
  exists d' nx',
    upd_entries T (fun w => upd T w) c (update_entries d od) d nx = (d', nx', None)
    /\ VEq (VD (tbd d')) (VD (dict_update (tbd d) od)).
Proof.
  intros HB HU Hc Hok Hwf Hnib Hnku Hdu.
  apply val_ok_VD in Hok.
  set (dd := update_entries d od).
  assert (Hok' : Forall (fun kv : key * val => key_ok L (fst kv) = true /\ val_ok L (snd kv) = true) dd)
    by (apply Forall_update_entries; exact Hok).
  assert (Hwf' : Forall (fun kv : key * val => wf_val (snd kv) = true) dd)
    by (apply Forall_update_entries; exact Hwf).
  assert (HF : Forall (fun kv : key * val => upd_good T b ((fun w => upd T w) (snd kv)) (snd kv)) dd).
  { rewrite Forall_forall in *. intros x Hx. apply (upd_full T b L HB HU).
    - apply (Hok' x Hx).
    - apply (Hwf' x Hx). }
  destruct (upd_entries_ok T b L HB HU (fun w => upd T w) c dd
              (fun nv n nx => upd_mismatch T nv n nx) HF Hc Hok' Hwf'
              (keys_unique_update_entries d od Hdu) d nx Hnib Hnku Hdu)
    as [d' [nx' [E [B1 [B2 _]]]]].
  exists d', nx'. split; [exact E|].
  assert (Hl : forall k, alookup k dd = alookup k (dict_update [] od))
    by (intros k; apply alookup_update_entries).
  unfold tbd. constructor.
  - intros k x Hx. rewrite (alookup_map to_base) in Hx. rewrite alookup_dict_update, <- Hl.
    destruct (alookup k dd) as [y|] eqn:Ey.
    + destruct (B1 k y Ey) as [n [C1 [C2 _]]]. rewrite C1 in Hx. cbn in Hx.
      inversion Hx; subst. exists y. auto.
    + rewrite (B2 k Ey) in Hx. rewrite (alookup_map to_base). exists x. split; [exact Hx|apply VEq_refl].
  - intros k Hx. rewrite (alookup_map to_base) in Hx. rewrite alookup_dict_update, <- Hl.
    destruct (alookup k dd) as [y|] eqn:Ey.
    + destruct (B1 k y Ey) as [n [C1 _]]. rewrite C1 in Hx. discriminate.
    + rewrite (B2 k Ey) in Hx. rewrite (alookup_map to_base). exact Hx.
Qed.

(* ---------- as_mapping ---------- *)
Lemma pairs_to_dict_wf l : forall dd,
  pairs_to_dict l = Some dd -> forallb wf_val l = true ->
  Forall (fun kv : key * val => wf_val (snd kv) = true) dd.
Proof.
  induction l as [|x l IH]; intros dd H Hwf; cbn [pairs_to_dict] in H.
  - inversion H; constructor.
  - cbn [forallb] in Hwf. apply andb_true_iff in Hwf. destruct Hwf as [Hx Hl].
    destruct x as [s|[|[[| | |f|s|t]|?|?] [|v [|? ?]]]|?]; try discriminate.
    destruct (pairs_to_dict l) as [d0|]; [|discriminate]. inversion H; subst.
    constructor; [|apply IH; auto].
    cbn [snd]. cbn in Hx. rewrite andb_true_r in Hx. exact Hx.
Qed.

Lemma as_mapping_wf v od :
  as_mapping v = Ok od -> wf_val v = true ->
  Forall (fun kv : key * val => wf_val (snd kv) = true) od.
Proof.
  destruct v as [s|l|d]; cbn [as_mapping]; intros H Hwf; try discriminate.
  - destruct (pairs_to_dict l) as [dd|] eqn:E; [|discriminate]. inversion H; subst.
    apply Forall_dict_update; [constructor|]. apply (pairs_to_dict_wf l); auto.
  - inversion H; subst. cbn in Hwf. apply andb_true_iff in Hwf. destruct Hwf as [_ Hwf].
    apply forallb_Forall' in Hwf. exact Hwf.
Qed.

(* ---------- iter_val ---------- *)
Lemma lang3_json_str vs : l_json_leaves (lang3 vs) = true -> l_str_keys (lang3 vs) = true.
Proof.
  induction vs as [|n vs IH]; cbn; intros H; [discriminate|].
  destruct n; reflexivity.
Qed.

Lemma val_all_keys_list pl pk (d : list (key * val)) :
  (forall k, pl (match k with KStr s => SStr s | KBad t => SBad t end) = true) ->
  val_all pl pk (VL (map (fun kv : key * val => vkey (fst kv)) d)) = true.
Proof.
  intros H. cbn [val_all]. apply forallb_forall. intros x Hx. apply in_map_iff in Hx.
  destruct Hx as [[k w] [<- _]]. cbn [fst]. specialize (H k). destruct k; exact H.
Qed.

Lemma iter_val_ok vs v l :
  val_ok (lang3 vs) v = true -> iter_val v = Ok l -> val_ok (lang3 vs) (VL l) = true.
Proof.
  intros Hok Hi. destruct v as [s|l0|d]; cbn [iter_val] in Hi.
  - destruct s; try discriminate. inversion Hi; subst.
    apply val_ok_VL. apply Forall_forall. intros x Hx. apply in_map_iff in Hx.
    destruct Hx as [c [<- _]]. unfold val_ok. cbn. rewrite !orb_true_r. reflexivity.
  - inversion Hi; subst. exact Hok.
  - inversion Hi; subst. pose proof (lang3_json_str vs) as HJ.
    unfold val_ok in *. apply andb_true_iff in Hok. destruct Hok as [Hok H3].
    apply andb_true_iff in Hok. destruct Hok as [H1 H2].
    apply andb_true_iff. split; [apply andb_true_iff; split|].
    + apply orb_true_iff. right. apply val_all_keys_list. reflexivity.
    + destruct (l_json_leaves (lang3 vs)); [|reflexivity]. cbn [negb orb].
      rewrite (HJ eq_refl) in H1. cbn [negb orb] in H1.
      unfold json_leaves. cbn [val_all]. apply forallb_forall. intros x Hx. apply in_map_iff in Hx.
      destruct Hx as [[k w] [<- Hin]]. cbn [fst].
      rewrite str_keys_VD in H1. rewrite forallb_forall in H1. specialize (H1 (k, w) Hin).
      cbn [fst] in H1. apply andb_true_iff in H1. destruct H1 as [H1 _].
      destruct k; [reflexivity|discriminate].
    + apply orb_true_iff. right. apply val_all_keys_list. reflexivity.
Qed.
