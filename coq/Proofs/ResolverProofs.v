From Coq Require Import List Arith Bool Lia.
From SC Require Import Model.Resolver.
Import ListNotations.

(* outside the blocklist, every identifier depends on the type only *)
Definition type_determined (r : resolver) : Prop :=
  forall o o', o_ty o = o_ty o' -> blocked r (o_ty o) = false ->
               forall cf, In cf (r_ids r) -> snd cf o = snd cf o'.

Lemma first_match_ext ids o o' :
  (forall cf, In cf ids -> snd cf o = snd cf o') -> first_match ids o = first_match ids o'.
Proof.
  induction ids as [|[c f] ids IH]; intros H; cbn; [reflexivity|].
  pose proof (H (c, f) (or_introl eq_refl)) as Hf. cbn [snd] in Hf. rewrite Hf. destruct (f o'); [reflexivity|].
  apply IH. intros cf Hin. apply H. right; exact Hin.
Qed.

Definition cache_sound (r : resolver) (m : cache) : Prop :=
  forall t e, clookup t m = Some e ->
    blocked r t = false /\ forall o, o_ty o = t -> classify r o = e.

Lemma get_type_sound r m o :
  type_determined r -> cache_sound r m ->
  fst (get_type r m o) = classify r o /\ cache_sound r (snd (get_type r m o)).
Proof.
  intros Htd Hs. unfold get_type. destruct (clookup (o_ty o) m) as [e|] eqn:E.
  - cbn. split; [|exact Hs]. destruct (Hs _ _ E) as [_ H]. symmetry. apply H. reflexivity.
  - cbn. split; [reflexivity|]. destruct (blocked r (o_ty o)) eqn:B; [exact Hs|].
    intros t e H. cbn in H. destruct (Nat.eqb t (o_ty o)) eqn:T.
    + apply Nat.eqb_eq in T. subst t. injection H as <-. split; [exact B|].
      intros o' Ho'. unfold classify. apply first_match_ext. intros cf Hin.
      apply Htd; [exact Ho' | rewrite Ho'; exact B | exact Hin].
    + apply Hs. exact H.
Qed.

Lemma warm_sound r h : type_determined r -> forall m, cache_sound r m ->
  cache_sound r (fold_left (fun m o => snd (get_type r m o)) h m).
Proof.
  intros Htd. induction h as [|o h IH]; intros m Hs; cbn [fold_left]; [exact Hs|].
  apply IH. apply (get_type_sound r m o Htd Hs).
Qed.

Theorem resolver_memo_transparent_l r h o :
  type_determined r -> fst (get_type r (warm r h) o) = classify r o.
Proof.
  intros Htd. apply get_type_sound; [exact Htd|].
  apply warm_sound; [exact Htd|]. intros t e H. discriminate H.
Qed.

(* two histories are indistinguishable for every later query sequence *)

Theorem history_independent_l r h1 h2 qs :
  type_determined r -> answers r (warm r h1) qs = answers r (warm r h2) qs.
Proof.
  intros Htd.
  assert (G : forall qs m, cache_sound r m -> answers r m qs = map (classify r) qs).
  { induction qs0 as [|o qs0 IH]; intros m Hs; cbn; [reflexivity|].
    destruct (get_type_sound r m o Htd Hs) as [A B]. rewrite A. f_equal. apply IH. exact B. }
  assert (S : forall h, cache_sound r (warm r h)).
  { intros h. apply warm_sound; [exact Htd|]. intros t e H. discriminate H. }
  rewrite (G qs _ (S h1)), (G qs _ (S h2)). reflexivity.
Qed.

(* without the blocklist the memo is NOT transparent: a witness *)
Example memo_needs_blocklist :
  exists r h o, fst (get_type r (warm r h) o) <> classify r o.
Proof.
  exists {| r_ids := [(1, fun o => Nat.eqb (o_inst o) 0)]; r_block := [] |},
         [ {| o_ty := 5; o_inst := 0 |} ], {| o_ty := 5; o_inst := 1 |}.
  cbn. discriminate.
Qed.
