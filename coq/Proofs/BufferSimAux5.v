(* BufferSimAux5.v — coherent_strong implies coherent, holds initially, and is preserved by entering and
   leaving contexts, creating objects and changing the capacity (S3, S5). *)
From Coq Require Import List ZArith NArith Bool Lia Arith.
From SC Require Import Model.Val Model.Plain Model.Ops Proofs.TreeDefs Proofs.TreeBase Model.Buffer Proofs.BufferDefs.
From SC Require Import Corr.KBuf.
From SC Require Import Proofs.BufferSimAux1 Proofs.BufferSimAux2 Proofs.BufferSimAux3 Proofs.BufferSimAux4.
Import ListNotations.
Local Open Scope Z_scope.

Theorem coherent_strong_coherent strat blen s : coherent_strong strat blen s -> coherent strat blen s.
Proof.
  intros (C & R & Hs). unfold coherent.
  split; [exact (c_acct _ _ _ C)|]. split; [exact R|]. split; [exact (c_stack _ _ _ C)|]. split; [exact Hs|].
  split; [exact (c_wf _ _ _ C)|]. split; [|intros; exact I].
  intros f e He. destruct (c_ent _ _ _ C f e He) as [M [d [Hd Hv]]]. split; [exact M|]. exists d. split; [exact Hd|].
  unfold entry_modified, entry_content. destruct strat.
  - intros Hm. apply negb_false_iff in Hm. eapply VEq_trans; [apply veq_text_VEq; exact Hm|exact Hv].
  - exact Hv.
Qed.

Theorem coherent_strong_init strat blen cap : 0 <= cap -> coherent_strong strat blen (b_init cap).
Proof.
  intros Hc. split; [|split].
  - constructor.
    + split; [rewrite expected_size_esum; reflexivity|constructor].
    + split; [exact Hc|intros c []].
    + split; [intros f v st H; discriminate|]. split; [intros l v H; discriminate|intros f e H; discriminate].
    + intros f e H. discriminate.
    + intros oid o H. discriminate.
    + intros oid [].
    + intros _. exists (fun _ => 0%nat). split; [intros oid o H; discriminate|intros f e H; discriminate].
  - intros f e H. discriminate.
  - exact Hc.
Qed.

Definition no_exn (r : bres) : Prop := forall x, r <> BExn x.

Lemma is_buffered_set_buf_other s oid n w : w <> oid -> is_buffered (set_buf s oid n) w = is_buffered s w.
Proof.
  intros H. unfold is_buffered. rewrite get_obj_set_buf. apply Nat.eqb_neq in H. rewrite H. reflexivity.
Qed.
Lemma ostable_file_set_buf s oid n w : bo_file (get_obj (set_buf s oid n) w) = bo_file (get_obj s w).
Proof.
  rewrite get_obj_set_buf. destruct (Nat.eqb w oid) eqn:E; [|reflexivity]. apply Nat.eqb_eq in E. subst. reflexivity.
Qed.
Lemma known_set_buf s oid n w : known_obj s w -> known_obj (set_buf s oid n) w.
Proof.
  intros [o Ho]. unfold known_obj, set_buf. prj. rewrite nlookup_nset. destruct (Nat.eqb w oid); eauto.
Qed.

(* ------------------------------------------------------------------ *)
(* creating an object                                                  *)
(* ------------------------------------------------------------------ *)
Definition new_state (s : bstate) (oid f : nat) (k : kind) : bstate :=
  {| b_files := b_files s; b_clock := b_clock s; b_writes := b_writes s;
     b_heap := nset (b_nloc s) (empty_of k) (b_heap s); b_nloc := S (b_nloc s);
     b_objs := nset oid {| bo_file := f; bo_loc := b_nloc s; bo_buf := 0; bo_kind := k |} (b_objs s);
     b_buffer := b_buffer s; b_size := b_size s; b_cap := b_cap s; b_stack := b_stack s;
     b_ctx := b_ctx s; b_bcs := b_bcs s; b_forced := b_forced s |}.

Lemma T_new strat blen s oid f k :
  coherent_strong strat blen s -> nlookup oid (b_objs s) = None -> read_disk s f <> None ->
  coherent_strong strat blen (new_state s oid f k) /\ leq strat s (new_state s oid f k).
Proof.
  intros (C & R & Hs) Hn Hd.
  assert (HA : strat = Shm -> forall g e, nlookup g (b_buffer s) = Some e ->
               heap_at (new_state s oid f k) (e_loc e) = heap_at s (e_loc e)).
  { intros E g e He. destruct (c_locs _ _ _ C E) as [own [L1 L2]]. destruct (L2 g e He) as (_ & P2 & _).
    unfold heap_at, new_state. prj. rewrite nlookup_nset.
    destruct (Nat.eqb (e_loc e) (b_nloc s)) eqn:El; [apply Nat.eqb_eq in El; lia|reflexivity]. }
  assert (HG : forall w, w <> oid -> get_obj (new_state s oid f k) w = get_obj s w).
  { intros w Hw. unfold get_obj, new_state. prj. rewrite nlookup_nset. apply Nat.eqb_neq in Hw. rewrite Hw. reflexivity. }
  split; [split; [|split]|].
  - constructor; try (frame C).
    + destruct (c_wf _ _ _ C) as (W1 & W2 & W3). split; [exact W1|]. split; [|exact W3].
      unfold new_state. prj. intros l v. rewrite nlookup_nset. destruct (Nat.eqb l (b_nloc s)).
      * intros E. inversion E; subst. apply empty_of_wf.
      * apply W2.
    + intros g e He. change (b_buffer (new_state s oid f k)) with (b_buffer s) in He.
      destruct (c_ent _ _ _ C g e He) as [M [d [Hd' Hv]]]. split; [exact M|]. exists d. split; [exact Hd'|].
      destruct strat; [exact Hv|]. rewrite (HA eq_refl g e He). exact Hv.
    + intros x ox. unfold new_state. prj. rewrite nlookup_nset. destruct (Nat.eqb x oid).
      * intros E. inversion E; subst. exact Hd.
      * intros Hx. change (read_disk s (bo_file ox) <> None). eapply (c_disk _ _ _ C); eauto.
    + intros x Hx. apply (c_known _ _ _ C) in Hx. destruct Hx as [ox Hox]. unfold known_obj, new_state. prj.
      rewrite nlookup_nset. destruct (Nat.eqb x oid); eauto.
    + intros E. destruct (c_locs _ _ _ C E) as [own [L1 L2]].
      exists (fun l => if Nat.eqb l (b_nloc s) then f else own l). split.
      * unfold new_state. prj. intros x ox. rewrite nlookup_nset. destruct (Nat.eqb x oid).
        -- intros E'. inversion E'; subst ox. cbn [bo_file bo_loc]. rewrite Nat.eqb_refl. split; [reflexivity|lia].
        -- intros Hx. destruct (L1 _ _ Hx) as [P1 P2].
           destruct (Nat.eqb (bo_loc ox) (b_nloc s)) eqn:El; [apply Nat.eqb_eq in El; lia|]. split; [exact P1|lia].
      * unfold new_state. prj. intros g e He. destruct (L2 _ _ He) as (P1 & P2 & P3).
        destruct (Nat.eqb (e_loc e) (b_nloc s)) eqn:El; [apply Nat.eqb_eq in El; lia|].
        split; [exact P1|]. split; [lia|]. rewrite nlookup_nset, El. exact P3.
  - intros g e He. destruct (R g e He) as (w & A & B & D). exists w.
    assert (Hw : w <> oid).
    { intros ->. apply (c_known _ _ _ C) in A. destruct A as [ox Hox]. congruence. }
    split; [exact A|]. unfold is_buffered. rewrite (HG w Hw). split; [exact B|exact D].
  - exact Hs.
  - intros g. unfold logical. change (b_buffer (new_state s oid f k)) with (b_buffer s).
    destruct (nlookup g (b_buffer s)) as [e|] eqn:He; [|apply lrel_refl].
    unfold entry_content. destruct strat; [apply lrel_refl|]. rewrite (HA eq_refl g e He). apply lrel_refl.
Qed.

(* ------------------------------------------------------------------ *)
(* S5                                                                  *)
(* ------------------------------------------------------------------ *)
Theorem admin_preserves_aux strat blen (Hb : blen_ok blen) s op s' r :
  coherent_strong strat blen s ->
  match op with BEnterObj _ | BEnterCls _ | BSetCap _ | BNew _ _ _ => True | _ => False end ->
  op_caps_ok op ->
  (forall oid f k, op = BNew oid f k -> nlookup oid (b_objs s) = None /\ read_disk s f <> None) ->
  (forall oid, op = BEnterObj oid -> known_obj s oid) ->
  bstep_fn strat blen s op = (s', r) ->
  coherent_strong strat blen s' /\ no_exn r /\ leq strat s s'.
Proof.
  intros CS Hop Hcap Hnew Hent H. pose proof CS as (C & R & Hs).
  destruct op as [oid f k| | |oid| |cap| |n]; try contradiction; cbn [bstep_fn] in H.
  - (* BNew *)
    destruct (Hnew oid f k eq_refl) as [N1 N2]. inversion H; subst s' r. clear H.
    destruct (T_new strat blen s oid f k CS N1 N2) as [A B]. split; [exact A|]. split; [intros x; discriminate|exact B].
  - (* BEnterObj *)
    destruct (Hent oid eq_refl) as [o Ho]. inversion H; subst s' r. clear H.
    split; [|split; [intros x; discriminate|apply leq_ext; reflexivity]].
    split; [eapply T_set_buf; eauto|]. split; [|exact Hs].
    intros g e He. destruct (R g e He) as (w & A & B & D). exists w. split; [exact A|].
    split; [rewrite ostable_file_set_buf; exact B|].
    destruct (Nat.eq_dec w oid) as [->|Hne]; [|rewrite is_buffered_set_buf_other; auto].
    unfold is_buffered. rewrite get_obj_set_buf, Nat.eqb_refl. reflexivity.
  - (* BEnterCls *)
    assert (R1 : reg_inv (upd_ctx s (S (b_ctx s)))).
    { intros g e He. destruct (R g e He) as (w & A & B & D). exists w. split; [exact A|]. split; [exact B|].
      unfold is_buffered. prj. apply orb_true_r. }
    destruct cap as [c|].
    + cbn [op_caps_ok] in Hcap.
      set (s2 := upd_stack (upd_ctx s (S (b_ctx s))) (Some (b_cap (upd_ctx s (S (b_ctx s)))) :: b_stack (upd_ctx s (S (b_ctx s))))) in *.
      assert (C2 : core strat blen s2).
      { apply T_stack; [apply T_ctx; exact C|]. destruct (c_stack _ _ _ C) as [S1 S2].
        intros c' [E|Hin]; [inversion E; subst; exact S1|apply S2; exact Hin]. }
      destruct (set_capacity strat blen s2 c) as [s3 x] eqn:E.
      destruct (set_capacity_spec strat blen s2 c s3 x Hb C2 R1 Hs Hcap E) as (-> & I2 & I3 & I4 & I5).
      inversion H; subst s' r. split; [exact I2|]. split; [intros x; discriminate|].
      eapply leq_trans; [apply (leq_ext strat s s2); reflexivity|exact I3].
    + inversion H; subst s' r. clear H. split; [|split; [intros x; discriminate|apply leq_ext; reflexivity]].
      split; [|split; [exact R1|exact Hs]].
      apply T_stack; [apply T_ctx; exact C|]. destruct (c_stack _ _ _ C) as [S1 S2].
      intros c' [E|Hin]; [discriminate|apply S2; exact Hin].
  - (* BSetCap *)
    cbn [op_caps_ok] in Hcap.
    destruct (set_capacity strat blen s n) as [s3 x] eqn:E.
    destruct (set_capacity_spec strat blen s n s3 x Hb C R Hs Hcap E) as (-> & I2 & I3 & I4 & I5).
    inversion H; subst s' r. split; [exact I2|]. split; [intros x; discriminate|exact I3].
Qed.

(* ------------------------------------------------------------------ *)
(* S3                                                                  *)
(* ------------------------------------------------------------------ *)
Theorem exit_obj_preserves strat blen (Hb : blen_ok blen) s oid s' r :
  coherent_strong strat blen s -> known_obj s oid ->
  bstep_fn strat blen s (BExitObj oid) = (s', r) ->
  coherent_strong strat blen s' /\ no_exn r /\ leq strat s s'.
Proof.
  intros (C & R & Hs) [o Ho] H. cbn [bstep_fn] in H. cbv zeta in H.
  set (n := Nat.pred (bo_buf (get_obj s oid))) in *.
  pose proof (T_set_buf strat blen s oid o n C Ho) as C1.
  set (s1 := set_buf s oid n) in *.
  assert (L1 : leq strat s s1) by (apply leq_ext; reflexivity).
  assert (F1 : forall w, bo_file (get_obj s1 w) = bo_file (get_obj s w)) by (intros w; apply ostable_file_set_buf).
  assert (F2 : forall w, w <> oid -> is_buffered s1 w = is_buffered s w) by (intros w; apply is_buffered_set_buf_other).
  assert (F3 : is_buffered s1 oid = Nat.ltb 0 n || Nat.ltb 0 (b_ctx s)).
  { unfold is_buffered, s1. rewrite get_obj_set_buf, Nat.eqb_refl. reflexivity. }
  destruct (Nat.eqb n 0) eqn:En.
  - apply Nat.eqb_eq in En.
    destruct (flush_one strat blen s1 oid false) as [s2 x] eqn:E.
    destruct (flush_one_spec strat blen s1 oid false s2 x Hb C1 (known_set_buf s oid n oid (ex_intro _ o Ho)) E) as [-> P].
    inversion H; subst s' r. clear H.
    pose proof (fo_stable _ _ _ _ _ _ P) as St.
    split; [|split; [intros x; discriminate|eapply leq_trans; [exact L1|exact (fo_leq _ _ _ _ _ _ P)]]].
    split; [exact (fo_core _ _ _ _ _ _ P)|]. split.
    + intros g e2 He2.
      assert (Wit : forall e, nlookup g (b_buffer s) = Some e -> (g <> bo_file (get_obj s1 oid) \/ Nat.ltb 0 (b_ctx s) = true) ->
                    exists w, In w (b_bcs s2) /\ bo_file (get_obj s2 w) = g /\ is_buffered s2 w = true).
      { intros e He Hc. destruct (R g e He) as (w & A & B & D). exists w.
        split; [rewrite (fo_bcs _ _ _ _ _ _ P); exact A|].
        split; [rewrite (ostable_file _ _ w St), F1; exact B|].
        rewrite (ostable_buffered _ _ w St). destruct Hc as [Hc|Hc].
        - rewrite F2; [exact D|]. intros ->. apply Hc. rewrite F1. symmetry. exact B.
        - unfold is_buffered. change (b_ctx s1) with (b_ctx s). rewrite Hc. apply orb_true_r. }
      destruct (Nat.eq_dec g (bo_file (get_obj s1 oid))) as [->|Hne].
      * pose proof (fo_own _ _ _ _ _ _ P) as PO. rewrite orb_false_r in PO.
        destruct (is_buffered s1 oid) eqn:Eb1; cbn [negb] in PO.
        -- rewrite PO in He2. apply (Wit e2 He2). right.
           rewrite En in F3. symmetry. exact F3.
        -- rewrite He2 in PO. destruct PO as (_ & PF & _). discriminate.
      * rewrite (fo_other _ _ _ _ _ _ P g Hne) in He2. apply (Wit e2 He2). left. exact Hne.
    + pose proof (fo_size _ _ _ _ _ _ P) as Sz. rewrite (fo_cap _ _ _ _ _ _ P).
      change (b_size s1) with (b_size s) in Sz. change (b_cap s1) with (b_cap s). lia.
  - inversion H; subst s' r. clear H. split; [|split; [intros x; discriminate|exact L1]].
    split; [exact C1|]. split; [|exact Hs].
    intros g e He. destruct (R g e He) as (w & A & B & D). exists w. split; [exact A|].
    split; [rewrite F1; exact B|].
    destruct (Nat.eq_dec w oid) as [->|Hne]; [|rewrite F2; auto].
    rewrite F3. apply Nat.eqb_neq in En. destruct n; [congruence|reflexivity].
Qed.

Theorem exit_cls_preserves strat blen (Hb : blen_ok blen) s s' r :
  coherent_strong strat blen s ->
  bstep_fn strat blen s BExitCls = (s', r) ->
  coherent_strong strat blen s' /\ no_exn r /\ leq strat s s'.
Proof.
  intros (C & R & Hs) H. cbn [bstep_fn] in H. cbv zeta in H.
  set (s1 := upd_ctx s (Nat.pred (b_ctx s))) in *.
  pose proof (T_ctx strat blen s (Nat.pred (b_ctx s)) C) as C1. fold s1 in C1.
  assert (Step1 : exists s2, (if Nat.eqb (b_ctx s1) 0 then flush_buffer strat blen s1 false else (s1, None)) = (s2, None)
                 /\ core strat blen s2 /\ reg_inv s2 /\ leq strat s s2 /\ b_cap s2 = b_cap s /\ b_stack s2 = b_stack s
                 /\ b_size s2 <= b_size s).
  { destruct (Nat.eqb (b_ctx s1) 0) eqn:E0.
    - destruct (flush_buffer strat blen s1 false) as [s2 x] eqn:E.
      assert (HH : held s1 false).
      { intros g e He. destruct (R g e He) as (w & A & B & D). exists w. split; [exact A|]. split; [exact B|discriminate]. }
      destruct (flush_buffer_spec strat blen s1 false s2 x Hb C1 HH E) as (-> & I2 & I3 & I4 & I5 & I6 & I7 & I8 & I9).
      exists s2. split; [reflexivity|]. split; [exact I2|]. split; [exact I3|].
      split; [eapply leq_trans; [apply (leq_ext strat s s1); reflexivity|exact I4]|]. auto.
    - exists s1. split; [reflexivity|]. split; [exact C1|]. split.
      + intros g e He. destruct (R g e He) as (w & A & B & D). exists w. split; [exact A|]. split; [exact B|].
        unfold is_buffered. apply Nat.eqb_neq in E0. destruct (b_ctx s1); [congruence|]. apply orb_true_r.
      + split; [apply leq_ext; reflexivity|]. split; [reflexivity|]. split; [reflexivity|]. change (b_size s1) with (b_size s). lia. }
  destruct Step1 as (s2 & E2 & C2 & R2 & L2 & Cap2 & St2 & Sz2). rewrite E2 in H.
  set (s3 := upd_stack s2 (tl (b_stack s2))) in *.
  destruct (c_stack _ _ _ C) as [S1 S2].
  assert (C3 : core strat blen s3).
  { apply T_stack; [exact C2|]. rewrite St2. intros c Hin. apply S2. destruct (b_stack s); [destruct Hin|right; exact Hin]. }
  assert (R3 : reg_inv s3) by exact R2.
  assert (Sz3 : b_size s3 <= b_cap s3) by (change (b_size s2 <= b_cap s2); lia).
  assert (L3 : leq strat s s3) by (eapply leq_trans; [exact L2|apply leq_ext; reflexivity]).
  destruct (match b_stack s2 with o :: _ => o | [] => None end) as [c|] eqn:Eo.
  - assert (Hc : 0 <= c).
    { apply S2. rewrite <- St2. destruct (b_stack s2); [discriminate|]. subst. left. reflexivity. }
    destruct (set_capacity strat blen s3 c) as [s4 x2] eqn:E4.
    destruct (set_capacity_spec strat blen s3 c s4 x2 Hb C3 R3 Sz3 Hc E4) as (-> & I2 & I3 & I4 & I5).
    inversion H; subst s' r. split; [exact I2|]. split; [intros x; discriminate|]. eapply leq_trans; eauto.
  - inversion H; subst s' r. split; [split; [exact C3|split; [exact R3|exact Sz3]]|].
    split; [intros x; discriminate|exact L3].
Qed.

(* ------------------------------------------------------------------ *)
(* an outside writer touching a file that is not in the buffer (e.g. creating it) *)
(* ------------------------------------------------------------------ *)
Theorem ext_unbuffered_preserves strat blen s f v s' r :
  coherent_strong strat blen s -> nlookup f (b_buffer s) = None -> wf_val v = true ->
  bstep_fn strat blen s (BExt f v) = (s', r) ->
  coherent_strong strat blen s' /\ no_exn r /\ leq_except strat f s s' /\ logical strat s' f = Some v.
Proof.
  intros (C & R & Hs) Hn Wv H. cbn [bstep_fn] in H. inversion H; subst s' r. clear H.
  split; [split; [|split; [exact R|exact Hs]]|split; [intros x; discriminate|split]].
  - constructor; try (frame C).
    + destruct (c_wf _ _ _ C) as (W1 & W2 & W3). split; [|split; [exact W2|exact W3]].
      unfold write_disk_raw. prj. intros g w st. rewrite nlookup_nset.
      destruct (Nat.eqb g f); [intros E; inversion E; subst; exact Wv|apply W1].
    + intros g e He. change (b_buffer (write_disk_raw s f v)) with (b_buffer s) in He.
      assert (Hne : g <> f) by (intros ->; congruence).
      destruct (c_ent _ _ _ C g e He) as [M [d [Hd Hv]]]. unfold ent1.
      rewrite stamp_write_raw, read_disk_write_raw. apply Nat.eqb_neq in Hne. rewrite Hne.
      split; [exact M|]. exists d. split; [exact Hd|exact Hv].
    + intros oid o Ho. change (b_objs (write_disk_raw s f v)) with (b_objs s) in Ho.
      rewrite read_disk_write_raw. destruct (Nat.eqb (bo_file o) f); [discriminate|]. eapply (c_disk _ _ _ C); eauto.
  - intros g Hg. unfold logical. change (b_buffer (write_disk_raw s f v)) with (b_buffer s).
    destruct (nlookup g (b_buffer s)); [apply lrel_refl|].
    rewrite read_disk_write_raw. apply Nat.eqb_neq in Hg. rewrite Hg. apply lrel_refl.
  - unfold logical. change (b_buffer (write_disk_raw s f v)) with (b_buffer s). rewrite Hn.
    rewrite read_disk_write_raw, Nat.eqb_refl. reflexivity.
Qed.
