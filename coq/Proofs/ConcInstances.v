(* ConcInstances.v — the generic serializability theorem instantiated with the sequential machines:
   the bodies of the lock-protected operations are the actual step functions of Buffer.v / Machine.v. *)
From Coq Require Import List Arith ZArith Bool.
From SC Require Import Model.Val Model.Ops Model.Class Model.Tree Model.Machine Model.Buffer Model.Conc.
From SC Require Import Proofs.ConcMutex.
Import ListNotations.

(* ---- buffered classes: one lock (the class-wide buffer lock), the component is the whole buffer machine *)
Section BufInstance.
  Variable strat : strategy.
  Variable blen : val -> Z.

  Definition buf_op (op : bop) : opd bstate bres (option bres) :=
    mkop bstate bres (option bres) 0 None
         [fun st => let (s', r) := bstep_fn strat blen (fst st) op in (s', Some r)]
         (fun lc => match lc with Some r => r | None => BBad end).

  Lemma run_op_buf op (s : nat -> bstate) :
    fst (run_op bstate bres (option bres) (buf_op op) s) 0 = fst (bstep_fn strat blen (s 0) op)
    /\ snd (run_op bstate bres (option bres) (buf_op op) s) = snd (bstep_fn strat blen (s 0) op).
  Proof.
    unfold run_op, buf_op, run_steps, fupd. cbn.
    destruct (bstep_fn strat blen (s 0) op) as [s' r]. cbn. split; reflexivity.
  Qed.

  (* the state reached by the serial execution of a log of buffer operations is brun of those operations *)
  Fixpoint log_ops (l : list (nat * opd bstate bres (option bres))) (ops : list bop) : Prop :=
    match l, ops with
    | [], [] => True
    | (_, o) :: l', op :: ops' => o = buf_op op /\ log_ops l' ops'
    | _, _ => False
    end.

  Lemma serial_is_brun : forall l ops (s : nat -> bstate),
    log_ops l ops ->
    fst (serial bstate bres (option bres) l s) 0
    = fold_left (fun st op => fst (bstep_fn strat blen st op)) ops (s 0).
  Proof.
    induction l as [|[t o] l IH]; intros [|op ops] s H; cbn in H; try contradiction; [reflexivity|].
    destruct H as [-> H]. cbn [serial fst fold_left].
    rewrite (IH ops _ H). f_equal. apply (proj1 (run_op_buf op s)).
  Qed.

  (* C13: whatever the schedule of the threads' buffered operations, once no lock is held the buffer machine
     is in the state reached by executing the completed operations one at a time in their release order *)
  Theorem buffered_threads_serial (s0 : bstate) (ths : nat -> list bop) (sched : list nat) :
    let T := fun t => map buf_op (ths t) in
    let c := exec bstate bres (option bres) (init_config bstate bres (option bres) (fun _ => s0) T) sched in
    quiescent bstate bres (option bres) c ->
    forall ops, log_ops (log bstate bres (option bres) c) ops ->
      sh bstate bres (option bres) c 0 = fold_left (fun st op => fst (bstep_fn strat blen st op)) ops s0.
  Proof.
    intros T c Hq ops Hl.
    destruct (mutex_serializable bstate bres (option bres) (fun _ => s0) T sched Hq) as [Hs _].
    fold c in Hs. rewrite (Hs 0). apply (serial_is_brun _ ops (fun _ => s0) Hl).
  Qed.
End BufInstance.

(* ---- unbuffered classes: one lock per resource; each operation's body is Machine.step on the whole machine
   state restricted to objects of that resource; we state the single-resource instance *)
Section MachInstance.
  Variable T : class_table.

  Definition mach_op (op : mop) : opd mstate mresult (option mresult) :=
    mkop mstate mresult (option mresult) 0 None
         [fun st => let (s', r) := step T (fst st) op in (s', Some r)]
         (fun lc => match lc with Some r => r | None => MBad end).

  Fixpoint mlog_ops (l : list (nat * opd mstate mresult (option mresult))) (ops : list mop) : Prop :=
    match l, ops with
    | [], [] => True
    | (_, o) :: l', op :: ops' => o = mach_op op /\ mlog_ops l' ops'
    | _, _ => False
    end.

  Lemma mserial_is_run : forall l ops (s : nat -> mstate),
    mlog_ops l ops ->
    fst (serial mstate mresult (option mresult) l s) 0 = fold_left (fun st op => fst (step T st op)) ops (s 0).
  Proof.
    induction l as [|[t o] l IH]; intros [|op ops] s H; cbn in H; try contradiction; [reflexivity|].
    destruct H as [-> H]. cbn [serial fst fold_left].
    rewrite (IH ops _ H). f_equal.
    unfold run_op, mach_op, run_steps, fupd. cbn. destruct (step T (s 0) op) as [s' r]. reflexivity.
  Qed.

  (* C09: whatever the schedule of the threads' mutators on one file, once the lock is free the machine is in
     the state reached by executing the completed operations one at a time in their release order *)
  Theorem writer_threads_serial (s0 : mstate) (ths : nat -> list mop) (sched : list nat) :
    let P := fun t => map mach_op (ths t) in
    let c := exec mstate mresult (option mresult) (init_config mstate mresult (option mresult) (fun _ => s0) P) sched in
    quiescent mstate mresult (option mresult) c ->
    forall ops, mlog_ops (log mstate mresult (option mresult) c) ops ->
      sh mstate mresult (option mresult) c 0 = fold_left (fun st op => fst (step T st op)) ops s0.
  Proof.
    intros P c Hq ops Hl.
    destruct (mutex_serializable mstate mresult (option mresult) (fun _ => s0) P sched Hq) as [Hs _].
    fold c in Hs. rewrite (Hs 0). apply (mserial_is_run _ ops (fun _ => s0) Hl).
  Qed.
End MachInstance.
