(* C19 — How a value is classified never depends on what was processed before.  Property theorems only. *)
From Coq Require Import List.
From SC Require Import Model.Resolver Proofs.ResolverProofs.
Import ListNotations.

(* whatever values were classified before (any warm-up history h), the memoised resolver answers
   exactly what a fresh one computes from the value itself *)
Theorem C19_resolver_memo_transparent : forall r h o,
  type_determined r -> fst (get_type r (warm r h) o) = classify r o.
Proof. exact resolver_memo_transparent_l. Qed.
Print Assumptions C19_resolver_memo_transparent.

(* any two histories are indistinguishable by any later sequence of classifications *)
Theorem C19_history_independent : forall r h1 h2 qs,
  type_determined r -> answers r (warm r h1) qs = answers r (warm r h2) qs.
Proof. exact history_independent_l. Qed.
Print Assumptions C19_history_independent.

(* the premise is needed (so the theorem is about the blocklist mechanism, not vacuous):
   an identifier that is not determined by the type, with that type cached, gives a wrong answer *)
Theorem C19_refuted_without_blocklist :
  exists r h o, fst (get_type r (warm r h) o) <> classify r o.
Proof. exact memo_needs_blocklist. Qed.
Print Assumptions C19_refuted_without_blocklist.
