"""Seeded generators: JSON values, list ops, dict ops (Ops.v vocabulary) and their
execution on Python objects (built-in or synced)."""
import copy
import random

from common import BAD_KEYS, BAD_VALUES

KEYS = ["a", "b", "c", "k", "", "x y", "é", "\U0001f600", "q\"\\\n", "_p", "_p", "get"]
DOT_KEYS = ["a.b", ".", "x."]
SCALARS = [None, True, False, 0, 1, -1, 2, 7, 2 ** 70, -(2 ** 65), 2 ** 1024, -(10 ** 400) - 7, 2 ** 1023, 0.0, -0.0, 1.0, 2.0, 0.5, -1.5,
           1e308, 5e-324, 1.5e-7, "", "a", "b", "1", "é", "\U0001f600", "q\"\\\n\t", "\ud800"]
SMALL_SCALARS = [None, True, False, 0, 1, 2, 1.0, 0.5, "a", "b", ""]


class G:
    def __init__(self, seed):
        self.r = random.Random(seed)

    def scalar(self, small=False):
        return self.r.choice(SMALL_SCALARS if small else SCALARS)

    def key(self):
        return self.r.choice(KEYS[:5] if self.r.random() < 0.8 else KEYS)

    def value(self, depth=3, small=False):
        """A JSON value; now and then a DAG: one container object referenced from two places (never a cycle)."""
        v = self._value(depth, small)
        if depth >= 2 and isinstance(v, (list, dict)) and self.r.random() < 0.12:
            inner = [c for c in (v.values() if isinstance(v, dict) else v) if isinstance(c, (list, dict))]
            if inner:
                c = self.r.choice(inner)
                if isinstance(v, dict):
                    v[self.r.choice(["k", "c", "dup"])] = c
                    if self.r.random() < 0.5:
                        v["dup2"] = [c, c]
                else:
                    v.append(c)
        return v

    def _value(self, depth=3, small=False):
        r = self.r.random()
        if depth <= 0 or r < 0.45:
            return self.scalar(small)
        if r < 0.72:
            return [self._value(depth - 1, small) for _ in range(self.r.choice([0, 1, 1, 2, 3, 4]))]
        d = {}
        for _ in range(self.r.choice([0, 1, 1, 2, 3])):
            d[self.key()] = self._value(depth - 1, small)
        return d

    def vlist(self, depth=2, maxlen=5, small=False):
        return [self.value(depth, small) for _ in range(self.r.randrange(0, maxlen + 1))]

    def vdict(self, depth=2, maxlen=4, small=False):
        d = {}
        for _ in range(self.r.randrange(0, maxlen + 1)):
            d[self.key()] = self.value(depth, small)
        return d

    def container(self, kind, depth=2, small=False):
        return self.vlist(depth, small=small) if kind == "list" else self.vdict(depth, small=small)

    # -------- invalid data
    def bad_value(self, kinds=("leaf", "key", "dot"), depth=2):
        """A value containing exactly one forbidden item; returns (value, kind)."""
        kind = self.r.choice(kinds)
        if kind == "leaf":
            core = self.r.choice(list(BAD_VALUES.values()))
        elif kind == "key":
            core = {self.r.choice(list(BAD_KEYS.values())): self.scalar(True)}
        else:
            core = {self.r.choice(DOT_KEYS): self.scalar(True)}
        v = core
        for _ in range(self.r.randrange(0, depth + 1)):
            if self.r.random() < 0.5:
                l = self.vlist(1, 2, True)
                l.insert(self.r.randrange(0, len(l) + 1), v)
                v = l
            else:
                d = self.vdict(1, 2, True)
                d[self.r.choice(["z", "w"])] = v
                v = d
        return v, kind

    # -------- ops
    def index(self, n):
        return self.r.choice([0, -1, 1, n - 1, n, -n, -n - 1, n + 1, self.r.randrange(-n - 2, n + 3)])

    def slice_(self, n):
        def c():
            return self.r.choice([None, None, 0, 1, -1, 2, -2, n, -n, n + 1, -n - 1, self.r.randrange(-n - 2, n + 3)])
        step = self.r.choice([None, None, None, 1, 1, 2, -1, -2, 3, -3, 0])
        return slice(c(), c(), step)

    def probe(self, l):
        """A value likely to be in l (for remove/index/count/in)."""
        if l and self.r.random() < 0.7:
            v = copy.deepcopy(self.r.choice(l))
            if self.r.random() < 0.3:
                if v is True:
                    return 1
                if isinstance(v, int) and not isinstance(v, bool):
                    return float(v) if abs(v) < 2 ** 50 else v
            return v
        return self.value(1, True)

    def list_read(self, l):
        n = len(l)
        k = self.r.choice(["LGet", "LGet", "LGetSlice", "LLen", "LCall", "LIter", "LReversed", "LIndex",
                           "LCount", "LContains", "LEq", "LCmp"])
        if k == "LGet":
            return (k, self.index(n))
        if k == "LGetSlice":
            return (k, self.slice_(n))
        if k in ("LIndex", "LCount", "LContains"):
            return (k, self.probe(l))
        if k == "LEq":
            return (k, copy.deepcopy(l) if self.r.random() < 0.5 else self.value(2, True))
        if k == "LCmp":
            other = copy.deepcopy(l)
            r = self.r.random()
            if r < 0.3 and other:
                other[self.r.randrange(len(other))] = self.scalar(True)
            elif r < 0.5:
                other.append(self.scalar(True))
            elif r < 0.6 and other:
                other.pop()
            elif r < 0.7:
                other = self.vlist(1, 3, True)
            return (k, self.r.choice(["<", "<=", ">", ">="]), other)
        return (k,)

    def list_mut(self, l, depth=2):
        n = len(l)
        k = self.r.choice(["LSet", "LSet", "LSetSlice", "LDel", "LDelSlice", "LInsert", "LAppend", "LAppend",
                           "LExtend", "LIAdd", "LRemove", "LPop", "LPop", "LReverse", "LClear", "LReset"])
        if k == "LSet":
            return (k, self.index(n), self.value(depth))
        if k == "LSetSlice":
            s = self.slice_(n)
            r = self.r.random()
            if r < 0.75:
                v = self.vlist(depth - 1, 3)
                if s.step not in (None, 1) and s.step != 0 and self.r.random() < 0.7:
                    cnt = len(range(*s.indices(n)))
                    v = [self.value(depth - 1) for _ in range(cnt)]
            elif r < 0.85:
                v = self.r.choice(["", "ab", 5, None])
            else:
                v = self.vdict(1, 2)
            return (k, s, v)
        if k == "LDel":
            return (k, self.index(n))
        if k == "LDelSlice":
            return (k, self.slice_(n))
        if k == "LInsert":
            return (k, self.index(n), self.value(depth))
        if k == "LAppend":
            return (k, self.value(depth))
        if k in ("LExtend", "LIAdd"):
            r = self.r.random()
            v = self.vlist(depth - 1, 3) if r < 0.8 else self.r.choice(["ab", "", 5, None, {"a": 1}])
            return (k, v)
        if k == "LRemove":
            return (k, self.probe(l))
        if k == "LPop":
            return (k, None if self.r.random() < 0.5 else self.index(n))
        if k == "LReset":
            return (k, self.vlist(depth, 4) if self.r.random() < 0.85 else self.r.choice(["ab", 5, {"a": 1}]))
        return (k,)

    def dkey(self, d):
        if d and self.r.random() < 0.65:
            return self.r.choice(list(d))
        return self.key()

    def dict_read(self, d):
        k = self.r.choice(["DGet", "DGet", "DGetDefault", "DLen", "DCall", "DIter", "DKeys", "DValues", "DItems",
                           "DContains", "DEq"])
        if k in ("DGet", "DContains"):
            return (k, self.dkey(d))
        if k == "DGetDefault":
            # the default may be a container (it must come back as it is and must NOT be stored)
            dflt = self.scalar(True) if self.r.random() < 0.5 else self.r.choice([{}, [], {"d": [1]}, [{"e": 2}]])
            key = self.dkey(d) if self.r.random() < 0.5 else self.r.choice(["absent", "zz_missing"])
            return (k, key, dflt)
        if k == "DEq":
            return (k, copy.deepcopy(d) if self.r.random() < 0.5 else self.value(2, True))
        return (k,)

    def dict_mut(self, d, depth=2):
        k = self.r.choice(["DSet", "DSet", "DSet", "DDel", "DPop", "DPopitem", "DClear", "DUpdate", "DUpdate",
                           "DSetdefault", "DReset"])
        if k == "DSet":
            if self.r.random() < 0.15:
                return (k, self.dkey(d), self.r.choice([None, None, 0, "", [], {}, False]))
            return (k, self.dkey(d), self.value(depth))
        if k in ("DDel", "DPop"):
            return (k, self.dkey(d))
        if k == "DUpdate":
            r = self.r.random()
            if r < 0.75:
                v = {self.dkey(d): self.value(depth) for _ in range(self.r.randrange(0, 4))}
            elif r < 0.9:
                v = [[self.key(), self.value(depth - 1)] for _ in range(self.r.randrange(0, 3))]
            else:
                v = self.r.choice([5, None, [1]])
                if v is None:
                    v = 5
            return (k, v)
        if k == "DSetdefault":
            # often on a key that is present with a falsy value (None, 0, "", [], {}): "present" must not be confused with "truthy"
            falsy = [kk for kk, vv in d.items() if not vv and isinstance(kk, str)]
            if falsy and self.r.random() < 0.5:
                return (k, self.r.choice(falsy), self.value(depth))
            return (k, self.dkey(d), self.value(depth))
        if k == "DReset":
            return (k, self.vdict(depth, 4) if self.r.random() < 0.85 else self.r.choice([[1], 5, "ab"]))
        return (k,)


def retype_leaf(v):
    """The same number as another JSON type (True <-> 1 <-> 1.0), or None if v is not such a leaf."""
    if v is True:
        return 1
    if v is False:
        return 0
    if isinstance(v, int):
        if v in (0, 1):
            return bool(v)
        return float(v) if abs(v) < 2 ** 50 else None
    if isinstance(v, float) and v == int(v) and abs(v) < 2 ** 50:
        return int(v)
    return None


def retype(value, rnd):
    """A deep copy of value in which one leaf has changed its JSON type only; (copy, path) or (None, None)."""
    import copy as _c
    paths = []

    def rec(v, p):
        if isinstance(v, dict):
            for k, x in v.items():
                rec(x, p + (k,))
        elif isinstance(v, list):
            for i, x in enumerate(v):
                rec(x, p + (i,))
        elif retype_leaf(v) is not None:
            paths.append(p)
    rec(value, ())
    if not paths:
        return None, None
    p = rnd.choice(paths)
    out = _c.deepcopy(value)
    cur = out
    for k in p[:-1]:
        cur = cur[k]
    if p:
        cur[p[-1]] = retype_leaf(cur[p[-1]])
    else:
        out = retype_leaf(out)
    return out, p


# ------------------------------------------------------------------ execution on Python objects
def plainify(x):
    """Synced or plain -> plain built-in data (via the object's own _to_base, no load)."""
    if hasattr(x, "_to_base"):
        return x._to_base()
    return x


def apply_lop(obj, op, conv=lambda v: v):
    """Run a list op on a built-in list or a SyncedList; returns a plain result (converted by conv).

    For += the caller must rebind; we call __iadd__ directly."""
    n = op[0]
    if n == "LGet":
        return conv(obj[op[1]])
    if n == "LGetSlice":
        return [conv(x) for x in obj[op[1]]]
    if n == "LLen":
        return len(obj)
    if n == "LCall":
        return obj() if callable(obj) else copy.deepcopy(obj)
    if n == "LIter":
        return [conv(x) for x in iter(obj)]
    if n == "LReversed":
        return [conv(x) for x in reversed(obj)]
    if n == "LIndex":
        return obj.index(op[1])
    if n == "LCount":
        return obj.count(op[1])
    if n == "LContains":
        return op[1] in obj
    if n == "LEq":
        return obj == op[1]
    if n == "LCmp":
        o = op[1]
        return {"<": obj.__lt__, "<=": obj.__le__, ">": obj.__gt__, ">=": obj.__ge__}[o](op[2])
    if n == "LSet":
        obj[op[1]] = op[2]
        return None
    if n == "LSetSlice":
        obj[op[1]] = op[2]
        return None
    if n in ("LDel", "LDelSlice"):
        del obj[op[1]]
        return None
    if n == "LInsert":
        obj.insert(op[1], op[2])
        return None
    if n == "LAppend":
        obj.append(op[1])
        return None
    if n == "LExtend":
        obj.extend(op[1])
        return None
    if n == "LIAdd":
        obj.__iadd__(op[1])
        return None
    if n == "LRemove":
        obj.remove(op[1])
        return None
    if n == "LPop":
        return conv(obj.pop() if op[1] is None else obj.pop(op[1]))
    if n == "LReverse":
        obj.reverse()
        return None
    if n == "LClear":
        obj.clear()
        return None
    if n == "LReset":
        if hasattr(obj, "reset"):
            obj.reset(op[1])
        else:
            if not isinstance(op[1], (list, tuple)):
                raise ValueError("reset")
            obj[:] = op[1]
        return None
    raise ValueError(op)


def apply_dop(obj, op, conv=lambda v: v):
    n = op[0]
    if n == "DGet":
        return conv(obj[op[1]])
    if n == "DGetDefault":
        return conv(obj.get(op[1], op[2]))
    if n == "DLen":
        return len(obj)
    if n == "DCall":
        return obj() if callable(obj) else copy.deepcopy(obj)
    if n == "DIter":
        return list(iter(obj))
    if n == "DKeys":
        return list(obj.keys())
    if n == "DValues":
        return [conv(x) for x in obj.values()]
    if n == "DItems":
        return [[k, conv(v)] for k, v in obj.items()]
    if n == "DContains":
        return op[1] in obj
    if n == "DEq":
        return obj == op[1]
    if n == "DSet":
        obj[op[1]] = op[2]
        return None
    if n == "DDel":
        del obj[op[1]]
        return None
    if n == "DPop":
        return conv(obj.pop(op[1], None))
    if n == "DPopitem":
        k, v = obj.popitem()
        return [k, conv(v)]
    if n == "DClear":
        obj.clear()
        return None
    if n == "DUpdate":
        obj.update(op[1])
        return None
    if n == "DSetdefault":
        return conv(obj.setdefault(op[1], op[2]))
    if n == "DReset":
        if hasattr(obj, "reset"):
            obj.reset(op[1])
        else:
            if not isinstance(op[1], dict):
                raise ValueError("reset")
            obj.clear()
            obj.update(op[1])
        return None
    raise ValueError(op)
