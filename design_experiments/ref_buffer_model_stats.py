import sys, collections
import ref_buffer_model_differential as bufmodel
strategy = sys.argv[1]; n = int(sys.argv[2])
stats = collections.Counter(); bad = 0
orig_run = bufmodel.run
import os
# instrument: wrap `both` results by monkeypatching Model exceptions counters
class CM(bufmodel.Model):
    def flush_buffer(self, force=False):
        stats['flush_buffer_force' if force else 'flush_buffer'] += 1
        try: return super().flush_buffer(force)
        except bufmodel.MBuf: stats['BufferedError'] += 1; raise
    def flush(self, o, force=False):
        try: return super().flush(o, force)
        except bufmodel.MMeta: stats['MetadataError'] += 1; raise
    def write_disk(self, f, v): stats['disk_writes(incl ext)'] += 1; return super().write_disk(f, v)
    def enter_cls(self, cap): stats['enter_cls'] += 1; return super().enter_cls(cap)
    def enter_obj(self, o): stats['enter_obj'] += 1; return super().enter_obj(o)
    def mutate(self, o, fn): stats['mutate'] += 1; return super().mutate(o, fn)
    def read(self, o): stats['read'] += 1; return super().read(o)
    def clear(self, o): stats['clear'] += 1; return super().clear(o)
    def reset(self, o, d): stats['reset'] += 1; return super().reset(o, d)
bufmodel.Model = CM
for seed in range(n):
    r = bufmodel.run(seed, strategy)
    if r:
        bad += 1
        if bad <= 4: print(f'--- seed {seed}: {r[0]}'); print('    ' + '\n    '.join(r[1][-16:]))
print(strategy, 'programs', n, 'mismatching', bad); print(dict(stats))
