(* Resolver.v — utils.AbstractTypeResolver.get_type with its type_map memo and blocklist (C19). *)
From Coq Require Import List Arith Bool.
Import ListNotations.

(* an object is seen through its type and an instance index; identifiers are arbitrary predicates *)
Record pyobj := { o_ty : nat; o_inst : nat }.
Definition cat := nat.
Record resolver := {
  r_ids : list (cat * (pyobj -> bool));    (* abstract_type_identifiers, in order *)
  r_block : list nat;                      (* cache_blocklist (types) *)
}.
Definition cache := list (nat * option cat).   (* type_map *)

Fixpoint first_match (ids : list (cat * (pyobj -> bool))) (o : pyobj) : option cat :=
  match ids with
  | [] => None
  | (c, f) :: ids' => if f o then Some c else first_match ids' o
  end.
Definition classify (r : resolver) (o : pyobj) : option cat := first_match (r_ids r) o.

Fixpoint clookup (t : nat) (m : cache) : option (option cat) :=
  match m with
  | [] => None
  | (t', e) :: m' => if Nat.eqb t t' then Some e else clookup t m'
  end.
Definition blocked (r : resolver) (t : nat) : bool := existsb (Nat.eqb t) (r_block r).

Definition get_type (r : resolver) (m : cache) (o : pyobj) : option cat * cache :=
  match clookup (o_ty o) m with
  | Some e => (e, m)
  | None =>
      let e := classify r o in
      (e, if blocked r (o_ty o) then m else (o_ty o, e) :: m)
  end.

(* a warm-up history *)
Definition warm (r : resolver) (h : list pyobj) : cache :=
  fold_left (fun m o => snd (get_type r m o)) h [].

(* the answers to a sequence of queries, threading the memo *)
Fixpoint answers (r : resolver) (m : cache) (qs : list pyobj) : list (option cat) :=
  match qs with
  | [] => []
  | o :: qs' => fst (get_type r m o) :: answers r (snd (get_type r m o)) qs'
  end.
