#!/bin/bash
# Build the Coq development from files on disk (offline).
cd "$(dirname "$0")"
export PYTHONHASHSEED=0
/venv/bin/python harness/gen_tables.py >/dev/null || exit 1
cd coq && coq_makefile -f _CoqProject -o Makefile >/dev/null && timeout 1800 make -j16 2>&1 | grep -v conda | tail -5
