"""Per-property wiring: which correspondences and oracles decide which property."""
import hashlib
import json
import os
import time

from common import *  # noqa

BASE_TRUST = [
    "Coq 8.16.1 kernel (coqc); vm_compute for generated obligations, witnesses and the correspondence evaluation; no native_compute",
    "hand-written Gallina model (coq/Model/*.v): tied to /repo only on the inputs the correspondence ran",
    "harness/gen_tables.py (class table regenerated from /repo by introspection, fail-closed)",
    "Python harness: fakes for Redis/MongoDB/Zarr stores, stubs for bson/numcodecs, value printers (harness/common.py)",
    "CPython 3.12 semantics of built-in dict/list, `with`, exceptions; json.dumps/loads inverse on JSON values",
]


def short_hash(s):
    return hashlib.sha1(s.encode()).hexdigest()[:12]


class K1Spec:
    """Properties decided on the unbuffered machine: Props/<id>.v + K1 sessions + oracles."""

    def __init__(self, profile, tags, quick=(72, 25), thorough=(3000, 30), classes=None, extra=None, note="", more_profiles=()):
        self.profile, self.tags, self.quick, self.thorough = profile, tags, quick, thorough
        self.more_profiles = list(more_profiles)
        self.classes = classes
        self.extra = extra or []
        self.note = note

    def _classes(self, ns):
        if self.classes is None:
            return ns.all_classes
        return [c for c in ns.all_classes if self.classes(c)]

    def _k1(self, prop, seed, n, steps, name, profile=None):
        import k1
        t = time.time()
        ns = import_library()
        profile = profile or self.profile
        out = k1.run_sessions(profile, seed, n, steps, classes=self._classes(ns))
        bad, diags = k1.check_against_model(out)
        mism = []
        for b, txt in diags:
            m = re.search(r"Some \((\d+), (\d+)\)", txt)
            st = int(m.group(1)) if m else None
            mism.append({"correspondence": "K1 (Corr/K1.v check_case)", "profile": profile, "base_seed": seed,
                         "session": b, "nsessions": n, "nsteps": steps, "meta": out["meta"][b],
                         "first_differing_step": st, "reason_code": int(m.group(2)) if m else None,
                         "steps": out["logs"][b][: (st + 1) if st is not None else 5][-6:]})
        if len(bad) > len(diags):
            mism.append({"correspondence": "K1", "more_mismatching_sessions": bad[len(diags):][:20]})
        fails = []
        for f in out["oracle"]:
            if any(f["oracle"].startswith(t_) for t_ in self.tags) or f["oracle"] == "harness":
                g = dict(f)
                g.update(profile=profile, base_seed=seed, nsessions=n, nsteps=steps,
                         steps=out["logs"][f["session"]][: f["step"] + 1][-8:])
                fails.append(g)
        nontrivial = len({short_hash(c) for c, l in zip(out["cases"], out["logs"]) if len(l) >= 4})
        samples = []
        if out["logs"]:
            samples.append({"class": out["meta"][0]["class"], "steps": out["logs"][0][:6]})
        return {"name": name, "evaluations": sum(len(l) for l in out["logs"]), "distinct_nontrivial": nontrivial,
                "traces": len(out["cases"]), "rule": f"K1 profile {profile}: seeded sessions over all concrete classes; "
                "a session is non-trivial when it has >= 4 recorded steps; distinct by SHA-1 of the recorded trace",
                "model_mismatches": mism, "oracle_failures": fails, "samples": samples, "stats": out["stats"],
                "classes": out["classes"], "wall_s": round(time.time() - t, 1)}

    def run(self, prop, tier, seed):
        n, steps = self.quick if tier == "quick" else self.thorough
        runs = [self._k1(prop, seed, n, steps, f"K1/{self.profile}")]
        for mp in self.more_profiles:
            runs.append(self._k1(prop, seed + 101, max(24, (2 * n) // 3), steps, f"K1/{mp}", profile=mp))
        for fn in self.extra:
            runs.append(fn(prop, tier, seed))
        return runs

    def search(self, prop, tier, seed):
        """Failing-input search: the property oracle on the implementation over a larger, differently seeded sample."""
        import k1
        ns = import_library()
        fails = []
        ev = 0
        for k in range(4):
            prof = ([self.profile] + self.more_profiles)[k % (1 + len(self.more_profiles))]
            out = k1.run_sessions(prof, seed + 7919 * (k + 1), 150, 30, classes=self._classes(ns))
            ev += sum(len(l) for l in out["logs"])
            for f in out["oracle"]:
                if any(f["oracle"].startswith(t_) for t_ in self.tags):
                    g = dict(f)
                    g.update(profile=prof, base_seed=seed + 7919 * (k + 1), nsessions=150, nsteps=30,
                             steps=out["logs"][f["session"]][: f["step"] + 1][-8:])
                    fails.append(g)
            if fails:
                break
        return {"oracle_failures": fails, "evaluations": ev}

    def replay(self, prop, path):
        import k1
        with open(path) as f:
            rp = json.load(f)
        items = rp.get("failures") or [b[1] for b in rp.get("broken", []) if isinstance(b[1], dict)]
        res = {"fails": False, "items": []}
        ns = import_library()
        for it in items:
            if not isinstance(it, dict) or "base_seed" not in it:
                continue
            out = k1.run_sessions(it["profile"], it["base_seed"], it["nsessions"], it["nsteps"], classes=self._classes(ns))
            hit = [f for f in out["oracle"] if f["session"] == it["session"]]
            bad, _ = k1.check_against_model(out)
            res["items"].append({"session": it["session"], "oracle": hit[:3], "model_mismatch": it["session"] in bad})
            if hit or it["session"] in bad:
                res["fails"] = True
        return res

    def trusted_base(self, prop):
        return BASE_TRUST

    def assumptions(self, prop):
        return ["theorems are about the Gallina model; the model is tied to the code by the K1 differential (a sample)",
                "Redis/MongoDB/Zarr are fakes implementing the calls the library makes",
                "a missing resource has no content of its own: the object's in-memory data stands for it"] + ([self.note] if self.note else [])

    def explanation(self, prop):
        return ("Theorems in coq/Props/%s.v over the model (all inputs / histories); model tied to /repo by the K1 "
                "step-by-step differential evaluated inside Coq (vm_compute), property oracle evaluated on the implementation in the same runs." % prop)


def k1_in_buffer(prop, tier, seed):
    """Machine.v (the identity-aware model: retained nested handles, in-place merge) against the buffered classes INSIDE
    buffer_backend(), one object per file, with the buffer entry as the resource and _save_to_buffer calls as the writes;
    nested per-object contexts are entered and left in between (transparent: no model step)."""
    spec = K1Spec("C05k1", ["C0", "C1", "harness"], classes=lambda c: hasattr(c, "buffer_backend"))
    n, steps = (48, 25) if tier == "quick" else (2000, 30)
    r = spec._k1(prop, seed + 17, n, steps, "K1-in-buffer/C05k1")
    r["rule"] = ("K1 sessions run inside buffer_backend() on the 8 buffered classes (one object per file, the buffer entry is the "
                 "resource; nested obj.buffered contexts entered and left between steps); distinct by SHA-1 of the trace")
    return r


def c06_directed(prop, tier, seed):
    """Directed histories of two objects on one file (who leaves first, who wrote last, who never touched the buffer, a
    reset without a read, ...) on all 8 buffered classes: model correspondence + the C05/C06 oracles."""
    import kbuf
    t = time.time()
    out = kbuf.run_c06_directed(seed, tier)
    bad, diags = kbuf.check_against_model(out)
    mism = []
    for b, txt in diags:
        m = re.search(r"Some \((\d+), (\d+)\)", txt)
        st = int(m.group(1)) if m else None
        mism.append({"correspondence": "K-buf directed (Corr/KBuf.v check_bcase)", "meta": out["meta"][b], "first_differing_step": st,
                     "reason_code": int(m.group(2)) if m else None, "steps": out["logs"][b][: (st + 1) if st is not None else 5][-6:]})
    fails = []
    for f in out["oracle"]:
        if f["oracle"].startswith(("C05", "C06", "harness")):
            g = dict(f)
            g.update(directed=True, steps=out["logs"][f["session"]][: f["step"] + 1][-10:])
            fails.append(g)
    return {"name": "K-buf/C06-directed", "evaluations": sum(len(l) for l in out["logs"]), "distinct_nontrivial": len(out["cases"]),
            "traces": len(out["cases"]), "rule": "8 directed histories of two objects bound to one file (and a third on another file) x 8 buffered classes; "
            "distinct = (class, history)", "model_mismatches": mism, "oracle_failures": fails,
            "samples": [{"script": out["meta"][0]["script"], "steps": out["logs"][0][4:9]}], "stats": {}, "classes": out["classes"],
            "wall_s": round(time.time() - t, 1), "exhaustive": True}


def c03_order(prop, tier, seed):
    import k_extra
    return k_extra.run_c03_order(prop, tier, seed)


def plain_run(prop, tier, seed):
    import k_plain
    t = time.time()
    n = 1500 if tier == "quick" else 40000
    out = k_plain.run(seed, n)
    mism = [{"correspondence": "K-plain (Plain.v/Ops.v vs CPython built-ins)", "case": c} for c in out["failing"]]
    return {"name": "K-plain", "evaluations": out["n"], "distinct_nontrivial": len(out["stats"]), "traces": out["n"],
            "rule": "single built-in list/dict operation on random JSON data; distinct = (operation, outcome class) pairs seen",
            "model_mismatches": mism, "oracle_failures": [], "samples": out["sample"][:2], "stats": out["stats"],
            "wall_s": round(time.time() - t, 1)}


class FnSpec:
    """A property decided by Props/<id>.v plus one or more correspondence / oracle runners."""

    def __init__(self, runners, trust=None, assume=None, expl=""):
        self.runners, self.trust, self.assume, self.expl = runners, trust or [], assume or [], expl

    def run(self, prop, tier, seed):
        out = []
        for fn in self.runners:
            t = time.time()
            r = fn(prop, tier, seed)
            r.setdefault("wall_s", round(time.time() - t, 1))
            out.append(r)
        return out

    def replay(self, prop, path):
        with open(path) as f:
            rp = json.load(f)
        runs = self.run(prop, rp.get("tier", "quick"), rp.get("seed", seed_from_env()))
        fails = [f for r in runs for f in r.get("oracle_failures", [])]
        mism = [m for r in runs for m in r.get("model_mismatches", [])]
        return {"fails": bool(fails or mism), "oracle_failures": fails[:3], "model_mismatches": mism[:3]}

    def trusted_base(self, prop):
        return BASE_TRUST + self.trust

    def assumptions(self, prop):
        return self.assume

    def explanation(self, prop):
        return self.expl


class KBufSpec:
    """Properties decided on the buffer machine: Props/<id>.v + K-buf sessions + oracles."""

    def __init__(self, profiles, tags, quick=(64, 40), thorough=(2500, 50), findings=(), note="", grid=False, extra=()):
        self.profiles, self.tags, self.quick, self.thorough, self.findings, self.note = profiles, tags, quick, thorough, findings, note
        self.grid = grid
        self.extra = list(extra)

    def _run(self, profile, seed, n, budget):
        import kbuf
        t = time.time()
        out = kbuf.run_sessions(profile, seed, n, budget)
        bad, diags = kbuf.check_against_model(out)
        mism = []
        for b, txt in diags:
            m = re.search(r"Some \((\d+), (\d+)\)", txt)
            st = int(m.group(1)) if m else None
            mism.append({"correspondence": "K-buf (Corr/KBuf.v check_bcase)", "profile": profile, "base_seed": seed, "session": b,
                         "nsessions": n, "budget": budget, "meta": out["meta"][b], "first_differing_step": st,
                         "reason_code": int(m.group(2)) if m else None,
                         "steps": out["logs"][b][: (st + 1) if st is not None else 5][-6:]})
        if len(bad) > len(diags):
            mism.append({"correspondence": "K-buf", "more_mismatching_sessions": bad[len(diags):][:20]})
        fails = []
        for f in out["oracle"]:
            if any(f["oracle"].startswith(t_) for t_ in self.tags) or f["oracle"] == "harness":
                g = dict(f)
                g.update(profile=profile, base_seed=seed, nsessions=n, budget=budget, steps=out["logs"][f["session"]][: f["step"] + 1][-8:])
                fails.append(g)
        nontrivial = len({short_hash(c) for c, l in zip(out["cases"], out["logs"]) if len(l) >= 6})
        return {"name": f"K-buf/{profile}", "evaluations": sum(len(l) for l in out["logs"]), "distinct_nontrivial": nontrivial,
                "traces": len(out["cases"]), "rule": f"K-buf profile {profile}: seeded well-nested programs over the 8 buffered JSON classes "
                "(objects x files, per-object and backend-wide contexts, capacities, outside writes per profile); non-trivial = >= 6 recorded steps; distinct by SHA-1 of the trace",
                "model_mismatches": mism, "oracle_failures": fails, "samples": [{"class": out["meta"][0]["class"], "steps": out["logs"][0][3:8]}] if out["logs"] else [],
                "stats": out["stats"], "classes": out["classes"], "wall_s": round(time.time() - t, 1)}

    def _grid(self, seed, tier):
        import kbuf
        t = time.time()
        out = kbuf.run_grid(seed, tier)
        bad, diags = kbuf.check_against_model(out)
        mism = []
        for b, txt in diags:
            m = re.search(r"Some \((\d+), (\d+)\)", txt)
            st = int(m.group(1)) if m else None
            mism.append({"correspondence": "K-buf grid (Corr/KBuf.v check_bcase)", "meta": out["meta"][b], "first_differing_step": st,
                         "reason_code": int(m.group(2)) if m else None, "steps": out["logs"][b][: (st + 1) if st is not None else 5][-6:]})
        fails = []
        for f in out["oracle"]:
            if any(f["oracle"].startswith(t_) for t_ in self.tags) or f["oracle"] == "harness":
                g = dict(f)
                g.update(grid=True, steps=out["logs"][f["session"]][: f["step"] + 1][-10:])
                fails.append(g)
        return {"name": "K-buf/grid", "evaluations": sum(len(l) for l in out["logs"]), "distinct_nontrivial": len({m["script"] + m["class"] for m in out["meta"]}),
                "traces": len(out["cases"]), "rule": "small-scope enumeration: 6 context shapes (incl. nested capacities) x per-file (modified/read/untouched) x "
                "(changed outside before/after/never), 2 files, both strategies; exhaustive over the 81 assignments in the thorough tier",
                "model_mismatches": mism, "oracle_failures": fails, "samples": [{"script": out["meta"][0]["script"], "steps": out["logs"][0][4:9]}],
                "stats": {}, "classes": out["classes"], "wall_s": round(time.time() - t, 1), "exhaustive": tier != "quick"}

    def run(self, prop, tier, seed):
        n, budget = self.quick if tier == "quick" else self.thorough
        runs = [self._run(pf, seed + i, max(8, n // len(self.profiles)), budget) for i, pf in enumerate(self.profiles)]
        if self.grid:
            runs.append(self._grid(seed, tier))
        for fn in self.extra:
            runs.append(fn(prop, tier, seed))
        return runs

    grid = False
    extra = ()

    def search(self, prop, tier, seed):
        fails, ev = [], 0
        for k in range(3):
            for pf in self.profiles:
                r = self._run(pf, seed + 104729 * (k + 1), 120, 45)
                ev += r["evaluations"]
                fails += r["oracle_failures"]
            if fails:
                break
        return {"oracle_failures": fails, "evaluations": ev}

    def replay(self, prop, path):
        with open(path) as f:
            rp = json.load(f)
        items = rp.get("failures") or [b[1] for b in rp.get("broken", []) if isinstance(b[1], dict)]
        res = {"fails": False, "items": []}
        for it in items:
            if not isinstance(it, dict) or "base_seed" not in it:
                continue
            r = self._run(it["profile"], it["base_seed"], it["nsessions"], it["budget"])
            hit = [f for f in r["oracle_failures"] if f["session"] == it["session"]]
            mm = [m for m in r["model_mismatches"] if m.get("session") == it["session"]]
            res["items"].append({"session": it["session"], "oracle": hit[:3], "model_mismatch": bool(mm)})
            res["fails"] = res["fails"] or bool(hit or mm)
        return res

    def probes(self, prop):
        import probes
        out = []
        listed = {f["id"] for f in known_lines_for(prop)}
        for fid in self.findings:
            r = {"D19": probes.probe_d19}[fid]()
            if r["reproduced"]:
                what = next((f["what"] for f in known_lines_for(prop) if f["id"] == fid), "")
                line = f"KNOWN-FINDING: property={prop} {fid} {what[:160]}"
                out.append((line, True, None) if fid in listed else (line, False, {"oracle": f"{fid}-not-listed", "detail": r}))
        return out

    def trusted_base(self, prop):
        return BASE_TRUST + ["blen_json (Corr/KBuf.v): len(json.dumps(v)) on the fragment the generator uses (no floats, escape-free ASCII strings)",
                             "md5 modelled as identity on the encoded text (collision-freedom assumed)",
                             "file stamp abstracts (st_size, st_mtime_ns): the harness bumps mtime on every outside write"]

    def assumptions(self, prop):
        return ["theorems are about Buffer.v; Buffer.v is tied to the code by the K-buf differential (a sample)",
                "root-level objects with plain content; nested handles are navigated afresh for every operation",
                "known finding D19 (shared-memory: objects stay entangled after a common session): histories are stopped at that point"] + ([self.note] if self.note else [])

    def explanation(self, prop):
        return ("Theorems in coq/Props/%s.v over Buffer.v (both strategies, all operation sequences / context nestings / capacities); Buffer.v tied to "
                "/repo by the K-buf step-by-step differential evaluated inside Coq (results, every file's content, which files were written, reported size, "
                "capacity, set of buffered files); property oracles evaluated on the implementation in the same runs." % prop)


def known_lines_for(prop):
    return [f for f in load_known_findings() if f.get("property") == prop and f.get("status") == "known"]


def k2_run(prop, tier, seed):
    import k2
    r = k2.run(prop, tier, seed)
    tags = {"C09": (), "C10": ("C10",), "C13": ("C10",), "C14": ()}.get(prop, ("C10",))
    r["oracle_failures"] = [f for f in r["oracle_failures"] if any(f["oracle"].startswith(t) for t in tags)]
    return r


def k3_runner(which):
    def run(prop, tier, seed):
        import k3
        t = time.time()
        specs = {"c09": k3.scenarios_c09, "c13": k3.scenarios_c13, "c14": k3.scenarios_c14, "c11": k3.scenarios_c11, "c10": k3.scenarios_c10}[which](tier)
        rs = k3.run_scenarios(specs, tier, seed)
        out = k3.summarise("K3/" + which, rs, prop + "-schedule")
        if which == "c14":
            # known finding D18 (second form): two objects on one file inside a shared-memory buffered context
            # share one container, so a lock-free reader races with the writer
            known, new = [], []
            for f in out["oracle_failures"]:
                sp = f["spec"]
                if sp["cls"].startswith("MemoryBuffered") and sp.get("buffered") and "failed with RuntimeError" in f["detail"]:
                    known.append(f)      # the reader iterates the shared container while the writer changes it
                else:
                    new.append(f)
            out["oracle_failures"] = new
            out["known_hits"] = [{"scenario": f["scenario"], "detail": f["detail"][:200]} for f in known]
        out["wall_s"] = round(time.time() - t, 1)
        return out
    return run


class ConcSpec(FnSpec):
    def __init__(self, runners, findings=(), **kw):
        super().__init__(runners, **kw)
        self.findings = findings

    def probes(self, prop):
        import probes
        out = []
        listed = {f["id"] for f in known_lines_for(prop)}
        for fid in self.findings:
            r = {"D18": probes.probe_d18, "D19": probes.probe_d19}[fid]()
            if r["reproduced"]:
                what = next((f["what"] for f in known_lines_for(prop) if f["id"] == fid), "")
                line = f"KNOWN-FINDING: property={prop} {fid} {what[:160]}"
                if fid in listed:
                    out.append((line, True, None))
                else:
                    out.append((line, False, {"oracle": f"{fid}-not-listed", "detail": r}))
        return out


CONC_TRUST = ["deterministic scheduler harness (harness/k3.py): sys.settrace parking + re-entrant lock proxies installed through the module-global RLock, cls._locks, cls._cls_lock, cls._BUFFER_LOCK",
              "lock-event recorder (harness/k2.py) and its fault injection from outside (rejected value, unparsable file, failing body, OSError in _save_to_resource, conflicting flush)",
              "trace normalisation in Corr/K2.v: re-entrant acquisitions dropped, adjacent empty sections merged"]
CONC_ASSUME = ["preemption inside one CPython bytecode / C call is not modelled (GIL-level atomicity of single container operations)",
               "the operation table Conc.prog_of_op is hand-written; it is compared with the observed lock events for every (flavor, variant, kind, injectable fault set) on every run",
               "operation bodies are abstract steps on the lock's component: that the body touches nothing else is established by the K3 schedule exploration (a sample)"]


def k4_run(prop, tier, seed):
    import k4
    return k4.run(tier, seed)


CANDIDATES = {
    "C01": K1Spec("C01", ["C01"], more_profiles=["C04"], extra=[lambda prop, tier, seed: __import__("k_extra").run_c01_faults(prop, tier, seed)]),
    "C02": K1Spec("C02", ["C02"]),
    "C03": K1Spec("C03", ["C03", "C02-read", "C01/C04"], extra=[plain_run, c03_order], more_profiles=["C03b"]),
    "C04": K1Spec("C04", ["C01/C04"]),
    "C11": K1Spec("C11", ["C11"], extra=[lambda prop, tier, seed: k3_runner("c11")(prop, tier, seed),
                                         lambda prop, tier, seed: __import__("k_extra").run_c11_foreign(prop, tier, seed)]),
    "C12": K1Spec("C12", ["C12", "C01", "C03-result"]),
    "C17": K1Spec("C17", ["C17"], extra=[lambda prop, tier, seed: KBufSpec(["C17"], ["C17"])._run("C17", seed, 32 if tier == "quick" else 1500, 40),
                                           lambda prop, tier, seed: KBufSpec(["C17cap"], ["C17"])._run("C17cap", seed + 3, 32 if tier == "quick" else 1500, 40),
                                           lambda prop, tier, seed: __import__("kbuf").run_buf_faults(prop, tier, seed)]),
    "C05": KBufSpec(["C05", "C05cap"], ["C05", "C15-zero", "C15-capacity"], findings=("D19",),
                    extra=[k1_in_buffer, lambda prop, tier, seed: __import__("kbuf").run_c05_diff(prop, tier, seed),
                           lambda prop, tier, seed: __import__("kbuf").run_buf_faults(prop, tier, seed)]),
    "C06": KBufSpec(["C06", "C06b"], ["C05", "C06"], findings=("D19",), extra=[c06_directed]),
    "C07": KBufSpec(["C07", "C07cap"], ["C07", "C15-zero", "C15-capacity"], grid=True),
    "C15": KBufSpec(["C15", "C05cap"], ["C15"], grid=True, extra=[lambda prop, tier, seed: __import__("kbuf").run_buf_faults(prop, tier, seed)]),
    "C16": K1Spec("MIX", ["C16"], extra=[lambda prop, tier, seed: __import__("k_extra").run_c16(prop, tier, seed)],
                  note="aliasing cannot be expressed inside the functional model; the aliasing oracle mutates every container reachable from arguments and results"),
    "C18": K1Spec("MIX", ["C18"], extra=[lambda prop, tier, seed: __import__("k_extra").run_c18(prop, tier, seed)]),
    "C09": ConcSpec([k2_run, k3_runner("c09")], trust=CONC_TRUST, assume=CONC_ASSUME,
                    expl="Theorems in coq/Props/C09.v: serializability of lock-protected operations for every schedule (any number of threads, locks, "
                         "step granularity) + the computed fact that every mutator program is well locked; programs tied to the code by K2 lock-event "
                         "traces (exhaustive over kinds x injectable faults), failing-input search = K3 schedule exploration on real threads."),
    "C10": ConcSpec([k2_run, k3_runner("c10")], trust=CONC_TRUST, assume=CONC_ASSUME,
                    expl="Theorems in coq/Props/C10.v: no_leak / respects_order decide the property for every fault assignment; no wait-for cycle under a strict lock "
                         "order; computed for every operation program; K2 traces tie the programs to the code and check, after every faulted operation, "
                         "that a second thread can still operate on the same and on another file; K3 detects deadlocks on real schedules."),
    "C13": ConcSpec([k2_run, k3_runner("c13")], trust=CONC_TRUST, assume=CONC_ASSUME,
                    expl="Theorems in coq/Props/C13.v: buffered mutators hold the class-wide buffer lock for their whole duration (computed), hence every schedule "
                         "is serial (C09's theorem with one lock); K3 explores real schedules inside buffer_backend(capacity) incl. capacities forcing flushes."),
    "C14": ConcSpec([k3_runner("c14"), lambda prop, tier, seed: __import__("k_extra").run_c14_reader_at_rename(prop, tier, seed), lambda prop, tier, seed: dict(__import__("k4").run(tier, seed, shape_only=True), name="K4/shape (a reader of another object sees a complete file: temp file written and closed, then renamed)")],
                    findings=("D18",), trust=CONC_TRUST,
                    assume=CONC_ASSUME + ["PARTIAL: the same-object case (and two objects sharing one container in the shared-memory strategy) is known finding D18"],
                    expl="coq/Props/C14.v: full statement kept visible and refuted (D18); proved part: readers on objects no writer uses. "
                         "K3 explores reader/writer schedules; the D18 probe re-confirms the finding on every run."),
    "C19": FnSpec([lambda prop, tier, seed: __import__("k_res").run(prop, tier, seed)],
                  trust=["fake numpy module (ndarray/number/bool_/iscomplexobj) injected in the C19 child process: numpy is absent from this sandbox",
                         "os.fork for fresh-vs-warm comparisons"],
                  assume=["type-determinedness of the library's identifiers is measured on a pool of 35 values (27 types), not proved for all Python types"],
                  expl="Theorems in coq/Props/C19.v (memo transparency for every history, under type-determinedness outside the blocklist); "
                       "Resolver.get_type tied to utils.AbstractTypeResolver by a differential on synthetic identifier tables evaluated inside Coq; "
                       "the premise is a generated obligation checked by vm_compute on measured identifier values; failing-input search = fresh fork vs warmed-up fork."),
    "C08": FnSpec([k4_run],
                  trust=["strace 6.1 (syscall trace and SIGKILL injection); in-process writer shim (harness/k4_child.py) for byte-prefix crash points"],
                  assume=["process crash only (no power loss / fsync claim)", "POSIX rename is atomic within a directory; open(...,'wb') truncates",
                          "user-space buffers are lost at the crash (os._exit / SIGKILL)"],
                  expl="Theorems in coq/Props/C08.v over Crash.v (all crash points, all byte prefixes, any number of files); "
                       "Crash.save_prog tied to /repo by comparing it, inside Coq, with the file operations strace observes for every kind of save; "
                       "failing-input search = killing a child at every line / file operation / byte prefix and inspecting the survivors."),
}
# a property is claimed once its theorem file exists
REGISTRY = {p: s for p, s in CANDIDATES.items()
            if os.path.exists(os.path.join(COQDIR, "Props", p + ".v"))}

NOT_YET = {}
LEVELS = {}
