From Coq Require Import List NArith Bool.
From SC Require Import Model.Val Model.Attr.
Import ListNotations.

(* for every key that is not protected, not a dunder and not an attribute of the object or its class,
   obj.k / obj.k = v / del obj.k are obj['k'] / obj['k'] = v / del obj['k'] *)
Theorem attr_eq_item_l v name :
  is_dunder name = false -> route_of v name false false = RItem.
Proof. intros H. destruct v; cbn; rewrite H; reflexivity. Qed.

(* protected names and dunders always address the object itself when written or deleted *)
Theorem protected_frame_l v name has_attr :
  v <> VGet -> forall p, (p || is_dunder name = true) -> route_of v name p has_attr = RObject.
Proof. intros Hv p H. destruct v; [contradiction| |]; cbn; rewrite H; reflexivity. Qed.

(* if instance attributes are covered by the protected set, an unprotected name is never an instance attribute *)
Lemma covered_spec protected inst a :
  covered protected inst = true -> smem a inst = true -> smem a protected = true.
Proof.
  unfold covered, smem. intros H Hin. rewrite forallb_forall in H.
  apply existsb_exists in Hin as [x [Hx Hax]].
  specialize (H x Hx). unfold smem in H. apply existsb_exists in H as [y [Hy Hxy]].
  apply existsb_exists. exists y. split; [exact Hy|].
  revert Hax Hxy. clear. revert x y. induction a as [|c a IH]; intros [|d x] [|e y]; cbn; try discriminate; auto.
  intros H1 H2. apply andb_prop in H1 as [A B]. apply andb_prop in H2 as [C D].
  apply N.eqb_eq in A. apply N.eqb_eq in C. subst. rewrite N.eqb_refl. cbn. eapply IH; eassumption.
Qed.
