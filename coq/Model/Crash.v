(* Crash.v — file operations of a save and process-crash semantics (C08). Definitions only. *)
From Coq Require Import List NArith Bool Arith.
Import ListNotations.

Definition fname := list N.              (* a path, as code points *)
Definition bytes := list N.
Definition fsmap := fname -> option bytes.   (* None = the file does not exist *)

Fixpoint fname_eqb (a b : fname) : bool :=
  match a, b with
  | [], [] => true
  | x :: a', y :: b' => N.eqb x y && fname_eqb a' b'
  | _, _ => false
  end.

Definition fs_set (fs : fsmap) (p : fname) (v : option bytes) : fsmap :=
  fun q => if fname_eqb q p then v else fs q.

Inductive fsact :=
  | FOpenTrunc (p : fname)              (* open(p, O_WRONLY|O_CREAT|O_TRUNC) *)
  | FWrite (p : fname) (b : bytes)      (* write(fd of p, b): appends *)
  | FClose (p : fname)
  | FRename (src dst : fname).          (* rename(src, dst): atomic replace within a directory *)

Definition do_act (fs : fsmap) (a : fsact) : fsmap :=
  match a with
  | FOpenTrunc p => fs_set fs p (Some [])
  | FWrite p b => fs_set fs p (Some (match fs p with Some old => old ++ b | None => b end))
  | FClose _ => fs
  | FRename src dst => fs_set (fs_set fs dst (fs src)) src None
  end.

Definition run_acts (acts : list fsact) (fs : fsmap) : fsmap := fold_left do_act acts fs.

(* crash after [k] complete actions; if the next action is a write, any prefix [cut] of its bytes
   may have reached the file *)
Definition run_crash (acts : list fsact) (k cut : nat) (fs : fsmap) : fsmap :=
  let fs1 := run_acts (firstn k acts) fs in
  match nth_error acts k with
  | Some (FWrite p b) => do_act fs1 (FWrite p (firstn cut b))
  | _ => fs1
  end.

(* JSONCollection._save_to_resource: the blob is produced BEFORE any file is opened;
   content that cannot be serialised produces no file operation at all *)
Definition save_prog (atomic : bool) (target tmp : fname) (blob : option bytes) : list fsact :=
  match blob with
  | None => []
  | Some b =>
      if atomic then [FOpenTrunc tmp; FWrite tmp b; FClose tmp; FRename tmp target]
      else [FOpenTrunc target; FWrite target b; FClose target]
  end.

(* the temporary name: "._" ++ uuid ++ "_" ++ basename, in the directory of the target *)
Definition tmp_name (uuid base : fname) : fname := [46%N; 95%N] ++ uuid ++ [95%N] ++ base.

Record save := { sv_target : fname; sv_tmp : fname; sv_blob : bytes }.
Definition flush_prog (saves : list save) : list fsact :=
  flat_map (fun s => save_prog true (sv_target s) (sv_tmp s) (Some (sv_blob s))) saves.
