#!/usr/bin/env python3
"""./check <Cxx> [--tier quick|thorough] [--replay file]

Pipeline (DESIGN §2.5): regenerate Gen/*.v from the tree under test, full Coq
build, proof-obligation status of Props/<Cxx>.v (Print Assumptions), grep gate,
correspondence runs + property oracles, failing-input search, verdict, evidence.
"""
import argparse
import glob
import importlib
import json
import os
import re
import subprocess
import sys
import time
import traceback

sys.path.insert(0, os.path.dirname(os.path.abspath(__file__)))
os.environ.setdefault("PYTHONHASHSEED", "0")

from common import *  # noqa

FORBIDDEN = re.compile(r"\b(Admitted|admit|Axiom|Parameter|Conjecture|Unset Guard|bypass_check|Admit Obligations)\b")


def grep_gate():
    bad = []
    for fn in glob.glob(os.path.join(COQDIR, "**", "*.v"), recursive=True):
        with open(fn) as f:
            for i, line in enumerate(f, 1):
                code = re.sub(r"\(\*.*?\*\)", "", line)
                if FORBIDDEN.search(code):
                    bad.append(f"{os.path.relpath(fn, COQDIR)}:{i}: {line.strip()[:100]}")
    return bad


def obligations(prop):
    """Compile Props/<prop>.v on its own and read its theorems and Print Assumptions output."""
    vf = os.path.join(COQDIR, "Props", f"{prop}.v")
    if not os.path.exists(vf):
        return {"file": None, "theorems": [], "discharged": 0, "axioms": [], "ok": False, "log": "no Props file"}
    with open(vf) as f:
        src = f.read()
    theorems = re.findall(r"^\s*(?:Theorem|Example)\s+(\w+)", src, re.M)
    p = subprocess.run(["timeout", "600", "coqc", "-Q", COQDIR, "SC", vf], capture_output=True, text=True, cwd=COQDIR)
    out = p.stdout + p.stderr
    closed = len(re.findall(r"Closed under the global context", out))
    axioms = sorted(set(re.findall(r"^([A-Za-z_][\w.']*)\s*:", out, re.M))) if "Axioms:" in out else []
    ok = p.returncode == 0
    return {"file": f"Props/{prop}.v", "theorems": theorems, "discharged": len(theorems) if ok else 0,
            "closed": closed, "axioms": axioms, "ok": ok, "log": out[-3000:] if not ok else ""}


def main():
    ap = argparse.ArgumentParser()
    ap.add_argument("prop")
    ap.add_argument("--tier", default=os.environ.get("VERIF_TIER", "quick"), choices=["quick", "thorough"])
    ap.add_argument("--replay")
    a = ap.parse_args()
    prop, tier = a.prop, a.tier
    seed = seed_from_env()
    t0 = time.time()
    import props_registry
    if prop not in props_registry.REGISTRY:
        print(f"unknown property {prop}")
        return 2
    spec = props_registry.REGISTRY[prop]

    broken = []          # (what, detail) — broken obligations / correspondences
    failures = []        # concrete failing inputs attributable to this property
    runs = []
    gen_error = None
    # 1. regenerate tables, build (each translator is fail-closed; a failure concerns the properties that rest on its output)
    import gen_tables
    scope = {"Gen/Structure.v": {"C01", "C02", "C04", "C09", "C13", "C18"}, "Gen/ApiSurface.v": {"C03"},
             "Gen/Contexts.v": {"C01", "C05", "C07", "C09", "C10", "C13", "C15"}}
    for fn_name, gen_file in (("generate", None), ("generate_extra", None), ("generate_struct", "Gen/Structure.v"),
                              ("generate_contexts", "Gen/Contexts.v")):
        try:
            getattr(gen_tables, fn_name)()
        except Exception:  # noqa
            gen_error = traceback.format_exc()
            if gen_file is not None:
                # make sure a stale generated file cannot stand in for the one that could not be produced
                try:
                    os.remove(os.path.join(COQDIR, gen_file))
                except OSError:
                    pass
            if gen_file is None or prop in scope[gen_file]:
                broken.append(("translator", f"gen_tables.{fn_name} failed (fail-closed): " + gen_error[-800:]))
    ok, log = coq_build()
    build_log = "" if ok else log[-3000:]
    ob = obligations(prop)
    if not ok:
        # the build is `make -k`: what matters for THIS property is its own theorem file (compiled again below,
        # which fails if anything it depends on failed) and the correspondence / generated files
        m = sorted(set(re.findall(r"File \"\./([^\"]+)\"", log)))
        # generated obligations about one aspect of the source concern the properties that rest on that aspect
        needed = [f for f in m if (f.startswith(("Corr/", "Gen/", "Model/")) and prop in scope.get(f, {prop})) or f == f"Props/{prop}.v"]
        if needed:
            broken.append(("coq-build", f"make failed in {needed}: " + log[-1200:]))
    if not ob["ok"]:
        broken.append(("obligations", f"Props/{prop}.v does not check: " + ob["log"][-1200:]))
    gate = grep_gate()
    if gate:
        broken.append(("grep-gate", "; ".join(gate[:5])))

    # 2. known findings (probes) for this property
    known_lines = []
    if hasattr(spec, "probes"):
        try:
            for line, is_known, detail in spec.probes(prop):
                if is_known:
                    known_lines.append(line)
                else:
                    failures.append(detail)
        except Exception:  # noqa
            broken.append(("probes", traceback.format_exc()[-1500:]))

    # 3. replay mode
    if a.replay:
        try:
            r = spec.replay(prop, a.replay)
            print(json.dumps(r, indent=1, default=repr)[:4000])
            return 1 if r.get("fails") else 0
        except Exception:  # noqa
            traceback.print_exc()
            return 2

    # 4. correspondence + oracles (under the hang watchdog: a call into the library that never returns is reported)
    def on_hang(stack, info):
        try:
            ctx = jsonable(info() if callable(info) else info)
        except Exception:  # noqa
            ctx = repr(info)[:2000]
        rp = write_replay(prop, {"property": prop, "kind": "hang", "seed": seed, "tier": tier,
                                 "failures": [{"oracle": "hang", "detail": "a call into the library did not return within the watchdog limit "
                                               "(the main thread's stack inside the library did not change): deadlock or livelock",
                                               "stack_innermost_first": stack, "context": ctx}],
                                 "broken": [list(b) for b in broken[:5]]})
        print(f"VIOLATION property={prop} replay={rp}")
        write_evidence(prop, tier, seed, {"obligations": max(len(ob["theorems"]), 1), "discharged": 0, "evaluations": 0,
                                          "distinct_nontrivial": 0, "rule": "run aborted by the hang watchdog", "samples": [{"hang": stack[:6]}],
                                          "checker_cmd": "coqc", "trusted_base": [], "explanation": "aborted: hang"},
                       [], time.time() - t0, 1)
    start_watchdog(on_hang, limit=float(os.environ.get("VERIF_HANG_LIMIT", "45")))
    try:
        runs = spec.run(prop, tier, seed)
    except Exception:  # noqa
        broken.append(("harness", traceback.format_exc()[-2500:]))
        runs = []
    for r in runs:
        hits = r.get("known_hits") or []
        if hits:
            listed = [f for f in load_known_findings() if f.get("property") == prop and f.get("status") == "known"]
            if listed:
                line = f"KNOWN-FINDING: property={prop} {listed[0]['id']} {hits[0]['scenario']}: {hits[0]['detail'][:120]}"
                if line not in known_lines:
                    known_lines.append(line)
            else:
                failures.extend({"oracle": "unlisted-known-pattern", **h} for h in hits)
        for f in r.get("oracle_failures", []):
            failures.append(f)
        for m in r.get("model_mismatches", []):
            broken.append((f"correspondence:{r['name']}", m))

    # 5. failing-input search when something is broken but no concrete input is known yet
    searched = None
    if broken and not failures and hasattr(spec, "search"):
        try:
            searched = spec.search(prop, tier, seed)
            failures += searched.get("oracle_failures", [])
        except Exception:  # noqa
            broken.append(("search", traceback.format_exc()[-1500:]))

    # 6. verdict
    for l in known_lines:
        print(l)
    rc = 0
    replay_path = None
    if failures:
        replay_path = write_replay(prop, {"property": prop, "kind": "failing-input", "seed": seed, "tier": tier,
                                          "failures": failures[:5], "broken": [list(b) for b in broken[:5]]})
        print(f"VIOLATION property={prop} replay={replay_path}")
        rc = 1
    elif broken:
        replay_path = write_replay(prop, {"property": prop, "kind": "broken-obligation-or-correspondence",
                                          "seed": seed, "tier": tier, "broken": [list(b) for b in broken[:8]],
                                          "searched": None if searched is None else searched.get("evaluations")})
        print(f"VIOLATION property={prop} replay={replay_path} no-failing-input-found")
        rc = 1

    # 7. evidence
    n_ob = len(ob["theorems"]) + sum(r.get("gen_obligations", 0) for r in runs)
    coverage = {
        "obligations": max(n_ob, 1) if ob["ok"] else max(n_ob, 1),
        "discharged": (ob["discharged"] + sum(r.get("gen_obligations", 0) for r in runs)) if ob["ok"] and ok else 0,
        "checker_cmd": f"cd /verif/coq && make -j16 && coqc -Q . SC Props/{prop}.v  (Coq 8.16.1 kernel; vm_compute for generated obligations and correspondence)",
        "trusted_base": spec.trusted_base(prop) if hasattr(spec, "trusted_base") else [],
        "theorems": ob["theorems"],
        "print_assumptions": {"closed_under_global_context": ob.get("closed", 0), "axioms": ob.get("axioms", [])},
        "evaluations": sum(r.get("evaluations", 0) for r in runs),
        "distinct_nontrivial": sum(r.get("distinct_nontrivial", 0) for r in runs),
        "rule": "; ".join(r.get("rule", "") for r in runs),
        "traces_validated_against_impl": sum(r.get("traces", 0) for r in runs),
        "samples": [s for r in runs for s in r.get("samples", [])][:6] or [{"theorems": ob["theorems"]}],
        "runs": [{k: v for k, v in r.items() if k in ("name", "evaluations", "distinct_nontrivial", "traces", "stats", "classes", "wall_s")} for r in runs],
        "broken": [list(b) for b in broken[:5]],
        "known_findings_reconfirmed": known_lines,
        "explanation": spec.explanation(prop) if hasattr(spec, "explanation") else "",
    }
    write_evidence(prop, tier, seed, coverage, spec.assumptions(prop) if hasattr(spec, "assumptions") else [],
                   time.time() - t0, len(failures) if failures else (1 if broken else 0))
    return rc


if __name__ == "__main__":
    sys.exit(main())
