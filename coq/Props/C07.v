(* C07 — A buffered flush never silently overwrites a file changed by someone else.  Property theorems only. *)
From Coq Require Import List Bool ZArith.
From SC Require Import Model.Val Model.Ops Model.Buffer Proofs.TreeDefs Proofs.BufferDefs Proofs.BufferInv.
Import ListNotations.

(* a buffered copy that was modified, of a file whose stamp is no longer the one recorded when it entered the
   buffer (an outside writer changed it): the flush that would write it — at context exit or forced by the
   capacity — raises MetadataError for exactly that file and writes nothing *)
Theorem C07_conflict_raises : forall strat blen s oid force e,
  (negb (is_buffered s oid) || force) = true ->
  nlookup (bo_file (get_obj s oid)) (b_buffer s) = Some e ->
  entry_modified strat s e = true -> opt_nat_eqb (e_meta e) (stamp s (bo_file (get_obj s oid))) = false ->
  snd (flush_one strat blen s oid force) = Some (XMeta (bo_file (get_obj s oid)))
  /\ b_files (fst (flush_one strat blen s oid force)) = b_files s
  /\ b_writes (fst (flush_one strat blen s oid force)) = b_writes s.
Proof. exact flush_conflict_raises. Qed.
Print Assumptions C07_conflict_raises.

(* a buffered copy that was only read never raises and is never written, whatever happened outside *)
Theorem C07_readonly_silent : forall strat blen s oid force e,
  nlookup (bo_file (get_obj s oid)) (b_buffer s) = Some e -> entry_modified strat s e = false ->
  snd (flush_one strat blen s oid force) = None
  /\ b_files (fst (flush_one strat blen s oid force)) = b_files s
  /\ b_writes (fst (flush_one strat blen s oid force)) = b_writes s.
Proof. exact flush_unmodified_silent. Qed.
Print Assumptions C07_readonly_silent.

(* a modified copy of a file nobody else touched is written, and only that file *)
Theorem C07_clean_written : forall strat blen s oid force e,
  (negb (is_buffered s oid) || force) = true ->
  nlookup (bo_file (get_obj s oid)) (b_buffer s) = Some e ->
  entry_modified strat s e = true -> opt_nat_eqb (e_meta e) (stamp s (bo_file (get_obj s oid))) = true ->
  let s' := fst (flush_one strat blen s oid force) in
  snd (flush_one strat blen s oid force) = None
  /\ b_writes s' = bo_file (get_obj s oid) :: b_writes s
  /\ exists v, read_disk s' (bo_file (get_obj s oid)) = Some v
       /\ (forall g, g <> bo_file (get_obj s oid) -> read_disk s' g = read_disk s g).
Proof. exact flush_clean_written. Qed.
Print Assumptions C07_clean_written.

(* a backend-wide flush raises BufferedError naming only files of registered collections (those whose flush
   raised), never a MetadataError, and goes on flushing the others (flush_loop does not stop at an error) *)
Theorem C07_buffered_error_names_files : forall strat blen s force s' x,
  flush_buffer strat blen s force = (s', x) ->
  match x with
  | None => True
  | Some (XBuf fs) => fs <> [] /\ forall f, In f fs -> exists oid, In oid (b_bcs s) /\ bo_file (get_obj s oid) = f
  | Some (XMeta _) => False
  end.
Proof. exact flush_buffer_issues. Qed.
Print Assumptions C07_buffered_error_names_files.

(* once the contexts have exited (also when an exit raised): the buffer is empty, its size is 0 ... *)
Theorem C07_post_state_empty : forall strat blen s,
  acct strat blen s -> reg_inv s -> nobody_buffered s -> b_buffer s = [] /\ b_size s = 0%Z.
Proof. exact zero_outside. Qed.
Print Assumptions C07_post_state_empty.

(* ... and its capacity is what it was before the context (the restore is in a finally: commit 1bf76e2) *)
Theorem C07_post_state_capacity : forall strat blen c body s,
  ctx_balanced body 0 = true ->
  b_cap (brun strat blen (BEnterCls (Some c) :: body ++ [BExitCls]) s) = b_cap s
  /\ b_stack (brun strat blen (BEnterCls (Some c) :: body ++ [BExitCls]) s) = b_stack s.
Proof. exact capacity_restored_some. Qed.
Print Assumptions C07_post_state_capacity.
