(* BufferInvAux1.v — list / frame / flush_one library and the accounting invariant (acct). *)
From Coq Require Import List ZArith NArith Bool Lia.
From SC Require Import Model.Val Model.Plain Model.Ops Model.Buffer Proofs.TreeDefs Proofs.TreeBase Proofs.BufferDefs.
Import ListNotations.
Local Open Scope Z_scope.

(* ------------------------------------------------------------------ *)
(* association lists keyed by nat *)
Section NList.
  Context {A : Type}.
  Implicit Types (l : list (nat * A)).

  Lemma nlookup_nset k k' v l :
    nlookup k' (nset k v l) = if Nat.eqb k' k then Some v else nlookup k' l.
  Proof.
    induction l as [|[k0 v0] l IH]; simpl.
    - reflexivity.
    - destruct (Nat.eqb k k0) eqn:E; simpl.
      + apply Nat.eqb_eq in E; subst k0. destruct (Nat.eqb k' k); reflexivity.
      + rewrite IH. destruct (Nat.eqb k' k0) eqn:E2; [|reflexivity].
        apply Nat.eqb_eq in E2; subst k0.
        destruct (Nat.eqb k' k) eqn:E3; [|reflexivity].
        apply Nat.eqb_eq in E3; subst. rewrite Nat.eqb_refl in E. discriminate.
  Qed.

  Lemma nlookup_nset_same k v l : nlookup k (nset k v l) = Some v.
  Proof. rewrite nlookup_nset, Nat.eqb_refl. reflexivity. Qed.

  Lemma nlookup_nset_other k k' v l : k' <> k -> nlookup k' (nset k v l) = nlookup k' l.
  Proof. intros H. rewrite nlookup_nset. apply Nat.eqb_neq in H. rewrite H. reflexivity. Qed.

  Lemma nlookup_none_iff k l : nlookup k l = None <-> ~ In k (map fst l).
  Proof.
    induction l as [|[k0 v0] l IH]; simpl.
    - split; [intros _ []|reflexivity].
    - destruct (Nat.eqb k k0) eqn:E.
      + apply Nat.eqb_eq in E. subst. split; [discriminate|]. intros H. exfalso. apply H. left; reflexivity.
      + apply Nat.eqb_neq in E. rewrite IH. split.
        * intros H [H1|H1]; [congruence|contradiction].
        * intros H H1. apply H. right. exact H1.
  Qed.

  Lemma nlookup_In k v l : nlookup k l = Some v -> In (k, v) l.
  Proof.
    induction l as [|[k0 v0] l IH]; simpl; [discriminate|].
    destruct (Nat.eqb k k0) eqn:E.
    - apply Nat.eqb_eq in E. subst. intros H; inversion H; subst. left; reflexivity.
    - intros H. right. apply IH. exact H.
  Qed.

  Lemma nlookup_In_keys k v l : nlookup k l = Some v -> In k (map fst l).
  Proof. intros H. apply nlookup_In in H. apply (in_map fst) in H. exact H. Qed.

  Lemma In_nlookup k v l : NoDup (map fst l) -> In (k, v) l -> nlookup k l = Some v.
  Proof.
    induction l as [|[k0 v0] l IH]; simpl; [intros _ []|].
    intros ND [H|H].
    - inversion H; subst. rewrite Nat.eqb_refl. reflexivity.
    - inversion ND as [|x xs Hn ND']; subst.
      destruct (Nat.eqb k k0) eqn:E.
      + apply Nat.eqb_eq in E. subst. exfalso. apply Hn. apply (in_map fst) in H. exact H.
      + apply IH; assumption.
  Qed.

  Lemma In_keys_nremove x k l : In x (map fst (nremove k l)) -> In x (map fst l).
  Proof.
    induction l as [|[k0 v0] l IH]; simpl; [intros []|].
    destruct (Nat.eqb k k0); simpl.
    - intros H; right; exact H.
    - intros [H|H]; [left; exact H|right; apply IH; exact H].
  Qed.

  Lemma NoDup_nremove k l : NoDup (map fst l) -> NoDup (map fst (nremove k l)).
  Proof.
    induction l as [|[k0 v0] l IH]; simpl; [intros H; exact H|].
    intros ND. inversion ND as [|x xs Hn ND']; subst.
    destruct (Nat.eqb k k0); simpl; [exact ND'|].
    constructor; [|apply IH; exact ND'].
    intros H. apply Hn. eapply In_keys_nremove. exact H.
  Qed.

  Lemma nlookup_nremove_ne k k' l : k' <> k -> nlookup k' (nremove k l) = nlookup k' l.
  Proof.
    intros Hne. induction l as [|[k0 v0] l IH]; simpl; [reflexivity|].
    destruct (Nat.eqb k k0) eqn:E; simpl.
    - apply Nat.eqb_eq in E. subst k0. apply Nat.eqb_neq in Hne. rewrite Hne. reflexivity.
    - rewrite IH. reflexivity.
  Qed.

  Lemma nlookup_nremove_eq k l : NoDup (map fst l) -> nlookup k (nremove k l) = None.
  Proof.
    induction l as [|[k0 v0] l IH]; simpl; [reflexivity|].
    intros ND. inversion ND as [|x xs Hn ND']; subst.
    destruct (Nat.eqb k k0) eqn:E; simpl.
    - apply Nat.eqb_eq in E. subst k0. apply nlookup_none_iff. exact Hn.
    - rewrite E. apply IH. exact ND'.
  Qed.

  Lemma nlookup_nremove_none k k' l : nlookup k' l = None -> nlookup k' (nremove k l) = None.
  Proof.
    rewrite !nlookup_none_iff. intros H H1. apply H. eapply In_keys_nremove. exact H1.
  Qed.

  Lemma nlookup_nremove_some k k' l v : NoDup (map fst l) ->
    nlookup k' (nremove k l) = Some v -> k' <> k /\ nlookup k' l = Some v.
  Proof.
    intros ND H. destruct (Nat.eq_dec k' k) as [->|Hne].
    - rewrite nlookup_nremove_eq in H by exact ND. discriminate.
    - split; [exact Hne|]. rewrite nlookup_nremove_ne in H by exact Hne. exact H.
  Qed.

  Lemma keys_nset_in k v l : In k (map fst l) -> map fst (nset k v l) = map fst l.
  Proof.
    induction l as [|[k0 v0] l IH]; simpl; [intros []|].
    destruct (Nat.eqb k k0) eqn:E; simpl.
    - apply Nat.eqb_eq in E. subst. reflexivity.
    - apply Nat.eqb_neq in E. intros [H|H]; [congruence|]. rewrite IH by exact H. reflexivity.
  Qed.

  Lemma keys_nset_notin k v l : ~ In k (map fst l) -> map fst (nset k v l) = map fst l ++ [k].
  Proof.
    induction l as [|[k0 v0] l IH]; simpl; [reflexivity|].
    intros H. destruct (Nat.eqb k k0) eqn:E; simpl.
    - apply Nat.eqb_eq in E. subst. exfalso. apply H. left; reflexivity.
    - rewrite IH; [reflexivity|]. intros H1. apply H. right. exact H1.
  Qed.

  Lemma NoDup_snoc (B : Type) (x : B) (m : list B) : NoDup m -> ~ In x m -> NoDup (m ++ [x]).
  Proof.
    induction m as [|y m IH]; simpl; intros ND Hn.
    - constructor; [intros []|constructor].
    - inversion ND as [|z zs Hy ND']; subst. constructor.
      + rewrite in_app_iff. intros [H|[H|[]]]; [contradiction|]. subst. apply Hn. left; reflexivity.
      + apply IH; [exact ND'|]. intros H. apply Hn. right. exact H.
  Qed.

  Lemma NoDup_nset k v l : NoDup (map fst l) -> NoDup (map fst (nset k v l)).
  Proof.
    intros ND. destruct (in_dec Nat.eq_dec k (map fst l)) as [H|H].
    - rewrite keys_nset_in by exact H. exact ND.
    - rewrite keys_nset_notin by exact H. apply NoDup_snoc; assumption.
  Qed.

  (* weighted sums *)
  Variable w : A -> Z.
  Definition wsum l : Z := fold_right (fun (fe : nat * A) acc => w (snd fe) + acc) 0 l.
  Definition wof (o : option A) : Z := match o with Some a => w a | None => 0 end.

  Lemma wsum_nset k v l : wsum (nset k v l) = wsum l - wof (nlookup k l) + w v.
  Proof.
    unfold wsum, wof. induction l as [|[k0 v0] l IH]; simpl.
    - lia.
    - destruct (Nat.eqb k k0) eqn:E; simpl.
      + lia.
      + rewrite IH. lia.
  Qed.

  Lemma wsum_nremove k l : wsum (nremove k l) = wsum l - wof (nlookup k l).
  Proof.
    unfold wsum, wof. induction l as [|[k0 v0] l IH]; simpl.
    - lia.
    - destruct (Nat.eqb k k0) eqn:E; simpl.
      + lia.
      + rewrite IH. lia.
  Qed.

  Lemma wsum_zero l : (forall k a, In (k, a) l -> w a = 0) -> wsum l = 0.
  Proof.
    unfold wsum. induction l as [|[k0 v0] l IH]; simpl; [reflexivity|].
    intros H. rewrite IH.
    - rewrite (H k0 v0) by (left; reflexivity). reflexivity.
    - intros k a Hin. apply (H k a). right. exact Hin.
  Qed.
End NList.

Lemma nmem_In k l : nmem k l = true <-> In k l.
Proof.
  unfold nmem. rewrite existsb_exists. split.
  - intros [x [Hin E]]. apply Nat.eqb_eq in E. subst. exact Hin.
  - intros H. exists k. split; [exact H|apply Nat.eqb_refl].
Qed.

Lemma nmem_false k l : nmem k l = false <-> ~ In k l.
Proof.
  rewrite <- nmem_In. destruct (nmem k l); split; congruence.
Qed.

(* ------------------------------------------------------------------ *)
(* simplification of record projections over the update functions *)
Ltac bsimpl :=
  cbn [fst snd b_files b_clock b_writes b_heap b_nloc b_objs b_buffer b_size b_cap b_stack b_ctx b_bcs b_forced
       upd_files upd_heap upd_objs upd_buffer upd_size upd_cap upd_stack upd_ctx upd_bcs
       write_disk write_disk_raw set_data set_loc set_buf update_root set_entry del_entry note_forced].
Tactic Notation "bsimpl" "in" hyp(H) :=
  cbn [fst snd b_files b_clock b_writes b_heap b_nloc b_objs b_buffer b_size b_cap b_stack b_ctx b_bcs b_forced
       upd_files upd_heap upd_objs upd_buffer upd_size upd_cap upd_stack upd_ctx upd_bcs
       write_disk write_disk_raw set_data set_loc set_buf update_root set_entry del_entry note_forced] in H.

(* ------------------------------------------------------------------ *)
(* objects *)
Lemma get_obj_eq s s' o : b_objs s' = b_objs s -> get_obj s' o = get_obj s o.
Proof. intros H. unfold get_obj. rewrite H. reflexivity. Qed.

Lemma get_obj_nset s s' oid ob o :
  b_objs s' = nset oid ob (b_objs s) -> get_obj s' o = if Nat.eqb o oid then ob else get_obj s o.
Proof.
  intros H. unfold get_obj. rewrite H, nlookup_nset. destruct (Nat.eqb o oid); reflexivity.
Qed.

(* the control part of the state: what is_buffered, the stack and the capacity depend on *)
Definition frame (s s' : bstate) : Prop :=
  b_ctx s' = b_ctx s /\ b_stack s' = b_stack s /\ b_cap s' = b_cap s /\
  (forall o, bo_file (get_obj s' o) = bo_file (get_obj s o)) /\
  (forall o, bo_buf (get_obj s' o) = bo_buf (get_obj s o)).

Lemma frame_refl s : frame s s.
Proof. repeat split. Qed.

Lemma frame_trans s1 s2 s3 : frame s1 s2 -> frame s2 s3 -> frame s1 s3.
Proof.
  intros (A1 & A2 & A3 & A4 & A5) (B1 & B2 & B3 & B4 & B5).
  split; [congruence|]. split; [congruence|]. split; [congruence|]. split; intros o.
  - rewrite B4. apply A4.
  - rewrite B5. apply A5.
Qed.

Lemma frame_objs_eq s s' :
  b_objs s' = b_objs s -> b_ctx s' = b_ctx s -> b_stack s' = b_stack s -> b_cap s' = b_cap s -> frame s s'.
Proof.
  intros H1 H2 H3 H4. repeat split; try assumption; intros o; rewrite (get_obj_eq s s' o H1); reflexivity.
Qed.

Lemma frame_set_loc s oid loc : frame s (set_loc s oid loc).
Proof.
  repeat split; intros o; rewrite (get_obj_nset s (set_loc s oid loc) oid _ o eq_refl);
    destruct (Nat.eqb o oid) eqn:E; try reflexivity; apply Nat.eqb_eq in E; subst; reflexivity.
Qed.

Lemma frame_is_buffered s s' o : frame s s' -> is_buffered s' o = is_buffered s o.
Proof. intros (A1 & _ & _ & _ & A5). unfold is_buffered. rewrite A1, A5. reflexivity. Qed.

Lemma frame_file s s' o : frame s s' -> bo_file (get_obj s' o) = bo_file (get_obj s o).
Proof. intros (_ & _ & _ & A4 & _). apply A4. Qed.

Lemma frame_cap s s' : frame s s' -> b_cap s' = b_cap s.
Proof. intros (_ & _ & A3 & _). exact A3. Qed.
Lemma frame_stack s s' : frame s s' -> b_stack s' = b_stack s.
Proof. intros (_ & A2 & _). exact A2. Qed.
Lemma frame_ctx s s' : frame s s' -> b_ctx s' = b_ctx s.
Proof. intros (A1 & _). exact A1. Qed.

Lemma register_fields s oid :
  b_objs (register s oid) = b_objs s /\ b_ctx (register s oid) = b_ctx s /\ b_stack (register s oid) = b_stack s
  /\ b_cap (register s oid) = b_cap s /\ b_buffer (register s oid) = b_buffer s /\ b_size (register s oid) = b_size s
  /\ b_files (register s oid) = b_files s /\ b_writes (register s oid) = b_writes s /\ b_heap (register s oid) = b_heap s.
Proof. unfold register. destruct (nmem oid (b_bcs s)); repeat split. Qed.

Lemma register_bcs s oid o : In o (b_bcs (register s oid)) <-> o = oid \/ In o (b_bcs s).
Proof.
  unfold register. destruct (nmem oid (b_bcs s)) eqn:E.
  - apply nmem_In in E. split; [intros H; right; exact H|]. intros [->|H]; assumption.
  - bsimpl. rewrite in_app_iff. simpl. split.
    + intros [H|[H|[]]]; [right; exact H|left; symmetry; exact H].
    + intros [->|H]; [right; left; reflexivity|left; exact H].
Qed.

Lemma frame_register s oid : frame s (register s oid).
Proof.
  destruct (register_fields s oid) as (H1 & H2 & H3 & H4 & _). apply frame_objs_eq; assumption.
Qed.

Lemma get_obj_register s oid o : get_obj (register s oid) o = get_obj s o.
Proof. apply get_obj_eq. apply register_fields. Qed.

(* ------------------------------------------------------------------ *)
(* flush_one: case analysis *)
Ltac fo_cases strat s oid force :=
  unfold flush_one;
  destruct (negb (is_buffered s oid) || force) eqn:Hcond;
  [ let e := fresh "e" in
    destruct (nlookup (bo_file (get_obj s oid)) (b_buffer s)) as [e|] eqn:Hlk;
    [ destruct strat;
      [ destruct (veq_text (e_val e) (e_hash e)) eqn:Hveq;
        [| destruct (negb (opt_nat_eqb (e_meta e) (stamp s (bo_file (get_obj s oid))))) eqn:Hmeta ]
      | destruct (e_mod e) eqn:Hmod;
        [ destruct (negb (opt_nat_eqb (e_meta e) (stamp s (bo_file (get_obj s oid))))) eqn:Hmeta |];
        destruct force eqn:Hforce ]
    | destruct strat; [| destruct force eqn:Hforce ] ]
  | destruct strat ].

Lemma flush_one_frame strat blen s oid force :
  let s' := fst (flush_one strat blen s oid force) in
  frame s s' /\ b_bcs s' = b_bcs s /\ b_forced s' = b_forced s.
Proof.
  fo_cases strat s oid force; bsimpl; (split; [|split; reflexivity]);
    try (apply frame_objs_eq; reflexivity);
    try (eapply frame_trans; [apply frame_set_loc|apply frame_objs_eq; reflexivity]).
Qed.

Lemma flush_one_is_buffered strat blen s oid force o :
  is_buffered (fst (flush_one strat blen s oid force)) o = is_buffered s o.
Proof. apply frame_is_buffered. apply flush_one_frame. Qed.

Lemma flush_one_file strat blen s oid force o :
  bo_file (get_obj (fst (flush_one strat blen s oid force)) o) = bo_file (get_obj s o).
Proof. apply frame_file. apply flush_one_frame. Qed.

(* ------------------------------------------------------------------ *)
(* accounting *)
Definition ew (strat : strategy) (blen : val -> Z) (e : entry) : Z :=
  match strat with Ser => blen (e_val e) | Shm => if e_mod e then 1 else 0 end.

Lemma expected_size_wsum strat blen s : expected_size strat blen s = wsum (ew strat blen) (b_buffer s).
Proof. destruct strat; reflexivity. Qed.

(* [acctb true] is acct; [acctb false] is just the absence of duplicate keys *)
Definition acctb (b : bool) (strat : strategy) (blen : val -> Z) (s : bstate) : Prop :=
  (b = true -> b_size s = wsum (ew strat blen) (b_buffer s)) /\ NoDup (map fst (b_buffer s)).

Lemma acctb_true strat blen s : acctb true strat blen s <-> acct strat blen s.
Proof.
  unfold acctb, acct. rewrite expected_size_wsum. split; intros [H1 H2]; split; auto.
Qed.
Lemma acctb_false strat blen s : acctb false strat blen s <-> NoDup (map fst (b_buffer s)).
Proof. unfold acctb. split; [intros [_ H]; exact H|intros H; split; [discriminate|exact H]]. Qed.
Lemma acctb_nodup b strat blen s : acctb b strat blen s -> NoDup (map fst (b_buffer s)).
Proof. intros [_ H]. exact H. Qed.

Lemma acct_nodup strat blen s : acct strat blen s -> NoDup (map fst (b_buffer s)).
Proof. intros [_ H]. exact H. Qed.

Lemma acct_same b strat blen s s' :
  b_buffer s' = b_buffer s -> b_size s' = b_size s -> acctb b strat blen s -> acctb b strat blen s'.
Proof. unfold acctb. intros -> ->. intros H; exact H. Qed.

Lemma acct_del b strat blen s s' f e :
  acctb b strat blen s -> nlookup f (b_buffer s) = Some e ->
  b_buffer s' = nremove f (b_buffer s) -> b_size s' = b_size s - ew strat blen e -> acctb b strat blen s'.
Proof.
  unfold acctb. intros [H1 H2] Hl -> ->. split.
  - intros Hb. rewrite wsum_nremove, Hl, (H1 Hb). simpl. lia.
  - apply NoDup_nremove. exact H2.
Qed.

Lemma acct_set b strat blen s s' f e' :
  acctb b strat blen s -> b_buffer s' = nset f e' (b_buffer s) ->
  b_size s' = b_size s - wof (ew strat blen) (nlookup f (b_buffer s)) + ew strat blen e' -> acctb b strat blen s'.
Proof.
  unfold acctb. intros [H1 H2] -> ->. split.
  - intros Hb. rewrite wsum_nset, (H1 Hb). lia.
  - apply NoDup_nset. exact H2.
Qed.

Lemma flush_one_acct b strat blen s oid force :
  acctb b strat blen s -> acctb b strat blen (fst (flush_one strat blen s oid force)).
Proof.
  intros HA.
  fo_cases strat s oid force; bsimpl;
    try (eapply acct_same; [| |exact HA]; reflexivity);
    try (eapply acct_del; [exact HA|exact Hlk|reflexivity|]; bsimpl; cbn [ew]; try rewrite Hmod; try reflexivity; lia);
    try (eapply acct_set; [exact HA|reflexivity|]; bsimpl; rewrite Hlk; cbn [ew wof e_mod]; try rewrite Hmod; lia).
Qed.

(* generic lifting through flush_loop / flush_buffer / check_capacity / set_capacity *)
Lemma flush_loop_pres strat blen (P : bstate -> Prop) force :
  (forall s oid, P s -> P (fst (flush_one strat blen s oid force))) ->
  forall todo s rem iss, P s -> P (fst (fst (flush_loop strat blen todo s force rem iss))).
Proof.
  intros HP. induction todo as [|oid todo IH]; intros s rem iss Hs; simpl.
  - exact Hs.
  - destruct (is_buffered s oid && negb force).
    + apply IH. exact Hs.
    + specialize (HP s oid Hs).
      destruct (flush_one strat blen s oid force) as [s1 [[f|fs]|]]; apply IH; exact HP.
Qed.

Definition closed_ctl (P : bstate -> Prop) : Prop :=
  (forall s l, P s -> P (upd_bcs s l)) /\ (forall s, P s -> P (note_forced s)) /\ (forall s n, P s -> P (upd_cap s n)).

Lemma flush_buffer_fst strat blen s force :
  fst (flush_buffer strat blen s force) =
  upd_bcs (fst (fst (flush_loop strat blen (rev (b_bcs s)) (upd_bcs s []) force [] [])))
          (snd (fst (flush_loop strat blen (rev (b_bcs s)) (upd_bcs s []) force [] []))).
Proof.
  unfold flush_buffer. destruct (flush_loop strat blen (rev (b_bcs s)) (upd_bcs s []) force [] []) as [[s1 rem] iss].
  destruct iss; reflexivity.
Qed.

Lemma flush_buffer_pres strat blen (P : bstate -> Prop) force :
  closed_ctl P ->
  (forall s oid, P s -> P (fst (flush_one strat blen s oid force))) ->
  forall s, P s -> P (fst (flush_buffer strat blen s force)).
Proof.
  intros (C1 & _) HP s Hs. rewrite flush_buffer_fst. apply C1. apply flush_loop_pres; [exact HP|]. apply C1. exact Hs.
Qed.

Lemma check_capacity_pres strat blen (P : bstate -> Prop) :
  closed_ctl P ->
  (forall s oid, P s -> P (fst (flush_one strat blen s oid true))) ->
  forall s, P s -> P (fst (check_capacity strat blen s)).
Proof.
  intros C HP s Hs. unfold check_capacity. destruct (b_cap s <? b_size s); [|exact Hs].
  apply flush_buffer_pres; try assumption. apply C. exact Hs.
Qed.

Lemma set_capacity_pres strat blen (P : bstate -> Prop) :
  closed_ctl P ->
  (forall s oid, P s -> P (fst (flush_one strat blen s oid true))) ->
  forall s n, P s -> P (fst (set_capacity strat blen s n)).
Proof.
  intros C HP s n Hs. unfold set_capacity.
  assert (H1 : P (upd_cap s n)) by (apply C; exact Hs).
  destruct (n <? b_size (upd_cap s n)); [|exact H1].
  apply flush_buffer_pres; try assumption. apply C. exact H1.
Qed.

Lemma acct_closed b strat blen : closed_ctl (acctb b strat blen).
Proof. split; [|split]; intros; (eapply acct_same; [| |eassumption]; reflexivity). Qed.

(* ------------------------------------------------------------------ *)
(* states that differ only in heap / allocation pointer *)
Definition heap_only (s s' : bstate) : Prop :=
  b_objs s' = b_objs s /\ b_buffer s' = b_buffer s /\ b_size s' = b_size s /\ b_ctx s' = b_ctx s /\
  b_stack s' = b_stack s /\ b_cap s' = b_cap s /\ b_bcs s' = b_bcs s /\ b_files s' = b_files s /\
  b_writes s' = b_writes s /\ b_clock s' = b_clock s.

Lemma set_data_heap_only s oid v : heap_only s (set_data s oid v).
Proof. repeat split. Qed.
Lemma update_root_heap_only s oid d : heap_only s (update_root s oid d).
Proof. destruct d; repeat split. Qed.

Lemma heap_only_frame s s' : heap_only s s' -> frame s s'.
Proof. intros (H1 & _ & _ & H4 & H5 & H6 & _). apply frame_objs_eq; assumption. Qed.
Lemma heap_only_acct b strat blen s s' : heap_only s s' -> acctb b strat blen s -> acctb b strat blen s'.
Proof. intros (_ & H2 & H3 & _). apply acct_same; assumption. Qed.
Lemma heap_only_get_obj s s' o : heap_only s s' -> get_obj s' o = get_obj s o.
Proof. intros (H1 & _). apply get_obj_eq. exact H1. Qed.
Lemma heap_only_read_disk s s' f : heap_only s s' -> read_disk s' f = read_disk s f.
Proof. intros (_ & _ & _ & _ & _ & _ & _ & H & _). unfold read_disk. rewrite H. reflexivity. Qed.
Lemma heap_only_stamp s s' f : heap_only s s' -> stamp s' f = stamp s f.
Proof. intros (_ & _ & _ & _ & _ & _ & _ & H & _). unfold stamp. rewrite H. reflexivity. Qed.

(* ------------------------------------------------------------------ *)
(* the pieces of bstep_fn *)
Definition stb_pre (strat : strategy) (blen : val -> Z) (s : bstate) (oid : nat) : bstate :=
  let s0 := register s oid in
  let o := get_obj s0 oid in
  let f := bo_file o in
  match strat, nlookup f (b_buffer s0) with
  | Ser, Some e =>
      let d := data_of s0 oid in
      upd_size (set_entry s0 f {| e_val := d; e_loc := e_loc e; e_hash := e_hash e; e_meta := e_meta e; e_mod := e_mod e |})
               (b_size s0 + blen d - blen (e_val e))
  | Ser, None =>
      let s' := init_entry strat blen s0 oid false in
      match nlookup f (b_buffer s') with
      | Some e => set_entry s' f {| e_val := e_val e; e_loc := e_loc e;
                                    e_hash := match read_disk s' f with Some d => d | None => VS SNull end;
                                    e_meta := e_meta e; e_mod := e_mod e |}
      | None => s'
      end
  | Shm, Some e =>
      let s' := if Nat.eqb (e_loc e) (bo_loc o) then s0
                else set_loc (upd_heap s0 (nset (e_loc e) (data_of s0 oid) (b_heap s0))) oid (e_loc e) in
      if e_mod e then s'
      else upd_size (set_entry s' f {| e_val := e_val e; e_loc := e_loc e; e_hash := e_hash e;
                                       e_meta := e_meta e; e_mod := true |}) (b_size s' + 1)
  | Shm, None => let s' := init_entry strat blen s0 oid true in upd_size s' (b_size s' + 1)
  end.

Lemma save_to_buffer_eq strat blen s oid :
  save_to_buffer strat blen s oid = check_capacity strat blen (stb_pre strat blen s oid).
Proof. destruct strat; reflexivity. Qed.

Definition load2 (strat : strategy) (blen : val -> Z) (o : nop) (oid : nat) (s0 : bstate) : bstate * option exn :=
  match o with
  | OL (LEq _) | OD (DEq _) =>
      match load strat blen s0 oid with
      | (s1, Some x) => (s1, Some x)
      | (s1, None) => load strat blen s1 oid
      end
  | _ => load strat blen s0 oid
  end.

Lemma load2_cases strat blen o oid s :
  load2 strat blen o oid s = load strat blen s oid
  \/ (exists x, snd (load strat blen s oid) = Some x /\ load2 strat blen o oid s = load strat blen s oid)
  \/ (snd (load strat blen s oid) = None /\
      load2 strat blen o oid s = load strat blen (fst (load strat blen s oid)) oid).
Proof.
  assert (D : match load strat blen s oid with (s1, Some x) => (s1, Some x) | (s1, None) => load strat blen s1 oid end
              = load strat blen s oid
           \/ (snd (load strat blen s oid) = None /\
               match load strat blen s oid with (s1, Some x) => (s1, Some x) | (s1, None) => load strat blen s1 oid end
               = load strat blen (fst (load strat blen s oid)) oid)).
  { destruct (load strat blen s oid) as [s1 [x|]]; [left; reflexivity|right; split; reflexivity]. }
  destruct o as [lo|d]; [destruct lo|destruct d]; simpl; try (left; reflexivity);
    (destruct D as [D|D]; [left; exact D|right; right; exact D]).
Qed.

Lemma load2_pres strat blen (P : bstate -> Prop) o oid :
  (forall s, P s -> P (fst (load strat blen s oid))) ->
  forall s, P s -> P (fst (load2 strat blen o oid s)).
Proof.
  intros HP s Hs. destruct (load2_cases strat blen o oid s) as [E|[(x & _ & E)|(_ & E)]]; rewrite E.
  - apply HP; exact Hs.
  - apply HP; exact Hs.
  - apply HP. apply HP. exact Hs.
Qed.

Definition bop_fst (strat : strategy) (blen : val -> Z) (s : bstate) (oid : nat) (p : path) (o : nop) : bstate :=
  match pre_err o with
  | Some _ => s
  | None =>
      if (match p with [] => true | _ => false end) && nop_no_load o then
        match apply_at p o (data_of s oid) with
        | None => s
        | Some (Err _, _) => s
        | Some (Ok _, d') => fst (save strat blen (set_data s oid d') oid)
        end
      else
        let s1 := fst (load2 strat blen o oid s) in
        match snd (load2 strat blen o oid s) with
        | Some _ => s1
        | None =>
            match apply_at p o (data_of s1 oid) with
            | None => s1
            | Some (_, d') => if nop_is_read o then s1 else fst (save strat blen (set_data s1 oid d') oid)
            end
        end
  end.

Definition orig_of (st : list (option Z)) : option Z := match st with o :: _ => o | [] => None end.

Definition exit_s2 (strat : strategy) (blen : val -> Z) (s : bstate) : bstate :=
  let s1 := upd_ctx s (Nat.pred (b_ctx s)) in
  if Nat.eqb (b_ctx s1) 0 then fst (flush_buffer strat blen s1 false) else s1.

Definition step_fst (strat : strategy) (blen : val -> Z) (s : bstate) (op : bop) : bstate :=
  match op with
  | BNew oid f k =>
      let loc := b_nloc s in
      {| b_files := b_files s; b_clock := b_clock s; b_writes := b_writes s;
         b_heap := nset loc (empty_of k) (b_heap s); b_nloc := S loc;
         b_objs := nset oid {| bo_file := f; bo_loc := loc; bo_buf := 0; bo_kind := k |} (b_objs s);
         b_buffer := b_buffer s; b_size := b_size s; b_cap := b_cap s; b_stack := b_stack s;
         b_ctx := b_ctx s; b_bcs := b_bcs s; b_forced := b_forced s |}
  | BExt f v => write_disk_raw s f v
  | BOp oid p o => bop_fst strat blen s oid p o
  | BEnterObj oid => set_buf s oid (S (bo_buf (get_obj s oid)))
  | BExitObj oid =>
      let n := Nat.pred (bo_buf (get_obj s oid)) in
      let s1 := set_buf s oid n in
      if Nat.eqb n 0 then fst (flush_one strat blen s1 oid false) else s1
  | BEnterCls cap =>
      let s1 := upd_ctx s (S (b_ctx s)) in
      match cap with
      | None => upd_stack s1 (None :: b_stack s1)
      | Some c => fst (set_capacity strat blen (upd_stack s1 (Some (b_cap s1) :: b_stack s1)) c)
      end
  | BExitCls =>
      let s2 := exit_s2 strat blen s in
      let s3 := upd_stack s2 (tl (b_stack s2)) in
      match orig_of (b_stack s2) with
      | Some c => fst (set_capacity strat blen s3 c)
      | None => s3
      end
  | BSetCap n => fst (set_capacity strat blen s n)
  end.

Lemma bstep_fst strat blen s op : fst (bstep_fn strat blen s op) = step_fst strat blen s op.
Proof.
  destruct op as [oid f k|f v|oid p o|oid|oid|cap| |n]; cbn [bstep_fn step_fst].
  - reflexivity.
  - reflexivity.
  - unfold bop_fst. fold (load2 strat blen o oid s).
    destruct (pre_err o); [reflexivity|].
    destruct ((match p with [] => true | _ => false end) && nop_no_load o).
    + destruct (apply_at p o (data_of s oid)) as [[[v|e] d']|]; try reflexivity.
      destruct (save strat blen (set_data s oid d') oid) as [s2 [x|]]; reflexivity.
    + destruct (load2 strat blen o oid s) as [s1 [x|]]; cbn [fst snd]; [reflexivity|].
      destruct (apply_at p o (data_of s1 oid)) as [[r d']|]; [|reflexivity].
      destruct (nop_is_read o); [reflexivity|].
      destruct (save strat blen (set_data s1 oid d') oid) as [s2 [x|]]; reflexivity.
  - reflexivity.
  - cbv zeta. destruct (Nat.eqb (Nat.pred (bo_buf (get_obj s oid))) 0); [|reflexivity].
    destruct (flush_one strat blen _ oid false) as [s2 [x|]]; reflexivity.
  - cbv zeta. destruct cap as [c|]; [|reflexivity].
    destruct (set_capacity strat blen _ c) as [s3 [x|]]; reflexivity.
  - unfold exit_s2. cbv zeta.
    destruct (Nat.eqb (b_ctx (upd_ctx s (Nat.pred (b_ctx s)))) 0).
    + destruct (flush_buffer strat blen (upd_ctx s (Nat.pred (b_ctx s))) false) as [s2 x1]. cbn [fst].
      destruct (b_stack s2) as [|[c|] st]; cbn [orig_of tl].
      * destruct x1; reflexivity.
      * destruct (set_capacity strat blen _ c) as [s4 [x|]]; destruct x1; reflexivity.
      * destruct x1; reflexivity.
    + destruct (b_stack (upd_ctx s (Nat.pred (b_ctx s)))) as [|[c|] st]; cbn [orig_of tl].
      * reflexivity.
      * destruct (set_capacity strat blen _ c) as [s4 [x|]]; reflexivity.
      * reflexivity.
  - destruct (set_capacity strat blen s n) as [s1 [x|]]; reflexivity.
Qed.

(* ------------------------------------------------------------------ *)
(* acct through load / save / step *)
Lemma init_entry_acct b strat blen s oid m :
  acctb b strat blen s -> nlookup (bo_file (get_obj s oid)) (b_buffer s) = None ->
  acctb b strat blen
    (match strat with
     | Ser => init_entry strat blen s oid m
     | Shm => if m then upd_size (init_entry strat blen s oid m) (b_size (init_entry strat blen s oid m) + 1)
              else init_entry strat blen s oid m
     end).
Proof.
  intros HA Hl. unfold init_entry. destruct strat; [|destruct m]; bsimpl;
    (eapply acct_set; [exact HA|reflexivity|]; bsimpl; rewrite Hl; cbn [ew wof e_val e_mod]; lia).
Qed.

Lemma init_entry_buffer strat blen s oid m :
  exists e, b_buffer (init_entry strat blen s oid m) = nset (bo_file (get_obj s oid)) e (b_buffer s)
            /\ e_mod e = m /\ e_val e = data_of s oid /\ e_hash e = data_of s oid.
Proof. unfold init_entry. destruct strat; bsimpl; eexists; (split; [reflexivity|]); repeat split. Qed.

Lemma init_entry_fields strat blen s oid m :
  let s' := init_entry strat blen s oid m in
  b_objs s' = b_objs s /\ b_ctx s' = b_ctx s /\ b_stack s' = b_stack s /\ b_cap s' = b_cap s /\ b_bcs s' = b_bcs s
  /\ b_files s' = b_files s /\ b_writes s' = b_writes s /\ b_heap s' = b_heap s.
Proof. unfold init_entry. destruct strat; repeat split. Qed.

Lemma lfbb_acct b strat blen s oid :
  acctb b strat blen s -> acctb b strat blen (load_from_buffer_base strat blen s oid).
Proof.
  intros HA. unfold load_from_buffer_base.
  destruct (nlookup (bo_file (get_obj s oid)) (b_buffer s)) eqn:Hl.
  - eapply acct_same; [| |exact HA]; apply register_fields.
  - set (s' := update_root s oid (read_disk s (bo_file (get_obj s oid)))).
    assert (HO : heap_only s s') by apply update_root_heap_only.
    assert (HA' : acctb b strat blen s') by (eapply heap_only_acct; eassumption).
    assert (Hl' : nlookup (bo_file (get_obj s' oid)) (b_buffer s') = None).
    { rewrite (heap_only_get_obj s s' oid HO). destruct HO as (_ & -> & _). exact Hl. }
    pose proof (init_entry_acct b strat blen s' oid false HA' Hl') as H.
    eapply acct_same; [| |]; [apply register_fields|apply register_fields|].
    destruct strat; exact H.
Qed.

Lemma check_capacity_acct b strat blen s :
  acctb b strat blen s -> acctb b strat blen (fst (check_capacity strat blen s)).
Proof. apply check_capacity_pres; [apply acct_closed|]. intros; apply flush_one_acct; assumption. Qed.

Lemma set_capacity_acct b strat blen s n :
  acctb b strat blen s -> acctb b strat blen (fst (set_capacity strat blen s n)).
Proof. apply set_capacity_pres; [apply acct_closed|]. intros; apply flush_one_acct; assumption. Qed.

Lemma flush_buffer_acct b strat blen s force :
  acctb b strat blen s -> acctb b strat blen (fst (flush_buffer strat blen s force)).
Proof. apply flush_buffer_pres; [apply acct_closed|]. intros; apply flush_one_acct; assumption. Qed.

Lemma load_acct b strat blen s oid :
  acctb b strat blen s -> acctb b strat blen (fst (load strat blen s oid)).
Proof.
  intros HA. unfold load. destruct (is_buffered s oid).
  - pose proof (lfbb_acct b strat blen s oid HA) as H1.
    destruct strat.
    + pose proof (check_capacity_acct b Ser blen _ H1) as H2.
      destruct (check_capacity Ser blen (load_from_buffer_base Ser blen s oid)) as [s2 [x|]]; cbn [fst] in *.
      * exact H2.
      * eapply heap_only_acct; [apply update_root_heap_only|exact H2].
    + destruct (nlookup _ _); cbn [fst]; [|exact H1].
      eapply acct_same; [| |exact H1]; reflexivity.
  - cbn [fst]. eapply heap_only_acct; [apply update_root_heap_only|exact HA].
Qed.

Lemma stb_pre_acct b strat blen s oid :
  acctb b strat blen s -> acctb b strat blen (stb_pre strat blen s oid).
Proof.
  intros HA.
  assert (HA0 : acctb b strat blen (register s oid)) by (eapply acct_same; [| |exact HA]; apply register_fields).
  unfold stb_pre. set (s0 := register s oid) in *. set (f := bo_file (get_obj s0 oid)).
  destruct strat; destruct (nlookup f (b_buffer s0)) as [e|] eqn:Hl.
  - eapply acct_set; [exact HA0|reflexivity|]. bsimpl. rewrite Hl. cbn [ew wof e_val]. lia.
  - pose proof (init_entry_acct b Ser blen s0 oid false HA0 Hl) as H1. cbv beta iota in H1.
    destruct (init_entry_buffer Ser blen s0 oid false) as (e0 & Hb & _).
    fold f in Hb. rewrite Hb, nlookup_nset_same.
    eapply acct_set; [exact H1|reflexivity|]. bsimpl. rewrite Hb, nlookup_nset_same. cbn [ew wof e_val]. lia.
  - set (s' := if Nat.eqb (e_loc e) (bo_loc (get_obj s0 oid)) then s0 else _).
    assert (Hs' : b_buffer s' = b_buffer s0 /\ b_size s' = b_size s0).
    { subst s'. destruct (Nat.eqb _ _); split; reflexivity. }
    destruct Hs' as [Hb Hz].
    assert (HA' : acctb b Shm blen s') by (eapply acct_same; eassumption).
    destruct (e_mod e) eqn:Hm; [exact HA'|].
    eapply acct_set; [exact HA'|reflexivity|]. bsimpl. rewrite Hb, Hl. cbn [ew wof e_mod]. rewrite Hm. lia.
  - exact (init_entry_acct b Shm blen s0 oid true HA0 Hl).
Qed.

Lemma save_acct b strat blen s oid :
  acctb b strat blen s -> acctb b strat blen (fst (save strat blen s oid)).
Proof.
  intros HA. unfold save. destruct (is_buffered s oid).
  - rewrite save_to_buffer_eq. apply check_capacity_acct. apply stb_pre_acct. exact HA.
  - cbn [fst]. eapply acct_same; [| |exact HA]; reflexivity.
Qed.

Lemma bop_fst_pres strat blen (P : bstate -> Prop) oid :
  (forall s v, P s -> P (set_data s oid v)) ->
  (forall s, P s -> P (fst (load strat blen s oid))) ->
  (forall s, P s -> P (fst (save strat blen s oid))) ->
  forall s p o, P s -> P (bop_fst strat blen s oid p o).
Proof.
  intros H1 H2 H3 s p o Hs. unfold bop_fst.
  destruct (pre_err o); [exact Hs|].
  destruct (_ && _).
  - destruct (apply_at p o (data_of s oid)) as [[[v|e] d']|]; try exact Hs.
    apply H3. apply H1. exact Hs.
  - pose proof (load2_pres strat blen P o oid H2 s Hs) as HL.
    cbv zeta. destruct (snd (load2 strat blen o oid s)); [exact HL|].
    destruct (apply_at p o _) as [[r d']|]; [|exact HL].
    destruct (nop_is_read o); [exact HL|]. apply H3. apply H1. exact HL.
Qed.

Theorem step_acct_aux b strat blen s op :
  acctb b strat blen s -> acctb b strat blen (step_fst strat blen s op).
Proof.
  intros HA. destruct op as [oid f k|f v|oid p o|oid|oid|cap| |n]; cbn [step_fst].
  - eapply acct_same; [| |exact HA]; reflexivity.
  - eapply acct_same; [| |exact HA]; reflexivity.
  - apply bop_fst_pres; try assumption.
    + intros s0 v H. eapply acct_same; [| |exact H]; reflexivity.
    + intros s0. apply load_acct.
    + intros s0. apply save_acct.
  - eapply acct_same; [| |exact HA]; reflexivity.
  - cbv zeta. destruct (Nat.eqb _ 0).
    + apply flush_one_acct. eapply acct_same; [| |exact HA]; reflexivity.
    + eapply acct_same; [| |exact HA]; reflexivity.
  - cbv zeta. destruct cap as [c|].
    + apply set_capacity_acct. eapply acct_same; [| |exact HA]; reflexivity.
    + eapply acct_same; [| |exact HA]; reflexivity.
  - assert (H2 : acctb b strat blen (exit_s2 strat blen s)).
    { unfold exit_s2. cbv zeta. destruct (Nat.eqb _ 0).
      - apply flush_buffer_acct. eapply acct_same; [| |exact HA]; reflexivity.
      - eapply acct_same; [| |exact HA]; reflexivity. }
    cbv zeta. destruct (orig_of _).
    + apply set_capacity_acct. eapply acct_same; [| |exact H2]; reflexivity.
    + eapply acct_same; [| |exact H2]; reflexivity.
  - apply set_capacity_acct. exact HA.
Qed.
