(* TreeBase.v — basic lemmas about Val / Valid / Class / Tree: equality tests,
   induction principles, association lists, validators, from_base, VEq. *)
From Coq Require Import List ZArith NArith Bool Lia Arith.
From SC Require Import Model.Val Model.Plain Model.Valid Model.Class Model.Tree Proofs.TreeDefs.
Import ListNotations.

(* ------------------------------------------------------------------ *)
(* equality tests                                                      *)
(* ------------------------------------------------------------------ *)

Lemma str_eqb_eq a b : str_eqb a b = true <-> a = b.
Proof.
  revert b; induction a as [|x a IH]; destruct b as [|y b]; simpl; split; intro H;
    try reflexivity; try discriminate.
  - apply andb_true_iff in H. destruct H as [H1 H2].
    apply N.eqb_eq in H1. apply IH in H2. congruence.
  - inversion H; subst. apply andb_true_iff; split.
    + apply N.eqb_refl.
    + apply IH; reflexivity.
Qed.

Lemma key_eqb_eq a b : key_eqb a b = true <-> a = b.
Proof.
  destruct a as [s|s], b as [t|t]; simpl.
  - rewrite str_eqb_eq. split; congruence.
  - split; intro H; discriminate.
  - split; intro H; discriminate.
  - rewrite N.eqb_eq. split; congruence.
Qed.

Lemma str_eqb_refl a : str_eqb a a = true.
Proof. apply str_eqb_eq; reflexivity. Qed.

Lemma key_eqb_refl a : key_eqb a a = true.
Proof. apply key_eqb_eq; reflexivity. Qed.

Lemma key_eqb_neq a b : key_eqb a b = false <-> a <> b.
Proof.
  split.
  - intros H E. apply key_eqb_eq in E. congruence.
  - intros H. destruct (key_eqb a b) eqn:E; [|reflexivity].
    apply key_eqb_eq in E. contradiction.
Qed.

Lemma str_eqb_sym a b : str_eqb a b = str_eqb b a.
Proof.
  destruct (str_eqb a b) eqn:E1, (str_eqb b a) eqn:E2; try reflexivity.
  - apply str_eqb_eq in E1. subst. rewrite str_eqb_refl in E2. discriminate.
  - apply str_eqb_eq in E2. subst. rewrite str_eqb_refl in E1. discriminate.
Qed.

Lemma kind_eqb_eq a b : kind_eqb a b = true <-> a = b.
Proof. destruct a, b; simpl; split; intro H; try reflexivity; discriminate. Qed.

Lemma flt_eqb_refl f : flt_eqb f f = true.
Proof. destruct f; simpl; [reflexivity|]. rewrite !Z.eqb_refl. reflexivity. Qed.

Lemma flt_eqb_sym f g : flt_eqb f g = flt_eqb g f.
Proof.
  destruct f, g; simpl; try reflexivity.
  rewrite (Z.eqb_sym m m0), (Z.eqb_sym e e0). reflexivity.
Qed.

Lemma seq_strict_refl s : seq_strict s s = true.
Proof.
  destruct s; simpl.
  - reflexivity.
  - destruct b; reflexivity.
  - apply Z.eqb_refl.
  - apply flt_eqb_refl.
  - apply str_eqb_refl.
  - apply N.eqb_refl.
Qed.

Lemma seq_strict_sym a b : seq_strict a b = seq_strict b a.
Proof.
  destruct a, b; simpl; try reflexivity.
  - destruct b0, b; reflexivity.
  - apply Z.eqb_sym.
  - apply flt_eqb_sym.
  - apply str_eqb_sym.
  - apply N.eqb_sym.
Qed.

(* ------------------------------------------------------------------ *)
(* induction principles                                                *)
(* ------------------------------------------------------------------ *)

Section ValInd.
  Variable P : val -> Prop.
  Hypothesis HS : forall s, P (VS s).
  Hypothesis HL : forall l, Forall P l -> P (VL l).
  Hypothesis HD : forall d, Forall (fun kv : key * val => P (snd kv)) d -> P (VD d).
  Fixpoint val_ind2 (v : val) : P v :=
    match v with
    | VS s => HS s
    | VL l => HL l ((fix go (l : list val) : Forall P l :=
                       match l with
                       | [] => Forall_nil _
                       | x :: l' => Forall_cons x (val_ind2 x) (go l')
                       end) l)
    | VD d => HD d ((fix go (d : list (key * val)) : Forall (fun kv => P (snd kv)) d :=
                       match d with
                       | [] => Forall_nil _
                       | kv :: d' =>
                           Forall_cons kv
                             (match kv as kv0 return P (snd kv0) with (k, w) => val_ind2 w end)
                             (go d')
                       end) d)
    end.
End ValInd.

Section NodeInd.
  Variable P : node -> Prop.
  Hypothesis HV : forall v, P (NV v).
  Hypothesis HL : forall id c l, Forall P l -> P (NL id c l).
  Hypothesis HD : forall id c d, Forall (fun kn : key * node => P (snd kn)) d -> P (ND id c d).
  Fixpoint node_ind2 (n : node) : P n :=
    match n with
    | NV v => HV v
    | NL id c l => HL id c l ((fix go (l : list node) : Forall P l :=
                       match l with
                       | [] => Forall_nil _
                       | x :: l' => Forall_cons x (node_ind2 x) (go l')
                       end) l)
    | ND id c d => HD id c d ((fix go (d : list (key * node)) : Forall (fun kn => P (snd kn)) d :=
                       match d with
                       | [] => Forall_nil _
                       | kn :: d' =>
                           Forall_cons kn
                             (match kn as kn0 return P (snd kn0) with (k, w) => node_ind2 w end)
                             (go d')
                       end) d)
    end.
End NodeInd.

(* ------------------------------------------------------------------ *)
(* small list facts                                                    *)
(* ------------------------------------------------------------------ *)

Lemma forallb_Forall' {A} (f : A -> bool) l :
  forallb f l = true <-> Forall (fun x => f x = true) l.
Proof. rewrite forallb_forall, Forall_forall. reflexivity. Qed.

Lemma Forall2_impl' {A B} (R R' : A -> B -> Prop) l m :
  (forall x y, R x y -> R' x y) -> Forall2 R l m -> Forall2 R' l m.
Proof. intros H F. induction F; constructor; auto. Qed.

Lemma Forall2_right {A B} (Q : B -> Prop) (l : list A) m :
  Forall2 (fun _ y => Q y) l m -> Forall Q m.
Proof. intros F. induction F; constructor; auto. Qed.

Lemma Forall_filter' {A} (P : A -> Prop) f l : Forall P l -> Forall P (filter f l).
Proof.
  intros H. apply Forall_forall. intros x Hx. apply filter_In in Hx.
  rewrite Forall_forall in H. apply H. tauto.
Qed.

Lemma NoDup_app' {A} (l1 l2 : list A) :
  NoDup l1 -> NoDup l2 -> (forall x, In x l1 -> ~ In x l2) -> NoDup (l1 ++ l2).
Proof.
  induction l1 as [|a l1 IH]; simpl; intros H1 H2 H.
  - exact H2.
  - inversion H1; subst. constructor.
    + intros Hin. apply in_app_or in Hin. destruct Hin as [Hin|Hin].
      * contradiction.
      * apply (H a); auto.
    + apply IH; auto.
Qed.

(* ------------------------------------------------------------------ *)
(* association lists                                                   *)
(* ------------------------------------------------------------------ *)

Lemma alookup_In {A} k (d : list (key * A)) x : alookup k d = Some x -> In (k, x) d.
Proof.
  induction d as [|[k' v] d IH]; simpl; intros H.
  - discriminate.
  - destruct (key_eqb k k') eqn:E.
    + apply key_eqb_eq in E. inversion H; subst. left; reflexivity.
    + right; auto.
Qed.

Lemma alookup_None {A} k (d : list (key * A)) : alookup k d = None <-> ~ In k (map fst d).
Proof.
  induction d as [|[k' v] d IH]; simpl.
  - split; auto.
  - destruct (key_eqb k k') eqn:E.
    + apply key_eqb_eq in E. subst. split; [discriminate|]. intros H. exfalso; apply H; left; reflexivity.
    + apply key_eqb_neq in E. rewrite IH. split.
      * intros H [H1|H1]; [congruence|contradiction].
      * intros H H1. apply H; right; exact H1.
Qed.

Lemma alookup_Some_key {A} k (d : list (key * A)) x : alookup k d = Some x -> In k (map fst d).
Proof. intros H. apply alookup_In in H. apply (in_map fst) in H. exact H. Qed.

Lemma In_key_alookup {A} k (d : list (key * A)) :
  In k (map fst d) -> exists x, alookup k d = Some x.
Proof.
  intros H. destruct (alookup k d) as [x|] eqn:E.
  - eauto.
  - apply alookup_None in E. contradiction.
Qed.

Lemma keys_unique_NoDup {A} (d : list (key * A)) : keys_unique d = true -> NoDup (map fst d).
Proof.
  induction d as [|[k v] d IH]; simpl; intros H.
  - constructor.
  - destruct (alookup k d) eqn:E; [discriminate|]. constructor.
    + apply alookup_None; exact E.
    + auto.
Qed.

Lemma In_alookup_unique {A} k v (d : list (key * A)) :
  keys_unique d = true -> In (k, v) d -> alookup k d = Some v.
Proof.
  induction d as [|[k0 v0] d IH]; simpl; intros Hu Hin.
  - contradiction.
  - destruct (alookup k0 d) eqn:E0; [discriminate|].
    destruct Hin as [Hin|Hin].
    + inversion Hin; subst. rewrite key_eqb_refl. reflexivity.
    + destruct (key_eqb k k0) eqn:E.
      * apply key_eqb_eq in E. subst. apply alookup_None in E0.
        exfalso. apply E0. apply (in_map fst) in Hin. exact Hin.
      * auto.
Qed.

Lemma alookup_map {A B} (g : A -> B) k (d : list (key * A)) :
  alookup k (map (fun kn : key * A => (fst kn, g (snd kn))) d) = option_map g (alookup k d).
Proof.
  induction d as [|[k' v] d IH]; simpl.
  - reflexivity.
  - destruct (key_eqb k k'); [reflexivity|exact IH].
Qed.

Lemma keys_unique_map {A B} (g : A -> B) (d : list (key * A)) :
  keys_unique (map (fun kn : key * A => (fst kn, g (snd kn))) d) = keys_unique d.
Proof.
  induction d as [|[k v] d IH]; simpl.
  - reflexivity.
  - rewrite alookup_map. destruct (alookup k d); simpl; [reflexivity|exact IH].
Qed.

Lemma alookup_filter_key {A} (p : key -> bool) k (d : list (key * A)) :
  alookup k (filter (fun kn => p (fst kn)) d) = if p k then alookup k d else None.
Proof.
  induction d as [|[k' v] d IH]; simpl.
  - destruct (p k); reflexivity.
  - destruct (p k') eqn:Ep; simpl.
    + destruct (key_eqb k k') eqn:E.
      * apply key_eqb_eq in E. subst. rewrite Ep. reflexivity.
      * exact IH.
    + destruct (key_eqb k k') eqn:E.
      * apply key_eqb_eq in E. subst. rewrite Ep in *. exact IH.
      * exact IH.
Qed.

Lemma keys_unique_filter_key {A} (p : key -> bool) (d : list (key * A)) :
  keys_unique d = true -> keys_unique (filter (fun kn => p (fst kn)) d) = true.
Proof.
  induction d as [|[k v] d IH]; simpl; intros H.
  - reflexivity.
  - destruct (alookup k d) eqn:E; [discriminate|].
    destruct (p k) eqn:Ep; simpl.
    + rewrite alookup_filter_key, Ep, E. auto.
    + auto.
Qed.

Lemma alookup_keep_keys {A B} k (d : list (key * A)) (dd : list (key * B)) :
  alookup k (keep_keys d dd) = match alookup k dd with Some _ => alookup k d | None => None end.
Proof.
  unfold keep_keys.
  rewrite (alookup_filter_key (fun k => match alookup k dd with Some _ => true | None => false end)).
  destruct (alookup k dd); reflexivity.
Qed.

Lemma keys_unique_keep_keys {A B} (d : list (key * A)) (dd : list (key * B)) :
  keys_unique d = true -> keys_unique (keep_keys d dd) = true.
Proof.
  unfold keep_keys. intros H.
  apply (keys_unique_filter_key (fun k => match alookup k dd with Some _ => true | None => false end)).
  exact H.
Qed.

Lemma alookup_dict_set_same {A} (d : list (key * A)) k n : alookup k (dict_set d k n) = Some n.
Proof.
  induction d as [|[k' v] d IH]; simpl.
  - rewrite key_eqb_refl. reflexivity.
  - destruct (key_eqb k k') eqn:E; simpl; rewrite E; [reflexivity|exact IH].
Qed.

Lemma alookup_dict_set_other {A} (d : list (key * A)) k k0 n :
  k0 <> k -> alookup k0 (dict_set d k n) = alookup k0 d.
Proof.
  intros Hne. induction d as [|[k' v] d IH]; simpl.
  - apply key_eqb_neq in Hne. rewrite Hne. reflexivity.
  - destruct (key_eqb k k') eqn:E; simpl.
    + apply key_eqb_eq in E. subst k'. apply key_eqb_neq in Hne. rewrite Hne. reflexivity.
    + destruct (key_eqb k0 k'); [reflexivity|exact IH].
Qed.

Lemma keys_unique_dict_set {A} (d : list (key * A)) k n :
  keys_unique d = true -> keys_unique (dict_set d k n) = true.
Proof.
  induction d as [|[k' v] d IH]; simpl; intros H.
  - reflexivity.
  - destruct (alookup k' d) eqn:E0; [discriminate|].
    destruct (key_eqb k k') eqn:E; simpl.
    + rewrite E0. exact H.
    + rewrite alookup_dict_set_other.
      * rewrite E0. auto.
      * intros Heq. subst. rewrite key_eqb_refl in E. discriminate.
Qed.

Lemma Forall_dict_set {A} (Q : key * A -> Prop) (d : list (key * A)) k n :
  Forall Q d -> Q (k, n) -> Forall Q (dict_set d k n).
Proof.
  induction d as [|[k' v] d IH]; simpl; intros H Hq.
  - constructor; auto.
  - inversion H; subst. destruct (key_eqb k k') eqn:E.
    + apply key_eqb_eq in E. subst. constructor; auto.
    + constructor; auto.
Qed.

(* ------------------------------------------------------------------ *)
(* validators                                                          *)
(* ------------------------------------------------------------------ *)

Definition isnone {A} (o : option A) : bool := match o with None => true | Some _ => false end.

Lemma isnone_true {A} (o : option A) : isnone o = true <-> o = None.
Proof. destruct o; simpl; split; intro H; try reflexivity; discriminate. Qed.

Lemma isnone_first_err {A} (f : A -> option err) l :
  isnone (first_err f l) = forallb (fun x => isnone (f x)) l.
Proof.
  induction l as [|x l IH]; simpl.
  - reflexivity.
  - destruct (f x); simpl; [reflexivity|exact IH].
Qed.

Lemma forallb_ext_Forall {A} (f g : A -> bool) l :
  Forall (fun x => f x = g x) l -> forallb f l = forallb g l.
Proof. intros H. induction H; simpl; congruence. Qed.

Lemma forallb_andb_Forall {A} (f g h : A -> bool) l :
  Forall (fun x => f x = g x && h x) l -> forallb f l = forallb g l && forallb h l.
Proof.
  intros H. induction H as [|x l Hx H IH]; simpl.
  - reflexivity.
  - rewrite Hx, IH. destruct (g x), (h x), (forallb g l), (forallb h l); reflexivity.
Qed.

Lemma forallb_andb3_Forall {A} (f g h i : A -> bool) l :
  Forall (fun x => f x = g x && h x && i x) l ->
  forallb f l = forallb g l && forallb h l && forallb i l.
Proof.
  intros H. induction H as [|x l Hx H IH]; simpl.
  - reflexivity.
  - rewrite Hx, IH.
    destruct (g x), (h x), (i x), (forallb g l), (forallb h l), (forallb i l); reflexivity.
Qed.

Lemma str_keys_VL l : str_keys (VL l) = forallb str_keys l.
Proof. reflexivity. Qed.
Lemma json_leaves_VL l : json_leaves (VL l) = forallb json_leaves l.
Proof. reflexivity. Qed.
Lemma no_dots_VL l : no_dots (VL l) = forallb no_dots l.
Proof. reflexivity. Qed.
Lemma str_keys_VD d :
  str_keys (VD d) = forallb (fun kv : key * val => key_is_str (fst kv) && str_keys (snd kv)) d.
Proof. unfold str_keys; simpl. apply forallb_ext_Forall, Forall_forall. intros [k w] _. reflexivity. Qed.
Lemma json_leaves_VD d :
  json_leaves (VD d) = forallb (fun kv : key * val => json_leaves (snd kv)) d.
Proof. unfold json_leaves; simpl. apply forallb_ext_Forall, Forall_forall. intros [k w] _. reflexivity. Qed.
Lemma no_dots_VD d :
  no_dots (VD d) = forallb (fun kv : key * val => negb (key_has_dot (fst kv)) && no_dots (snd kv)) d.
Proof. unfold no_dots; simpl. apply forallb_ext_Forall, Forall_forall. intros [k w] _. reflexivity. Qed.

Lemma v_require_string_key_spec v : isnone (v_require_string_key v) = str_keys v.
Proof.
  induction v as [s|l IH|d IH] using val_ind2.
  - reflexivity.
  - simpl v_require_string_key. rewrite isnone_first_err, str_keys_VL.
    apply forallb_ext_Forall. exact IH.
  - simpl v_require_string_key. rewrite isnone_first_err, str_keys_VD.
    apply forallb_ext_Forall. eapply Forall_impl; [|exact IH].
    intros [k w] H; simpl in *. destruct (key_is_str k); simpl; [exact H|reflexivity].
Qed.

Lemma v_json_format_spec v : isnone (v_json_format v) = str_keys v && json_leaves v.
Proof.
  induction v as [s|l IH|d IH] using val_ind2.
  - simpl. unfold json_leaves; simpl. destruct (scalar_json s); reflexivity.
  - simpl v_json_format. rewrite isnone_first_err, str_keys_VL, json_leaves_VL.
    apply forallb_andb_Forall. exact IH.
  - simpl v_json_format. rewrite isnone_first_err, str_keys_VD, json_leaves_VD.
    apply forallb_andb_Forall. eapply Forall_impl; [|exact IH].
    intros [k w] H; simpl in *. destruct (key_is_str k); simpl; [exact H|reflexivity].
Qed.

Lemma v_no_dot_spec v : isnone (v_no_dot v) = str_keys v && no_dots v.
Proof.
  induction v as [s|l IH|d IH] using val_ind2.
  - reflexivity.
  - simpl v_no_dot. rewrite isnone_first_err, str_keys_VL, no_dots_VL.
    apply forallb_andb_Forall. exact IH.
  - simpl v_no_dot. rewrite isnone_first_err, str_keys_VD, no_dots_VD.
    apply forallb_andb_Forall. eapply Forall_impl; [|exact IH].
    intros [k w] H; simpl in *.
    destruct (key_is_str k), (key_has_dot k); simpl; try reflexivity.
    + destruct (str_keys w); reflexivity.
    + exact H.
Qed.

Lemma v_json_attr_spec v : isnone (v_json_attr v) = str_keys v && json_leaves v && no_dots v.
Proof.
  induction v as [s|l IH|d IH] using val_ind2.
  - simpl. unfold json_leaves; simpl. destruct (scalar_json s); reflexivity.
  - simpl v_json_attr. rewrite isnone_first_err, str_keys_VL, json_leaves_VL, no_dots_VL.
    apply forallb_andb3_Forall. exact IH.
  - simpl v_json_attr. rewrite isnone_first_err, str_keys_VD, json_leaves_VD, no_dots_VD.
    apply forallb_andb3_Forall. eapply Forall_impl; [|exact IH].
    intros [k w] H; simpl in *.
    destruct (v_json_attr w); simpl in *;
      destruct (key_is_str k), (key_has_dot k), (str_keys w), (json_leaves w), (no_dots w);
      simpl in *; congruence.
Qed.

Lemma run_validator_spec n v : isnone (run_validator n v) = val_ok (lang1 n) v.
Proof.
  destruct n; simpl; unfold val_ok; simpl.
  - rewrite v_require_string_key_spec. destruct (str_keys v); reflexivity.
  - rewrite v_json_format_spec. destruct (str_keys v), (json_leaves v); reflexivity.
  - rewrite v_no_dot_spec. destruct (str_keys v), (no_dots v); reflexivity.
  - rewrite v_json_attr_spec. destruct (str_keys v), (json_leaves v), (no_dots v); reflexivity.
Qed.

Lemma val_ok_lang_or a b v : val_ok (lang_or a b) v = val_ok a v && val_ok b v.
Proof.
  destruct a as [a1 a2 a3], b as [b1 b2 b3]. unfold val_ok, lang_or; simpl.
  destruct a1, a2, a3, b1, b2, b3; simpl;
    destruct (str_keys v), (json_leaves v), (no_dots v); reflexivity.
Qed.

Lemma validate_isnone vs v : isnone (validate vs v) = val_ok (lang3 vs) v.
Proof.
  unfold validate. rewrite isnone_first_err.
  induction vs as [|n vs IH]; simpl.
  - reflexivity.
  - rewrite val_ok_lang_or, run_validator_spec, IH. reflexivity.
Qed.

Theorem validate_spec vs v : validate vs v = None <-> val_ok (lang3 vs) v = true.
Proof. rewrite <- validate_isnone, isnone_true. reflexivity. Qed.

(* ------------------------------------------------------------------ *)
(* map_st as a relation                                                *)
(* ------------------------------------------------------------------ *)

Inductive map_st_rel {A B S} (f : A -> S -> B * S) : list A -> S -> list B -> S -> Prop :=
  | msr_nil s : map_st_rel f [] s [] s
  | msr_cons x l s y s1 ys s2 :
      f x s = (y, s1) -> map_st_rel f l s1 ys s2 -> map_st_rel f (x :: l) s (y :: ys) s2.

Lemma map_st_rel_intro {A B S} (f : A -> S -> B * S) l s ys s2 :
  map_st f l s = (ys, s2) -> map_st_rel f l s ys s2.
Proof.
  revert s ys s2. induction l as [|x l IH]; simpl; intros s ys s2 H.
  - inversion H; subst. constructor.
  - destruct (f x s) as [y s1] eqn:E1. destruct (map_st f l s1) as [ys' s2'] eqn:E2.
    inversion H; subst. econstructor; eauto.
Qed.

Lemma map_st_rel_Forall2 {A B S} (f : A -> S -> B * S) (R : A -> B -> Prop) l s ys s2 :
  map_st_rel f l s ys s2 ->
  Forall (fun x => forall s, R x (fst (f x s))) l -> Forall2 R l ys.
Proof.
  intros H. induction H as [|x l s y s1 ys s2 E H IH]; intros HF.
  - constructor.
  - inversion HF; subst. constructor.
    + specialize (H2 s). rewrite E in H2. exact H2.
    + auto.
Qed.

Lemma map_st_rel_Forall {A B S} (f : A -> S -> B * S) (Q : B -> Prop) l s ys s2 :
  map_st_rel f l s ys s2 ->
  Forall (fun x => forall s, Q (fst (f x s))) l -> Forall Q ys.
Proof.
  intros H HF. eapply Forall2_right. eapply map_st_rel_Forall2; eauto.
Qed.

Lemma map_st_rel_fresh {A B} (f : A -> nat -> B * nat) (ids : B -> list nat) l s ys s2 :
  map_st_rel f l s ys s2 ->
  Forall (fun x => forall s, s <= snd (f x s)
                    /\ (forall i, In i (ids (fst (f x s))) -> s <= i < snd (f x s))
                    /\ NoDup (ids (fst (f x s)))) l ->
  s <= s2 /\ (forall i, In i (flat_map ids ys) -> s <= i < s2) /\ NoDup (flat_map ids ys).
Proof.
  intros H. induction H as [|x l s y s1 ys s2 E H IH]; intros HF.
  - simpl. split; [lia|]. split; [intros i []|constructor].
  - inversion HF; subst. specialize (H2 s). rewrite E in H2. simpl in H2.
    destruct H2 as [A1 [A2 A3]]. destruct (IH H3) as [B1 [B2 B3]].
    simpl. split; [lia|]. split.
    + intros i Hi. apply in_app_or in Hi. destruct Hi as [Hi|Hi].
      * apply A2 in Hi. lia.
      * apply B2 in Hi. lia.
    + apply NoDup_app'; auto. intros i Hi Hi2. apply A2 in Hi. apply B2 in Hi2. lia.
Qed.

(* ------------------------------------------------------------------ *)
(* from_base                                                           *)
(* ------------------------------------------------------------------ *)

Definition fb_entry (T : class_table) (c' : nat) (kv : key * val) (s : nat) : (key * node) * nat :=
  let (k, w) := kv in let (n, s') := from_base T c' w s in ((k, n), s').

Lemma from_base_VS T c s nx : from_base T c (VS s) nx = (NV (VS s), nx).
Proof. reflexivity. Qed.

Lemma from_base_VL T c l nx :
  from_base T c (VL l) nx =
  match child_cls T c KList with
  | None => (NV (VL l), nx)
  | Some c' => let (l', nx') := map_st (from_base T c') l (S nx) in (NL nx c' l', nx')
  end.
Proof. reflexivity. Qed.

Lemma from_base_VD T c d nx :
  from_base T c (VD d) nx =
  match child_cls T c KDict with
  | None => (NV (VD d), nx)
  | Some c' => let (d', nx') := map_st (fb_entry T c') d (S nx) in (ND nx c' d', nx')
  end.
Proof. reflexivity. Qed.

Lemma fb_entry_fst T c' k w s : fst (fb_entry T c' (k, w) s) = (k, fst (from_base T c' w s)).
Proof. unfold fb_entry. destruct (from_base T c' w s); reflexivity. Qed.

Lemma fb_entry_snd T c' k w s : snd (fb_entry T c' (k, w) s) = snd (from_base T c' w s).
Proof. unfold fb_entry. destruct (from_base T c' w s); reflexivity. Qed.

(* a generic way to analyse from_base: what it returns in each case *)
Lemma from_base_cases T c v nx :
  (exists s, v = VS s /\ from_base T c v nx = (NV v, nx))
  \/ (exists l, v = VL l /\ child_cls T c KList = None /\ from_base T c v nx = (NV v, nx))
  \/ (exists d, v = VD d /\ child_cls T c KDict = None /\ from_base T c v nx = (NV v, nx))
  \/ (exists l c' l' nx', v = VL l /\ child_cls T c KList = Some c'
        /\ map_st_rel (from_base T c') l (S nx) l' nx' /\ from_base T c v nx = (NL nx c' l', nx'))
  \/ (exists d c' d' nx', v = VD d /\ child_cls T c KDict = Some c'
        /\ map_st_rel (fb_entry T c') d (S nx) d' nx' /\ from_base T c v nx = (ND nx c' d', nx')).
Proof.
  destruct v as [s|l|d].
  - left. eauto.
  - rewrite from_base_VL. destruct (child_cls T c KList) as [c'|] eqn:E.
    + right; right; right; left.
      destruct (map_st (from_base T c') l (S nx)) as [l' nx'] eqn:E2.
      exists l, c', l', nx'. repeat split; auto. apply map_st_rel_intro; exact E2.
    + right; left. eauto.
  - rewrite from_base_VD. destruct (child_cls T c KDict) as [c'|] eqn:E.
    + right; right; right; right.
      destruct (map_st (fb_entry T c') d (S nx)) as [d' nx'] eqn:E2.
      exists d, c', d', nx'. repeat split; auto. apply map_st_rel_intro; exact E2.
    + right; right; left. eauto.
Qed.

Theorem to_base_from_base T c v nx : to_base (fst (from_base T c v nx)) = v.
Proof.
  revert c nx. induction v as [s|l IH|d IH] using val_ind2; intros c nx.
  - reflexivity.
  - destruct (from_base_cases T c (VL l) nx)
      as [[s [E _]]|[[l0 [E [_ R]]]|[[d0 [E _]]|[[l0 [c' [l' [nx' [E [_ [M R]]]]]]]|[d0 [c' [d' [nx' [E _]]]]]]]]];
      try discriminate; rewrite R; simpl; [reflexivity|].
    inversion E; subst l0. f_equal.
    assert (F : Forall2 (fun x y => to_base y = x) l l').
    { eapply map_st_rel_Forall2; [exact M|]. eapply Forall_impl; [|exact IH].
      intros a Ha s. apply Ha. }
    clear -F. induction F; simpl; congruence.
  - destruct (from_base_cases T c (VD d) nx)
      as [[s [E _]]|[[l0 [E _]]|[[d0 [E [_ R]]]|[[l0 [c' [l' [nx' [E _]]]]]|[d0 [c' [d' [nx' [E [_ [M R]]]]]]]]]]];
      try discriminate; rewrite R; simpl; [reflexivity|].
    inversion E; subst d0. f_equal.
    assert (F : Forall2 (fun (x : key * val) (y : key * node) => (fst y, to_base (snd y)) = x) d d').
    { eapply map_st_rel_Forall2; [exact M|]. eapply Forall_impl; [|exact IH].
      intros [k w] Ha s. rewrite fb_entry_fst. simpl in *. rewrite Ha. reflexivity. }
    clear -F. induction F; simpl; congruence.
Qed.

Theorem from_base_fresh T c v nx :
  nx <= snd (from_base T c v nx)
  /\ (forall i, In i (node_ids (fst (from_base T c v nx))) -> nx <= i < snd (from_base T c v nx))
  /\ NoDup (node_ids (fst (from_base T c v nx))).
Proof.
  revert c nx. induction v as [s|l IH|d IH] using val_ind2; intros c nx.
  - simpl. split; [lia|]. split; [intros i []|constructor].
  - destruct (from_base_cases T c (VL l) nx)
      as [[s [E _]]|[[l0 [E [_ R]]]|[[d0 [E _]]|[[l0 [c' [l' [nx' [E [_ [M R]]]]]]]|[d0 [c' [d' [nx' [E _]]]]]]]]];
      try discriminate; rewrite R; simpl.
    + split; [lia|]. split; [intros i []|constructor].
    + inversion E; subst l0.
      destruct (map_st_rel_fresh _ node_ids _ _ _ _ M) as [B1 [B2 B3]].
      { eapply Forall_impl; [|exact IH]. intros a Ha s. apply Ha. }
      split; [lia|]. split.
      * intros i [Hi|Hi]; [lia|]. apply B2 in Hi. lia.
      * constructor; [|exact B3]. intros Hi. apply B2 in Hi. lia.
  - destruct (from_base_cases T c (VD d) nx)
      as [[s [E _]]|[[l0 [E _]]|[[d0 [E [_ R]]]|[[l0 [c' [l' [nx' [E _]]]]]|[d0 [c' [d' [nx' [E [_ [M R]]]]]]]]]]];
      try discriminate; rewrite R; simpl.
    + split; [lia|]. split; [intros i []|constructor].
    + inversion E; subst d0.
      destruct (map_st_rel_fresh _ (fun kn : key * node => node_ids (snd kn)) _ _ _ _ M) as [B1 [B2 B3]].
      { eapply Forall_impl; [|exact IH]. intros [k w] Ha s.
        rewrite fb_entry_fst, fb_entry_snd. simpl in *. apply Ha. }
      split; [lia|]. split.
      * intros i [Hi|Hi]; [lia|]. apply B2 in Hi. lia.
      * constructor; [|exact B3]. intros Hi. apply B2 in Hi. lia.
Qed.

(* ------------------------------------------------------------------ *)
(* class table                                                         *)
(* ------------------------------------------------------------------ *)

Lemma find_cls_spec T b k i j :
  find_cls T b k i = Some j ->
  i <= j < i + length T
  /\ c_backend (nth (j - i) T dummy_cls) = b /\ c_kind (nth (j - i) T dummy_cls) = k.
Proof.
  revert i. induction T as [|c T IH]; simpl; intros i H.
  - discriminate.
  - destruct (Nat.eqb (c_backend c) b && kind_eqb (c_kind c) k) eqn:E.
    + inversion H; subst. apply andb_true_iff in E. destruct E as [E1 E2].
      apply Nat.eqb_eq in E1. apply kind_eqb_eq in E2.
      rewrite Nat.sub_diag. split; [lia|]. split; assumption.
    + apply IH in H. destruct H as [H1 [H2 H3]].
      replace (j - i) with (S (j - S i)) by lia. split; [lia|]. split; assumption.
Qed.

Lemma in_backend_spec T b c :
  in_backend T b c = true <-> c < length T /\ c_backend (get_cls T c) = b.
Proof.
  unfold in_backend. rewrite andb_true_iff, Nat.ltb_lt, Nat.eqb_eq. reflexivity.
Qed.

Lemma child_cls_in_backend T b c k c' :
  in_backend T b c = true -> child_cls T c k = Some c' ->
  in_backend T b c' = true /\ c_kind (get_cls T c') = k.
Proof.
  intros H E. apply in_backend_spec in H. destruct H as [_ Hb].
  unfold child_cls in E. rewrite Hb in E. apply find_cls_spec in E.
  rewrite Nat.sub_0_r in E. destruct E as [E1 [E2 E3]].
  split; [|exact E3]. apply in_backend_spec. split; [lia|exact E2].
Qed.

Lemma child_cls_has_both T b c :
  in_backend T b c = true -> backend_has_both T b = true ->
  (exists c', child_cls T c KList = Some c') /\ (exists c', child_cls T c KDict = Some c').
Proof.
  intros H HB. apply in_backend_spec in H. destruct H as [_ Hb].
  unfold child_cls. rewrite Hb. unfold backend_has_both in HB.
  destruct (find_cls T b KDict 0), (find_cls T b KList 0); try discriminate. eauto.
Qed.

Lemma lang_eqb_eq a b : lang_eqb a b = true -> a = b.
Proof.
  destruct a as [a1 a2 a3], b as [b1 b2 b3]. unfold lang_eqb; simpl. intros H.
  apply andb_true_iff in H. destruct H as [H H3]. apply andb_true_iff in H. destruct H as [H1 H2].
  apply eqb_prop in H1, H2, H3. congruence.
Qed.

Lemma uniform_lang T b L c :
  uniform_backend T b L = true -> in_backend T b c = true -> lang3 (validators_of T c) = L.
Proof.
  intros HU H. apply in_backend_spec in H. destruct H as [Hlt Hb].
  unfold uniform_backend in HU. rewrite forallb_forall in HU.
  specialize (HU (get_cls T c)). unfold get_cls in *.
  assert (Hin : In (nth c T dummy_cls) T) by (apply nth_In; exact Hlt).
  specialize (HU Hin). rewrite Hb, Nat.eqb_refl in HU. simpl in HU.
  apply lang_eqb_eq in HU. exact HU.
Qed.

(* ------------------------------------------------------------------ *)
(* node_in_backend                                                     *)
(* ------------------------------------------------------------------ *)

Lemma nib_NV T b v : node_in_backend T b (NV v).
Proof. intros c []. Qed.

Lemma nib_NL T b id c l :
  node_in_backend T b (NL id c l) <-> in_backend T b c = true /\ Forall (node_in_backend T b) l.
Proof.
  unfold node_in_backend; simpl. split.
  - intros H. split.
    + apply H. left; reflexivity.
    + apply Forall_forall. intros x Hx c0 Hc0. apply H. right. apply in_flat_map. eauto.
  - intros [H1 H2] c0 [<-|Hin]; [exact H1|].
    apply in_flat_map in Hin. destruct Hin as [x [Hx Hc]].
    rewrite Forall_forall in H2. eapply H2; eauto.
Qed.

Lemma nib_ND T b id c d :
  node_in_backend T b (ND id c d) <->
  in_backend T b c = true /\ Forall (fun kn : key * node => node_in_backend T b (snd kn)) d.
Proof.
  unfold node_in_backend; simpl. split.
  - intros H. split.
    + apply H. left; reflexivity.
    + apply Forall_forall. intros x Hx c0 Hc0. apply H. right. apply in_flat_map. eauto.
  - intros [H1 H2] c0 [<-|Hin]; [exact H1|].
    apply in_flat_map in Hin. destruct Hin as [x [Hx Hc]].
    rewrite Forall_forall in H2. eapply (H2 x); eauto.
Qed.

Theorem from_base_in_backend T b c v nx :
  in_backend T b c = true -> node_in_backend T b (fst (from_base T c v nx)).
Proof.
  revert c nx. induction v as [s|l IH|d IH] using val_ind2; intros c nx Hc.
  - apply nib_NV.
  - destruct (from_base_cases T c (VL l) nx)
      as [[s [E _]]|[[l0 [E [_ R]]]|[[d0 [E _]]|[[l0 [c' [l' [nx' [E [C [M R]]]]]]]|[d0 [c' [d' [nx' [E _]]]]]]]]];
      try discriminate; rewrite R; simpl; [apply nib_NV|].
    inversion E; subst l0. destruct (child_cls_in_backend _ _ _ _ _ Hc C) as [Hc' _].
    apply nib_NL. split; [exact Hc'|].
    eapply map_st_rel_Forall; [exact M|]. eapply Forall_impl; [|exact IH].
    intros a Ha s. apply Ha. exact Hc'.
  - destruct (from_base_cases T c (VD d) nx)
      as [[s [E _]]|[[l0 [E _]]|[[d0 [E [_ R]]]|[[l0 [c' [l' [nx' [E _]]]]]|[d0 [c' [d' [nx' [E [C [M R]]]]]]]]]]];
      try discriminate; rewrite R; simpl; [apply nib_NV|].
    inversion E; subst d0. destruct (child_cls_in_backend _ _ _ _ _ Hc C) as [Hc' _].
    apply nib_ND. split; [exact Hc'|].
    eapply map_st_rel_Forall; [exact M|]. eapply Forall_impl; [|exact IH].
    intros [k w] Ha s. rewrite fb_entry_fst. simpl in *. apply Ha. exact Hc'.
Qed.

Theorem from_base_leaves_scalar T b c v nx :
  in_backend T b c = true -> backend_has_both T b = true ->
  leaves_scalar (fst (from_base T c v nx)) = true.
Proof.
  intros Hc HB. revert c nx Hc. induction v as [s|l IH|d IH] using val_ind2; intros c nx Hc.
  - reflexivity.
  - destruct (child_cls_has_both _ _ _ Hc HB) as [[c1 C1] _].
    destruct (from_base_cases T c (VL l) nx)
      as [[s [E _]]|[[l0 [E [C R]]]|[[d0 [E _]]|[[l0 [c' [l' [nx' [E [C [M R]]]]]]]|[d0 [c' [d' [nx' [E _]]]]]]]]];
      try discriminate; try congruence; rewrite R; simpl.
    inversion E; subst l0. destruct (child_cls_in_backend _ _ _ _ _ Hc C) as [Hc' _].
    apply forallb_Forall'.
    eapply map_st_rel_Forall; [exact M|]. eapply Forall_impl; [|exact IH].
    intros a Ha s. apply Ha. exact Hc'.
  - destruct (child_cls_has_both _ _ _ Hc HB) as [_ [c1 C1]].
    destruct (from_base_cases T c (VD d) nx)
      as [[s [E _]]|[[l0 [E _]]|[[d0 [E [C R]]]|[[l0 [c' [l' [nx' [E _]]]]]|[d0 [c' [d' [nx' [E [C [M R]]]]]]]]]]];
      try discriminate; try congruence; rewrite R; simpl.
    inversion E; subst d0. destruct (child_cls_in_backend _ _ _ _ _ Hc C) as [Hc' _].
    apply forallb_Forall'.
    eapply map_st_rel_Forall with (Q := fun kn : key * node => leaves_scalar (snd kn) = true);
      [exact M|]. eapply Forall_impl; [|exact IH].
    intros [k w] Ha s. rewrite fb_entry_fst. simpl in *. apply Ha. exact Hc'.
Qed.

(* ------------------------------------------------------------------ *)
(* VEq                                                                 *)
(* ------------------------------------------------------------------ *)

Theorem VEq_refl v : VEq v v.
Proof.
  induction v as [s|l IH|d IH] using val_ind2.
  - constructor. apply seq_strict_refl.
  - constructor. induction IH; constructor; auto.
  - constructor.
    + intros k x H. exists x. split; [exact H|].
      apply alookup_In in H. rewrite Forall_forall in IH. apply (IH (k, x)). exact H.
    + auto.
Qed.

Lemma VEq_scalar_sym a b : seq_strict a b = true -> VEq (VS b) (VS a).
Proof. intros H. constructor. rewrite seq_strict_sym. exact H. Qed.

Theorem VEq_veq_strict a b : VEq a b -> wf_val a = true -> wf_val b = true -> veq_strict a b = true.
Proof.
  revert b. induction a as [s|l IH|d IH] using val_ind2; intros b HV Wa Wb;
    inversion HV; subst; unfold veq_strict in *; simpl.
  - assumption.
  - simpl in Wa, Wb. apply forallb_Forall' in Wa. apply forallb_Forall' in Wb.
    clear HV. revert IH Wa Wb. induction H0 as [|x y l m Hxy F IHF]; intros IH Wa Wb; simpl.
    + reflexivity.
    + inversion IH; subst. inversion Wa; subst. inversion Wb; subst.
      apply andb_true_iff. split; auto.
  - simpl in Wa, Wb. apply andb_true_iff in Wa, Wb.
    destruct Wa as [Ua Wa], Wb as [Ub Wb].
    rewrite forallb_forall in Wa, Wb. rewrite Forall_forall in IH.
    apply andb_true_iff. split.
    + apply Nat.eqb_eq.
      pose proof (keys_unique_NoDup _ Ua) as Na. pose proof (keys_unique_NoDup _ Ub) as Nb.
      assert (I1 : incl (map fst d) (map fst e)).
      { intros k Hk. apply In_key_alookup in Hk. destruct Hk as [x Hx].
        apply H0 in Hx. destruct Hx as [y [Hy _]]. eapply alookup_Some_key; eauto. }
      assert (I2 : incl (map fst e) (map fst d)).
      { intros k Hk. destruct (alookup k d) as [x|] eqn:Ex.
        - eapply alookup_Some_key; eauto.
        - apply H1 in Ex. apply alookup_None in Ex. contradiction. }
      pose proof (NoDup_incl_length Na I1) as L1. pose proof (NoDup_incl_length Nb I2) as L2.
      rewrite !map_length in L1, L2. lia.
    + apply forallb_forall. intros [k v] Hin.
      pose proof (In_alookup_unique _ _ _ Ua Hin) as Hl.
      apply H0 in Hl. destruct Hl as [y [Hy Hxy]]. rewrite Hy.
      apply (IH (k, v) Hin y Hxy).
      * apply (Wa (k, v) Hin).
      * apply alookup_In in Hy. apply (Wb (k, y) Hy).
Qed.
