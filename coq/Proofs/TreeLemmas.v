(* TreeLemmas.v — the in-place merge `upd`: whatever it stores is validated
   (upd_clean), it makes the tree equal to the data (upd_correct) and keeps
   handles attached (upd_keeps_handles).  Basic lemmas are in TreeBase.v. *)
From Coq Require Import List ZArith NArith Bool Lia Arith Btauto.
From SC Require Import Model.Val Model.Plain Model.Valid Model.Class Model.Tree Proofs.TreeDefs.
From SC Require Export Proofs.TreeBase.
Import ListNotations.

(* ------------------------------------------------------------------ *)
(* val_ok is hereditary                                                *)
(* ------------------------------------------------------------------ *)

Definition key_ok (L : lang) (k : key) : bool :=
  (negb (l_str_keys L) || key_is_str k) && (negb (l_no_dots L) || negb (key_has_dot k)).

Lemma val_ok_VL_nil L : val_ok L (VL []) = true.
Proof. destruct L as [[] [] []]; reflexivity. Qed.

Lemma val_ok_VL_cons L a l : val_ok L (VL (a :: l)) = val_ok L a && val_ok L (VL l).
Proof.
  unfold val_ok. rewrite !str_keys_VL, !json_leaves_VL, !no_dots_VL. simpl.
  destruct (l_str_keys L), (l_json_leaves L), (l_no_dots L); simpl; btauto.
Qed.

Lemma val_ok_VL L l : val_ok L (VL l) = true <-> Forall (fun v => val_ok L v = true) l.
Proof.
  induction l as [|a l IH].
  - rewrite val_ok_VL_nil. split; auto.
  - rewrite val_ok_VL_cons, andb_true_iff, IH. split.
    + intros [H1 H2]. constructor; auto.
    + intros H. inversion H; subst. auto.
Qed.

Lemma val_ok_VD_nil L : val_ok L (VD []) = true.
Proof. destruct L as [[] [] []]; reflexivity. Qed.

Lemma val_ok_VD_cons L k w d :
  val_ok L (VD ((k, w) :: d)) = key_ok L k && val_ok L w && val_ok L (VD d).
Proof.
  unfold val_ok, key_ok. rewrite !str_keys_VD, !json_leaves_VD, !no_dots_VD. simpl.
  destruct (l_str_keys L), (l_json_leaves L), (l_no_dots L); simpl; btauto.
Qed.

Lemma val_ok_VD L d :
  val_ok L (VD d) = true <->
  Forall (fun kv : key * val => key_ok L (fst kv) = true /\ val_ok L (snd kv) = true) d.
Proof.
  induction d as [|[k w] d IH].
  - rewrite val_ok_VD_nil. split; auto.
  - rewrite val_ok_VD_cons, !andb_true_iff, IH. split.
    + intros [[H1 H2] H3]. constructor; auto.
    + intros H. inversion H; subst. simpl in *. tauto.
Qed.

Lemma val_ok_VD_single L k w :
  val_ok L (VD [(k, w)]) = true <-> key_ok L k = true /\ val_ok L w = true.
Proof.
  rewrite val_ok_VD. split.
  - intros H. inversion H; subst. exact H2.
  - intros H. constructor; [exact H|constructor].
Qed.

Lemma clean_NL L id c l : clean L (NL id c l) <-> Forall (clean L) l.
Proof. unfold clean; simpl. rewrite val_ok_VL, Forall_map. reflexivity. Qed.

Lemma clean_ND L id c d :
  clean L (ND id c d) <->
  Forall (fun kn : key * node => key_ok L (fst kn) = true /\ clean L (snd kn)) d.
Proof. unfold clean; simpl. rewrite val_ok_VD, Forall_map. reflexivity. Qed.

Lemma nku_wf n : node_keys_unique n = wf_val (to_base n).
Proof.
  induction n as [v|id c l IH|id c d IH] using node_ind2; simpl.
  - reflexivity.
  - induction IH; simpl; congruence.
  - rewrite (keys_unique_map to_base). f_equal. induction IH; simpl; congruence.
Qed.

(* ------------------------------------------------------------------ *)
(* unfolding equations                                                 *)
(* ------------------------------------------------------------------ *)

Lemma upd_prefix_nil T u c l nx : upd_prefix T u c [] l nx = ([], nx, None).
Proof. reflexivity. Qed.

Lemma upd_prefix_cons_nil T u c nv dl nx :
  upd_prefix T u c (nv :: dl) [] nx =
  match validate (validators_of T c) (VL (nv :: dl)) with
  | Some e => ([], nx, Some e)
  | None => let (tl, nx1) := map_st (from_base T c) (nv :: dl) nx in (tl, nx1, None)
  end.
Proof. reflexivity. Qed.

Lemma upd_prefix_cons_cons T u c nv dl ex l nx :
  upd_prefix T u c (nv :: dl) (ex :: l) nx =
  match merge_one T u c nv nv ex nx with
  | (n, nx1, Some e) => (n :: l, nx1, Some e)
  | (n, nx1, None) =>
      match upd_prefix T u c dl l nx1 with
      | (l2, nx2, e) => (n :: l2, nx2, e)
      end
  end.
Proof. reflexivity. Qed.

Lemma upd_entries_nil T u c d nx : upd_entries T u c [] d nx = (d, nx, None).
Proof. reflexivity. Qed.

Lemma upd_entries_cons T u c k nv dd d nx :
  upd_entries T u c ((k, nv) :: dd) d nx =
  match alookup k d with
  | None =>
      match validate (validators_of T c) (VD [(k, nv)]) with
      | Some e => (d, nx, Some e)
      | None => let (n, nx1) := from_base T c nv nx in
                upd_entries T u c dd (dict_set d k n) nx1
      end
  | Some ex =>
      match merge_one T u c (VD [(k, nv)]) nv ex nx with
      | (n, nx1, Some e) => (dict_set d k n, nx1, Some e)
      | (n, nx1, None) => upd_entries T u c dd (dict_set d k n) nx1
      end
  end.
Proof. reflexivity. Qed.

Lemma upd_NL_VL T id c l dl nx :
  upd T (VL dl) (NL id c l) nx =
  match upd_prefix T (fun v => upd T v) c dl l nx with
  | (l', nx', e) => (NL id c l', nx', e)
  end.
Proof. reflexivity. Qed.

Lemma upd_ND_VD T id c d dd nx :
  upd T (VD dd) (ND id c d) nx =
  match upd_entries T (fun v => upd T v) c dd d nx with
  | (d', nx', Some e) => (ND id c d', nx', Some e)
  | (d', nx', None) => (ND id c (keep_keys d' dd), nx', None)
  end.
Proof. reflexivity. Qed.

Lemma upd_mismatch T data n nx :
  node_kind n <> kind_of data \/ node_is_container n = false ->
  upd T data n nx = (n, nx, Some EValue).
Proof.
  intros H. destruct n, data; simpl in *; try reflexivity; destruct H; congruence.
Qed.

(* ------------------------------------------------------------------ *)
(* upd_clean                                                           *)
(* ------------------------------------------------------------------ *)

Section UpdClean.
  Variables (T : class_table) (b : nat) (L : lang).
  Hypothesis HU : uniform_backend T b L = true.

  Definition good (n : node) : Prop := clean L n /\ node_in_backend T b n.
  Definition good_entry (kn : key * node) : Prop := key_ok L (fst kn) = true /\ good (snd kn).
  Definition upd_clean_at (f : node -> nat -> node * nat * option err) : Prop :=
    forall ex nx ex' nx' e, good ex -> f ex nx = (ex', nx', e) -> good ex'.

  Lemma good_NL id c l : good (NL id c l) <-> in_backend T b c = true /\ Forall good l.
  Proof.
    unfold good. rewrite clean_NL, nib_NL. rewrite !Forall_forall. split.
    - intros [H1 [H2 H3]]. split; auto.
    - intros [H1 H2]. split; [|split]; auto; intros x Hx; apply H2; exact Hx.
  Qed.

  Lemma good_ND id c d : good (ND id c d) <-> in_backend T b c = true /\ Forall good_entry d.
  Proof.
    unfold good_entry, good. rewrite clean_ND, nib_ND. rewrite !Forall_forall. split.
    - intros [H1 [H2 H3]]. split; auto. intros x Hx. specialize (H1 x Hx). specialize (H3 x Hx). tauto.
    - intros [H1 H2]. split; [|split]; auto; intros x Hx; specialize (H2 x Hx); tauto.
  Qed.

  Lemma validate_ok c w :
    in_backend T b c = true -> (validate (validators_of T c) w = None <-> val_ok L w = true).
  Proof. intros Hc. rewrite validate_spec, (uniform_lang _ _ _ _ HU Hc). reflexivity. Qed.

  Lemma from_base_good c nv nx :
    in_backend T b c = true -> val_ok L nv = true -> good (fst (from_base T c nv nx)).
  Proof.
    intros Hc Hv. split.
    - unfold clean. rewrite to_base_from_base. exact Hv.
    - apply from_base_in_backend; exact Hc.
  Qed.

  Lemma replace_clean c wrapped nv ex0 nx0 n nx1 e :
    in_backend T b c = true -> (val_ok L wrapped = true -> val_ok L nv = true) -> good ex0 ->
    match validate (validators_of T c) wrapped with
    | Some e => (ex0, nx0, Some e)
    | None => let (n, nx1) := from_base T c nv nx0 in (n, nx1, None)
    end = (n, nx1, e) -> good n.
  Proof.
    intros Hc Hw Hg H. destruct (validate (validators_of T c) wrapped) eqn:E.
    - inversion H; subst; exact Hg.
    - apply validate_ok in E; auto.
      pose proof (from_base_good c nv nx0 Hc (Hw E)) as G.
      destruct (from_base T c nv nx0) as [n0 nx2]. inversion H; subst. exact G.
  Qed.

  Lemma merge_one_clean u c wrapped nv ex nx n nx1 e :
    in_backend T b c = true -> (val_ok L wrapped = true -> val_ok L nv = true) ->
    upd_clean_at (u nv) -> good ex ->
    merge_one T u c wrapped nv ex nx = (n, nx1, e) -> good n.
  Proof.
    intros Hc Hw Hu Hg H. unfold merge_one in H. cbv beta zeta in H.
    destruct (skip_same nv ex). { inversion H; subst; exact Hg. }
    destruct (node_is_container ex && negb (is_null nv)).
    - destruct (u nv ex nx) as [[ex' nx'] [e'|]] eqn:E.
      + pose proof (Hu _ _ _ _ _ Hg E) as Hg'. destruct (err_is_value_error e').
        * eapply replace_clean; eauto.
        * inversion H; subst; exact Hg'.
      + inversion H; subst. eapply Hu; eauto.
    - eapply replace_clean; eauto.
  Qed.

  Lemma upd_prefix_clean u c dl :
    Forall (fun nv => upd_clean_at (u nv)) dl -> in_backend T b c = true ->
    forall l nx l' nx' e, Forall good l -> upd_prefix T u c dl l nx = (l', nx', e) -> Forall good l'.
  Proof.
    intros HF Hc. induction HF as [|nv dl Hnv HF IH]; intros l nx l' nx' e Hl H.
    - rewrite upd_prefix_nil in H. inversion H; subst. constructor.
    - destruct l as [|ex l].
      + rewrite upd_prefix_cons_nil in H.
        destruct (validate (validators_of T c) (VL (nv :: dl))) eqn:E.
        * inversion H; subst. constructor.
        * apply validate_ok in E; auto. apply val_ok_VL in E.
          destruct (map_st (from_base T c) (nv :: dl) nx) as [tl nx1] eqn:E2.
          inversion H; subst. apply map_st_rel_intro in E2.
          eapply map_st_rel_Forall; [exact E2|].
          eapply Forall_impl; [|exact E]. intros a Ha s. apply from_base_good; auto.
      + rewrite upd_prefix_cons_cons in H. inversion Hl; subst.
        destruct (merge_one T u c nv nv ex nx) as [[n nx1] [e1|]] eqn:E.
        * inversion H; subst. constructor; auto.
          eapply merge_one_clean; eauto.
        * destruct (upd_prefix T u c dl l nx1) as [[l2 nx2] e2] eqn:E2.
          inversion H; subst. constructor.
          -- eapply merge_one_clean; eauto.
          -- eapply IH; eauto.
  Qed.

  Lemma upd_entries_clean u c dd :
    Forall (fun kv : key * val => upd_clean_at (u (snd kv))) dd -> in_backend T b c = true ->
    forall d nx d' nx' e, Forall good_entry d ->
      upd_entries T u c dd d nx = (d', nx', e) -> Forall good_entry d'.
  Proof.
    intros HF Hc. induction HF as [|[k nv] dd Hnv HF IH]; intros d nx d' nx' e Hd H.
    - rewrite upd_entries_nil in H. inversion H; subst. exact Hd.
    - rewrite upd_entries_cons in H. simpl in Hnv.
      destruct (alookup k d) as [ex|] eqn:Ek.
      + assert (Hex : good_entry (k, ex)).
        { apply alookup_In in Ek. rewrite Forall_forall in Hd. apply Hd. exact Ek. }
        destruct Hex as [Hk Hex]. simpl in Hk, Hex.
        destruct (merge_one T u c (VD [(k, nv)]) nv ex nx) as [[n nx1] e1] eqn:E.
        assert (Hn : good n).
        { eapply merge_one_clean; [exact Hc| |exact Hnv|exact Hex|exact E].
          intros Hw. apply val_ok_VD_single in Hw. tauto. }
        assert (Hd1 : Forall good_entry (dict_set d k n)).
        { apply Forall_dict_set; auto. split; auto. }
        destruct e1 as [e1|].
        * inversion H; subst. exact Hd1.
        * eapply IH; eauto.
      + destruct (validate (validators_of T c) (VD [(k, nv)])) eqn:E.
        * inversion H; subst. exact Hd.
        * apply validate_ok in E; auto. apply val_ok_VD_single in E. destruct E as [Hk Hv].
          pose proof (from_base_good c nv nx Hc Hv) as G.
          destruct (from_base T c nv nx) as [n nx1]. simpl in G.
          eapply IH; [|exact H]. apply Forall_dict_set; auto. split; auto.
  Qed.

  Lemma upd_clean_all data : upd_clean_at (upd T data).
  Proof.
    induction data as [s|dl IH|dd IH] using val_ind2; intros ex nx ex' nx' e Hg H.
    - rewrite upd_mismatch in H.
      + inversion H; subst; exact Hg.
      + destruct ex; simpl; auto; left; discriminate.
    - destruct ex as [v|id c l|id c d].
      + rewrite upd_mismatch in H; [|right; reflexivity]. inversion H; subst; exact Hg.
      + rewrite upd_NL_VL in H.
        destruct (upd_prefix T (fun v => upd T v) c dl l nx) as [[l' nx2] e2] eqn:E.
        inversion H; subst. apply good_NL in Hg. destruct Hg as [Hc Hl].
        apply good_NL. split; [exact Hc|].
        eapply (upd_prefix_clean (fun v => upd T v)); eauto.
      + rewrite upd_mismatch in H; [|left; discriminate]. inversion H; subst; exact Hg.
    - destruct ex as [v|id c l|id c d].
      + rewrite upd_mismatch in H; [|right; reflexivity]. inversion H; subst; exact Hg.
      + rewrite upd_mismatch in H; [|left; discriminate]. inversion H; subst; exact Hg.
      + rewrite upd_ND_VD in H.
        destruct (upd_entries T (fun v => upd T v) c dd d nx) as [[d' nx2] e2] eqn:E.
        apply good_ND in Hg. destruct Hg as [Hc Hd].
        assert (Hd' : Forall good_entry d').
        { eapply (upd_entries_clean (fun v => upd T v)); eauto. }
        destruct e2 as [e2|]; inversion H; subst; apply good_ND; split; auto.
        unfold keep_keys. apply Forall_filter'. exact Hd'.
  Qed.
End UpdClean.

(* whatever the merge stores has been validated: holds for ANY incoming data,
   also when upd reports an error *)
Theorem upd_clean T b L data n nx n' nx' e :
  uniform_backend T b L = true -> node_in_backend T b n -> clean L n ->
  upd T data n nx = (n', nx', e) ->
  clean L n' /\ node_in_backend T b n'.
Proof.
  intros HU Hn Hc H.
  eapply (upd_clean_all T b L HU data); [|exact H]. split; assumption.
Qed.

(* ------------------------------------------------------------------ *)
(* upd_correct / upd_keeps_handles                                     *)
(* ------------------------------------------------------------------ *)

Definition handles_kept (nv : val) (ex n : node) : Prop :=
  forall p m, node_at p ex = Some m -> same_kinds_along p ex nv ->
  exists m', node_at p n = Some m' /\ node_id m' = node_id m.

Lemma same_kinds_along_head p n v :
  same_kinds_along p n v -> node_is_container n = true /\ node_kind n = kind_of v.
Proof. destruct p; simpl; tauto. Qed.

Lemma handles_kept_vacuous nv ex n :
  node_is_container ex = false \/ node_kind ex <> kind_of nv -> handles_kept nv ex n.
Proof.
  intros H p m _ Hs. apply same_kinds_along_head in Hs. destruct Hs as [H1 H2].
  destruct H; congruence.
Qed.

Lemma Forall2_flip {A B} (R : A -> B -> Prop) l m :
  Forall2 R l m -> Forall2 (fun y x => R x y) m l.
Proof. intros F. induction F; constructor; auto. Qed.

Section UpdCorrect.
  Variables (T : class_table) (b : nat) (L : lang).
  Hypothesis HB : backend_has_both T b = true.
  Hypothesis HU : uniform_backend T b L = true.

  Definition merged (nv : val) (ex n : node) : Prop :=
    VEq (to_base n) nv /\ node_in_backend T b n /\ node_keys_unique n = true
    /\ (leaves_scalar ex = true -> leaves_scalar n = true) /\ handles_kept nv ex n.

  Definition fresh_ok (nv : val) (n : node) : Prop :=
    VEq (to_base n) nv /\ node_in_backend T b n /\ node_keys_unique n = true
    /\ leaves_scalar n = true.

  Definition upd_good (f : node -> nat -> node * nat * option err) (data : val) : Prop :=
    forall n nx, node_in_backend T b n -> node_is_container n = true ->
      node_kind n = kind_of data -> node_keys_unique n = true ->
      exists n' nx', f n nx = (n', nx', None) /\ merged data n n'
                     /\ node_id n' = node_id n /\ nx <= nx'.

  Definition mismatch_ok (u : val -> node -> nat -> node * nat * option err) : Prop :=
    forall nv n nx, node_kind n <> kind_of nv \/ node_is_container n = false ->
                    u nv n nx = (n, nx, Some EValue).

  Lemma from_base_fresh_ok c nv nx :
    in_backend T b c = true -> wf_val nv = true ->
    fresh_ok nv (fst (from_base T c nv nx)) /\ nx <= snd (from_base T c nv nx).
  Proof.
    intros Hc Hwf. split; [split; [|split; [|split]]|].
    - rewrite to_base_from_base. apply VEq_refl.
    - apply from_base_in_backend; exact Hc.
    - rewrite nku_wf, to_base_from_base. exact Hwf.
    - eapply from_base_leaves_scalar; eauto.
    - apply from_base_fresh.
  Qed.

  Lemma fresh_merged nv ex n :
    fresh_ok nv n -> node_is_container ex = false \/ node_kind ex <> kind_of nv -> merged nv ex n.
  Proof.
    intros [F1 [F2 [F3 F4]]] H. split; [exact F1|]. split; [exact F2|]. split; [exact F3|].
    split; [intros _; exact F4|]. apply handles_kept_vacuous; exact H.
  Qed.

  Lemma replace_ok c wrapped nv (ex0 : node) nx0 :
    in_backend T b c = true -> val_ok L wrapped = true -> wf_val nv = true ->
    exists n nx1,
      match validate (validators_of T c) wrapped with
      | Some e => (ex0, nx0, Some e)
      | None => let (n, nx1) := from_base T c nv nx0 in (n, nx1, None)
      end = (n, nx1, None) /\ fresh_ok nv n /\ nx0 <= nx1.
  Proof.
    intros Hc Hw Hwf.
    rewrite (proj2 (validate_ok T b L HU c wrapped Hc) Hw).
    destruct (from_base_fresh_ok c nv nx0 Hc Hwf) as [F1 F2].
    destruct (from_base T c nv nx0) as [n nx1]. exists n, nx1. simpl in *. auto.
  Qed.

  Lemma merge_one_ok u c wrapped nv ex nx :
    mismatch_ok u ->
    in_backend T b c = true -> val_ok L wrapped = true -> wf_val nv = true ->
    upd_good (u nv) nv -> node_in_backend T b ex -> node_keys_unique ex = true ->
    exists n nx1, merge_one T u c wrapped nv ex nx = (n, nx1, None) /\ merged nv ex n /\ nx <= nx1.
  Proof.
    intros Hmis Hc Hw Hwf Hu Hex Hku. unfold merge_one. cbv beta zeta.
    destruct (skip_same nv ex) eqn:Hs.
    - exists ex, nx. split; [reflexivity|]. split; [|lia].
      destruct nv as [a|?|?]; try discriminate.
      destruct ex as [[b0|?|?]|? ? ?|? ? ?]; try discriminate. simpl in Hs.
      split; [apply VEq_scalar_sym; exact Hs|]. split; [exact Hex|]. split; [exact Hku|].
      split; [auto|]. apply handles_kept_vacuous. left; reflexivity.
    - destruct (node_is_container ex && negb (is_null nv)) eqn:Hc2.
      + apply andb_true_iff in Hc2. destruct Hc2 as [Hcont Hnn].
        destruct (kind_eqb (node_kind ex) (kind_of nv)) eqn:Hk.
        * apply kind_eqb_eq in Hk.
          destruct (Hu ex nx Hex Hcont Hk Hku) as [n' [nx' [E [M [_ Hle]]]]].
          rewrite E. exists n', nx'. auto.
        * assert (Hne : node_kind ex <> kind_of nv).
          { intros Heq. apply kind_eqb_eq in Heq. congruence. }
          rewrite (Hmis nv ex nx) by (left; exact Hne). cbv beta iota.
          change (err_is_value_error EValue) with true. cbv iota.
          destruct (replace_ok c wrapped nv ex nx Hc Hw Hwf) as [n [nx1 [E [F Hle]]]].
          exists n, nx1. split; [exact E|]. split; [|exact Hle].
          apply fresh_merged; auto.
      + destruct (replace_ok c wrapped nv ex nx Hc Hw Hwf) as [n [nx1 [E [F Hle]]]].
        exists n, nx1. split; [exact E|]. split; [|exact Hle].
        apply fresh_merged; [exact F|].
        destruct ex as [v|? ? ?|? ? ?]; simpl in *; [left; reflexivity| |];
          right; destruct nv as [[]|?|?]; simpl in *; discriminate.
  Qed.

  Lemma upd_prefix_ok u c dl :
    mismatch_ok u ->
    Forall (fun nv => upd_good (u nv) nv) dl -> in_backend T b c = true ->
    Forall (fun v => val_ok L v = true) dl -> Forall (fun v => wf_val v = true) dl ->
    forall l nx, Forall (node_in_backend T b) l -> Forall (fun n => node_keys_unique n = true) l ->
    exists l' nx', upd_prefix T u c dl l nx = (l', nx', None)
      /\ Forall2 (fun n y => VEq (to_base n) y) l' dl
      /\ Forall (node_in_backend T b) l' /\ Forall (fun n => node_keys_unique n = true) l'
      /\ (Forall (fun n => leaves_scalar n = true) l -> Forall (fun n => leaves_scalar n = true) l')
      /\ (forall i ex y, nth_error l i = Some ex -> nth_error dl i = Some y ->
            exists n, nth_error l' i = Some n /\ handles_kept y ex n)
      /\ nx <= nx'.
  Proof.
    intros Hmis HF Hc. induction HF as [|nv dl Hnv HF IH]; intros Hok Hwf l nx Hl Hku.
    - exists [], nx. rewrite upd_prefix_nil. split; [reflexivity|].
      split; [constructor|]. split; [constructor|]. split; [constructor|].
      split; [intros _; constructor|]. split; [|lia].
      intros i ex y _ H. destruct i; discriminate.
    - destruct l as [|ex l].
      + rewrite upd_prefix_cons_nil.
        rewrite (proj2 (validate_ok T b L HU c (VL (nv :: dl)) Hc) (proj2 (val_ok_VL L (nv :: dl)) Hok)).
        destruct (map_st (from_base T c) (nv :: dl) nx) as [tl nx1] eqn:E2.
        apply map_st_rel_intro in E2. exists tl, nx1. split; [reflexivity|].
        assert (F : Forall2 fresh_ok (nv :: dl) tl).
        { eapply map_st_rel_Forall2; [exact E2|]. eapply Forall_impl; [|exact Hwf].
          intros a Ha s. apply from_base_fresh_ok; auto. }
        split. { apply Forall2_flip. eapply Forall2_impl'; [|exact F]. intros x y Hxy. apply Hxy. }
        split. { eapply Forall2_right. eapply Forall2_impl'; [|exact F]. intros x y Hxy. apply Hxy. }
        split. { eapply Forall2_right. eapply Forall2_impl'; [|exact F]. intros x y Hxy. apply Hxy. }
        split. { intros _. eapply Forall2_right. eapply Forall2_impl'; [|exact F]. intros x y Hxy. apply Hxy. }
        split. { intros i ex y H. destruct i; discriminate. }
        destruct (map_st_rel_fresh _ node_ids _ _ _ _ E2) as [G _]; [|exact G].
        apply Forall_forall. intros a _ s. apply from_base_fresh.
      + rewrite upd_prefix_cons_cons.
        pose proof (Forall_inv Hok) as Hok1. pose proof (Forall_inv_tail Hok) as Hok2.
        pose proof (Forall_inv Hwf) as Hwf1. pose proof (Forall_inv_tail Hwf) as Hwf2.
        pose proof (Forall_inv Hl) as Hl1. pose proof (Forall_inv_tail Hl) as Hl2.
        pose proof (Forall_inv Hku) as Hku1. pose proof (Forall_inv_tail Hku) as Hku2.
        simpl in Hok1, Hwf1, Hl1, Hku1.
        destruct (merge_one_ok u c nv nv ex nx Hmis Hc Hok1 Hwf1 Hnv Hl1 Hku1)
          as [n [nx1 [E [[M1 [M2 [M3 [M4 M5]]]] Hle]]]].
        rewrite E.
        destruct (IH Hok2 Hwf2 l nx1 Hl2 Hku2) as [l2 [nx2 [E2 [A1 [A2 [A3 [A4 [A5 A6]]]]]]]].
        rewrite E2. exists (n :: l2), nx2. split; [reflexivity|].
        split; [constructor; auto|]. split; [constructor; auto|]. split; [constructor; auto|].
        split. { intros H. constructor.
                 - apply M4. exact (Forall_inv H).
                 - apply A4. exact (Forall_inv_tail H). }
        split; [|lia].
        intros i ex0 y Hi Hy. destruct i; simpl in *.
        * inversion Hi; inversion Hy; subst. exists n. auto.
        * eapply A5; eauto.
  Qed.

  Definition nib_entry (kn : key * node) : Prop := node_in_backend T b (snd kn).
  Definition nku_entry (kn : key * node) : Prop := node_keys_unique (snd kn) = true.
  Definition ls_entry (kn : key * node) : Prop := leaves_scalar (snd kn) = true.

  Lemma upd_entries_ok u c dd :
    mismatch_ok u ->
    Forall (fun kv : key * val => upd_good (u (snd kv)) (snd kv)) dd -> in_backend T b c = true ->
    Forall (fun kv : key * val => key_ok L (fst kv) = true /\ val_ok L (snd kv) = true) dd ->
    Forall (fun kv : key * val => wf_val (snd kv) = true) dd -> keys_unique dd = true ->
    forall d nx, Forall nib_entry d -> Forall nku_entry d -> keys_unique d = true ->
    exists d' nx', upd_entries T u c dd d nx = (d', nx', None)
      /\ (forall k y, alookup k dd = Some y ->
            exists n, alookup k d' = Some n /\ VEq (to_base n) y
                      /\ (forall ex, alookup k d = Some ex -> handles_kept y ex n))
      /\ (forall k, alookup k dd = None -> alookup k d' = alookup k d)
      /\ Forall nib_entry d' /\ Forall nku_entry d' /\ keys_unique d' = true
      /\ (Forall ls_entry d -> Forall ls_entry d')
      /\ nx <= nx'.
  Proof.
    intros Hmis HF Hc. induction HF as [|[k nv] dd Hnv HF IH]; intros Hok Hwf Hu d nx Hd Hku Hdu.
    - exists d, nx. rewrite upd_entries_nil. split; [reflexivity|].
      split; [intros k y H; discriminate|]. split; [reflexivity|].
      split; [exact Hd|]. split; [exact Hku|]. split; [exact Hdu|]. split; [auto|lia].
    - simpl in Hu. destruct (alookup k dd) eqn:Ekdd; [discriminate|].
      pose proof (Forall_inv Hok) as Hok1. pose proof (Forall_inv_tail Hok) as Hok2.
      pose proof (Forall_inv Hwf) as Hwf1. pose proof (Forall_inv_tail Hwf) as Hwf2.
      simpl in Hok1, Hwf1, Hnv. destruct Hok1 as [Hk1 Hv1].
      assert (Step : exists n nx1,
                 upd_entries T u c ((k, nv) :: dd) d nx = upd_entries T u c dd (dict_set d k n) nx1
                 /\ VEq (to_base n) nv /\ node_in_backend T b n /\ node_keys_unique n = true
                 /\ (Forall ls_entry d -> leaves_scalar n = true)
                 /\ (forall ex, alookup k d = Some ex -> handles_kept nv ex n)
                 /\ nx <= nx1).
      { rewrite upd_entries_cons. destruct (alookup k d) as [ex|] eqn:Ek.
        - pose proof (alookup_In _ _ _ Ek) as Hin.
          assert (Hex : node_in_backend T b ex).
          { rewrite Forall_forall in Hd. apply (Hd (k, ex) Hin). }
          assert (Hexku : node_keys_unique ex = true).
          { rewrite Forall_forall in Hku. apply (Hku (k, ex) Hin). }
          assert (Hw : val_ok L (VD [(k, nv)]) = true) by (apply val_ok_VD_single; auto).
          destruct (merge_one_ok u c (VD [(k, nv)]) nv ex nx Hmis Hc Hw Hwf1 Hnv Hex Hexku)
            as [n [nx1 [E [[M1 [M2 [M3 [M4 M5]]]] Hle]]]].
          rewrite E. exists n, nx1. split; [reflexivity|].
          split; [exact M1|]. split; [exact M2|]. split; [exact M3|].
          split. { intros H. apply M4. rewrite Forall_forall in H. apply (H (k, ex) Hin). }
          split; [|exact Hle]. intros ex0 H0. inversion H0; subst. exact M5.
        - assert (Hw : val_ok L (VD [(k, nv)]) = true) by (apply val_ok_VD_single; auto).
          rewrite (proj2 (validate_ok T b L HU c _ Hc) Hw).
          destruct (from_base_fresh_ok c nv nx Hc Hwf1) as [[F1 [F2 [F3 F4]]] F5].
          destruct (from_base T c nv nx) as [n nx1]. simpl in *.
          exists n, nx1. split; [reflexivity|].
          split; [exact F1|]. split; [exact F2|]. split; [exact F3|]. split; [auto|].
          split; [|exact F5]. intros ex0 H0. discriminate. }
      destruct Step as [n [nx1 [Es [S1 [S2 [S3 [S4 [S5 S6]]]]]]]]. rewrite Es.
      assert (Hd1 : Forall nib_entry (dict_set d k n)) by (apply Forall_dict_set; auto).
      assert (Hku1 : Forall nku_entry (dict_set d k n)) by (apply Forall_dict_set; auto).
      pose proof (keys_unique_dict_set d k n Hdu) as Hdu1.
      destruct (IH Hok2 Hwf2 Hu (dict_set d k n) nx1 Hd1 Hku1 Hdu1)
        as [d' [nx' [E [B1 [B2 [B3 [B4 [B5 [B6 B7]]]]]]]]].
      exists d', nx'. split; [exact E|]. split.
      { intros k0 y H0. simpl in H0. destruct (key_eqb k0 k) eqn:Ek0.
        - apply key_eqb_eq in Ek0; subst k0. inversion H0; subst y. exists n.
          rewrite (B2 k Ekdd), alookup_dict_set_same. auto.
        - apply key_eqb_neq in Ek0. destruct (B1 k0 y H0) as [n0 [C1 [C2 C3]]].
          exists n0. split; [exact C1|]. split; [exact C2|].
          intros ex Hex. apply C3. rewrite alookup_dict_set_other; auto. }
      split.
      { intros k0 H0. simpl in H0. destruct (key_eqb k0 k) eqn:Ek0; [discriminate|].
        apply key_eqb_neq in Ek0. rewrite (B2 k0 H0). apply alookup_dict_set_other; auto. }
      split; [exact B3|]. split; [exact B4|]. split; [exact B5|]. split; [|lia].
      intros Hls. apply B6. apply Forall_dict_set; auto. unfold ls_entry; simpl. auto.
  Qed.

  Lemma upd_full data : val_ok L data = true -> wf_val data = true -> upd_good (upd T data) data.
  Proof.
    induction data as [s|dl IH|dd IH] using val_ind2; intros Hok Hwf n nx Hn Hcont Hkind Hku.
    - destruct n; simpl in *; discriminate.
    - destruct n as [v|id c l|id c d]; simpl in Hcont, Hkind; try discriminate.
      rewrite upd_NL_VL. apply nib_NL in Hn. destruct Hn as [Hc Hl].
      simpl in Hku. apply forallb_Forall' in Hku.
      apply val_ok_VL in Hok. simpl in Hwf. apply forallb_Forall' in Hwf.
      assert (HF : Forall (fun nv => upd_good ((fun v => upd T v) nv) nv) dl).
      { rewrite Forall_forall in *. intros x Hx. apply IH; auto. }
      destruct (upd_prefix_ok (fun v => upd T v) c dl (fun nv n nx => upd_mismatch T nv n nx)
                  HF Hc Hok Hwf l nx Hl Hku) as [l' [nx' [E [A1 [A2 [A3 [A4 [A5 A6]]]]]]]].
      rewrite E. exists (NL id c l'), nx'. split; [reflexivity|].
      split; [|split; [reflexivity|exact A6]].
      split. { simpl. constructor. clear -A1. induction A1; simpl; constructor; auto. }
      split. { apply nib_NL; auto. }
      split. { simpl. apply forallb_Forall'; exact A3. }
      split. { simpl. intros H. apply forallb_Forall'. apply A4. apply forallb_Forall'. exact H. }
      intros p m Hp Hs. destruct p as [|[k|i] p].
      + simpl in Hp. inversion Hp; subst. exists (NL id c l'). split; reflexivity.
      + simpl in Hp. discriminate.
      + simpl in Hp, Hs. destruct Hs as [_ [_ Hs]].
        destruct (nth_error l i) as [m1|] eqn:E1; [|discriminate].
        destruct (nth_error dl i) as [w|] eqn:E2; [|contradiction].
        destruct (A5 i m1 w E1 E2) as [n1 [F1 F2]].
        destruct (F2 p m Hp Hs) as [m' [G1 G2]].
        exists m'. split; [|exact G2]. simpl. rewrite F1. exact G1.
    - destruct n as [v|id c l|id c d]; simpl in Hcont, Hkind; try discriminate.
      rewrite upd_ND_VD. apply nib_ND in Hn. destruct Hn as [Hc Hd].
      simpl in Hku. apply andb_true_iff in Hku. destruct Hku as [Hdu Hku].
      apply forallb_Forall' in Hku.
      apply val_ok_VD in Hok. simpl in Hwf. apply andb_true_iff in Hwf. destruct Hwf as [Hddu Hwf].
      apply forallb_Forall' in Hwf.
      assert (HF : Forall (fun kv : key * val => upd_good ((fun v => upd T v) (snd kv)) (snd kv)) dd).
      { rewrite Forall_forall in *. intros x Hx. apply IH; auto. apply Hok; auto. }
      destruct (upd_entries_ok (fun v => upd T v) c dd (fun nv n nx => upd_mismatch T nv n nx)
                  HF Hc Hok Hwf Hddu d nx Hd Hku Hdu)
        as [d' [nx' [E [B1 [B2 [B3 [B4 [B5 [B6 B7]]]]]]]]].
      rewrite E. exists (ND id c (keep_keys d' dd)), nx'. split; [reflexivity|].
      split; [|split; [reflexivity|exact B7]].
      split.
      { simpl. constructor.
        - intros k x Hx. rewrite (alookup_map to_base), alookup_keep_keys in Hx.
          destruct (alookup k dd) as [y|] eqn:Ey; [|discriminate].
          destruct (B1 k y Ey) as [n0 [C1 [C2 _]]]. rewrite C1 in Hx. simpl in Hx.
          inversion Hx; subst. exists y. auto.
        - intros k Hx. rewrite (alookup_map to_base), alookup_keep_keys in Hx.
          destruct (alookup k dd) as [y|] eqn:Ey; [|reflexivity].
          destruct (B1 k y Ey) as [n0 [C1 _]]. rewrite C1 in Hx. discriminate. }
      split. { apply nib_ND. split; [exact Hc|]. unfold keep_keys. apply Forall_filter'. exact B3. }
      split. { simpl. apply andb_true_iff. split.
               - apply keys_unique_keep_keys; exact B5.
               - apply forallb_Forall'. unfold keep_keys. apply Forall_filter'. exact B4. }
      split. { simpl. intros H. apply forallb_Forall'. unfold keep_keys. apply Forall_filter'.
               apply B6. apply forallb_Forall'. exact H. }
      intros p m Hp Hs. destruct p as [|[k|i] p].
      + simpl in Hp. inversion Hp; subst. exists (ND id c (keep_keys d' dd)). split; reflexivity.
      + simpl in Hp, Hs. destruct Hs as [_ [_ Hs]].
        destruct (alookup k d) as [m1|] eqn:E1; [|discriminate].
        destruct (alookup k dd) as [w|] eqn:E2; [|contradiction].
        destruct (B1 k w E2) as [n1 [F1 [_ F2]]].
        destruct (F2 m1 E1 p m Hp Hs) as [m' [G1 G2]].
        exists m'. split; [|exact G2]. simpl. rewrite alookup_keep_keys, E2, F1. exact G1.
      + simpl in Hp. discriminate.
  Qed.
End UpdCorrect.

(* the merge makes the tree equal to the data (up to dict key order / sign of
   float zero), keeps the node's identity *)
Theorem upd_correct T b L data n nx :
  backend_has_both T b = true -> uniform_backend T b L = true ->
  node_in_backend T b n -> node_is_container n = true -> node_kind n = kind_of data ->
  val_ok L data = true -> wf_val data = true -> node_keys_unique n = true ->
  exists n' nx', upd T data n nx = (n', nx', None) /\ VEq (to_base n') data
     /\ node_in_backend T b n' /\ node_keys_unique n' = true /\ node_id n' = node_id n /\ nx <= nx'
     /\ (leaves_scalar n = true -> leaves_scalar n' = true).
Proof.
  intros HB HU Hn Hcont Hkind Hok Hwf Hku.
  destruct (upd_full T b L HB HU data Hok Hwf n nx Hn Hcont Hkind Hku)
    as [n' [nx' [E [[M1 [M2 [M3 [M4 M5]]]] [Hid Hle]]]]].
  exists n', nx'. repeat split; assumption.
Qed.

(* handles stay attached across a reload while the position keeps holding a
   container of the same kind *)
Theorem upd_keeps_handles T b L data n nx n' nx' :
  backend_has_both T b = true -> uniform_backend T b L = true ->
  node_in_backend T b n -> val_ok L data = true -> wf_val data = true -> node_keys_unique n = true ->
  upd T data n nx = (n', nx', None) ->
  forall p m, node_at p n = Some m -> same_kinds_along p n data ->
  exists m', node_at p n' = Some m' /\ node_id m' = node_id m.
Proof.
  intros HB HU Hn Hok Hwf Hku H p m Hp Hs.
  destruct (same_kinds_along_head _ _ _ Hs) as [Hcont Hkind].
  destruct (upd_full T b L HB HU data Hok Hwf n nx Hn Hcont Hkind Hku)
    as [n2 [nx2 [E [[_ [_ [_ [_ M5]]]] _]]]].
  rewrite E in H. inversion H; subst. exact (M5 p m Hp Hs).
Qed.

Print Assumptions str_eqb_eq.
Print Assumptions key_eqb_eq.
Print Assumptions to_base_from_base.
Print Assumptions validate_spec.
Print Assumptions from_base_fresh.
Print Assumptions from_base_in_backend.
Print Assumptions from_base_leaves_scalar.
Print Assumptions VEq_refl.
Print Assumptions VEq_veq_strict.
Print Assumptions upd_clean.
Print Assumptions upd_correct.
Print Assumptions upd_keeps_handles.
