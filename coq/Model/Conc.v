(* Conc.v — threads, locks, faults (C09, C10, C13, C14).  Definitions only.
   Part A: interleaving semantics of lock-protected operations (any number of locks, any step granularity).
   Part B: structured operation programs with exception edges; lock balance under every fault assignment.
   Part C: lock order and wait-for cycles.
   Part D: the table of the library's operation programs (tied to the code by the K2 event traces). *)
From Coq Require Import List Arith ZArith Bool.
Import ListNotations.

(* ------------------------------------------------------------------ Part A *)
Section Mutex.
  Variables S R Lc : Type.
  (* the shared state is one component per lock (per (class, file)); an operation acts on the
     component of its own lock and on thread-local data *)
  Definition stepf := (S * Lc -> S * Lc)%type.
  Record opd := mkop { op_lock : nat; init_lc : Lc; steps : list stepf; result : Lc -> R }.

  Definition run_steps (fs : list stepf) (st : S * Lc) : S * Lc := fold_left (fun st f => f st) fs st.

  Definition fupd {A} (f : nat -> A) (k : nat) (v : A) : nat -> A := fun u => if Nat.eqb u k then v else f u.

  (* running one operation alone, atomically *)
  Definition run_op (o : opd) (s : nat -> S) : (nat -> S) * R :=
    let st := run_steps (steps o) (s (op_lock o), init_lc o) in
    (fupd s (op_lock o) (fst st), result o (snd st)).

  Record thr := mkthr { todo : list opd; cur : option (opd * list stepf * Lc); done : list R }.
  Record config := mkcfg {
    sh : nat -> S;                    (* shared components *)
    holder : nat -> option nat;       (* lock -> thread holding it *)
    thrs : nat -> thr;
    log : list (nat * opd);           (* completed operations, in order of release *)
  }.

  (* one scheduling decision: thread t takes its next atomic action if it is enabled *)
  Definition cstep (c : config) (t : nat) : config :=
    let th := thrs c t in
    match cur th with
    | None =>
        match todo th with
        | o :: rest =>
            match holder c (op_lock o) with
            | None => mkcfg (sh c) (fupd (holder c) (op_lock o) (Some t))
                            (fupd (thrs c) t (mkthr rest (Some (o, steps o, init_lc o)) (done th))) (log c)
            | Some _ => c                       (* blocked *)
            end
        | [] => c
        end
    | Some (o, [], lc) =>
        mkcfg (sh c) (fupd (holder c) (op_lock o) None)
              (fupd (thrs c) t (mkthr (todo th) None (done th ++ [result o lc]))) (log c ++ [(t, o)])
    | Some (o, f :: fs, lc) =>
        let st := f (sh c (op_lock o), lc) in
        mkcfg (fupd (sh c) (op_lock o) (fst st)) (holder c)
              (fupd (thrs c) t (mkthr (todo th) (Some (o, fs, snd st)) (done th))) (log c)
    end.

  Definition exec (c : config) (sched : list nat) : config := fold_left cstep sched c.

  (* the serial execution of a list of operations *)
  Fixpoint serial (l : list (nat * opd)) (s : nat -> S) : (nat -> S) * list (nat * R) :=
    match l with
    | [] => (s, [])
    | (t, o) :: r =>
        let s1 := fst (run_op o s) in
        let x := snd (run_op o s) in
        (fst (serial r s1), (t, x) :: snd (serial r s1))
    end.

  Definition mine (t : nat) (res : list (nat * R)) : list R :=
    map snd (filter (fun p => Nat.eqb (fst p) t) res).

  Definition init_config (s0 : nat -> S) (ths : nat -> list opd) : config :=
    mkcfg s0 (fun _ => None) (fun t => mkthr (ths t) None []) [].

  Definition quiescent (c : config) : Prop := forall l, holder c l = None.
End Mutex.

(* ------------------------------------------------------------------ Part B *)
Inductive lockid := LColl | LBuf | LCls.
Definition lockid_eqb (a b : lockid) : bool :=
  match a, b with LColl, LColl | LBuf, LBuf | LCls, LCls => true | _, _ => false end.

(* structured programs: the control flow of one public operation *)
Inductive sprog :=
  | SSkip
  | SAct (tag : nat)                    (* an action that may raise (load, validate, body, save, ...) *)
  | SAcq (l : lockid)
  | SRel (l : lockid)
  | SSeq (p q : sprog)
  | STry (body handler : sprog)         (* try: body  except BaseException: handler; raise *)
  | SFinally (body fin : sprog).        (* try: body  finally: fin *)

Inductive outcome := ONormal | ORaise.
Inductive event := EAcq (l : lockid) | ERel (l : lockid) | EAct (tag : nat) | ERaiseAt (tag : nat).

Definition held := lockid -> Z.         (* acquisition count per lock (re-entrant locks) *)
Definition held_add (h : held) (l : lockid) (d : Z) : held :=
  fun m => if lockid_eqb m l then (h m + d)%Z else h m.

(* faults: which actions raise *)
Fixpoint sexec (p : sprog) (faults : nat -> bool) (h : held) : outcome * held * list event :=
  match p with
  | SSkip => (ONormal, h, [])
  | SAct t => if faults t then (ORaise, h, [ERaiseAt t]) else (ONormal, h, [EAct t])
  | SAcq l => (ONormal, held_add h l 1, [EAcq l])
  | SRel l => (ONormal, held_add h l (-1), [ERel l])
  | SSeq p q =>
      match sexec p faults h with
      | (ONormal, h1, e1) => match sexec q faults h1 with (o, h2, e2) => (o, h2, e1 ++ e2) end
      | (ORaise, h1, e1) => (ORaise, h1, e1)
      end
  | STry b hd =>
      match sexec b faults h with
      | (ONormal, h1, e1) => (ONormal, h1, e1)
      | (ORaise, h1, e1) => match sexec hd faults h1 with (_, h2, e2) => (ORaise, h2, e1 ++ e2) end
      end
  | SFinally b f =>
      match sexec b faults h with
      | (o1, h1, e1) =>
          match sexec f faults h1 with
          | (ONormal, h2, e2) => (o1, h2, e1 ++ e2)
          | (ORaise, h2, e2) => (ORaise, h2, e1 ++ e2)
          end
      end
  end.

Fixpoint tags (p : sprog) : list nat :=
  match p with
  | SAct t => [t]
  | SSeq p q | STry p q | SFinally p q => tags p ++ tags q
  | _ => []
  end.

Definition held0 : held := fun _ => 0%Z.
Definition held_zero (h : held) : bool := Z.eqb (h LColl) 0 && Z.eqb (h LBuf) 0 && Z.eqb (h LCls) 0.

Fixpoint subsets (l : list nat) : list (list nat) :=
  match l with
  | [] => [[]]
  | x :: l' => let r := subsets l' in r ++ map (cons x) r
  end.
Definition fault_fn (fs : list nat) : nat -> bool := fun t => existsb (Nat.eqb t) fs.

(* no lock is left held, whatever raises: checked over every subset of the program's fault points *)
Definition no_leak (p : sprog) : bool :=
  forallb (fun fs => match sexec p (fault_fn fs) held0 with (_, h, _) => held_zero h end) (subsets (tags p)).

(* ------------------------------------------------------------------ Part C *)
(* the lock order of the library: class-wide buffer lock, then collection lock, then class lock *)
Definition lock_rank (l : lockid) : nat := match l with LBuf => 0 | LColl => 1 | LCls => 2 end.

(* every acquisition is re-entrant or of a lock ranked above everything currently held *)
Fixpoint order_ok_events (es : list event) (h : held) : bool :=
  match es with
  | [] => true
  | EAcq l :: es' =>
      ((0 <? h l)%Z
       || forallb (fun m => (h m <=? 0)%Z || Nat.ltb (lock_rank m) (lock_rank l)) [LColl; LBuf; LCls])
      && order_ok_events es' (held_add h l 1)
  | ERel l :: es' => order_ok_events es' (held_add h l (-1))
  | _ :: es' => order_ok_events es' h
  end.
Definition respects_order (p : sprog) : bool :=
  forallb (fun fs => match sexec p (fault_fn fs) held0 with (_, _, es) => order_ok_events es held0 end)
          (subsets (tags p)).

(* a configuration of threads waiting for locks: who holds what, who waits for what *)
Record wconf := { w_holds : nat -> lockid -> bool; w_waits : nat -> option lockid }.
(* t waits for a lock held by u *)
Definition waits_for (c : wconf) (t u : nat) : Prop :=
  exists l, w_waits c t = Some l /\ w_holds c u l = true /\ t <> u.
(* a wait-for cycle t0 -> t1 -> ... -> t0 *)
Fixpoint wchain (c : wconf) (t : nat) (ts : list nat) (last : nat) : Prop :=
  match ts with
  | [] => waits_for c t last
  | u :: ts' => waits_for c t u /\ wchain c u ts' last
  end.
Definition wait_cycle (c : wconf) : Prop := exists t ts, wchain c t ts t.
(* every waiting thread holds only locks ranked below the one it waits for *)
Definition ordered_conf (c : wconf) : Prop :=
  forall t l m, w_waits c t = Some l -> w_holds c t m = true -> lock_rank m < lock_rank l.

(* ------------------------------------------------------------------ Part D *)
(* action tags *)
Definition T_VALIDATE := 1.   (* argument validation / conversion before the context is entered *)
Definition T_LOAD := 2.       (* _load_from_resource + _update *)
Definition T_BODY := 3.       (* the in-memory mutation *)
Definition T_SAVE := 4.       (* _save_to_resource *)
Definition T_BUFLOAD := 5.    (* first buffered access: load from the resource into the buffer *)
Definition T_BUFSAVE := 6.    (* store into the buffer *)
Definition T_FLUSH := 7.      (* _flush_buffer / _flush: writes files, may raise MetadataError / BufferedError *)
Definition T_SETNAME := 8.

Inductive flavor := FUnbuf | FBufOff | FBufOn.   (* plain class; buffered class outside / inside a buffered context *)
Inductive opkind :=
  | KMutate        (* any mutator that goes through `with self._load_and_save` *)
  | KMutateNew     (* the same, storing a container: the nested object's constructor takes the class lock *)
  | KRootNoLoad    (* clear() / reset() on a root: `with self._lock_and_save` *)
  | KRead          (* any read API: self._load() *)
  | KSetFilename
  | KConstruct
  | KExitObj       (* leaving obj.buffered: self._flush() *)
  | KExitCls       (* leaving Class.buffer_backend(): _flush_buffer(); restore capacity *)
  | KSetCapacity.

Definition with_lock (l : lockid) (body : sprog) : sprog := SSeq (SAcq l) (SFinally body (SRel l)).

(* the part of the class that matters for the lock structure *)
Record variant := { v_list : bool;     (* list-like: _update ends with self.extend(...), itself a locked mutator *)
                    v_shm : bool }.    (* shared-memory strategy: _flush takes no buffer lock of its own *)

Definition lock_nest (fl : flavor) : sprog :=
  match fl with
  | FUnbuf => with_lock LColl SSkip
  | _ => with_lock LBuf (with_lock LColl SSkip)
  end.
(* SyncedList._update calls self.extend(new_tail): acquires the locks re-entrantly (or for real, in a read) *)
Definition p_update_tail (fl : flavor) (v : variant) : sprog := if v_list v then lock_nest fl else SSkip.

(* _load of a root, by flavor *)
Definition p_load (fl : flavor) (v : variant) : sprog :=
  match fl with
  | FUnbuf | FBufOff => SSeq (SAct T_LOAD) (p_update_tail fl v)
  | FBufOn =>
      (* _load_from_buffer: first access loads the file into the buffer under both locks *)
      SSeq (with_lock LBuf (SSeq (SAct T_BUFLOAD) (with_lock LColl (p_update_tail fl v))))
           (if v_shm v then SSkip              (* shared memory: the object is pointed at the buffered container *)
            else SSeq (SAct T_FLUSH)           (* serialized: capacity check may force a flush, *)
                      (p_update_tail fl v))    (* then the decoded buffer content is merged in *)
  end.

Definition p_save (fl : flavor) : sprog :=
  match fl with
  | FUnbuf | FBufOff => SAct T_SAVE
  | FBufOn => with_lock LBuf (SSeq (SAct T_BUFSAVE) (SAct T_FLUSH))
  end.

(* _LoadAndSave.__enter__ / __exit__ and the buffered variant *)
Definition p_enter (fl : flavor) (v : variant) (load : bool) : sprog :=
  let inner := SSeq (SAcq LColl) (if load then STry (p_load fl v) (SRel LColl) else SSkip) in
  match fl with
  | FUnbuf => inner
  | _ => SSeq (SAcq LBuf) (STry inner (SRel LBuf))
  end.
Definition p_exit (fl : flavor) : sprog :=
  let inner := SFinally (p_save fl) (SRel LColl) in
  match fl with
  | FUnbuf => inner
  | _ => SFinally inner (SRel LBuf)
  end.
(* with ctx: body  ==  enter; try body finally exit *)
Definition p_with (fl : flavor) (v : variant) (load : bool) (body : sprog) : sprog :=
  SSeq (p_enter fl v load) (SFinally body (p_exit fl)).

Definition p_flush_one (fl : flavor) (v : variant) : sprog :=
  match fl with
  | FUnbuf => SSkip
  | _ => if v_shm v then SAct T_FLUSH
         else with_lock LBuf (SSeq (SAct T_FLUSH) (p_update_tail fl v))    (* merges the buffer content, then writes *)
  end.
(* _flush_buffer with one registered collection: pop it, flush it, find the registry empty *)
Definition p_flush_buffer (fl : flavor) (v : variant) : sprog :=
  SSeq (with_lock LBuf SSkip) (SFinally (p_flush_one fl v) (with_lock LBuf SSkip)).

Definition prog_of_op (fl : flavor) (v : variant) (k : opkind) : sprog :=
  match k with
  | KMutate => SSeq (SAct T_VALIDATE) (p_with fl v true (SAct T_BODY))
  | KMutateNew => SSeq (SAct T_VALIDATE) (p_with fl v true (SSeq (with_lock LCls SSkip) (SAct T_BODY)))
  | KRootNoLoad => SSeq (SAct T_VALIDATE) (p_with fl v false (SAct T_BODY))
  | KRead => p_load fl v
  | KSetFilename => with_lock LColl (SSeq (SAct T_SETNAME) (with_lock LCls SSkip))
  | KConstruct => with_lock LCls SSkip
  | KExitObj => p_flush_one fl v
  | KExitCls => match fl with
                | FUnbuf => SSkip
                | _ => p_flush_buffer fl v
                end
  | KSetCapacity => match fl with FUnbuf => SSkip | _ => with_lock LBuf (SAct T_FLUSH) end
  end.

Definition all_flavors := [FUnbuf; FBufOff; FBufOn].
Definition all_variants := [ {| v_list := false; v_shm := false |}; {| v_list := true; v_shm := false |};
                             {| v_list := false; v_shm := true |}; {| v_list := true; v_shm := true |} ].
Definition all_opkinds := [KMutate; KMutateNew; KRootNoLoad; KRead; KSetFilename; KConstruct; KExitObj; KExitCls; KSetCapacity].
Definition all_progs : list sprog :=
  flat_map (fun fl => flat_map (fun v => map (prog_of_op fl v) all_opkinds) all_variants) all_flavors.

(* a mutator is well locked when, outside its validation prefix, every action happens while the
   collection lock is held *)
Fixpoint acts_under_lock (es : list event) (h : held) (l : lockid) (skip : nat) : bool :=
  match es with
  | [] => true
  | EAcq m :: es' => acts_under_lock es' (held_add h m 1) l skip
  | ERel m :: es' => acts_under_lock es' (held_add h m (-1)) l skip
  | EAct t :: es' | ERaiseAt t :: es' =>
      (Nat.eqb t skip || (0 <? h l)%Z) && acts_under_lock es' h l skip
  end.
Definition well_locked (p : sprog) (l : lockid) : bool :=
  forallb (fun fs => match sexec p (fault_fn fs) held0 with (_, _, es) => acts_under_lock es held0 l T_VALIDATE end)
          (subsets (tags p)).
