(* Bridge.v — the in-place merge on the in-memory TREE (`upd`, Model/Tree.v) and the
   merge on PLAIN data used by the buffer model (`vmerge`, Model/Buffer.v) are the
   same function up to `to_base`: exact equality, dict key order included. *)
From Coq Require Import List ZArith NArith Bool Lia Arith.
From SC Require Import Model.Val Model.Plain Model.Valid Model.Class Model.Tree Model.Buffer
                       Proofs.TreeDefs Proofs.TreeLemmas.
Import ListNotations.

(* ------------------------------------------------------------------ *)
(* fuel                                                                *)
(* ------------------------------------------------------------------ *)

Lemma depth_VL_Forall l f : val_depth (VL l) < S f -> Forall (fun x => val_depth x < f) l.
Proof.
  induction l as [|a l IH]; intros H; constructor.
  - simpl in H. lia.
  - apply IH. simpl in H. simpl. lia.
Qed.

Lemma depth_VD_Forall d f :
  val_depth (VD d) < S f -> Forall (fun kv : key * val => val_depth (snd kv) < f) d.
Proof.
  induction d as [|a d IH]; intros H; constructor.
  - simpl in H. lia.
  - apply IH. simpl in H. simpl. lia.
Qed.

Lemma vmerge_list_ext (g h : val -> val -> val) old new :
  Forall (fun n => forall o, g o n = h o n) new -> vmerge_list g old new = vmerge_list h old new.
Proof.
  intros H. revert old. induction H as [|n new Hn HF IH]; intros [|o old]; simpl; try reflexivity.
  rewrite Hn, IH. reflexivity.
Qed.

Lemma vmerge_entries_ext (g h : val -> val -> val) new :
  Forall (fun kv : key * val => forall o, g o (snd kv) = h o (snd kv)) new ->
  forall acc, vmerge_entries g new acc = vmerge_entries h new acc.
Proof.
  induction 1 as [|[k n] new Hx HF IH]; intros acc; simpl; [reflexivity|].
  simpl in Hx. rewrite IH. destruct (alookup k acc); [rewrite Hx|]; reflexivity.
Qed.

Lemma vmerge_fuel_stable new : forall f1 f2 old,
  val_depth new < f1 -> val_depth new < f2 -> vmerge_fuel f1 old new = vmerge_fuel f2 old new.
Proof.
  induction new as [s|m IH|e IH] using val_ind2; intros [|f1] [|f2] old H1 H2; try lia.
  - destruct old; reflexivity.
  - destruct old as [a|l|d]; cbn [vmerge_fuel]; try reflexivity.
    f_equal. apply vmerge_list_ext.
    pose proof (depth_VL_Forall _ _ H1) as D1. pose proof (depth_VL_Forall _ _ H2) as D2.
    rewrite Forall_forall in *. intros x Hx o. apply IH; auto.
  - destruct old as [a|l|d]; cbn [vmerge_fuel]; try reflexivity.
    f_equal. f_equal. apply vmerge_entries_ext.
    pose proof (depth_VD_Forall _ _ H1) as D1. pose proof (depth_VD_Forall _ _ H2) as D2.
    rewrite Forall_forall in *. intros x Hx o. apply IH; auto.
Qed.

(* more fuel than the depth of the new data changes nothing *)
Lemma vmerge_fuel_enough fuel old new :
  val_depth new < fuel -> vmerge_fuel fuel old new = vmerge old new.
Proof. intros H. unfold vmerge. apply vmerge_fuel_stable; lia. Qed.

(* ------------------------------------------------------------------ *)
(* to_base commutes with the dict operations                           *)
(* ------------------------------------------------------------------ *)

Lemma map_dict_set {A B} (g : A -> B) (d : list (key * A)) k n :
  map (fun kn : key * A => (fst kn, g (snd kn))) (dict_set d k n) =
  dict_set (map (fun kn : key * A => (fst kn, g (snd kn))) d) k (g n).
Proof.
  induction d as [|[k' v] d IH]; simpl; [reflexivity|].
  destruct (key_eqb k k'); simpl; [reflexivity|rewrite IH; reflexivity].
Qed.

Lemma map_filter_key {A B} (g : A -> B) (p : key -> bool) (d : list (key * A)) :
  map (fun kn : key * A => (fst kn, g (snd kn))) (filter (fun kn => p (fst kn)) d) =
  filter (fun kv => p (fst kv)) (map (fun kn : key * A => (fst kn, g (snd kn))) d).
Proof.
  induction d as [|[k v] d IH]; simpl; [reflexivity|].
  destruct (p k); simpl; rewrite IH; reflexivity.
Qed.

Lemma map_st_from_base T c dl nx tl nx1 :
  map_st (from_base T c) dl nx = (tl, nx1) -> map to_base tl = dl.
Proof.
  intros H. apply map_st_rel_intro in H.
  assert (F : Forall2 (fun x y => to_base y = x) dl tl).
  { eapply map_st_rel_Forall2; [exact H|]. apply Forall_forall. intros a _ s.
    apply to_base_from_base. }
  clear -F. induction F; simpl; congruence.
Qed.

Lemma replace_tb T c wrapped nv (ex0 : node) nx0 n nx1 :
  match validate (validators_of T c) wrapped with
  | Some e => (ex0, nx0, Some e)
  | None => let (n, nx1) := from_base T c nv nx0 in (n, nx1, None)
  end = (n, nx1, None) -> to_base n = nv.
Proof.
  destruct (validate (validators_of T c) wrapped); [discriminate|].
  pose proof (to_base_from_base T c nv nx0) as E.
  destruct (from_base T c nv nx0) as [n0 nx2]. simpl in E.
  intros H. injection H as E1 E2. subst n0. exact E.
Qed.

(* ------------------------------------------------------------------ *)
(* the bridge                                                          *)
(* ------------------------------------------------------------------ *)

Section Bridge.
  Variables (T : class_table) (b : nat) (L : lang).
  Hypothesis HB : backend_has_both T b = true.
  Hypothesis HU : uniform_backend T b L = true.

  Local Notation tb := (fun kn : key * node => (fst kn, to_base (snd kn))).

  Definition okn (n : node) : Prop :=
    node_in_backend T b n /\ node_keys_unique n = true /\ leaves_scalar n = true.

  Definition bridge_at (u : node -> nat -> node * nat * option err) (data : val) (f : nat) : Prop :=
    forall n nx n' nx', okn n -> node_is_container n = true -> node_kind n = kind_of data ->
      u n nx = (n', nx', None) -> to_base n' = vmerge_fuel f (to_base n) data.

  (* what is needed about one incoming value *)
  Definition item_ok (u : val -> node -> nat -> node * nat * option err) (f : nat) (nv : val) : Prop :=
    upd_good T b (u nv) nv /\ bridge_at (u nv) nv f /\ val_depth nv < f /\ wf_val nv = true.

  Lemma merge_one_bridge u c wrapped nv ex nx n nx1 f :
    mismatch_ok u -> in_backend T b c = true -> val_ok L wrapped = true ->
    item_ok u f nv -> okn ex ->
    merge_one T u c wrapped nv ex nx = (n, nx1, None) ->
    to_base n = vmerge_fuel f (to_base ex) nv /\ okn n.
  Proof.
    intros Hmis Hc Hw [Hg [Hbr [Hf Hwf]]] Hokn H.
    pose proof Hokn as [Hex [Hku Hls]].
    split.
    2:{ destruct (merge_one_ok T b L HB HU u c wrapped nv ex nx Hmis Hc Hw Hwf Hg Hex Hku)
          as [n0 [nx0 [E [[M1 [M2 [M3 [M4 M5]]]] _]]]].
        rewrite E in H. injection H as E1 E2. subst n0.
        split; [exact M2|]. split; [exact M3|]. apply M4. exact Hls. }
    destruct f as [|f]; [lia|].
    unfold merge_one in H. cbv beta zeta in H.
    destruct (skip_same nv ex) eqn:Hs.
    - injection H as E1 E2. subst n.
      destruct nv as [a|?|?]; try discriminate.
      destruct ex as [[b0|?|?]|? ? ?|? ? ?]; try discriminate.
      simpl in Hs. simpl. rewrite seq_strict_sym, Hs. reflexivity.
    - destruct (node_is_container ex && negb (is_null nv)) eqn:Hc2.
      + apply andb_true_iff in Hc2. destruct Hc2 as [Hcont Hnn].
        destruct (kind_eqb (node_kind ex) (kind_of nv)) eqn:Hk.
        * apply kind_eqb_eq in Hk.
          destruct (Hg ex nx Hex Hcont Hk Hku) as [n2 [nx2 [E _]]].
          rewrite E in H. injection H as E1 E2. subst n2.
          eapply Hbr; eauto.
        * assert (Hne : node_kind ex <> kind_of nv).
          { intros Heq. apply kind_eqb_eq in Heq. congruence. }
          rewrite (Hmis nv ex nx) in H by (left; exact Hne). cbv beta iota in H.
          change (err_is_value_error EValue) with true in H. cbv iota in H.
          rewrite (replace_tb _ _ _ _ _ _ _ _ H).
          destruct ex as [v|? ? ?|? ? ?], nv as [s|?|?]; simpl in Hcont; try discriminate;
            try reflexivity; exfalso; apply Hne; reflexivity.
      + rewrite (replace_tb _ _ _ _ _ _ _ _ H).
        destruct ex as [[b0|?|?]|? ? ?|? ? ?]; simpl in Hls; try discriminate.
        * destruct nv as [a|?|?]; simpl; try reflexivity.
          simpl in Hs. rewrite seq_strict_sym, Hs. reflexivity.
        * simpl in Hc2. destruct nv as [[]|?|?]; simpl in Hc2; try discriminate. reflexivity.
        * simpl in Hc2. destruct nv as [[]|?|?]; simpl in Hc2; try discriminate. reflexivity.
  Qed.

  Lemma upd_prefix_bridge u c f dl :
    mismatch_ok u -> in_backend T b c = true ->
    Forall (fun nv => item_ok u f nv /\ val_ok L nv = true) dl ->
    forall l nx l' nx', Forall okn l -> upd_prefix T u c dl l nx = (l', nx', None) ->
      map to_base l' = vmerge_list (vmerge_fuel f) (map to_base l) dl.
  Proof.
    intros Hmis Hc HF. induction HF as [|nv dl [Hit Hok] HF IH]; intros l nx l' nx' Hl H.
    - rewrite upd_prefix_nil in H. injection H as E1 E2. subst l'. destruct l; reflexivity.
    - destruct l as [|ex l].
      + rewrite upd_prefix_cons_nil in H.
        destruct (validate (validators_of T c) (VL (nv :: dl))); [discriminate|].
        destruct (map_st (from_base T c) (nv :: dl) nx) as [tl nx1] eqn:E2.
        injection H as E3 E4. subst tl. simpl map at 2. simpl vmerge_list.
        eapply map_st_from_base; eauto.
      + rewrite upd_prefix_cons_cons in H.
        destruct (merge_one T u c nv nv ex nx) as [[n nx1] [e1|]] eqn:E; [discriminate|].
        destruct (upd_prefix T u c dl l nx1) as [[l2 nx2] e2] eqn:E2.
        injection H as E3 E4 E5. subst l' nx2 e2.
        pose proof (Forall_inv Hl) as Hl1. pose proof (Forall_inv_tail Hl) as Hl2.
        destruct (merge_one_bridge u c nv nv ex nx n nx1 f Hmis Hc Hok Hit Hl1 E) as [Etb _].
        simpl. rewrite Etb. f_equal. eapply IH; eauto.
  Qed.

  Lemma upd_entries_bridge u c f dd :
    mismatch_ok u -> in_backend T b c = true ->
    Forall (fun kv : key * val => item_ok u f (snd kv) /\ val_ok L (VD [kv]) = true) dd ->
    forall d nx d' nx', Forall (fun kn : key * node => okn (snd kn)) d ->
      upd_entries T u c dd d nx = (d', nx', None) ->
      map tb d' = vmerge_entries (vmerge_fuel f) dd (map tb d).
  Proof.
    intros Hmis Hc HF. induction HF as [|[k nv] dd [Hit Hok] HF IH]; intros d nx d' nx' Hd H.
    - rewrite upd_entries_nil in H. injection H as E1 E2. subst d'. reflexivity.
    - rewrite upd_entries_cons in H. simpl in Hit. simpl vmerge_entries.
      rewrite (alookup_map to_base).
      destruct (alookup k d) as [ex|] eqn:Ek; simpl option_map; cbv iota.
      + destruct (merge_one T u c (VD [(k, nv)]) nv ex nx) as [[n nx1] [e1|]] eqn:E; [discriminate|].
        assert (Hex : okn ex).
        { apply alookup_In in Ek. rewrite Forall_forall in Hd. apply (Hd (k, ex) Ek). }
        destruct (merge_one_bridge u c (VD [(k, nv)]) nv ex nx n nx1 f Hmis Hc Hok Hit Hex E)
          as [Etb Hn].
        rewrite <- Etb, <- (map_dict_set to_base).
        eapply IH; [|exact H]. apply Forall_dict_set; auto.
      + destruct (validate (validators_of T c) (VD [(k, nv)])); [discriminate|].
        destruct Hit as [_ [_ [_ Hwf]]].
        destruct (from_base_fresh_ok T b HB c nv nx Hc Hwf) as [[_ [F2 [F3 F4]]] _].
        pose proof (to_base_from_base T c nv nx) as Etb.
        destruct (from_base T c nv nx) as [n nx1]. simpl in F2, F3, F4, Etb.
        rewrite <- Etb, <- (map_dict_set to_base).
        eapply IH; [|exact H]. apply Forall_dict_set; auto. simpl. repeat split; assumption.
  Qed.

  Lemma upd_bridge data :
    val_ok L data = true -> wf_val data = true ->
    forall f, val_depth data < f -> bridge_at (upd T data) data f.
  Proof.
    induction data as [s|dl IH|dd IH] using val_ind2;
      intros Hok Hwf f Hf n nx n' nx' [Hn [Hku Hls]] Hcont Hkind H.
    - destruct n; simpl in *; discriminate.
    - destruct n as [v|id c l|id c d]; simpl in Hcont, Hkind; try discriminate.
      destruct f as [|f]; [lia|].
      rewrite upd_NL_VL in H.
      destruct (upd_prefix T (fun v => upd T v) c dl l nx) as [[l' nx2] e2] eqn:E.
      injection H as E1 E2 E3. subst n' nx2 e2.
      apply nib_NL in Hn. destruct Hn as [Hc Hl].
      simpl in Hku. apply forallb_Forall' in Hku.
      simpl in Hls. apply forallb_Forall' in Hls.
      apply val_ok_VL in Hok. simpl in Hwf. apply forallb_Forall' in Hwf.
      pose proof (depth_VL_Forall _ _ Hf) as Hd.
      simpl to_base. cbn [vmerge_fuel]. f_equal.
      eapply (upd_prefix_bridge (fun v => upd T v)); [| | | |exact E].
      + exact (fun nv n nx => upd_mismatch T nv n nx).
      + exact Hc.
      + rewrite Forall_forall in *. intros x Hx. split; [|auto].
        split; [apply (upd_full T b L HB HU); auto|]. split; [apply IH; auto|]. split; auto.
      + rewrite Forall_forall in *. intros x Hx. split; [|split]; auto.
    - destruct n as [v|id c l|id c d]; simpl in Hcont, Hkind; try discriminate.
      destruct f as [|f]; [lia|].
      rewrite upd_ND_VD in H.
      destruct (upd_entries T (fun v => upd T v) c dd d nx) as [[d' nx2] [e2|]] eqn:E;
        [discriminate|].
      injection H as E1 E2. subst n' nx2.
      apply nib_ND in Hn. destruct Hn as [Hc Hd0].
      simpl in Hku. apply andb_true_iff in Hku. destruct Hku as [_ Hku].
      apply forallb_Forall' in Hku.
      simpl in Hls. apply forallb_Forall' in Hls.
      apply val_ok_VD in Hok. simpl in Hwf. apply andb_true_iff in Hwf. destruct Hwf as [_ Hwf].
      apply forallb_Forall' in Hwf.
      pose proof (depth_VD_Forall _ _ Hf) as Hd.
      assert (EE : map tb d' = vmerge_entries (vmerge_fuel f) dd (map tb d)).
      { eapply (upd_entries_bridge (fun v => upd T v)); [| | | |exact E].
        + exact (fun nv n nx => upd_mismatch T nv n nx).
        + exact Hc.
        + rewrite Forall_forall in *. intros [k w] Hx.
          pose proof (Hok _ Hx) as [Hk Hv]. pose proof (Hwf _ Hx) as Hw. pose proof (Hd _ Hx) as Hdx.
          simpl in Hk, Hv, Hw, Hdx. simpl snd. split.
          * split; [apply (upd_full T b L HB HU); auto|].
            split; [apply (IH (k, w) Hx); auto|]. split; auto.
          * apply val_ok_VD_single. auto.
        + rewrite Forall_forall in *. intros x Hx. split; [|split]; auto. }
      simpl to_base. cbn [vmerge_fuel]. f_equal. unfold keep_keys.
      rewrite (map_filter_key to_base
                 (fun k => match alookup k dd with Some _ => true | None => false end)).
      rewrite EE. reflexivity.
  Qed.
End Bridge.

(* the tree merge and the plain merge agree exactly *)
Theorem upd_is_vmerge T b L data n nx n' nx' :
  backend_has_both T b = true -> uniform_backend T b L = true -> node_in_backend T b n ->
  val_ok L data = true -> wf_val data = true -> node_keys_unique n = true -> leaves_scalar n = true ->
  node_is_container n = true -> node_kind n = kind_of data ->
  upd T data n nx = (n', nx', None) ->
  to_base n' = vmerge (to_base n) data.
Proof.
  intros HB HU Hn Hok Hwf Hku Hls Hcont Hkind H.
  unfold vmerge.
  eapply (upd_bridge T b L HB HU data Hok Hwf (S (val_depth data))); eauto.
  split; [|split]; assumption.
Qed.

Print Assumptions vmerge_fuel_enough.
Print Assumptions upd_is_vmerge.
