(* Val.v — values shared by every model layer.  Definitions only. *)
From Coq Require Import List ZArith NArith Bool.
Import ListNotations.
Local Open Scope Z_scope.

Definition str := list N.                       (* code points *)

Fixpoint str_eqb (a b : str) : bool :=
  match a, b with
  | [], [] => true
  | x :: a', y :: b' => N.eqb x y && str_eqb a' b'
  | _, _ => false
  end.

(* exact dyadic floats: FNum m e = m * 2^e with m odd (normalised by the harness) *)
Inductive flt := FZero (neg : bool) | FNum (m e : Z).

(* SBad: a leaf that is not JSON-representable (object(), complex, set, ...);
   the tag identifies the Python object (identity equality). *)
Inductive scalar :=
  | SNull | SBool (b : bool) | SInt (z : Z) | SFloat (f : flt) | SStr (s : str) | SBad (tag : N).

(* KBad: a mapping key that is not a str (int, tuple, ...) *)
Inductive key := KStr (s : str) | KBad (tag : N).

Inductive val := VS (s : scalar) | VL (l : list val) | VD (d : list (key * val)).

Definition key_eqb (a b : key) : bool :=
  match a, b with
  | KStr s, KStr t => str_eqb s t
  | KBad s, KBad t => N.eqb s t
  | _, _ => false
  end.

Definition flt_eqb (a b : flt) : bool :=
  match a, b with
  | FZero _, FZero _ => true
  | FNum m e, FNum m' e' => Z.eqb m m' && Z.eqb e e'
  | _, _ => false
  end.

Definition flt_eq_int (f : flt) (z : Z) : bool :=
  match f with
  | FZero _ => Z.eqb z 0
  | FNum m e => if Z.leb 0 e then Z.eqb z (m * 2 ^ e) else false
  end.

Definition b2z (b : bool) : Z := if b then 1 else 0.

(* Python == on leaves: True == 1 == 1.0 *)
Definition seq_py (a b : scalar) : bool :=
  match a, b with
  | SNull, SNull => true
  | SBool x, SBool y => Bool.eqb x y
  | SBool x, SInt z | SInt z, SBool x => Z.eqb (b2z x) z
  | SBool x, SFloat f | SFloat f, SBool x => flt_eq_int f (b2z x)
  | SInt x, SInt y => Z.eqb x y
  | SInt z, SFloat f | SFloat f, SInt z => flt_eq_int f z
  | SFloat f, SFloat g => flt_eqb f g
  | SStr s, SStr t => str_eqb s t
  | SBad s, SBad t => N.eqb s t
  | _, _ => false
  end.

(* same JSON type and equal; the two float zeros are identified *)
Definition seq_strict (a b : scalar) : bool :=
  match a, b with
  | SNull, SNull => true
  | SBool x, SBool y => Bool.eqb x y
  | SInt x, SInt y => Z.eqb x y
  | SFloat f, SFloat g => flt_eqb f g
  | SStr s, SStr t => str_eqb s t
  | SBad s, SBad t => N.eqb s t
  | _, _ => false
  end.

Section Combinators.
  Context {A B : Type}.
  Variable f : A -> B -> bool.
  Fixpoint forall2b (l1 : list A) (l2 : list B) : bool :=
    match l1, l2 with
    | [], [] => true
    | x :: l1', y :: l2' => f x y && forall2b l1' l2'
    | _, _ => false
    end.
End Combinators.

Fixpoint alookup {A} (k : key) (d : list (key * A)) : option A :=
  match d with
  | [] => None
  | (k', v) :: d' => if key_eqb k k' then Some v else alookup k d'
  end.

Section ValEq.
  Variable leaf : scalar -> scalar -> bool.
  (* dict comparison ignores order; lists are compared pointwise *)
  Fixpoint veq_with (a b : val) {struct a} : bool :=
    match a, b with
    | VS x, VS y => leaf x y
    | VL l, VL m => forall2b veq_with l m
    | VD d, VD e =>
        Nat.eqb (length d) (length e) &&
        forallb (fun kv : key * val =>
                   let (k, v) := kv in
                   match alookup k e with Some w => veq_with v w | None => false end) d
    | _, _ => false
    end.
End ValEq.

(* order-sensitive, type-strict equality (plain data against plain data) *)
Fixpoint veq_exact (a b : val) {struct a} : bool :=
  match a, b with
  | VS x, VS y => seq_strict x y
  | VL l, VL m => forall2b veq_exact l m
  | VD d, VD e =>
      forall2b (fun (kv : key * val) (kw : key * val) =>
                  let (k, v) := kv in key_eqb k (fst kw) && veq_exact v (snd kw)) d e
  | _, _ => false
  end.

(* equality of the encoded JSON text: order-sensitive, the two float zeros differ *)
Definition seq_text (a b : scalar) : bool :=
  match a, b with
  | SFloat (FZero x), SFloat (FZero y) => Bool.eqb x y
  | _, _ => seq_strict a b
  end.
Fixpoint veq_text (a b : val) {struct a} : bool :=
  match a, b with
  | VS x, VS y => seq_text x y
  | VL l, VL m => forall2b veq_text l m
  | VD d, VD e =>
      forall2b (fun (kv : key * val) (kw : key * val) =>
                  let (k, v) := kv in key_eqb k (fst kw) && veq_text v (snd kw)) d e
  | _, _ => false
  end.

Definition veq_py := veq_with seq_py.          (* Python ==  *)
Definition veq_strict := veq_with seq_strict.  (* equal and same JSON type at every leaf *)

(* --- well-formedness predicates --- *)
Definition scalar_json (s : scalar) : bool := match s with SBad _ => false | _ => true end.
Definition key_is_str (k : key) : bool := match k with KStr _ => true | KBad _ => false end.
Definition dot : N := 46%N.
Definition key_has_dot (k : key) : bool :=
  match k with KStr s => existsb (N.eqb dot) s | KBad _ => false end.

Section ValAll.
  Variable pleaf : scalar -> bool.
  Variable pkey : key -> bool.
  Fixpoint val_all (v : val) : bool :=
    match v with
    | VS s => pleaf s
    | VL l => forallb val_all l
    | VD d => forallb (fun kv : key * val => let (k, w) := kv in pkey k && val_all w) d
    end.
End ValAll.

Definition is_json (v : val) : bool := val_all scalar_json key_is_str v.
Definition str_keys (v : val) : bool := val_all (fun _ => true) key_is_str v.
Definition json_leaves (v : val) : bool := val_all scalar_json (fun _ => true) v.
Definition no_dots (v : val) : bool := val_all (fun _ => true) (fun k => negb (key_has_dot k)) v.

Fixpoint keys_unique {A} (d : list (key * A)) : bool :=
  match d with
  | [] => true
  | (k, _) :: d' => match alookup k d' with None => keys_unique d' | Some _ => false end
  end.

Fixpoint wf_val (v : val) : bool :=        (* dict keys unique at every level *)
  match v with
  | VS _ => true
  | VL l => forallb wf_val l
  | VD d => keys_unique d && forallb (fun kv : key * val => wf_val (snd kv)) d
  end.

Inductive kind := KScalar | KList | KDict.
Definition kind_of (v : val) : kind :=
  match v with VS _ => KScalar | VL _ => KList | VD _ => KDict end.
Definition kind_eqb (a b : kind) : bool :=
  match a, b with KScalar, KScalar | KList, KList | KDict, KDict => true | _, _ => false end.

(* results *)
Inductive err := EKey | EIndex | EValue | EType | EAttr | EKeyType | EInvalidKey
               | EMetadata | EBuffered | EJSONDecode | EOS | EUnsupported.
Definition err_eqb (a b : err) : bool :=
  match a, b with
  | EKey, EKey | EIndex, EIndex | EValue, EValue | EType, EType | EAttr, EAttr
  | EKeyType, EKeyType | EInvalidKey, EInvalidKey | EMetadata, EMetadata
  | EBuffered, EBuffered | EJSONDecode, EJSONDecode | EOS, EOS | EUnsupported, EUnsupported => true
  | _, _ => false
  end.
Inductive res (A : Type) := Ok (a : A) | Err (e : err).
Arguments Ok {A} a.
Arguments Err {A} e.
