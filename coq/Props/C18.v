(* C18 — Nested containers keep the root's family; attribute access equals item access.  Property theorems only. *)
From Coq Require Import List Bool.
From SC Require Import Model.Val Model.Plain Model.Ops Model.Valid Model.Class Model.Tree Model.Machine Model.Attr.
From SC Require Import Proofs.TreeDefs Proofs.TreeBase Proofs.MachineDefs Proofs.MachineInv Proofs.AttrProofs.
From SC Require Import Gen.ClassTable Gen.Obligations.
Import ListNotations.

(* conversion picks, for every nested container, a class registered for the parent's backend ... *)
Theorem C18_from_base_in_family : forall T b c v nx,
  in_backend T b c = true -> node_in_backend T b (fst (from_base T c v nx)).
Proof. exact from_base_in_backend. Qed.
Print Assumptions C18_from_base_in_family.

(* ... and never leaves a raw (unsynced) container behind when the backend has a dict class and a list class *)
Theorem C18_no_raw_containers : forall T b c v nx,
  in_backend T b c = true -> backend_has_both T b = true -> leaves_scalar (fst (from_base T c v nx)) = true.
Proof. exact from_base_leaves_scalar. Qed.
Print Assumptions C18_no_raw_containers.

(* family invariant: after ANY operation or reload (any op list, arbitrary argument values), every container
   reachable in every object's tree is a synced collection of its root's backend family (oi_backend), of the
   class kind that matches its content (oi_kinds), with no raw container anywhere (oi_leaves) *)
Theorem C18_family_invariant : forall ops s,
  Inv class_table s -> res_valid class_table s -> same_family class_table s -> res_nodup s ->
  (forall pre op post, ops = pre ++ op :: post ->
     op_admissible class_table (fst (run class_table pre s)) op /\ op_args_wf op) ->
  forall oid o, nlookup oid (m_objs (fst (run class_table ops s))) = Some o ->
    node_in_backend class_table (backend_of class_table (o_cls o)) (o_root o)
    /\ leaves_scalar (o_root o) = true /\ kinds_match class_table (o_root o) = true.
Proof.
  intros ops s I R F N A oid o Ho.
  destruct (run_preserves_inv class_table ops s gen_table_ok I R F N A) as [I' _].
  destruct (I' oid o Ho). auto.
Qed.
Print Assumptions C18_family_invariant.

(* the registry of the tree under test gives every backend a dict class and a list class of that backend *)
Theorem C18_registry_closed_today : wf_registry class_table = true /\ table_ok class_table = true.
Proof. split; [exact gen_wf_registry|exact gen_table_ok]. Qed.
Print Assumptions C18_registry_closed_today.

(* attribute access: for every key that is not protected, not a dunder and not an attribute of the object or
   its class, obj.k / obj.k = v / del obj.k are routed to obj['k'] / obj['k'] = v / del obj['k'] *)
Theorem C18_attr_eq_item : forall v name, is_dunder name = false -> route_of v name false false = RItem.
Proof. exact attr_eq_item_l. Qed.
Print Assumptions C18_attr_eq_item.

(* protected names and dunders always address the object itself when written or deleted *)
Theorem C18_protected_frame : forall v name has_attr,
  v <> VGet -> forall p, (p || is_dunder name = true) -> route_of v name p has_attr = RObject.
Proof. exact protected_frame_l. Qed.
Print Assumptions C18_protected_frame.

(* an instance attribute is always a protected name (generated obligation `covered`, checked on every run
   against vars(obj) after a tour of the API), so an unprotected key is never shadowed by an internal *)
Theorem C18_covered_spec : forall protected inst a,
  covered protected inst = true -> smem a inst = true -> smem a protected = true.
Proof. exact covered_spec. Qed.
Print Assumptions C18_covered_spec.
