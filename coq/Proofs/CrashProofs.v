From Coq Require Import List NArith Bool Arith Lia.
From SC Require Import Model.Crash.
Import ListNotations.

Lemma fname_eqb_refl a : fname_eqb a a = true.
Proof. induction a as [|x a IH]; cbn; [reflexivity|]. rewrite N.eqb_refl, IH. reflexivity. Qed.

Lemma fname_eqb_eq a b : fname_eqb a b = true <-> a = b.
Proof.
  revert b; induction a as [|x a IH]; intros [|y b]; cbn; split; intros H; try reflexivity; try discriminate.
  - apply andb_prop in H as [H1 H2]. apply N.eqb_eq in H1. apply IH in H2. subst; reflexivity.
  - injection H as -> ->. rewrite N.eqb_refl. apply IH. reflexivity.
Qed.

Lemma fname_eqb_neq a b : a <> b -> fname_eqb a b = false.
Proof. intros H. destruct (fname_eqb a b) eqn:E; [|reflexivity]. apply fname_eqb_eq in E. contradiction. Qed.

Lemma fs_set_same fs p v : fs_set fs p v p = v.
Proof. unfold fs_set. rewrite fname_eqb_refl. reflexivity. Qed.
Lemma fs_set_other fs p v q : q <> p -> fs_set fs p v q = fs q.
Proof. intros H. unfold fs_set. rewrite (fname_eqb_neq q p H). reflexivity. Qed.

Ltac fs_crush :=
  cbn [firstn nth_error run_acts fold_left do_act];
  repeat first [ rewrite fs_set_same | rewrite fs_set_other by (assumption || congruence) ].

(* ---------- one atomic save: the target is old or new at every crash point *)
Theorem atomic_save_old_or_new_l fs target tmp blob k cut :
  tmp <> target ->
  let fs' := run_crash (save_prog true target tmp (Some blob)) k cut fs in
  fs' target = fs target \/ fs' target = Some blob.
Proof.
  intros Hne. cbn [save_prog].
  assert (Hnt : target <> tmp) by congruence.
  unfold run_crash.
  destruct k as [|[|[|[|k]]]].
  - left. fs_crush. reflexivity.
  - left. fs_crush. reflexivity.
  - left. fs_crush. reflexivity.
  - left. fs_crush. reflexivity.
  - right. rewrite firstn_all2 by (cbn; lia).
    replace (nth_error _ (S (S (S (S k))))) with (@None fsact) by (destruct k; reflexivity).
    fs_crush. reflexivity.
Qed.

(* a save touches only its temporary file and its target *)
Lemma crash_frame fs target tmp blob k cut q :
  q <> target -> q <> tmp ->
  run_crash (save_prog true target tmp (Some blob)) k cut fs q = fs q.
Proof.
  intros H1 H2. cbn [save_prog]. unfold run_crash.
  destruct k as [|[|[|[|k]]]].
  - fs_crush. reflexivity.
  - fs_crush. reflexivity.
  - fs_crush. reflexivity.
  - fs_crush. reflexivity.
  - rewrite firstn_all2 by (cbn; lia).
    replace (nth_error _ (S (S (S (S k))))) with (@None fsact) by (destruct k; reflexivity).
    fs_crush. reflexivity.
Qed.

Lemma run_frame fs target tmp blob q :
  q <> target -> q <> tmp ->
  run_acts (save_prog true target tmp (Some blob)) fs q = fs q.
Proof.
  intros H1 H2. cbn [save_prog run_acts fold_left do_act]. rewrite !fs_set_other by assumption. reflexivity.
Qed.

Lemma run_complete fs target tmp blob :
  tmp <> target -> run_acts (save_prog true target tmp (Some blob)) fs target = Some blob.
Proof.
  intros H. assert (target <> tmp) by congruence.
  cbn [save_prog run_acts fold_left do_act].
  rewrite fs_set_other by assumption. rewrite fs_set_same. rewrite !fs_set_same. reflexivity.
Qed.

(* ---------- multi-file flush *)
(* each file is flushed once; no temporary name is the name of a file being flushed *)
Definition names_ok (saves : list save) : Prop :=
  NoDup (map sv_target saves)
  /\ forall s s', In s saves -> In s' saves -> sv_tmp s <> sv_target s'.

Lemma run_acts_app a b fs : run_acts (a ++ b) fs = run_acts b (run_acts a fs).
Proof. unfold run_acts. apply fold_left_app. Qed.

Lemma run_crash_app_l a b k cut fs :
  k < length a -> run_crash (a ++ b) k cut fs = run_crash a k cut fs.
Proof.
  intros H. unfold run_crash. rewrite firstn_app. replace (k - length a) with 0 by lia.
  cbn [firstn]. rewrite app_nil_r. rewrite nth_error_app1 by assumption. reflexivity.
Qed.

Lemma run_crash_app_r a b k cut fs :
  length a <= k -> run_crash (a ++ b) k cut fs = run_crash b (k - length a) cut (run_acts a fs).
Proof.
  intros H. unfold run_crash. rewrite firstn_app. rewrite (firstn_all2 a) by assumption.
  rewrite run_acts_app. rewrite nth_error_app2 by assumption. reflexivity.
Qed.

Lemma flush_frame rest : forall fs k cut q,
  (forall r, In r rest -> q <> sv_target r /\ q <> sv_tmp r) ->
  run_crash (flush_prog rest) k cut fs q = fs q.
Proof.
  induction rest as [|r rest IH]; intros fs k cut q H.
  - unfold run_crash. cbn. rewrite firstn_nil. destruct k; reflexivity.
  - cbn [flush_prog flat_map]. fold (flush_prog rest).
    set (Q := save_prog true (sv_target r) (sv_tmp r) (Some (sv_blob r))).
    destruct (H r (or_introl eq_refl)) as [H1 H2].
    destruct (Nat.lt_ge_cases k (length Q)) as [Hq|Hq].
    + rewrite run_crash_app_l by exact Hq. apply crash_frame; assumption.
    + rewrite run_crash_app_r by exact Hq. rewrite IH.
      * apply run_frame; assumption.
      * intros x Hx. apply H. right; exact Hx.
Qed.

(* every file of the flush is wholly old or wholly new, whatever the crash point *)
Theorem flush_old_or_new_l saves : forall fs k cut,
  names_ok saves ->
  forall s, In s saves ->
    let fs' := run_crash (flush_prog saves) k cut fs in
    fs' (sv_target s) = fs (sv_target s) \/ fs' (sv_target s) = Some (sv_blob s).
Proof.
  induction saves as [|s0 rest IH]; intros fs k cut [Hnd Hx] s Hin; [destruct Hin|].
  cbn [flush_prog flat_map]. fold (flush_prog rest).
  set (P := save_prog true (sv_target s0) (sv_tmp s0) (Some (sv_blob s0))).
  cbn [map] in Hnd. apply NoDup_cons_iff in Hnd as [Hnotin Hnd'].
  assert (Hne0 : sv_tmp s0 <> sv_target s0) by (apply Hx; left; reflexivity).
  assert (Hok' : names_ok rest).
  { split; [exact Hnd'|]. intros a b Ha Hb. apply Hx; right; assumption. }
  assert (Hrest : forall r, In r rest -> sv_target r <> sv_target s0 /\ sv_target r <> sv_tmp s0).
  { intros r Hr. split.
    - intro E. apply Hnotin. rewrite <- E. apply in_map. exact Hr.
    - intro E. apply (Hx s0 r (or_introl eq_refl) (or_intror Hr)). symmetry; exact E. }
  destruct (Nat.lt_ge_cases k (length P)) as [Hk|Hk].
  - rewrite run_crash_app_l by exact Hk.
    destruct Hin as [<-|Hin].
    + apply atomic_save_old_or_new_l. exact Hne0.
    + left. destruct (Hrest s Hin). apply crash_frame; assumption.
  - rewrite run_crash_app_r by exact Hk.
    destruct Hin as [<-|Hin].
    + right. rewrite flush_frame.
      * apply run_complete. exact Hne0.
      * intros r Hr. destruct (Hrest r Hr) as [A _]. split; [congruence|].
        intro E. apply (Hx r s0 (or_intror Hr) (or_introl eq_refl)). symmetry; exact E.
    + destruct (IH (run_acts P fs) (k - length P) cut Hok' s Hin) as [A|A].
      * left. cbn zeta in A. rewrite A. destruct (Hrest s Hin). apply run_frame; assumption.
      * right. exact A.
Qed.

(* content that cannot be serialised: no file operation, in either write mode *)
Theorem unserializable_no_damage_l atomic target tmp k cut fs :
  run_crash (save_prog atomic target tmp None) k cut fs = fs.
Proof. cbn [save_prog]. unfold run_crash. rewrite firstn_nil. destruct k; reflexivity. Qed.

(* the temporary name never coincides with the name it is derived from *)
Theorem tmp_name_distinct_l uuid base : tmp_name uuid base <> base.
Proof.
  intro H. apply (f_equal (@length N)) in H. unfold tmp_name in H.
  rewrite !app_length in H. cbn [length] in H. lia.
Qed.
