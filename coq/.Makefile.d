Model/Val.vo Model/Val.glob Model/Val.v.beautified Model/Val.required_vo: Model/Val.v 
Model/Val.vio: Model/Val.v 
Model/Val.vos Model/Val.vok Model/Val.required_vos: Model/Val.v 
Model/Plain.vo Model/Plain.glob Model/Plain.v.beautified Model/Plain.required_vo: Model/Plain.v Model/Val.vo
Model/Plain.vio: Model/Plain.v Model/Val.vio
Model/Plain.vos Model/Plain.vok Model/Plain.required_vos: Model/Plain.v Model/Val.vos
Model/Ops.vo Model/Ops.glob Model/Ops.v.beautified Model/Ops.required_vo: Model/Ops.v Model/Val.vo Model/Plain.vo
Model/Ops.vio: Model/Ops.v Model/Val.vio Model/Plain.vio
Model/Ops.vos Model/Ops.vok Model/Ops.required_vos: Model/Ops.v Model/Val.vos Model/Plain.vos
Corr/KPlain.vo Corr/KPlain.glob Corr/KPlain.v.beautified Corr/KPlain.required_vo: Corr/KPlain.v Model/Val.vo Model/Plain.vo Model/Ops.vo
Corr/KPlain.vio: Corr/KPlain.v Model/Val.vio Model/Plain.vio Model/Ops.vio
Corr/KPlain.vos Corr/KPlain.vok Corr/KPlain.required_vos: Corr/KPlain.v Model/Val.vos Model/Plain.vos Model/Ops.vos
