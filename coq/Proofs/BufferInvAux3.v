(* BufferInvAux3.v — capacity / stack tracking, the size bound, read-only sessions. *)
From Coq Require Import List ZArith NArith Bool Lia.
From SC Require Import Model.Val Model.Plain Model.Ops Model.Buffer Proofs.TreeDefs Proofs.TreeBase Proofs.BufferDefs
  Proofs.BufferInvAux1 Proofs.BufferInvAux2.
Import ListNotations.
Local Open Scope Z_scope.

(* ------------------------------------------------------------------ *)
(* frames of the compound functions *)
Lemma check_capacity_frame strat blen s : frame s (fst (check_capacity strat blen s)).
Proof.
  unfold check_capacity. destruct (b_cap s <? b_size s); [|apply frame_refl].
  eapply frame_trans; [|apply flush_buffer_frame]. apply frame_objs_eq; reflexivity.
Qed.

Lemma set_capacity_cs strat blen s n :
  let s' := fst (set_capacity strat blen s n) in
  b_cap s' = n /\ b_stack s' = b_stack s /\ b_ctx s' = b_ctx s.
Proof.
  unfold set_capacity. destruct (n <? b_size (upd_cap s n)); [|repeat split].
  pose proof (flush_buffer_frame strat blen (note_forced (upd_cap s n)) true) as (A1 & A2 & A3 & _).
  cbv zeta. rewrite A1, A2, A3. repeat split.
Qed.

Lemma init_entry_frame strat blen s oid m : frame s (init_entry strat blen s oid m).
Proof. destruct (init_entry_fields strat blen s oid m) as (F1 & F2 & F3 & F4 & _). apply frame_objs_eq; assumption. Qed.

Lemma lfbb_frame strat blen s oid : frame s (load_from_buffer_base strat blen s oid).
Proof.
  unfold load_from_buffer_base. destruct (nlookup _ _).
  - apply frame_register.
  - eapply frame_trans; [|apply frame_register].
    eapply frame_trans; [apply heap_only_frame; apply update_root_heap_only|apply init_entry_frame].
Qed.

Lemma load_frame strat blen s oid : frame s (fst (load strat blen s oid)).
Proof.
  unfold load. destruct (is_buffered s oid).
  - pose proof (lfbb_frame strat blen s oid) as H1. destruct strat.
    + pose proof (check_capacity_frame Ser blen (load_from_buffer_base Ser blen s oid)) as H2.
      destruct (check_capacity Ser blen _) as [s2 [x|]]; cbn [fst] in *.
      * eapply frame_trans; eassumption.
      * eapply frame_trans; [eapply frame_trans; eassumption|]. apply heap_only_frame, update_root_heap_only.
    + destruct (nlookup _ _); cbn [fst]; [|exact H1]. eapply frame_trans; [exact H1|apply frame_set_loc].
  - apply heap_only_frame, update_root_heap_only.
Qed.

Lemma save_frame strat blen s oid : frame s (fst (save strat blen s oid)).
Proof.
  unfold save. destruct (is_buffered s oid).
  - rewrite save_to_buffer_eq. eapply frame_trans; [apply stb_pre_frame|apply check_capacity_frame].
  - apply frame_objs_eq; reflexivity.
Qed.

Lemma bop_fst_frame strat blen s oid p o : frame s (bop_fst strat blen s oid p o).
Proof.
  apply (bop_fst_pres strat blen (frame s) oid).
  - intros s0 v H. eapply frame_trans; [exact H|]. apply heap_only_frame, set_data_heap_only.
  - intros s0 H. eapply frame_trans; [exact H|apply load_frame].
  - intros s0 H. eapply frame_trans; [exact H|apply save_frame].
  - apply frame_refl.
Qed.

Lemma exit_s2_cs strat blen s :
  b_cap (exit_s2 strat blen s) = b_cap s /\ b_stack (exit_s2 strat blen s) = b_stack s.
Proof.
  unfold exit_s2. cbv zeta. destruct (Nat.eqb _ 0); [|split; reflexivity].
  pose proof (flush_buffer_frame strat blen (upd_ctx s (Nat.pred (b_ctx s))) false) as (_ & A2 & A3 & _).
  rewrite A2, A3. split; reflexivity.
Qed.

(* ------------------------------------------------------------------ *)
(* the capacity and the stack of saved capacities evolve independently of everything else *)
Definition cs_step (op : bop) (cs : Z * list (option Z)) : Z * list (option Z) :=
  let (c, st) := cs in
  match op with
  | BEnterCls None => (c, None :: st)
  | BEnterCls (Some n) => (n, Some c :: st)
  | BExitCls => (match orig_of st with Some c' => c' | None => c end, tl st)
  | BSetCap n => (n, st)
  | _ => (c, st)
  end.

Lemma step_cs strat blen s op :
  (b_cap (step_fst strat blen s op), b_stack (step_fst strat blen s op)) = cs_step op (b_cap s, b_stack s).
Proof.
  destruct op as [oid f k|f v|oid p o|oid|oid|cap| |n]; cbn [step_fst cs_step].
  - reflexivity.
  - reflexivity.
  - pose proof (bop_fst_frame strat blen s oid p o) as (_ & A2 & A3 & _). rewrite A2, A3. reflexivity.
  - reflexivity.
  - cbv zeta. destruct (Nat.eqb _ 0); [|reflexivity].
    pose proof (flush_one_frame strat blen (set_buf s oid (Nat.pred (bo_buf (get_obj s oid)))) oid false)
      as ((_ & A2 & A3 & _) & _).
    cbv zeta in A2, A3. rewrite A2, A3. reflexivity.
  - cbv zeta. destruct cap as [c|]; [|reflexivity].
    destruct (set_capacity_cs strat blen
                (upd_stack (upd_ctx s (S (b_ctx s))) (Some (b_cap (upd_ctx s (S (b_ctx s)))) :: b_stack (upd_ctx s (S (b_ctx s))))) c)
      as (A1 & A2 & _).
    cbv zeta in A1, A2. rewrite A1, A2. reflexivity.
  - cbv zeta. destruct (exit_s2_cs strat blen s) as [E1 E2].
    set (s2 := exit_s2 strat blen s) in *. rewrite <- E2, <- E1.
    destruct (orig_of (b_stack s2)) as [c|].
    + destruct (set_capacity_cs strat blen (upd_stack s2 (tl (b_stack s2))) c) as (A1 & A2 & _).
      cbv zeta in A1, A2. rewrite A1, A2. reflexivity.
    + reflexivity.
  - destruct (set_capacity_cs strat blen s n) as (A1 & A2 & _). cbv zeta in A1, A2. rewrite A1, A2. reflexivity.
Qed.

Definition crun (ops : list bop) (cs : Z * list (option Z)) : Z * list (option Z) :=
  fold_left (fun cs op => cs_step op cs) ops cs.

Lemma brun_cs strat blen ops : forall s,
  (b_cap (brun strat blen ops s), b_stack (brun strat blen ops s)) = crun ops (b_cap s, b_stack s).
Proof.
  induction ops as [|op ops IH]; intros s; [reflexivity|].
  unfold brun, crun in *. cbn [fold_left]. rewrite IH, bstep_fst, step_cs. reflexivity.
Qed.

Lemma crun_app a b cs : crun (a ++ b) cs = crun b (crun a cs).
Proof. unfold crun. apply fold_left_app. Qed.

(* which open contexts carry a capacity *)
Definition has_cap (o : option Z) : bool := match o with Some _ => true | None => false end.

(* every set_buffer_capacity happens inside some context that was given a capacity;
   [g] lists, innermost first, whether each currently open context has one *)
Fixpoint setcap_guarded (ops : list bop) (g : list bool) : bool :=
  match ops with
  | [] => true
  | BEnterCls c :: r => setcap_guarded r (has_cap c :: g)
  | BExitCls :: r => setcap_guarded r (tl g)
  | BSetCap _ :: r => existsb (fun b => b) g && setcap_guarded r g
  | _ :: r => setcap_guarded r g
  end.

(* the capacity in force once the contexts in [pre] (innermost first) have all exited *)
Fixpoint unwind (c : Z) (pre : list (option Z)) : Z :=
  match pre with
  | [] => c
  | Some c' :: p => unwind c' p
  | None :: p => unwind c p
  end.

Lemma unwind_guarded c n pre : existsb (fun b => b) (map has_cap pre) = true -> unwind n pre = unwind c pre.
Proof.
  induction pre as [|[c'|] pre IH]; simpl; intros H; [discriminate|reflexivity|apply IH; exact H].
Qed.

Lemma crun_balanced ops : forall pre rest c,
  ctx_balanced ops (length pre) = true -> setcap_guarded ops (map has_cap pre) = true ->
  crun ops (c, pre ++ rest) = (unwind c pre, rest).
Proof.
  induction ops as [|op ops IH]; intros pre rest c Hb Hg.
  - simpl in Hb. apply Nat.eqb_eq in Hb. destruct pre; [reflexivity|discriminate].
  - unfold crun. cbn [fold_left]. fold (crun ops).
    destruct op as [oid f k|f v|oid p o|oid|oid|cap| |n]; cbn [ctx_balanced setcap_guarded cs_step] in *;
      try (apply IH; assumption).
    + destruct cap as [n|].
      * change (Some c :: pre ++ rest) with ((Some c :: pre) ++ rest). rewrite IH; [reflexivity|exact Hb|exact Hg].
      * change (None :: pre ++ rest) with ((None :: pre) ++ rest). rewrite IH; [reflexivity|exact Hb|exact Hg].
    + destruct pre as [|x pre]; [discriminate|]. cbn [length map tl app orig_of] in *.
      rewrite IH; [|exact Hb|exact Hg]. destruct x; reflexivity.
    + apply andb_true_iff in Hg. destruct Hg as [Hg1 Hg2].
      rewrite IH; [|exact Hb|exact Hg2]. rewrite (unwind_guarded c n pre Hg1). reflexivity.
Qed.

Lemma ctx_balanced_snoc body : forall d,
  ctx_balanced body d = true -> ctx_balanced (body ++ [BExitCls]) (S d) = true.
Proof.
  induction body as [|op body IH]; intros d H.
  - simpl in *. apply Nat.eqb_eq in H. subst. reflexivity.
  - destruct op; cbn [app ctx_balanced] in *; try (apply IH; exact H).
    destruct d; [discriminate|]. apply IH. exact H.
Qed.

Lemma setcap_guarded_snoc body : forall g,
  setcap_guarded body g = true -> setcap_guarded (body ++ [BExitCls]) g = true.
Proof.
  induction body as [|op body IH]; intros g H; [reflexivity|].
  destruct op; cbn [app setcap_guarded] in *; try (apply IH; exact H).
  apply andb_true_iff in H. destruct H as [H1 H2]. rewrite H1. apply IH. exact H2.
Qed.

Lemma setcap_guarded_bottom body : forall g,
  ctx_balanced body (length g) = true -> setcap_guarded body (g ++ [true]) = true.
Proof.
  induction body as [|op body IH]; intros g H; [reflexivity|].
  destruct op as [oid f k|f v|oid p o|oid|oid|cap| |n]; cbn [ctx_balanced setcap_guarded] in *;
    try (apply IH; exact H).
  - change (has_cap cap :: g ++ [true]) with ((has_cap cap :: g) ++ [true]). apply IH. exact H.
  - destruct g as [|b g]; [discriminate|]. cbn [length app tl] in *. apply IH. exact H.
  - rewrite existsb_app. simpl. rewrite orb_true_r. simpl. apply IH. exact H.
Qed.

Lemma crun_context cap body c st :
  ctx_balanced body 0 = true -> setcap_guarded body [has_cap cap] = true ->
  crun (BEnterCls cap :: body ++ [BExitCls]) (c, st) = (c, st).
Proof.
  intros Hb Hg. unfold crun. cbn [fold_left]. fold (crun (body ++ [BExitCls])).
  pose proof (ctx_balanced_snoc body 0 Hb) as Hb'. pose proof (setcap_guarded_snoc body _ Hg) as Hg'.
  destruct cap as [n|]; cbn [cs_step has_cap] in *.
  - rewrite (crun_balanced (body ++ [BExitCls]) [Some c] st n Hb' Hg'). reflexivity.
  - rewrite (crun_balanced (body ++ [BExitCls]) [None] st c Hb' Hg'). reflexivity.
Qed.

(* ------------------------------------------------------------------ *)
(* the size bound *)
Lemma fo_size_le strat blen s oid force :
  (forall v, 0 <= blen v) -> b_size (fst (flush_one strat blen s oid force)) <= b_size s.
Proof.
  intros Hpos. fo_cases strat s oid force; bsimpl; try lia; pose proof (Hpos (e_val e)); lia.
Qed.

Lemma flush_buffer_size_le strat blen s force :
  (forall v, 0 <= blen v) -> b_size (fst (flush_buffer strat blen s force)) <= b_size s.
Proof.
  intros Hpos. apply (flush_buffer_pres strat blen (fun s' => b_size s' <= b_size s)).
  - repeat split; intros; assumption.
  - intros s0 oid H. pose proof (fo_size_le strat blen s0 oid force Hpos). lia.
  - lia.
Qed.

Lemma check_capacity_bnd strat blen s :
  acct strat blen s -> reg_weak s -> 0 <= b_cap s ->
  b_size (fst (check_capacity strat blen s)) <= b_cap (fst (check_capacity strat blen s)).
Proof.
  intros HA HW Hc. pose proof (check_capacity_frame strat blen s) as (_ & _ & A3 & _). rewrite A3.
  unfold check_capacity. destruct (b_cap s <? b_size s) eqn:E.
  - rewrite (flush_buffer_forced_size strat blen (note_forced s)); [exact Hc|exact HA|exact HW].
  - apply Z.ltb_ge in E. exact E.
Qed.

Lemma set_capacity_bnd strat blen s n :
  acct strat blen s -> reg_weak s -> 0 <= n ->
  b_size (fst (set_capacity strat blen s n)) <= b_cap (fst (set_capacity strat blen s n)).
Proof.
  intros HA HW Hc. destruct (set_capacity_cs strat blen s n) as (A1 & _). cbv zeta in A1. rewrite A1.
  unfold set_capacity. destruct (n <? b_size (upd_cap s n)) eqn:E.
  - rewrite (flush_buffer_forced_size strat blen (note_forced (upd_cap s n))); [exact Hc|exact HA|exact HW].
  - apply Z.ltb_ge in E. exact E.
Qed.

Definition BI (strat : strategy) (blen : val -> Z) (s : bstate) : Prop :=
  acct strat blen s /\ regI s /\ b_size s <= b_cap s /\ 0 <= b_cap s.

Lemma acct_true_pres strat blen (F : bstate -> bstate) :
  (forall b s, acctb b strat blen s -> acctb b strat blen (F s)) ->
  forall s, acct strat blen s -> acct strat blen (F s).
Proof. intros H s HA. apply acctb_true. apply H. apply acctb_true. exact HA. Qed.

Lemma lfbb_size_shm blen s oid : b_size (load_from_buffer_base Shm blen s oid) = b_size s.
Proof.
  unfold load_from_buffer_base. destruct (nlookup _ _).
  - apply register_fields.
  - destruct (register_fields (init_entry Shm blen (update_root s oid (read_disk s (bo_file (get_obj s oid)))) oid false) oid)
      as (_ & _ & _ & _ & _ & -> & _).
    unfold init_entry. bsimpl. apply (update_root_heap_only s oid).
Qed.

Lemma load_BI strat blen s oid : BI strat blen s -> BI strat blen (fst (load strat blen s oid)).
Proof.
  intros (HA & HI & Hb & Hc).
  pose proof (load_frame strat blen s oid) as HF.
  split; [apply (acct_true_pres strat blen (fun s => fst (load strat blen s oid))); [intros; apply load_acct; assumption|exact HA]|].
  split; [apply load_regI; exact HI|].
  split; [|rewrite (frame_cap _ _ HF); exact Hc].
  clear HF. unfold load. destruct (is_buffered s oid) eqn:Ebuf.
  - pose proof (lfbb_frame strat blen s oid) as HF1.
    assert (HA1 : acct strat blen (load_from_buffer_base strat blen s oid)).
    { apply (acct_true_pres strat blen (fun s => load_from_buffer_base strat blen s oid)); [intros; apply lfbb_acct; assumption|exact HA]. }
    pose proof (lfbb_regI strat blen s oid Ebuf HI) as [_ HR1].
    destruct strat.
    + pose proof (check_capacity_bnd Ser blen _ HA1 (reg_inv_weak _ HR1)) as H2.
      rewrite (frame_cap _ _ HF1) in H2. specialize (H2 Hc).
      destruct (check_capacity Ser blen (load_from_buffer_base Ser blen s oid)) as [s2 [x|]]; cbn [fst] in *.
      * exact H2.
      * destruct (update_root_heap_only s2 oid
                    (match nlookup (bo_file (get_obj s oid)) (b_buffer (load_from_buffer_base Ser blen s oid)) with
                     | Some e => Some (e_val e) | None => None end)) as (_ & _ & -> & _ & _ & -> & _).
        exact H2.
    + assert (H : b_size (load_from_buffer_base Shm blen s oid) <= b_cap (load_from_buffer_base Shm blen s oid)).
      { rewrite lfbb_size_shm, (frame_cap _ _ HF1). exact Hb. }
      destruct (nlookup _ _); cbn [fst]; exact H.
  - cbn [fst]. destruct (update_root_heap_only s oid (read_disk s (bo_file (get_obj s oid)))) as (_ & _ & -> & _ & _ & -> & _).
    exact Hb.
Qed.

Lemma save_BI strat blen s oid : BI strat blen s -> BI strat blen (fst (save strat blen s oid)).
Proof.
  intros (HA & HI & Hb & Hc).
  pose proof (save_frame strat blen s oid) as HF.
  split; [apply (acct_true_pres strat blen (fun s => fst (save strat blen s oid))); [intros; apply save_acct; assumption|exact HA]|].
  split; [apply save_regI; exact HI|].
  split; [|rewrite (frame_cap _ _ HF); exact Hc].
  clear HF. unfold save. destruct (is_buffered s oid) eqn:Ebuf.
  - rewrite save_to_buffer_eq. apply check_capacity_bnd.
    + apply (acct_true_pres strat blen (fun s => stb_pre strat blen s oid)); [intros; apply stb_pre_acct; assumption|exact HA].
    + apply reg_inv_weak. apply stb_pre_regI; assumption.
    + rewrite (frame_cap _ _ (stb_pre_frame strat blen s oid)). exact Hc.
  - cbn [fst]. exact Hb.
Qed.

Lemma enter_regI s st : regI s -> regI (upd_stack (upd_ctx s (S (b_ctx s))) st).
Proof.
  intros [ND HR]. split; [exact ND|].
  apply (reg_inv_gen s); [| |exact HR].
  - intros f' e' Hl. left. exists e'. exact Hl.
  - intros o Ho Hb. split; [exact Ho|]. split; [reflexivity|]. apply is_buffered_ctx. simpl. lia.
Qed.

Lemma exit_s2_regI strat blen s : regI s -> regI (exit_s2 strat blen s).
Proof.
  intros [ND HR]. unfold exit_s2. cbv zeta.
  destruct (Nat.eqb (b_ctx (upd_ctx s (Nat.pred (b_ctx s)))) 0) eqn:E0.
  - split; [apply flush_buffer_nodup; exact ND|]. apply flush_buffer_reg_false; [exact ND|].
    apply (reg_inv_weak s HR).
  - split; [exact ND|]. apply (reg_inv_gen s); [| |exact HR].
    + intros f' e' Hl. left. exists e'. exact Hl.
    + intros o Ho Hb. split; [exact Ho|]. split; [reflexivity|]. apply is_buffered_ctx.
      apply Nat.eqb_neq in E0. simpl in *. lia.
Qed.

Lemma exit_s2_acct b strat blen s : acctb b strat blen s -> acctb b strat blen (exit_s2 strat blen s).
Proof.
  intros HA. unfold exit_s2. cbv zeta. destruct (Nat.eqb _ 0).
  - apply flush_buffer_acct. eapply acct_same; [| |exact HA]; reflexivity.
  - eapply acct_same; [| |exact HA]; reflexivity.
Qed.

Lemma exit_s2_size_le strat blen s :
  (forall v, 0 <= blen v) -> b_size (exit_s2 strat blen s) <= b_size s.
Proof.
  intros Hpos. unfold exit_s2. cbv zeta. destruct (Nat.eqb _ 0); [|simpl; lia].
  apply (flush_buffer_size_le strat blen (upd_ctx s (Nat.pred (b_ctx s))) false Hpos).
Qed.

Theorem step_bnd strat blen s op :
  (forall oid f k, op = BNew oid f k -> ~ In oid (b_bcs s)) ->
  acct strat blen s -> regI s -> stack_ok s -> op_caps_ok op -> b_size s <= b_cap s ->
  (forall v, 0 <= blen v) ->
  b_size (step_fst strat blen s op) <= b_cap (step_fst strat blen s op).
Proof.
  intros Hnew HA HI [Hc Hst] Hop Hb Hpos.
  destruct op as [oid f k|f v|oid p o|oid|oid|cap| |n]; cbn [step_fst].
  - exact Hb.
  - exact Hb.
  - apply (bop_fst_pres strat blen (BI strat blen) oid).
    + intros s0 v (A & B & C & D). split; [|split; [|split]]; try assumption.
      * destruct A as [A1 A2]. split; assumption.
      * eapply heap_only_regI; [apply set_data_heap_only|exact B].
    + intros s0. apply load_BI.
    + intros s0. apply save_BI.
    + repeat split; try assumption; apply HA || apply HI.
  - exact Hb.
  - cbv zeta. destruct (Nat.eqb _ 0); [|exact Hb].
    set (s1 := set_buf s oid (Nat.pred (bo_buf (get_obj s oid)))).
    pose proof (fo_size_le strat blen s1 oid false Hpos) as H1.
    pose proof (flush_one_frame strat blen s1 oid false) as ((_ & _ & A3 & _) & _). cbv zeta in A3.
    rewrite A3. change (b_size s1) with (b_size s) in H1. change (b_cap s1) with (b_cap s). lia.
  - cbv zeta. destruct cap as [c|]; [|exact Hb].
    apply set_capacity_bnd; [exact HA| |exact Hop].
    apply reg_inv_weak. apply (enter_regI s _ HI).
  - cbv zeta.
    pose proof (exit_s2_regI strat blen s HI) as HI2.
    assert (HA2 : acct strat blen (exit_s2 strat blen s)).
    { apply acctb_true. apply exit_s2_acct. apply acctb_true. exact HA. }
    pose proof (exit_s2_size_le strat blen s Hpos) as Hs2.
    destruct (exit_s2_cs strat blen s) as [E1 E2].
    destruct (orig_of (b_stack (exit_s2 strat blen s))) as [c|] eqn:Eo.
    + apply set_capacity_bnd; [exact HA2| |].
      * apply reg_inv_weak. destruct HI2 as [_ HR2]. exact HR2.
      * apply Hst. rewrite E2 in Eo. destruct (b_stack s) as [|x st]; simpl in Eo; [discriminate|].
        subst x. left; reflexivity.
    + cbn [b_size b_cap upd_stack]. lia.
  - apply set_capacity_bnd; [exact HA| |exact Hop]. apply reg_inv_weak. apply HI.
Qed.

Lemma cs_step_stack_ok op c st :
  op_caps_ok op -> 0 <= c -> (forall x, In (Some x) st -> 0 <= x) ->
  0 <= fst (cs_step op (c, st)) /\ (forall x, In (Some x) (snd (cs_step op (c, st))) -> 0 <= x).
Proof.
  intros Hop Hc Hst. destruct op as [oid f k|f v|oid p o|oid|oid|cap| |n]; cbn [cs_step fst snd]; try (split; assumption).
  - destruct cap as [n|]; cbn [fst snd]; split; try assumption.
    + intros x [H|H]; [inversion H; subst; exact Hc|apply Hst; exact H].
    + intros x [H|H]; [discriminate|apply Hst; exact H].
  - split.
    + destruct st as [|[x|] st]; simpl; try exact Hc. apply Hst. left; reflexivity.
    + intros x H. apply Hst. destruct st; [destruct H|right; exact H].
Qed.

Lemma step_stack_ok strat blen s op :
  op_caps_ok op -> stack_ok s -> stack_ok (step_fst strat blen s op).
Proof.
  intros Hop [Hc Hst]. pose proof (step_cs strat blen s op) as H.
  destruct (cs_step_stack_ok op (b_cap s) (b_stack s) Hop Hc Hst) as [A B].
  rewrite <- H in A, B. exact (conj A B).
Qed.

(* ------------------------------------------------------------------ *)
(* read-only sessions *)
Lemma seq_text_refl a : seq_text a a = true.
Proof.
  destruct a as [| | |[x|m e]| |]; simpl; try reflexivity;
    try apply Z.eqb_refl; try apply str_eqb_refl; try apply N.eqb_refl.
  - destruct b; reflexivity.
  - apply Bool.eqb_reflx.
  - rewrite !Z.eqb_refl. reflexivity.
Qed.

Lemma veq_text_refl v : veq_text v v = true.
Proof.
  induction v as [a|l IH|d IH] using val_ind2.
  - apply seq_text_refl.
  - simpl. induction IH as [|x l Hx _ IHl]; simpl; [reflexivity|]. rewrite Hx. exact IHl.
  - simpl. induction IH as [|[k w] d Hx _ IHd]; simpl; [reflexivity|].
    simpl in Hx. rewrite key_eqb_refl, Hx. exact IHd.
Qed.

Definition RO (strat : strategy) (s0 s : bstate) : Prop :=
  b_files s = b_files s0 /\ b_writes s = b_writes s0 /\ clean_entries strat s /\ nodup s.

Lemma RO_conv strat s0 s s' :
  b_files s' = b_files s -> b_writes s' = b_writes s -> b_buffer s' = b_buffer s -> RO strat s0 s -> RO strat s0 s'.
Proof.
  intros H1 H2 H3 (A & B & C & D). unfold RO, nodup, clean_entries, entry_modified in *.
  rewrite H1, H2, H3. repeat split; assumption.
Qed.

Lemma RO_closed strat s0 : closed_ctl (RO strat s0).
Proof. split; [|split]; intros; (eapply RO_conv; [| | |eassumption]; reflexivity). Qed.

Lemma clean_ser s e f : clean_entries Ser s -> nlookup f (b_buffer s) = Some e -> veq_text (e_val e) (e_hash e) = true.
Proof. intros H Hl. specialize (H f e Hl). unfold entry_modified in H. apply negb_false_iff in H. exact H. Qed.

Lemma clean_shm s e f : clean_entries Shm s -> nlookup f (b_buffer s) = Some e -> e_mod e = false.
Proof. intros H Hl. exact (H f e Hl). Qed.

Lemma flush_one_RO strat blen s0 s oid force :
  RO strat s0 s -> RO strat s0 (fst (flush_one strat blen s oid force)).
Proof.
  intros (A & B & C & D). unfold RO.
  split; [|split; [|split; [|apply fo_nodup; exact D]]].
  - rewrite <- A. fo_cases strat s oid force; bsimpl; try reflexivity.
    + rewrite (clean_ser s e _ C Hlk) in Hveq. discriminate.
    + rewrite (clean_shm s e _ C Hlk) in Hmod. discriminate.
  - rewrite <- B. fo_cases strat s oid force; bsimpl; try reflexivity.
    + rewrite (clean_ser s e _ C Hlk) in Hveq. discriminate.
    + rewrite (clean_shm s e _ C Hlk) in Hmod. discriminate.
  - unfold nodup in D. intros f' e'. unfold entry_modified.
    fo_cases strat s oid force; bsimpl; try apply C;
      try (intros H1; apply (nlookup_nremove_some _ _ _ _ D) in H1; destruct H1 as [_ H1]; exact (C f' e' H1));
      (rewrite nlookup_nset; destruct (Nat.eqb f' _); [intros H1; inversion H1; subst; reflexivity|apply C]).
Qed.

Lemma set_capacity_RO strat blen s0 s n : RO strat s0 s -> RO strat s0 (fst (set_capacity strat blen s n)).
Proof. apply set_capacity_pres; [apply RO_closed|]. intros; apply flush_one_RO; assumption. Qed.
Lemma check_capacity_RO strat blen s0 s : RO strat s0 s -> RO strat s0 (fst (check_capacity strat blen s)).
Proof. apply check_capacity_pres; [apply RO_closed|]. intros; apply flush_one_RO; assumption. Qed.
Lemma flush_buffer_RO strat blen s0 s force : RO strat s0 s -> RO strat s0 (fst (flush_buffer strat blen s force)).
Proof. apply flush_buffer_pres; [apply RO_closed|]. intros; apply flush_one_RO; assumption. Qed.

Lemma heap_only_RO strat s0 s s' : heap_only s s' -> RO strat s0 s -> RO strat s0 s'.
Proof. intros (_ & H3 & _ & _ & _ & _ & _ & H1 & H2 & _). apply RO_conv; assumption. Qed.

Lemma lfbb_RO strat blen s0 s oid : RO strat s0 s -> RO strat s0 (load_from_buffer_base strat blen s oid).
Proof.
  intros HR. unfold load_from_buffer_base.
  destruct (nlookup (bo_file (get_obj s oid)) (b_buffer s)) eqn:Hl.
  - eapply RO_conv; [| | |exact HR]; apply register_fields.
  - set (s1 := update_root s oid (read_disk s (bo_file (get_obj s oid)))).
    assert (H1 : RO strat s0 s1) by (eapply heap_only_RO; [apply update_root_heap_only|exact HR]).
    destruct H1 as (A & B & C & D).
    set (s2 := init_entry strat blen s1 oid false).
    destruct (init_entry_fields strat blen s1 oid false) as (_ & _ & _ & _ & _ & F6 & F7 & _). fold s2 in F6, F7.
    destruct (init_entry_buffer strat blen s1 oid false) as (e0 & Hb & Hm & Hv & Hh). fold s2 in Hb.
    eapply RO_conv; [apply register_fields|apply register_fields|apply register_fields|].
    split; [congruence|]. split; [congruence|]. split.
    + intros f' e'. rewrite Hb, nlookup_nset. destruct (Nat.eqb f' _).
      * intros H; inversion H; subst e'. unfold entry_modified. destruct strat; [|exact Hm].
        rewrite Hv, Hh, veq_text_refl. reflexivity.
      * apply C.
    + unfold nodup. rewrite Hb. apply NoDup_nset. exact D.
Qed.

Lemma load_RO strat blen s0 s oid : RO strat s0 s -> RO strat s0 (fst (load strat blen s oid)).
Proof.
  intros HR. unfold load. destruct (is_buffered s oid).
  - pose proof (lfbb_RO strat blen s0 s oid HR) as H1. destruct strat.
    + pose proof (check_capacity_RO Ser blen s0 _ H1) as H2.
      destruct (check_capacity Ser blen (load_from_buffer_base Ser blen s oid)) as [s2 [x|]]; cbn [fst] in *.
      * exact H2.
      * eapply heap_only_RO; [apply update_root_heap_only|exact H2].
    + destruct (nlookup _ _); cbn [fst]; [|exact H1]. eapply RO_conv; [| | |exact H1]; reflexivity.
  - cbn [fst]. eapply heap_only_RO; [apply update_root_heap_only|exact HR].
Qed.

Lemma read_not_no_load o : nop_is_read o = true -> nop_no_load o = false.
Proof. destruct o as [l|d]; [destruct l|destruct d]; simpl; intros H; try reflexivity; discriminate. Qed.

Theorem step_RO strat blen s0 s op :
  bop_is_readonly op = true -> RO strat s0 s -> RO strat s0 (step_fst strat blen s op).
Proof.
  intros Hro HR. destruct op as [oid f k|f v|oid p o|oid|oid|cap| |n]; cbn [step_fst bop_is_readonly] in *.
  - eapply RO_conv; [| | |exact HR]; reflexivity.
  - discriminate.
  - unfold bop_fst. destruct (pre_err o); [exact HR|].
    rewrite (read_not_no_load o Hro), andb_false_r, Hro. cbv zeta.
    pose proof (load2_pres strat blen (RO strat s0) o oid (fun s1 => load_RO strat blen s0 s1 oid) s HR) as HL.
    destruct (snd (load2 strat blen o oid s)); [exact HL|].
    destruct (apply_at p o _) as [[r d']|]; exact HL.
  - eapply RO_conv; [| | |exact HR]; reflexivity.
  - cbv zeta. destruct (Nat.eqb _ 0).
    + apply flush_one_RO. eapply RO_conv; [| | |exact HR]; reflexivity.
    + eapply RO_conv; [| | |exact HR]; reflexivity.
  - cbv zeta. destruct cap as [c|].
    + apply set_capacity_RO. eapply RO_conv; [| | |exact HR]; reflexivity.
    + eapply RO_conv; [| | |exact HR]; reflexivity.
  - assert (H2 : RO strat s0 (exit_s2 strat blen s)).
    { unfold exit_s2. cbv zeta. destruct (Nat.eqb _ 0).
      - apply flush_buffer_RO. eapply RO_conv; [| | |exact HR]; reflexivity.
      - eapply RO_conv; [| | |exact HR]; reflexivity. }
    cbv zeta. destruct (orig_of _).
    + apply set_capacity_RO. eapply RO_conv; [| | |exact H2]; reflexivity.
    + eapply RO_conv; [| | |exact H2]; reflexivity.
  - apply set_capacity_RO. exact HR.
Qed.

(* ------------------------------------------------------------------ *)
(* issues of a backend-wide flush *)
Lemma fo_exn strat blen s oid force x :
  snd (flush_one strat blen s oid force) = Some x -> x = XMeta (bo_file (get_obj s oid)).
Proof.
  fo_cases strat s oid force; bsimpl; intros H; try discriminate; inversion H; reflexivity.
Qed.

Lemma flush_loop_issues strat blen force todo : forall s rem iss f,
  In f (snd (flush_loop strat blen todo s force rem iss)) ->
  In f iss \/ exists oid, In oid todo /\ bo_file (get_obj s oid) = f.
Proof.
  induction todo as [|oid todo IH]; intros s rem iss f H; simpl in H.
  - left. exact H.
  - destruct (is_buffered s oid && negb force).
    + destruct (IH _ _ _ _ H) as [H1|(o & Ho & Hf)]; [left; exact H1|right].
      exists o. split; [right; exact Ho|exact Hf].
    + pose proof (fo_exn strat blen s oid force) as Hx.
      pose proof (flush_one_file strat blen s oid force) as Hfile.
      destruct (flush_one strat blen s oid force) as [s1 [[g|fs]|]]; cbn [fst snd] in *.
      * specialize (Hx _ eq_refl). inversion Hx; subst g.
        destruct (IH _ _ _ _ H) as [H1|(o & Ho & Hf)].
        -- destruct (nmem (bo_file (get_obj s oid)) iss); [left; exact H1|].
           apply in_app_iff in H1. destruct H1 as [H1|[H1|[]]]; [left; exact H1|right].
           exists oid. split; [left; reflexivity|exact H1].
        -- right. exists o. split; [right; exact Ho|]. rewrite <- Hfile. exact Hf.
      * specialize (Hx _ eq_refl). discriminate.
      * destruct (IH _ _ _ _ H) as [H1|(o & Ho & Hf)]; [left; exact H1|right].
        exists o. split; [right; exact Ho|]. rewrite <- Hfile. exact Hf.
Qed.
