(* Plain.v — the built-in list / dict semantics (CPython 3.12), generic in the
   element type.  This is the SPEC side of C03 and the building block of the
   machine.  Definitions only. *)
From Coq Require Import List ZArith NArith Bool.
From SC Require Import Model.Val.
Import ListNotations.
Local Open Scope Z_scope.

Definition zlen {A} (l : list A) : Z := Z.of_nat (length l).

Section ListOps.
  Context {A : Type}.

  (* l[i] index normalisation *)
  Definition norm_idx (n i : Z) : option nat :=
    let j := if i <? 0 then i + n else i in
    if (0 <=? j) && (j <? n) then Some (Z.to_nat j) else None.

  Fixpoint set_nth (l : list A) (i : nat) (x : A) : list A :=
    match l, i with
    | [], _ => []
    | _ :: t, O => x :: t
    | h :: t, S i' => h :: set_nth t i' x
    end.

  Fixpoint del_nth (l : list A) (i : nat) : list A :=
    match l, i with
    | [], _ => []
    | _ :: t, O => t
    | h :: t, S i' => h :: del_nth t i'
    end.

  Definition list_get (l : list A) (i : Z) : res A :=
    match norm_idx (zlen l) i with
    | Some j => match nth_error l j with Some x => Ok x | None => Err EIndex end
    | None => Err EIndex
    end.

  Definition list_set (l : list A) (i : Z) (x : A) : res (list A) :=
    match norm_idx (zlen l) i with
    | Some j => Ok (set_nth l j x)
    | None => Err EIndex
    end.

  Definition list_del (l : list A) (i : Z) : res (list A) :=
    match norm_idx (zlen l) i with
    | Some j => Ok (del_nth l j)
    | None => Err EIndex
    end.

  Definition clamp_insert (n i : Z) : nat :=
    let j := if i <? 0 then i + n else i in
    Z.to_nat (if j <? 0 then 0 else if n <? j then n else j).

  Definition list_insert (l : list A) (i : Z) (x : A) : list A :=
    let j := clamp_insert (zlen l) i in firstn j l ++ x :: skipn j l.

  Definition list_pop (l : list A) (i : Z) : res (A * list A) :=
    match norm_idx (zlen l) i with
    | Some j => match nth_error l j with
                | Some x => Ok (x, del_nth l j)
                | None => Err EIndex
                end
    | None => Err EIndex
    end.

  Section WithEq.
    Context {B : Type}.
    Variable eqA : A -> B -> bool.     (* eqA element probe  ==  Python  element == probe *)
    Fixpoint list_remove (l : list A) (x : B) : res (list A) :=
      match l with
      | [] => Err EValue
      | h :: t => if eqA h x then Ok t
                  else match list_remove t x with Ok t' => Ok (h :: t') | Err e => Err e end
      end.
    Fixpoint list_index_from (l : list A) (x : B) (i : Z) : res Z :=
      match l with
      | [] => Err EValue
      | h :: t => if eqA h x then Ok i else list_index_from t x (i + 1)
      end.
    Definition list_index (l : list A) (x : B) : res Z := list_index_from l x 0.
    Definition list_count (l : list A) (x : B) : Z :=
      zlen (filter (fun h => eqA h x) l).
    Definition list_contains (l : list A) (x : B) : bool := existsb (fun h => eqA h x) l.
  End WithEq.

  (* --- slices: PySlice_Unpack + PySlice_AdjustIndices --- *)
  Record slice := { sl_start : option Z; sl_stop : option Z; sl_step : option Z }.

  Definition adjust1 (n step : Z) (x : option Z) (is_start : bool) : Z :=
    match x with
    | None => if step <? 0 then (if is_start then n - 1 else -1)
              else (if is_start then 0 else n)
    | Some v =>
        if v <? 0 then
          let v' := v + n in
          if v' <? 0 then (if step <? 0 then -1 else 0) else v'
        else if n <=? v then (if step <? 0 then n - 1 else n)
        else v
    end.

  (* (start, stop, step, slicelength) *)
  Definition slice_adjust (n : Z) (s : slice) : res (Z * Z * Z * Z) :=
    let step := match sl_step s with None => 1 | Some v => v end in
    if step =? 0 then Err EValue else
    let start := adjust1 n step (sl_start s) true in
    let stop := adjust1 n step (sl_stop s) false in
    let cnt := if step <? 0
               then (if stop <? start then (start - stop - 1) / (- step) + 1 else 0)
               else (if start <? stop then (stop - start - 1) / step + 1 else 0) in
    Ok (start, stop, step, cnt).

  Fixpoint idx_seq (start step : Z) (cnt : nat) : list nat :=
    match cnt with
    | O => []
    | S c => Z.to_nat start :: idx_seq (start + step) step c
    end.

  Definition slice_indices (n : Z) (s : slice) : res (list nat) :=
    match slice_adjust n s with
    | Ok (start, _, step, cnt) => Ok (idx_seq start step (Z.to_nat cnt))
    | Err e => Err e
    end.

  Fixpoint pick (l : list A) (is : list nat) : list A :=
    match is with
    | [] => []
    | i :: is' => match nth_error l i with Some x => x :: pick l is' | None => pick l is' end
    end.

  Definition list_getslice (l : list A) (s : slice) : res (list A) :=
    match slice_indices (zlen l) s with
    | Ok is => Ok (pick l is)
    | Err e => Err e
    end.

  Fixpoint drop_indices (l : list A) (is : list nat) (pos : nat) : list A :=
    match l with
    | [] => []
    | h :: t => if existsb (Nat.eqb pos) is then drop_indices t is (S pos)
                else h :: drop_indices t is (S pos)
    end.

  Definition list_delslice (l : list A) (s : slice) : res (list A) :=
    match slice_indices (zlen l) s with
    | Ok is => Ok (drop_indices l is 0)
    | Err e => Err e
    end.

  Fixpoint assign_at (l : list A) (is : list nat) (vs : list A) : list A :=
    match is, vs with
    | i :: is', v :: vs' => assign_at (set_nth l i v) is' vs'
    | _, _ => l
    end.

  Definition list_setslice (l : list A) (s : slice) (vs : list A) : res (list A) :=
    match slice_adjust (zlen l) s with
    | Err e => Err e
    | Ok (start, stop, step, cnt) =>
        if step =? 1 then
          let hi := if stop <? start then start else stop in
          Ok (firstn (Z.to_nat start) l ++ vs ++ skipn (Z.to_nat hi) l)
        else if zlen vs =? cnt
             then Ok (assign_at l (idx_seq start step (Z.to_nat cnt)) vs)
             else Err EValue
    end.
End ListOps.

Arguments slice : clear implicits.

(* --- dicts: insertion-ordered association lists with unique keys --- *)
Section DictOps.
  Context {A : Type}.
  Definition dict := list (key * A).

  Fixpoint dict_set (d : dict) (k : key) (v : A) : dict :=
    match d with
    | [] => [(k, v)]
    | (k', v') :: d' => if key_eqb k k' then (k', v) :: d' else (k', v') :: dict_set d' k v
    end.

  Fixpoint dict_remove (d : dict) (k : key) : dict :=
    match d with
    | [] => []
    | (k', v') :: d' => if key_eqb k k' then d' else (k', v') :: dict_remove d' k
    end.

  Definition dict_has (d : dict) (k : key) : bool :=
    match alookup k d with Some _ => true | None => false end.

  Definition dict_get (d : dict) (k : key) : res A :=
    match alookup k d with Some v => Ok v | None => Err EKey end.

  Definition dict_del (d : dict) (k : key) : res dict :=
    if dict_has d k then Ok (dict_remove d k) else Err EKey.

  (* SyncedDict.pop(key) : missing key gives the default (documented deviation) *)
  Definition dict_pop (d : dict) (k : key) : option A * dict :=
    match alookup k d with
    | Some v => (Some v, dict_remove d k)
    | None => (None, d)
    end.

  Definition dict_popitem (d : dict) : res ((key * A) * dict) :=
    match rev d with
    | [] => Err EKey
    | kv :: r => Ok (kv, rev r)
    end.

  Definition dict_update (d : dict) (o : dict) : dict :=
    fold_left (fun acc kv => dict_set acc (fst kv) (snd kv)) o d.

  Definition dict_keys (d : dict) : list key := map fst d.
End DictOps.
Arguments dict : clear implicits.

(* --- ordering of values (list comparison) --- *)
(* numeric value of a float compared with an integer, exactly *)
Definition flt_cmp_int (f : flt) (z : Z) : comparison :=
  match f with
  | FZero _ => Z.compare 0 z
  | FNum m e => if 0 <=? e then Z.compare (m * 2 ^ e) z else Z.compare m (z * 2 ^ (- e))
  end.
Definition flt_cmp (f g : flt) : comparison :=
  match f, g with
  | FZero _, FZero _ => Eq
  | FZero _, FNum m _ => Z.compare 0 m
  | FNum m _, FZero _ => Z.compare m 0
  | FNum m e, FNum m' e' =>
      if e <=? e' then Z.compare m (m' * 2 ^ (e' - e)) else Z.compare (m * 2 ^ (e - e')) m'
  end.

Fixpoint str_cmp (a b : str) : comparison :=
  match a, b with
  | [], [] => Eq
  | [], _ => Lt
  | _, [] => Gt
  | x :: a', y :: b' => match N.compare x y with Eq => str_cmp a' b' | c => c end
  end.

(* None = TypeError (unorderable) *)
Definition scalar_cmp (a b : scalar) : option comparison :=
  let num s := match s with SBool b => Some (inl (b2z b)) | SInt z => Some (inl z)
                          | SFloat f => Some (inr f) | _ => None end in
  match a, b with
  | SStr s, SStr t => Some (str_cmp s t)
  | _, _ =>
      match num a, num b with
      | Some (inl x), Some (inl y) => Some (Z.compare x y)
      | Some (inl x), Some (inr g) => Some (CompOpp (flt_cmp_int g x))
      | Some (inr f), Some (inl y) => Some (flt_cmp_int f y)
      | Some (inr f), Some (inr g) => Some (flt_cmp f g)
      | _, _ => None
      end
  end.

(* list comparison: first position where the elements are not ==, then order those *)
Section ValCmp.
  Variable cmp : val -> val -> option comparison.
  Fixpoint list_cmp (l m : list val) : option comparison :=
    match l, m with
    | [], [] => Some Eq
    | [], _ => Some Lt
    | _, [] => Some Gt
    | x :: l', y :: m' => if veq_py x y then list_cmp l' m' else cmp x y
    end.
End ValCmp.

Fixpoint val_cmp (a b : val) {struct a} : option comparison :=
  match a, b with
  | VS x, VS y => scalar_cmp x y
  | VL l, VL m => list_cmp val_cmp l m
  | _, _ => None
  end.

Inductive cmpop := CLt | CLe | CGt | CGe.
Definition cmp_holds (o : cmpop) (c : comparison) : bool :=
  match o, c with
  | CLt, Lt | CLe, Lt | CLe, Eq | CGt, Gt | CGe, Gt | CGe, Eq => true
  | _, _ => false
  end.

(* list OP other, for a list on the left *)
Definition list_compare (o : cmpop) (l : list val) (other : val) : res bool :=
  match val_cmp (VL l) other with
  | Some c => Ok (cmp_holds o c)
  | None => Err EType
  end.
