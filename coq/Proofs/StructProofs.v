(* StructProofs.v — what the boolean obligations of Model/Struct.v mean on execution paths. *)
From Coq Require Import List NArith Bool Arith Lia.
From SC Require Import Model.Val Model.Struct.
Import ListNotations.

Scheme path1_mind := Minimality for path1 Sort Prop
  with paths_mind := Minimality for paths Sort Prop.
Combined Scheme path_mutind from path1_mind, paths_mind.

(* ------------------------------------------------------------------------------------------------------------ *)
(* 1. the nested fixes of `guarded` are forallb                                                                    *)

Lemma guarded_list_forall inls l :
  (fix go (l : list sk) := match l with [] => true | x :: r => guarded inls x && go r end) l
  = forallb (guarded inls) l.
Proof.
  induction l as [|x r IH]; [reflexivity|].
  simpl. rewrite IH. reflexivity.
Qed.

Lemma guarded_alts_forall inls a :
  (fix goa (a : list (list sk)) :=
     match a with
     | [] => true
     | l :: r => (fix go (l : list sk) := match l with [] => true | x :: r' => guarded inls x && go r' end) l && goa r
     end) a
  = forallb (forallb (guarded inls)) a.
Proof.
  induction a as [|l r IH]; [reflexivity|].
  simpl. rewrite IH. rewrite guarded_list_forall. reflexivity.
Qed.

Lemma guarded_SWith inls c b : guarded inls (SWith c b) = forallb (guarded (inls || is_ls c)) b.
Proof. simpl. apply guarded_list_forall. Qed.
Lemma guarded_SAlt inls alts : guarded inls (SAlt alts) = forallb (forallb (guarded inls)) alts.
Proof. simpl. apply guarded_alts_forall. Qed.
Lemma guarded_SLoop inls b : guarded inls (SLoop b) = forallb (guarded inls) b.
Proof. simpl. apply guarded_list_forall. Qed.

(* ------------------------------------------------------------------------------------------------------------ *)
(* 2. guarded: every EData / EFromBase / EUpdate event of every path is inside a section                          *)

Definition in_section (p : bool * sev) : Prop := needs_ls (snd p) = true -> fst p = true.

Lemma guarded_path_gen :
  (forall inls s tr, path1 inls s tr -> guarded inls s = true -> Forall in_section tr) /\
  (forall inls l tr, paths inls l tr -> forallb (guarded inls) l = true -> Forall in_section tr).
Proof.
  apply path_mutind.
  - intros inls e H. constructor; [|constructor].
    unfold in_section; simpl. intro Hn. simpl in H. rewrite Hn in H. simpl in H. exact H.
  - intros inls c b tr _ IH H. rewrite guarded_SWith in H. auto.
  - intros inls alts a tr Hin _ IH H. rewrite guarded_SAlt in H.
    rewrite forallb_forall in H. auto.
  - intros. constructor.
  - intros inls b tr1 tr2 _ IH1 _ IH2 H. apply Forall_app. split; [|auto].
    apply IH1. rewrite guarded_SLoop in H. exact H.
  - intros. constructor.
  - intros inls x r t1 t2 _ IH1 _ IH2 H. simpl in H. apply andb_true_iff in H. destruct H.
    apply Forall_app. split; auto.
Qed.

Lemma guarded_path1 : forall inls s tr, guarded inls s = true -> path1 inls s tr ->
  Forall (fun p : bool * sev => needs_ls (snd p) = true -> fst p = true) tr.
Proof. intros inls s tr H P. exact (proj1 guarded_path_gen inls s tr P H). Qed.

Lemma guarded_paths : forall inls l tr, forallb (guarded inls) l = true -> paths inls l tr ->
  Forall (fun p : bool * sev => needs_ls (snd p) = true -> fst p = true) tr.
Proof. intros inls l tr H P. exact (proj2 guarded_path_gen inls l tr P H). Qed.

Theorem guarded_sound : forall l tr, guarded_all l = true -> paths false l tr ->
  Forall (fun p : bool * sev => needs_ls (snd p) = true -> fst p = true) tr.
Proof. intros l tr H P. apply (guarded_paths false l tr H P). Qed.

(* ------------------------------------------------------------------------------------------------------------ *)
(* 3. readers                                                                                                    *)

(* the nested fixes of `rd` as top-level functions *)
Fixpoint rd_list (ld : bool) (l : list sk) : bool * bool :=
  match l with
  | [] => (true, ld)
  | x :: r => let (ok1, ld1) := rd ld x in let (ok2, ld2) := rd_list ld1 r in (ok1 && ok2, ld2)
  end.

Fixpoint rd_alts (ld : bool) (a : list (list sk)) : bool * bool :=
  match a with
  | [] => (true, ld)
  | l :: r =>
      match r with
      | [] => rd_list ld l
      | _ => let (ok2, ld2) := rd_alts ld r in (fst (rd_list ld l) && ok2, snd (rd_list ld l) && ld2)
      end
  end.

Lemma rd_go_list : forall l ld,
  (fix go (ld : bool) (l : list sk) : bool * bool :=
     match l with [] => (true, ld) | x :: r => let (ok1, ld1) := rd ld x in let (ok2, ld2) := go ld1 r in (ok1 && ok2, ld2) end)
    ld l = rd_list ld l.
Proof.
  induction l as [|x r IH]; intro ld; [reflexivity|].
  simpl. destruct (rd ld x) as [ok1 ld1]. rewrite IH. reflexivity.
Qed.

Lemma rd_goa_alts : forall ld a,
  (fix goa (a : list (list sk)) : bool * bool :=
     match a with
     | [] => (true, ld)
     | l :: r =>
         let cur := (fix go (ld : bool) (l : list sk) : bool * bool :=
                       match l with [] => (true, ld) | x :: r' => let (ok1, ld1) := rd ld x in let (ok2, ld2) := go ld1 r' in (ok1 && ok2, ld2) end)
                      ld l in
         match r with
         | [] => cur
         | _ => let (ok2, ld2) := goa r in (fst cur && ok2, snd cur && ld2)
         end
     end) a = rd_alts ld a.
Proof.
  intros ld. induction a as [|l r IH]; [reflexivity|].
  destruct r as [|l2 r2].
  - simpl. apply rd_go_list.
  - cbv zeta. cbv zeta in IH. rewrite IH.
    change (rd_alts ld (l :: l2 :: r2)) with
      (let (ok2, ld2) := rd_alts ld (l2 :: r2) in (fst (rd_list ld l) && ok2, snd (rd_list ld l) && ld2)).
    rewrite rd_go_list. reflexivity.
Qed.

Lemma rd_SWith ld c b : rd ld (SWith c b) = rd_list (ld || is_ls c) b.
Proof. simpl. apply rd_go_list. Qed.
Lemma rd_SAlt ld alts : rd ld (SAlt alts) = rd_alts ld alts.
Proof. simpl. apply rd_goa_alts. Qed.
Lemma rd_SLoop ld b : rd ld (SLoop b) = (fst (rd_list ld b), ld).
Proof. simpl. rewrite rd_go_list. reflexivity. Qed.

Lemma rd_all_list : forall l ld, rd_all ld l = fst (rd_list ld l).
Proof.
  induction l as [|x r IH]; intro ld; [reflexivity|].
  simpl. destruct (rd ld x) as [ok1 ld1]. rewrite IH. destruct (rd_list ld1 r). reflexivity.
Qed.

Lemma rd_alts_in : forall ld alts ld' a,
  rd_alts ld alts = (true, ld') -> In a alts ->
  exists lda, rd_list ld a = (true, lda) /\ (ld' = true -> lda = true).
Proof.
  intros ld. induction alts as [|l r IH]; intros ld' a Hrd Hin; [destruct Hin|].
  destruct r as [|l2 r2].
  - destruct Hin as [<-|[]]. simpl in Hrd. exists ld'. auto.
  - change (rd_alts ld (l :: l2 :: r2)) with
      (let (ok2, ld2) := rd_alts ld (l2 :: r2) in (fst (rd_list ld l) && ok2, snd (rd_list ld l) && ld2)) in Hrd.
    destruct (rd_alts ld (l2 :: r2)) as [ok2 ld2] eqn:E.
    destruct (rd_list ld l) as [ok1 ld1] eqn:E1. simpl in Hrd.
    injection Hrd as Hok Hld. subst ld'. apply andb_true_iff in Hok. destruct Hok; subst ok1 ok2.
    destruct Hin as [<-|Hin].
    + exists ld1. split; [exact E1|]. intro H. apply andb_true_iff in H. tauto.
    + destruct (IH ld2 a eq_refl Hin) as [lda [H1 H2]]. exists lda. split; [exact H1|].
      intro H. apply andb_true_iff in H. tauto.
Qed.

(* the flag of loaded_before_data after a trace *)
Fixpoint flag_after (L : bool) (tr : list (bool * sev)) : bool :=
  match tr with
  | [] => L
  | (inls, ELoad) :: r => flag_after true r
  | (inls, _) :: r => flag_after (L || inls) r
  end.

Lemma lbd_app : forall t1 t2 L,
  loaded_before_data L (t1 ++ t2) <-> loaded_before_data L t1 /\ loaded_before_data (flag_after L t1) t2.
Proof.
  induction t1 as [|[i e] t1 IH]; intros t2 L; [simpl; tauto|].
  destruct e; simpl; rewrite IH; tauto.
Qed.

Lemma flag_after_app : forall t1 t2 L, flag_after L (t1 ++ t2) = flag_after (flag_after L t1) t2.
Proof.
  induction t1 as [|[i e] t1 IH]; intros t2 L; [reflexivity|].
  destruct e; simpl; apply IH.
Qed.

Lemma flag_after_true : forall tr, flag_after true tr = true.
Proof. induction tr as [|[i e] tr IH]; [reflexivity|]. destruct e; simpl; exact IH. Qed.

Lemma flag_after_mono : forall tr L, L = true -> flag_after L tr = true.
Proof. intros tr L ->. apply flag_after_true. Qed.

Lemma flag_after_tagged : forall tr L, tr <> [] -> Forall (fun p : bool * sev => fst p = true) tr -> flag_after L tr = true.
Proof.
  intros [|[i e] tr] L Hne Hall; [congruence|].
  inversion Hall as [|p q Hi Hr]; subst. simpl in Hi. subst i.
  destruct e; simpl; rewrite ?orb_true_r; apply flag_after_true.
Qed.

(* loaded_before_data is monotone in its flag *)
Lemma lbd_mono : forall tr L1 L2, (L1 = true -> L2 = true) -> loaded_before_data L1 tr -> loaded_before_data L2 tr.
Proof.
  induction tr as [|[i e] tr IH]; intros L1 L2 HL H; [exact I|].
  assert (HL' : L1 || i = true -> L2 || i = true).
  { intro H1. apply orb_true_iff in H1. apply orb_true_iff. tauto. }
  destruct e; simpl in *; try (eapply IH; eauto; fail).
  destruct H as [Ha Hb]. split; [tauto|]. eapply IH; eauto.
Qed.

(* inside a section every event is tagged as such *)
Lemma tags_true :
  (forall inls s tr, path1 inls s tr -> inls = true -> Forall (fun p : bool * sev => fst p = true) tr) /\
  (forall inls l tr, paths inls l tr -> inls = true -> Forall (fun p : bool * sev => fst p = true) tr).
Proof.
  apply path_mutind.
  - intros inls e ->. constructor; [reflexivity|constructor].
  - intros inls c b tr _ IH ->. apply IH. reflexivity.
  - intros inls alts a tr _ _ IH H. auto.
  - intros. constructor.
  - intros inls b tr1 tr2 _ IH1 _ IH2 H. apply Forall_app. auto.
  - intros. constructor.
  - intros inls x r t1 t2 _ IH1 _ IH2 H. apply Forall_app. auto.
Qed.

(* --- the statement as given is FALSE --------------------------------------------------------------------------
   `rd` counts the data as loaded once a load-and-save section has been ENTERED (which is what the code does: the
   context manager loads on entry), but path1 emits nothing for the entry itself, so a section whose body runs no
   event (empty body, a loop that runs zero times) leaves no mark on the trace and loaded_before_data cannot know. *)
Definition cex_body : list sk := [SWith CLS []; SEv EData].
Definition cex_trace : list (bool * sev) := [(false, EData)].

Example cex_rd_all : rd_all false cex_body = true.
Proof. vm_compute. reflexivity. Qed.
Example cex_reader_ok : reader_ok cex_body = true.
Proof. vm_compute. reflexivity. Qed.
Example cex_path : paths false cex_body cex_trace.
Proof.
  unfold cex_body, cex_trace.
  change [(false, EData)] with (@nil (bool * sev) ++ ([(false, EData)] ++ [])).
  apply Ps_cons.
  - apply P_with. apply Ps_nil.
  - apply Ps_cons; [apply P_ev | apply Ps_nil].
Qed.
Example cex_not_loaded : ~ loaded_before_data false cex_trace.
Proof. simpl. intros [[H|H] _]; discriminate. Qed.

Theorem readers_sound_as_given_is_false :
  ~ (forall l tr, rd_all false l = true -> paths false l tr -> loaded_before_data false tr).
Proof. intro H. exact (cex_not_loaded (H _ _ cex_rd_all cex_path)). Qed.

(* the same with a zero-iteration loop inside the section *)
Example cex2_rd_all : rd_all false [SWith CLS [SLoop [SEv EData]]; SEv EData] = true.
Proof. vm_compute. reflexivity. Qed.
Example cex2_path : paths false [SWith CLS [SLoop [SEv EData]]; SEv EData] cex_trace.
Proof.
  unfold cex_trace.
  change [(false, EData)] with (@nil (bool * sev) ++ ([(false, EData)] ++ [])).
  apply Ps_cons.
  - apply P_with. change (@nil (bool * sev)) with (@nil (bool * sev) ++ []).
    apply Ps_cons; [apply P_loop0 | apply Ps_nil].
  - apply Ps_cons; [apply P_ev | apply Ps_nil].
Qed.

(* --- closest true version (a): same path semantics, same trace predicate, one extra (decidable) hypothesis ------
   `emits s`: every path of s has at least one event.  `sections_emit s`: the body of every load-and-save section
   in s emits at least one event on every path, so that entering the section is visible on the trace. *)
Fixpoint emits (s : sk) : bool :=
  match s with
  | SEv _ => true
  | SWith _ b => existsb emits b
  | SAlt alts => forallb (existsb emits) alts
  | SLoop _ => false
  end.

Fixpoint sections_emit (s : sk) : bool :=
  match s with
  | SEv _ => true
  | SWith c b => (if is_ls c then existsb emits b else true) && forallb sections_emit b
  | SAlt alts => forallb (forallb sections_emit) alts
  | SLoop b => forallb sections_emit b
  end.
Definition sections_emit_all (l : list sk) : bool := forallb sections_emit l.

Lemma emits_SWith c b : emits (SWith c b) = existsb emits b.
Proof. reflexivity. Qed.
Lemma emits_SAlt alts : emits (SAlt alts) = forallb (existsb emits) alts.
Proof. reflexivity. Qed.
Lemma sections_emit_SWith c b :
  sections_emit (SWith c b) = (if is_ls c then existsb emits b else true) && forallb sections_emit b.
Proof. reflexivity. Qed.
Lemma sections_emit_SAlt alts : sections_emit (SAlt alts) = forallb (forallb sections_emit) alts.
Proof. reflexivity. Qed.
Lemma sections_emit_SLoop b : sections_emit (SLoop b) = forallb sections_emit b.
Proof. reflexivity. Qed.

Lemma emits_nonempty :
  (forall inls s tr, path1 inls s tr -> emits s = true -> tr <> []) /\
  (forall inls l tr, paths inls l tr -> existsb emits l = true -> tr <> []).
Proof.
  apply path_mutind.
  - intros inls e _. discriminate.
  - intros inls c b tr _ IH H. rewrite emits_SWith in H. auto.
  - intros inls alts a tr Hin _ IH H. rewrite emits_SAlt in H. rewrite forallb_forall in H. auto.
  - intros inls b H. discriminate H.
  - intros inls b tr1 tr2 _ _ _ _ H. discriminate H.
  - intros inls H. discriminate H.
  - intros inls x r t1 t2 _ IH1 _ IH2 H. simpl in H. apply orb_true_iff in H.
    intro E. apply app_eq_nil in E. destruct E as [E1 E2]. destruct H as [H|H]; [exact (IH1 H E1) | exact (IH2 H E2)].
Qed.

(* the invariant: rd's `loaded` implies (flag of loaded_before_data, or inside a section) - before and after *)
Lemma rd_path_inv :
  (forall inls s tr, path1 inls s tr -> forall ld ld' L,
     sections_emit s = true -> rd ld s = (true, ld') -> (ld = true -> L || inls = true) ->
     loaded_before_data L tr /\ (ld' = true -> flag_after L tr || inls = true)) /\
  (forall inls l tr, paths inls l tr -> forall ld ld' L,
     forallb sections_emit l = true -> rd_list ld l = (true, ld') -> (ld = true -> L || inls = true) ->
     loaded_before_data L tr /\ (ld' = true -> flag_after L tr || inls = true)).
Proof.
  apply path_mutind.
  - (* P_ev *)
    intros inls e ld ld' L _ Hrd HL.
    destruct e; simpl in Hrd; inversion Hrd; subst; simpl; split; auto;
      try (intro H; specialize (HL H)); try (specialize (HL eq_refl));
      destruct L, inls; simpl in *; auto; discriminate.
  - (* P_with *)
    intros inls c b tr Hp IH ld ld' L Hse Hrd HL.
    rewrite rd_SWith in Hrd. rewrite sections_emit_SWith in Hse.
    apply andb_true_iff in Hse. destruct Hse as [Hne Hall].
    destruct (IH (ld || is_ls c) ld' L Hall Hrd) as [H1 H2].
    { intro H. destruct (is_ls c); [rewrite !orb_true_r; reflexivity|].
      rewrite orb_false_r in *. auto. }
    split; [exact H1|]. intro H. specialize (H2 H).
    destruct (is_ls c) eqn:Ec.
    + rewrite orb_true_r in Hp.
      rewrite (flag_after_tagged tr L); [reflexivity| |].
      * exact (proj2 emits_nonempty _ _ _ Hp Hne).
      * exact (proj2 tags_true _ _ _ Hp eq_refl).
    + rewrite orb_false_r in H2. exact H2.
  - (* P_alt *)
    intros inls alts a tr Hin Hp IH ld ld' L Hse Hrd HL.
    rewrite rd_SAlt in Hrd. rewrite sections_emit_SAlt in Hse. rewrite forallb_forall in Hse.
    destruct (rd_alts_in _ _ _ _ Hrd Hin) as [lda [Ha Hl]].
    destruct (IH ld lda L (Hse _ Hin) Ha HL) as [H1 H2].
    split; auto.
  - (* P_loop0 *)
    intros inls b ld ld' L _ Hrd HL. rewrite rd_SLoop in Hrd. injection Hrd; intros; subst ld'.
    simpl. split; auto.
  - (* P_loopS *)
    intros inls b tr1 tr2 Hp1 IH1 Hp2 IH2 ld ld' L Hse Hrd HL.
    pose proof Hrd as Hrd0. rewrite rd_SLoop in Hrd. injection Hrd as Hok Hld. subst ld'.
    destruct (rd_list ld b) as [ok lb] eqn:E. simpl in Hok. subst ok.
    pose proof Hse as Hse0. rewrite sections_emit_SLoop in Hse.
    destruct (IH1 ld lb L Hse E HL) as [A1 A2].
    destruct (IH2 ld ld (flag_after L tr1) Hse0 Hrd0) as [B1 B2].
    { intro H. specialize (HL H). apply orb_true_iff in HL. destruct HL as [HL|HL].
      - rewrite (flag_after_mono tr1 L HL). reflexivity.
      - rewrite HL. apply orb_true_r. }
    split.
    + apply lbd_app. split; assumption.
    + rewrite flag_after_app. exact B2.
  - (* Ps_nil *)
    intros inls ld ld' L _ Hrd HL. simpl in Hrd. injection Hrd; intros; subst ld'. simpl. split; auto.
  - (* Ps_cons *)
    intros inls x r t1 t2 Hp1 IH1 Hp2 IH2 ld ld' L Hse Hrd HL.
    simpl in Hse. apply andb_true_iff in Hse. destruct Hse as [Hs1 Hs2].
    simpl in Hrd. destruct (rd ld x) as [ok1 ld1] eqn:E1. destruct (rd_list ld1 r) as [ok2 ld2] eqn:E2.
    injection Hrd as Hok Hld. subst ld2. apply andb_true_iff in Hok. destruct Hok; subst ok1 ok2.
    destruct (IH1 ld ld1 L Hs1 E1 HL) as [A1 A2].
    destruct (IH2 ld1 ld' (flag_after L t1) Hs2 E2 A2) as [B1 B2].
    split.
    + apply lbd_app. split; assumption.
    + rewrite flag_after_app. exact B2.
Qed.

(* CHANGED: the statement asked for, `rd_all false l = true -> paths false l tr -> loaded_before_data false tr`, is
   false (readers_sound_as_given_is_false above: a section with an event-free path leaves nothing on the trace,
   yet rd - rightly - takes the data as loaded after it).  This version adds the hypothesis sections_emit_all l:
   every load-and-save section emits at least one event on every path.  Path semantics and trace predicate are
   those of Model/Struct.v, unchanged.  The unconditional version over a path semantics that records section
   entry is readers_sound_marked below. *)
Theorem readers_sound : forall l tr,
  sections_emit_all l = true ->
  rd_all false l = true -> paths false l tr -> loaded_before_data false tr.
Proof.
  intros l tr Hse Hrd Hp. rewrite rd_all_list in Hrd.
  destruct (rd_list false l) as [ok ld'] eqn:E. simpl in Hrd. subst ok.
  destruct (proj2 rd_path_inv false l tr Hp false ld' false Hse E) as [H _]; [discriminate|exact H].
Qed.

(* --- closest true version (b): unconditional, over paths that record the entry of a section ---------------------
   lpath1 / lpaths are path1 / paths with one difference: entering a load-and-save (or lock-and-save) context emits
   (true, ELoad) - the context manager's own load - before the body's events. *)
Definition mark (c : sctx) (tr : list (bool * sev)) : list (bool * sev) :=
  if is_ls c then (true, ELoad) :: tr else tr.

Inductive lpath1 : bool -> sk -> list (bool * sev) -> Prop :=
  | LP_ev : forall inls e, lpath1 inls (SEv e) [(inls, e)]
  | LP_with : forall inls c b tr, lpaths (inls || is_ls c) b tr -> lpath1 inls (SWith c b) (mark c tr)
  | LP_alt : forall inls alts a tr, In a alts -> lpaths inls a tr -> lpath1 inls (SAlt alts) tr
  | LP_loop0 : forall inls b, lpath1 inls (SLoop b) []
  | LP_loopS : forall inls b tr1 tr2, lpaths inls b tr1 -> lpath1 inls (SLoop b) tr2 -> lpath1 inls (SLoop b) (tr1 ++ tr2)
with lpaths : bool -> list sk -> list (bool * sev) -> Prop :=
  | LPs_nil : forall inls, lpaths inls [] []
  | LPs_cons : forall inls x r t1 t2, lpath1 inls x t1 -> lpaths inls r t2 -> lpaths inls (x :: r) (t1 ++ t2).

Scheme lpath1_mind := Minimality for lpath1 Sort Prop
  with lpaths_mind := Minimality for lpaths Sort Prop.
Combined Scheme lpath_mutind from lpath1_mind, lpaths_mind.

Lemma rd_lpath_inv :
  (forall inls s tr, lpath1 inls s tr -> forall ld ld' L,
     rd ld s = (true, ld') -> (ld = true -> L || inls = true) ->
     loaded_before_data L tr /\ (ld' = true -> flag_after L tr || inls = true)) /\
  (forall inls l tr, lpaths inls l tr -> forall ld ld' L,
     rd_list ld l = (true, ld') -> (ld = true -> L || inls = true) ->
     loaded_before_data L tr /\ (ld' = true -> flag_after L tr || inls = true)).
Proof.
  apply lpath_mutind.
  - (* LP_ev *)
    intros inls e ld ld' L Hrd HL.
    destruct e; simpl in Hrd; inversion Hrd; subst; simpl; split; auto;
      try (intro H; specialize (HL H)); try (specialize (HL eq_refl));
      destruct L, inls; simpl in *; auto; discriminate.
  - (* LP_with *)
    intros inls c b tr Hp IH ld ld' L Hrd HL.
    rewrite rd_SWith in Hrd. unfold mark.
    destruct (is_ls c) eqn:Ec.
    + destruct (IH (ld || true) ld' true Hrd) as [H1 H2]; [reflexivity|].
      simpl. split; [exact H1|]. intros _. rewrite flag_after_true. reflexivity.
    + rewrite orb_false_r in *. exact (IH ld ld' L Hrd HL).
  - (* LP_alt *)
    intros inls alts a tr Hin Hp IH ld ld' L Hrd HL.
    rewrite rd_SAlt in Hrd.
    destruct (rd_alts_in _ _ _ _ Hrd Hin) as [lda [Ha Hl]].
    destruct (IH ld lda L Ha HL) as [H1 H2].
    split; auto.
  - (* LP_loop0 *)
    intros inls b ld ld' L Hrd HL. rewrite rd_SLoop in Hrd. injection Hrd; intros; subst ld'.
    simpl. split; auto.
  - (* LP_loopS *)
    intros inls b tr1 tr2 Hp1 IH1 Hp2 IH2 ld ld' L Hrd HL.
    pose proof Hrd as Hrd0. rewrite rd_SLoop in Hrd. injection Hrd as Hok Hld. subst ld'.
    destruct (rd_list ld b) as [ok lb] eqn:E. simpl in Hok. subst ok.
    destruct (IH1 ld lb L E HL) as [A1 A2].
    destruct (IH2 ld ld (flag_after L tr1) Hrd0) as [B1 B2].
    { intro H. specialize (HL H). apply orb_true_iff in HL. destruct HL as [HL|HL].
      - rewrite (flag_after_mono tr1 L HL). reflexivity.
      - rewrite HL. apply orb_true_r. }
    split.
    + apply lbd_app. split; assumption.
    + rewrite flag_after_app. exact B2.
  - (* LPs_nil *)
    intros inls ld ld' L Hrd HL. simpl in Hrd. injection Hrd; intros; subst ld'. simpl. split; auto.
  - (* LPs_cons *)
    intros inls x r t1 t2 Hp1 IH1 Hp2 IH2 ld ld' L Hrd HL.
    simpl in Hrd. destruct (rd ld x) as [ok1 ld1] eqn:E1. destruct (rd_list ld1 r) as [ok2 ld2] eqn:E2.
    injection Hrd as Hok Hld. subst ld2. apply andb_true_iff in Hok. destruct Hok; subst ok1 ok2.
    destruct (IH1 ld ld1 L E1 HL) as [A1 A2].
    destruct (IH2 ld1 ld' (flag_after L t1) E2 A2) as [B1 B2].
    split.
    + apply lbd_app. split; assumption.
    + rewrite flag_after_app. exact B2.
Qed.

(* CHANGED (second variant): exactly the statement asked for, but over lpaths (section entry recorded as a load)
   instead of paths. *)
Theorem readers_sound_marked : forall l tr,
  rd_all false l = true -> lpaths false l tr -> loaded_before_data false tr.
Proof.
  intros l tr Hrd Hp. rewrite rd_all_list in Hrd.
  destruct (rd_list false l) as [ok ld'] eqn:E. simpl in Hrd. subst ok.
  destruct (proj2 rd_lpath_inv false l tr Hp false ld' false E) as [H _]; [discriminate|exact H].
Qed.

(* lpaths and paths are the same executions: a marked trace is a plain trace with entry marks inserted *)
Inductive unmark : list (bool * sev) -> list (bool * sev) -> Prop :=
  | um_nil : unmark [] []
  | um_keep : forall p a b, unmark a b -> unmark (p :: a) (p :: b)
  | um_drop : forall a b, unmark a b -> unmark ((true, ELoad) :: a) b.

Lemma unmark_app : forall a1 b1 a2 b2, unmark a1 b1 -> unmark a2 b2 -> unmark (a1 ++ a2) (b1 ++ b2).
Proof. intros a1 b1 a2 b2 H1 H2. induction H1; simpl; [exact H2 | apply um_keep; assumption | apply um_drop; assumption]. Qed.

Lemma unmark_mark : forall c a b, unmark a b -> unmark (mark c a) b.
Proof. intros c a b H. unfold mark. destruct (is_ls c); [apply um_drop|]; exact H. Qed.

Lemma path_has_marked :
  (forall inls s tr, path1 inls s tr -> exists tr', lpath1 inls s tr' /\ unmark tr' tr) /\
  (forall inls l tr, paths inls l tr -> exists tr', lpaths inls l tr' /\ unmark tr' tr).
Proof.
  apply path_mutind.
  - intros inls e. exists [(inls, e)]. split; [constructor | repeat constructor].
  - intros inls c b tr _ [tr' [H1 H2]]. exists (mark c tr'). split; [constructor; exact H1 | apply unmark_mark; exact H2].
  - intros inls alts a tr Hin _ [tr' [H1 H2]]. exists tr'. split; [econstructor; eauto | exact H2].
  - intros inls b. exists []. split; constructor.
  - intros inls b tr1 tr2 _ [t1 [A1 A2]] _ [t2 [B1 B2]]. exists (t1 ++ t2).
    split; [apply LP_loopS; assumption | apply unmark_app; assumption].
  - intros inls. exists []. split; constructor.
  - intros inls x r t1 t2 _ [u1 [A1 A2]] _ [u2 [B1 B2]]. exists (u1 ++ u2).
    split; [apply LPs_cons; assumption | apply unmark_app; assumption].
Qed.

Lemma marked_has_path :
  (forall inls s tr', lpath1 inls s tr' -> exists tr, path1 inls s tr /\ unmark tr' tr) /\
  (forall inls l tr', lpaths inls l tr' -> exists tr, paths inls l tr /\ unmark tr' tr).
Proof.
  apply lpath_mutind.
  - intros inls e. exists [(inls, e)]. split; [constructor | repeat constructor].
  - intros inls c b tr _ [tr' [H1 H2]]. exists tr'. split; [constructor; exact H1 | apply unmark_mark; exact H2].
  - intros inls alts a tr Hin _ [tr' [H1 H2]]. exists tr'. split; [econstructor; eauto | exact H2].
  - intros inls b. exists []. split; constructor.
  - intros inls b tr1 tr2 _ [t1 [A1 A2]] _ [t2 [B1 B2]]. exists (t1 ++ t2).
    split; [apply P_loopS; assumption | apply unmark_app; assumption].
  - intros inls. exists []. split; constructor.
  - intros inls x r t1 t2 _ [u1 [A1 A2]] _ [u2 [B1 B2]]. exists (u1 ++ u2).
    split; [apply Ps_cons; assumption | apply unmark_app; assumption].
Qed.

(* every plain path of a reader is a marked path of it with the marks taken out, and that one is loaded before
   every data access *)
Theorem readers_sound_unmarked : forall l tr,
  rd_all false l = true -> paths false l tr ->
  exists tr', lpaths false l tr' /\ unmark tr' tr /\ loaded_before_data false tr'.
Proof.
  intros l tr Hrd Hp. destruct (proj2 path_has_marked _ _ _ Hp) as [tr' [H1 H2]].
  exists tr'. split; [exact H1|]. split; [exact H2|]. exact (readers_sound_marked l tr' Hrd H1).
Qed.

(* ------------------------------------------------------------------------------------------------------------ *)
(* 4. structure_ok, method by method                                                                             *)

Theorem structure_mutators : forall ms, structure_ok ms = true ->
  forall m, In m ms -> is_mutator (sm_name m) = true -> mutator_ok (sm_body m) = true.
Proof.
  intros ms H m Hin Hm. unfold structure_ok in H. rewrite forallb_forall in H.
  specialize (H m Hin). unfold method_ok in H. rewrite Hm in H. exact H.
Qed.

Theorem structure_readers : forall ms, structure_ok ms = true ->
  forall m, In m ms -> is_mutator (sm_name m) = false -> reader_ok (sm_body m) = true.
Proof.
  intros ms H m Hin Hm. unfold structure_ok in H. rewrite forallb_forall in H.
  specialize (H m Hin). unfold method_ok in H. rewrite Hm in H. exact H.
Qed.

(* ------------------------------------------------------------------------------------------------------------ *)
(* 5. corollaries                                                                                                *)

Theorem mutator_paths_guarded : forall ms, structure_ok ms = true ->
  forall m tr, In m ms -> is_mutator (sm_name m) = true -> paths false (sm_body m) tr ->
  Forall (fun p : bool * sev => needs_ls (snd p) = true -> fst p = true) tr.
Proof.
  intros ms H m tr Hin Hm Hp.
  pose proof (structure_mutators ms H m Hin Hm) as Hok. unfold mutator_ok in Hok.
  apply andb_true_iff in Hok. destruct Hok as [Hg _].
  exact (guarded_sound _ _ Hg Hp).
Qed.

(* the corollary as given is false for the same reason *)
Definition cex_method : smethod :=
  {| sm_class := []; sm_name := []; sm_library_owned := true; sm_body := cex_body |}.
Example cex_structure_ok : structure_ok [cex_method] = true.
Proof. vm_compute. reflexivity. Qed.
Theorem reader_paths_loaded_as_given_is_false :
  ~ (forall ms, structure_ok ms = true ->
     forall m tr, In m ms -> is_mutator (sm_name m) = false -> paths false (sm_body m) tr ->
     loaded_before_data false tr).
Proof.
  intro H. apply cex_not_loaded.
  apply (H [cex_method] cex_structure_ok cex_method cex_trace); [left; reflexivity | reflexivity | exact cex_path].
Qed.

(* CHANGED: extra hypothesis sections_emit_all (sm_body m) = true, as in readers_sound. *)
Theorem reader_paths_loaded : forall ms, structure_ok ms = true ->
  forall m tr, In m ms -> is_mutator (sm_name m) = false ->
  sections_emit_all (sm_body m) = true ->
  paths false (sm_body m) tr -> loaded_before_data false tr.
Proof.
  intros ms H m tr Hin Hm Hse Hp.
  pose proof (structure_readers ms H m Hin Hm) as Hok. unfold reader_ok in Hok.
  apply andb_true_iff in Hok. destruct Hok as [Hr _].
  exact (readers_sound _ _ Hse Hr Hp).
Qed.

(* CHANGED (second variant): unconditional, over marked paths. *)
Theorem reader_paths_loaded_marked : forall ms, structure_ok ms = true ->
  forall m tr, In m ms -> is_mutator (sm_name m) = false ->
  lpaths false (sm_body m) tr -> loaded_before_data false tr.
Proof.
  intros ms H m tr Hin Hm Hp.
  pose proof (structure_readers ms H m Hin Hm) as Hok. unfold reader_ok in Hok.
  apply andb_true_iff in Hok. destruct Hok as [Hr _].
  exact (readers_sound_marked _ _ Hr Hp).
Qed.

Theorem reader_paths_loaded_unmarked : forall ms, structure_ok ms = true ->
  forall m tr, In m ms -> is_mutator (sm_name m) = false ->
  paths false (sm_body m) tr ->
  exists tr', lpaths false (sm_body m) tr' /\ unmark tr' tr /\ loaded_before_data false tr'.
Proof.
  intros ms H m tr Hin Hm Hp.
  pose proof (structure_readers ms H m Hin Hm) as Hok. unfold reader_ok in Hok.
  apply andb_true_iff in Hok. destruct Hok as [Hr _].
  exact (readers_sound_unmarked _ _ Hr Hp).
Qed.

Print Assumptions guarded_sound.
Print Assumptions readers_sound.
Print Assumptions mutator_paths_guarded.
Print Assumptions reader_paths_loaded.
Print Assumptions readers_sound_marked.
Print Assumptions readers_sound_unmarked.
Print Assumptions reader_paths_loaded_marked.
Print Assumptions reader_paths_loaded_unmarked.
Print Assumptions readers_sound_as_given_is_false.
Print Assumptions reader_paths_loaded_as_given_is_false.
