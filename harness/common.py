"""Shared plumbing of the verification harness.

* imports the library from the working tree under test (VERIF_REPO, default /repo)
  with stubs for the optional third-party modules that are absent here;
* fake stores for Redis / MongoDB / Zarr;
* Python value -> Coq term printers (Val.v / Ops.v syntax);
* running generated case files through coqc (vm_compute) in parallel;
* evidence files, replays, verdict lines, known findings.
"""
import copy
import hashlib
import json
import math
import os
import random
import re
import shutil
import subprocess
import sys
import tempfile
import time
import types

VERIF = os.path.dirname(os.path.dirname(os.path.abspath(__file__)))
REPO = os.environ.get("VERIF_REPO", "/repo")
COQDIR = os.path.join(VERIF, "coq")
GUARD = "SYNCED_COLLECTIONS_VERIF"
os.environ.setdefault(GUARD, "1")


# --------------------------------------------------------------------------- import
def import_library():
    """Import synced_collections from REPO with stub optional deps. Returns a namespace."""
    if "synced_collections" in sys.modules:
        return _ns()
    sys.path.insert(0, REPO)
    bson = types.ModuleType("bson")
    bson.errors = types.ModuleType("bson.errors")

    class InvalidDocument(Exception):
        pass

    bson.errors.InvalidDocument = InvalidDocument
    sys.modules.setdefault("bson", bson)
    sys.modules.setdefault("bson.errors", bson.errors)
    numcodecs = types.ModuleType("numcodecs")

    class JSONCodec:
        pass

    numcodecs.JSON = JSONCodec
    sys.modules.setdefault("numcodecs", numcodecs)
    import synced_collections  # noqa

    loc = os.path.dirname(os.path.abspath(synced_collections.__file__))
    if not loc.startswith(os.path.abspath(REPO)):
        raise RuntimeError(f"library imported from {loc}, expected under {REPO}")
    return _ns()


def _ns():
    ns = types.SimpleNamespace()
    import synced_collections
    from synced_collections.backends import collection_json as cj
    from synced_collections.backends import collection_mongodb as cm
    from synced_collections.backends import collection_redis as cr
    from synced_collections.backends import collection_zarr as cz
    from synced_collections import errors

    ns.pkg = synced_collections
    ns.cj, ns.cr, ns.cm, ns.cz, ns.errors = cj, cr, cm, cz, errors
    ns.json_classes = [
        cj.JSONDict, cj.JSONList, cj.JSONAttrDict, cj.JSONAttrList,
        cj.BufferedJSONDict, cj.BufferedJSONList, cj.BufferedJSONAttrDict, cj.BufferedJSONAttrList,
        cj.MemoryBufferedJSONDict, cj.MemoryBufferedJSONList,
        cj.MemoryBufferedJSONAttrDict, cj.MemoryBufferedJSONAttrList,
    ]
    ns.other_classes = [cr.RedisDict, cr.RedisList, cm.MongoDBDict, cm.MongoDBList, cz.ZarrDict, cz.ZarrList]
    ns.all_classes = ns.json_classes + ns.other_classes
    return ns


# --------------------------------------------------------------------------- fakes
class FakeRedis:
    def __init__(self):
        self.kv = {}
        self.sets = 0

    def get(self, k):
        return self.kv.get(k)

    def set(self, k, v):
        self.kv[k] = v
        self.sets += 1


class FakeMongo:
    def __init__(self):
        self.docs = []
        self.writes = 0

    def _match(self, d, uid):
        return all(d.get(k) == v for k, v in uid.items())

    def find_one(self, uid):
        for d in self.docs:
            if self._match(d, uid):
                return tree_copy(d)
        return None

    def replace_one(self, uid, doc, upsert=False):
        self.writes += 1
        for i, d in enumerate(self.docs):
            if self._match(d, uid):
                self.docs[i] = tree_copy(doc)
                return
        if upsert:
            self.docs.append(tree_copy(doc))


class FakeDataset:
    def __init__(self):
        self.v = [None]
        self.writes = 0

    def __getitem__(self, i):
        return tree_copy(self.v[i])

    def __setitem__(self, i, val):
        self.v[i] = tree_copy(val)
        self.writes += 1


class FakeGroup:
    def __init__(self):
        self.ds = {}
        self.writes = 0

    def __getitem__(self, n):
        return self.ds[n]

    def require_dataset(self, name, overwrite=False, shape=None, dtype=None, object_codec=None):
        self.writes += 1
        self.ds[name] = FakeDataset()
        return self.ds[name]


def tree_copy(v):
    """A structural copy without any sharing between positions (what a codec round trip yields; copy.deepcopy would keep
    one object referenced from two positions shared)."""
    if isinstance(v, dict):
        return {k: tree_copy(x) for k, x in v.items()}
    if isinstance(v, (list, tuple)):
        return [tree_copy(x) for x in v]
    return copy.deepcopy(v)


class Store:
    """A backing resource for one collection class, readable/writable without the library."""

    def __init__(self, ns, cls, tmpdir, name):
        self.ns, self.cls, self.name = ns, cls, name
        mod = cls.__module__.rsplit(".", 1)[-1]
        self.family = {"collection_json": "json", "collection_redis": "redis",
                       "collection_mongodb": "mongo", "collection_zarr": "zarr"}[mod]
        if self.family == "json":
            self.path = os.path.join(tmpdir, name + ".json")
        elif self.family == "redis":
            self.client = FakeRedis()
        elif self.family == "mongo":
            self.client = FakeMongo()
        else:
            self.client = FakeGroup()

    def make(self, **kw):
        if self.family == "json":
            return self.cls(self.path, **kw)
        if self.family == "redis":
            return self.cls(self.client, self.name, **kw)
        if self.family == "mongo":
            return self.cls(self.client, {"_verif_id": self.name}, **kw)
        return self.cls(self.client, self.name, **kw)

    def read(self):
        """Content of the resource read without the library; MISSING if absent."""
        if self.family == "json":
            try:
                with open(self.path, "rb") as f:
                    return json.loads(f.read())
            except FileNotFoundError:
                return MISSING
        if self.family == "redis":
            b = self.client.kv.get(self.name)
            return MISSING if b is None else json.loads(b)
        if self.family == "mongo":
            for d in self.client.docs:
                if d.get("_verif_id") == self.name:
                    return tree_copy(d["data"])
            return MISSING
        ds = self.client.ds.get(self.name)
        return MISSING if ds is None else tree_copy(ds.v[0])

    def write(self, value, stealth=False):
        """Out-of-band write.  stealth: keep the file's size and timestamps exactly (another content of the same length)."""
        if self.family == "json" and stealth:
            st = os.stat(self.path)
            blob = json.dumps(value).encode()
            assert len(blob) == st.st_size
            with open(self.path, "wb") as f:
                f.write(blob)
            os.utime(self.path, ns=(st.st_atime_ns, st.st_mtime_ns))
            return
        if self.family == "json":
            with open(self.path, "wb") as f:
                f.write(json.dumps(value).encode())
            # make sure (size, mtime_ns) moves even for same-size rewrites
            st = os.stat(self.path)
            os.utime(self.path, ns=(st.st_atime_ns, st.st_mtime_ns + 1000003 + random.randrange(1000)))
        elif self.family == "redis":
            self.client.kv[self.name] = json.dumps(value).encode()
        elif self.family == "mongo":
            doc = {"_verif_id": self.name, "data": tree_copy(value)}
            for i, d in enumerate(self.client.docs):
                if d.get("_verif_id") == self.name:
                    self.client.docs[i] = doc
                    return
            self.client.docs.append(doc)
        else:
            self.client.ds.setdefault(self.name, FakeDataset()).v[0] = tree_copy(value)

    def remove(self):
        """Out-of-band removal."""
        if self.family == "json":
            os.remove(self.path)
        elif self.family == "redis":
            self.client.kv.pop(self.name, None)
        elif self.family == "mongo":
            self.client.docs[:] = [d for d in self.client.docs if d.get("_verif_id") != self.name]
        else:
            self.client.ds.pop(self.name, None)

    def stamp(self):
        """Something that changes whenever the library writes the resource."""
        if self.family == "json":
            try:
                st = os.stat(self.path)
                with open(self.path, "rb") as f:
                    return (st.st_ino, st.st_mtime_ns, st.st_size, f.read())
            except FileNotFoundError:
                return None
        if self.family == "redis":
            return (self.client.sets, self.client.kv.get(self.name))
        if self.family == "mongo":
            return (self.client.writes, json.dumps(self.client.docs, sort_keys=True, default=str))
        ds = self.client.ds.get(self.name)
        return (self.client.writes, None if ds is None else (ds.writes, repr(ds.v)))


class _Missing:
    def __repr__(self):
        return "MISSING"

    def __deepcopy__(self, memo):
        return self

    def __copy__(self):
        return self


MISSING = _Missing()


# --------------------------------------------------------------------------- bad values
class BadObj:
    """A value no backend can store; identity equality, stable tag."""

    def __init__(self, tag):
        self.tag = tag

    def __repr__(self):
        return f"<Bad{self.tag}>"

    def __deepcopy__(self, memo):
        return self


BAD_VALUES = {1: BadObj(1), 2: complex(1, 2), 3: frozenset([7]), 4: BadObj(4)}
BAD_KEYS = {11: 7, 12: (1, 2), 13: None, 14: 2.5}
_BADVAL_BY_ID = {id(v): t for t, v in BAD_VALUES.items()}


def bad_tag_of_value(v):
    if isinstance(v, BadObj):
        return v.tag
    if isinstance(v, complex):
        return 2
    if isinstance(v, frozenset):
        return 3
    return None


def bad_tag_of_key(k):
    for t, kk in BAD_KEYS.items():
        if type(k) is type(kk) and k == kk:
            return t
    return None


# --------------------------------------------------------------------------- Coq printers
def c_str(s):
    return "[" + ";".join(str(ord(c)) for c in s) + "]%N" if s else "[]"


def c_z(n):
    """Z literal; hexadecimal for big numbers (Coq converts long decimal literals slowly)."""
    if abs(n) < 2 ** 62:
        return f"({n})%Z"
    return f"({'-' if n < 0 else ''}{hex(abs(n))})%Z"


def c_float(x):
    if x == 0:
        return "(FZero %s)" % ("true" if math.copysign(1, x) < 0 else "false")
    n, d = x.as_integer_ratio()
    e = -(d.bit_length() - 1)
    while n % 2 == 0:
        n //= 2
        e += 1
    return f"(FNum ({n})%Z ({e})%Z)"


def c_key(k):
    if isinstance(k, str):
        return f"(KStr {c_str(k)})"
    t = bad_tag_of_key(k)
    if t is None:
        raise ValueError(f"unsupported key {k!r}")
    return f"(KBad {t}%N)"


def c_scalar(v):
    if v is None:
        return "SNull"
    if v is True:
        return "(SBool true)"
    if v is False:
        return "(SBool false)"
    if isinstance(v, int):
        return f"(SInt {c_z(v)})"
    if isinstance(v, float):
        if math.isnan(v) or math.isinf(v):
            raise ValueError("non-finite float")
        return f"(SFloat {c_float(v)})"
    if isinstance(v, str):
        return f"(SStr {c_str(v)})"
    t = bad_tag_of_value(v)
    if t is None:
        raise ValueError(f"unsupported leaf {v!r} ({type(v).__name__})")
    return f"(SBad {t}%N)"


def c_val(v):
    if isinstance(v, dict):
        return "(VD [" + ";".join(f"({c_key(k)},{c_val(x)})" for k, x in v.items()) + "])"
    if isinstance(v, (list, tuple)):
        return "(VL [" + ";".join(c_val(x) for x in v) + "])"
    if isinstance(v, (bytes, bytearray)):
        return "(VL [" + ";".join(c_val(x) for x in v) + "])"
    return f"(VS {c_scalar(v)})"


def c_vlist(l):
    return "[" + ";".join(c_val(x) for x in l) + "]"


def c_vdict(d):
    return "[" + ";".join(f"({c_key(k)},{c_val(x)})" for k, x in d.items()) + "]"


def c_optz(x):
    return "None" if x is None else f"(Some ({x})%Z)"


def c_slice(s):
    return "{| sl_start := %s; sl_stop := %s; sl_step := %s |}" % (c_optz(s.start), c_optz(s.stop), c_optz(s.step))


ERR_MAP = [
    ("KeyTypeError", "EKeyType"), ("InvalidKeyError", "EInvalidKey"),
    ("MetadataError", "EMetadata"), ("BufferedError", "EBuffered"),
    ("JSONDecodeError", "EJSONDecode"),
    ("KeyError", "EKey"), ("IndexError", "EIndex"), ("AttributeError", "EAttr"),
    ("ValueError", "EValue"), ("TypeError", "EType"), ("OSError", "EOS"),
]


def err_class(exc):
    names = [c.__name__ for c in type(exc).__mro__]
    for py, coq in ERR_MAP:
        if py in names:
            return coq
    return "EUnsupported"


def c_res(kind, payload):
    """kind 'ok' -> payload is a python value; 'err' -> payload is a Coq err name."""
    if kind == "ok":
        return f"(Ok {c_val(payload)})"
    return f"(Err {payload})"


# op descriptors are tuples ('name', args...) — see Ops.v
CMP = {"<": "CLt", "<=": "CLe", ">": "CGt", ">=": "CGe"}


def c_lop(op):
    n = op[0]
    if n in ("LLen", "LCall", "LIter", "LReversed", "LReverse", "LClear"):
        return n
    if n in ("LGet", "LDel"):
        return f"({n} ({op[1]})%Z)"
    if n in ("LGetSlice", "LDelSlice"):
        return f"({n} {c_slice(op[1])})"
    if n in ("LIndex", "LCount", "LContains", "LEq", "LAppend", "LExtend", "LIAdd", "LRemove", "LReset"):
        return f"({n} {c_val(op[1])})"
    if n == "LCmp":
        return f"(LCmp {CMP[op[1]]} {c_val(op[2])})"
    if n in ("LSet", "LInsert"):
        return f"({n} ({op[1]})%Z {c_val(op[2])})"
    if n == "LSetSlice":
        return f"(LSetSlice {c_slice(op[1])} {c_val(op[2])})"
    if n == "LPop":
        return f"(LPop {c_optz(op[1])})"
    raise ValueError(op)


def c_dop(op):
    n = op[0]
    if n in ("DLen", "DCall", "DIter", "DKeys", "DValues", "DItems", "DPopitem", "DClear"):
        return n
    if n in ("DGet", "DContains", "DDel", "DPop"):
        return f"({n} {c_key(op[1])})"
    if n in ("DGetDefault", "DSet", "DSetdefault"):
        return f"({n} {c_key(op[1])} {c_val(op[2])})"
    if n in ("DEq", "DUpdate", "DReset"):
        return f"({n} {c_val(op[1])})"
    raise ValueError(op)


# --------------------------------------------------------------------------- coq runner
_COQ_LOCK = os.path.join(COQDIR, ".build.lock")


def coq_build(timeout=900):
    """(Re)build the Coq development (full .vo build). Returns (ok, log)."""
    import fcntl

    os.makedirs(COQDIR, exist_ok=True)
    with open(_COQ_LOCK, "w") as lk:
        fcntl.flock(lk, fcntl.LOCK_EX)
        if not os.path.exists(os.path.join(COQDIR, "Makefile")):
            subprocess.run("coq_makefile -f _CoqProject -o Makefile", shell=True, cwd=COQDIR,
                           capture_output=True, timeout=60)
        p = subprocess.run(f"timeout {timeout} make -k -j16", shell=True, cwd=COQDIR,
                           capture_output=True, text=True)
        return p.returncode == 0, (p.stdout + p.stderr)


def vo_current(rel):
    """Is coq/<rel>.vo built and at least as new as its source?"""
    v = os.path.join(COQDIR, rel + ".v")
    vo = os.path.join(COQDIR, rel + ".vo")
    return os.path.exists(vo) and os.path.exists(v) and os.path.getmtime(vo) >= os.path.getmtime(v)


def run_case_files(header, case_type, check_fn, cases, shard=400, workdir=None, timeout=600, jobs=12):
    """Evaluate `failing check_fn cases` inside Coq, sharded; return sorted global failing indices.

    cases: list of Coq term strings.  Raises RuntimeError if coqc itself fails."""
    if not cases:
        return []
    own = workdir is None
    if own:
        workdir = tempfile.mkdtemp(prefix="verif_cases_")
    files = []
    for si in range(0, len(cases), shard):
        chunk = cases[si:si + shard]
        fn = os.path.join(workdir, f"cases_{si}.v")
        with open(fn, "w") as f:
            f.write(header + "\n")
            f.write(f"Definition cases : list {case_type} := [\n")
            f.write(";\n".join(chunk))
            f.write("\n].\n")
            f.write(f"Eval vm_compute in (failing {check_fn} cases).\n")
        files.append((si, fn))
    procs = []
    failing = []

    def reap(si, fn, p):
        out, err = p.communicate(timeout=timeout)
        if p.returncode != 0:
            raise RuntimeError(f"coqc failed on {fn}:\n{out[-2000:]}\n{err[-2000:]}")
        m = re.search(r"=\s*(.*?)\s*:\s*list (?:BinNums\.)?N", out, re.S)
        if not m:
            raise RuntimeError(f"cannot parse coqc output for {fn}: {out[-500:]}")
        for tok in re.findall(r"\d+", m.group(1)):
            failing.append(si + int(tok))

    try:
        pending = list(files)
        running = []
        while pending or running:
            while pending and len(running) < jobs:
                si, fn = pending.pop(0)
                p = subprocess.Popen(["timeout", str(timeout), "coqc", "-Q", COQDIR, "SC", fn],
                                     stdout=subprocess.PIPE, stderr=subprocess.PIPE, text=True, cwd=workdir)
                running.append((si, fn, p))
            si, fn, p = running.pop(0)
            reap(si, fn, p)
    finally:
        if own:
            shutil.rmtree(workdir, ignore_errors=True)
    return sorted(failing)


def coq_eval(header, expr, timeout=120):
    """Evaluate one expression with vm_compute and return the printed text."""
    d = tempfile.mkdtemp(prefix="verif_eval_")
    try:
        fn = os.path.join(d, "q.v")
        with open(fn, "w") as f:
            f.write(header + "\nEval vm_compute in (" + expr + ").\n")
        p = subprocess.run(["timeout", str(timeout), "coqc", "-Q", COQDIR, "SC", fn],
                           capture_output=True, text=True, cwd=d)
        return p.stdout + p.stderr
    finally:
        shutil.rmtree(d, ignore_errors=True)


# --------------------------------------------------------------------------- evidence / verdict
def seed_from_env():
    try:
        return int(os.environ.get("VERIF_SEED", "20260930"))
    except ValueError:
        return 20260930


def write_replay(prop, payload):
    os.makedirs(os.path.join(VERIF, "replays"), exist_ok=True)
    blob = json.dumps(payload, indent=1, sort_keys=True, default=repr)
    h = hashlib.sha1(blob.encode()).hexdigest()[:10]
    path = os.path.join(VERIF, "replays", f"{prop}-{h}.json")
    with open(path, "w") as f:
        f.write(blob)
    return path


def load_known_findings():
    p = os.path.join(VERIF, "known_findings.json")
    if not os.path.exists(p):
        return []
    with open(p) as f:
        return json.load(f)["findings"]


def write_evidence(prop, tier, seed, coverage, assumptions, wall_s, violations, level="proof"):
    evdir = os.environ.get("VERIF_EVIDENCE_DIR") or os.path.join(VERIF, "evidence")   # seeded evaluations write elsewhere
    os.makedirs(evdir, exist_ok=True)
    ev = {
        "property_id": prop, "tier": tier, "seed": seed, "level": level,
        "coverage": coverage, "assumptions": assumptions,
        "wall_s": round(wall_s, 2), "violations": violations,
    }
    with open(os.path.join(evdir, f"{prop}.json"), "w") as f:
        json.dump(ev, f, indent=1, default=repr)
    return ev


def jsonable(v):
    """Make harness values printable in evidence / replay files."""
    if isinstance(v, dict):
        return {repr(k) if not isinstance(k, str) else k: jsonable(x) for k, x in v.items()}
    if isinstance(v, (list, tuple)):
        return [jsonable(x) for x in v]
    if isinstance(v, slice):
        return f"slice({v.start},{v.stop},{v.step})"
    if isinstance(v, (str, int, float, bool)) or v is None:
        return v
    return repr(v)


def reset_buffer_class(cls, capacity=None):
    """Put a buffered class back into its pristine state between harness cases WITHOUT relying on how the context object
    keeps its bookkeeping (a refactor of those private attributes must not crash the harness): the context object is
    re-initialised by its own constructor."""
    if not hasattr(cls, "_buffer"):
        return
    cls._buffer.clear()
    cls._buffered_collections.clear()
    cls._CURRENT_BUFFER_SIZE = 0
    if capacity is not None:
        cls._BUFFER_CAPACITY = capacity
    ctx = cls._buffer_context
    try:
        type(ctx).__init__(ctx, cls)
    except Exception:  # noqa
        ctx._count = 0


# ------------------------------------------------------------------------------------------ hang watchdog
# An implementation call that never returns is a deadlock (C10) and would otherwise stall the check for ever.
# The watchdog samples the main thread: when its stack is inside the library under test (or inside a lock taken from
# there) and has not changed for `limit` seconds, the run is reported as a violation with the stack and the harness's
# current context (operation sequence so far) as the replay, and the process exits 1.  Harness code and Coq phases are
# never counted (their frames are not under REPO), so a slow build cannot fire it.
CURRENT = {"info": None}


def set_current(info):
    """Harnesses call this with a (cheap) reference to what is being run right now; only read when a hang is reported."""
    CURRENT["info"] = info


def start_watchdog(on_hang, limit=60.0, period=1.0):
    import threading
    main_id = threading.main_thread().ident
    repo_prefix = os.path.realpath(REPO) + os.sep

    def signature():
        fr = sys._current_frames().get(main_id)
        sig = []
        inside = False
        while fr is not None:
            fn = fr.f_code.co_filename
            sig.append((fn, fr.f_lineno, fr.f_lasti))
            if os.path.realpath(fn).startswith(repo_prefix):
                inside = True
            fr = fr.f_back
        return inside, tuple(sig)

    def loop():
        last, since = None, time.time()
        while True:
            time.sleep(period)
            try:
                inside, sig = signature()
            except Exception:  # noqa
                continue
            if not inside or sig != last:
                last, since = sig, time.time()
                continue
            if time.time() - since >= limit:
                stack = [f"{fn}:{ln}" for fn, ln, _ in sig][:25]
                try:
                    on_hang(stack, CURRENT["info"])
                finally:
                    sys.stdout.flush()
                    os._exit(1)
    t = threading.Thread(target=loop, name="verif-watchdog", daemon=True)
    t.start()
    return t
