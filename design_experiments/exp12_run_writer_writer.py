import sys, os, json, tempfile, itertools
from sched2 import *
from synced_collections.backends.collection_json import JSONDict, JSONList, BufferedJSONDict, MemoryBufferedJSONDict, BufferedJSONList
install([JSONDict, JSONList, BufferedJSONDict, MemoryBufferedJSONDict, BufferedJSONList])
d = tempfile.mkdtemp()
def store(f, v): json.dump(v, open(f, 'w'))
def disk(f): return json.load(open(f))

def serial_outcomes(init, ops, kind):
    """all serial results: ops = list of (name, fn(plain)->ret). returns set of (final, rets)"""
    outs = set()
    for perm in itertools.permutations(range(len(ops))):
        import copy
        st = copy.deepcopy(init); rets = {}
        for i in perm:
            try: rets[ops[i][0]] = ('ok', ops[i][1](st))
            except Exception as e: rets[ops[i][0]] = ('exc', type(e).__name__)
        outs.add(json.dumps([st, sorted(rets.items())], sort_keys=True, default=str))
    return outs

def scenario(name, cls, init, impl_ops, plain_ops, same_object=True, buffered=None, cap=None, max_preempt=2, limit=3000):
    f = os.path.join(d, name + '.json')
    allowed = serial_outcomes(init, plain_ops, None)
    def setup(s):
        store(f, init)
        objs = [cls(f)] if same_object else [cls(f) for _ in impl_ops]
        for o in objs: o()
        ctx = None
        if buffered:
            ctx = cls.buffer_backend(cap) if cap is not None else cls.buffer_backend()
            ctx.__enter__()
        for i, (tn, fn) in enumerate(impl_ops):
            o = objs[0] if same_object else objs[i]
            s.spawn(tn, (lambda fn=fn, o=o: fn(o)))
        def finish(s):
            err = None
            if ctx:
                try: ctx.__exit__(None, None, None)
                except Exception as e: err = type(e).__name__
            rets = {}
            for tn, r in s.results.items():
                rets[tn] = ('exc', r[1]) if r[0] == 'exc' else ('ok', r[1] if not hasattr(r[1], '_to_base') else r[1]._to_base())
            return json.dumps([disk(f), sorted(rets.items())], sort_keys=True, default=str), err
        return None, finish
    def check(outcome):
        if outcome[0] == 'DEADLOCK': return False
        return outcome[0] in allowed and outcome[1] is None
    seen, bad = explore(setup, check, max_preempt=max_preempt, limit=limit)
    print(f'[{name}] schedules={seen} violations={len(bad)}')
    if bad:
        ch, out, tr = bad[0]
        print('   schedule:', ''.join(c[-1] for c in ch)); print('   outcome :', out); print('   allowed :', sorted(allowed)[:3])
    return bad

# sanity: two setitems on same object -> should be linearizable
scenario('set_set', JSONDict, {'a': 0}, [('T1', lambda o: o.__setitem__('x', 1)), ('T2', lambda o: o.__setitem__('y', 2))],
         [('T1', lambda p: p.__setitem__('x', 1)), ('T2', lambda p: p.__setitem__('y', 2))])
scenario('set_set_2obj', JSONDict, {'a': 0}, [('T1', lambda o: o.__setitem__('x', 1)), ('T2', lambda o: o.__setitem__('y', 2))],
         [('T1', lambda p: p.__setitem__('x', 1)), ('T2', lambda p: p.__setitem__('y', 2))], same_object=False)
# D12 list pop/pop
scenario('pop_pop', JSONList, [1, 2, 3], [('T1', lambda o: o.pop()), ('T2', lambda o: o.pop())],
         [('T1', lambda p: p.pop()), ('T2', lambda p: p.pop())])
# D13 root reset vs setitem, two objects
scenario('reset_set_2obj', JSONDict, {'a': 0}, [('T1', lambda o: o.reset({'r': 1})), ('T2', lambda o: o.__setitem__('y', 2))],
         [('T1', lambda p: (p.clear(), p.update({'r': 1}))[0]), ('T2', lambda p: p.__setitem__('y', 2))], same_object=False)
scenario('reset_set_1obj', JSONDict, {'a': 0}, [('T1', lambda o: o.reset({'r': 1})), ('T2', lambda o: o.__setitem__('y', 2))],
         [('T1', lambda p: (p.clear(), p.update({'r': 1}))[0]), ('T2', lambda p: p.__setitem__('y', 2))], same_object=True)
scenario('clear_set_1obj', JSONDict, {'a': 0}, [('T1', lambda o: o.clear()), ('T2', lambda o: o.__setitem__('y', 2))],
         [('T1', lambda p: p.clear()), ('T2', lambda p: p.__setitem__('y', 2))], same_object=True)
