(* C13 — Buffered collections stay consistent under concurrent threads.  Property theorems only. *)
From Coq Require Import List Bool Arith.
From Coq Require Import ZArith.
From SC Require Import Model.Val Model.Buffer Model.Conc Proofs.ConcMutex Proofs.ConcFaults Proofs.ConcInstances Proofs.TreeDefs Proofs.BufferDefs Proofs.BufferInv.
Import ListNotations.

(* inside a backend-wide buffered context every mutator of a buffered class holds the class-wide buffer lock
   for its WHOLE duration (it is the outermost lock of the operation), so the whole buffer state — entries,
   size, registered collections, files — is one component guarded by one lock, and C09's theorem applies
   with that single lock: every schedule equals a serial execution of the operations.  The sequential
   theorems about the buffer (C05, C07, C15) then apply to that serial execution. *)
Theorem C13_serial_outcome : forall (S R Lc : Type) (s0 : nat -> S) (ths : nat -> list (opd S R Lc)) (sched : list nat),
  let c := exec S R Lc (init_config S R Lc s0 ths) sched in
  quiescent S R Lc c ->
  (forall l, sh S R Lc c l = fst (serial S R Lc (log S R Lc c) s0) l)
  /\ (forall t, done S R Lc (thrs S R Lc c t) = mine R t (snd (serial S R Lc (log S R Lc c) s0))).
Proof. exact mutex_serializable. Qed.
Print Assumptions C13_serial_outcome.

(* the buffered mutators do hold the buffer lock around load, body and save (capacity-forced flushes
   included: they run inside the save), in every variant, under every fault assignment *)
Definition buffered_flavors := [FBufOff; FBufOn].
Theorem C13_buffer_lock_held :
  forallb (fun fl => forallb (fun v => well_locked (prog_of_op fl v KMutate) LBuf
                                        && well_locked (prog_of_op fl v KRootNoLoad) LBuf) all_variants) buffered_flavors = true.
Proof. vm_compute. reflexivity. Qed.
Print Assumptions C13_buffer_lock_held.

Theorem C13_well_locked_means : forall p l, well_locked p l = true ->
  forall faults, acts_under_lock (snd (sexec p faults held0)) held0 l T_VALIDATE = true.
Proof. exact well_locked_sound. Qed.
Print Assumptions C13_well_locked_means.

(* no buffer-related operation can deadlock against another (lock order), nor leave the buffer lock held *)
Theorem C13_no_deadlock_no_leak : forallb respects_order all_progs = true /\ forallb no_leak all_progs = true.
Proof. split; [exact table_respects_order|exact table_no_leak]. Qed.
Print Assumptions C13_no_deadlock_no_leak.

(* the same theorem with the bodies instantiated by Buffer.v's own step function: whatever the schedule of the
   threads' buffered operations, once no lock is held the buffer machine is in the state reached by executing
   the completed operations one at a time, in their release order *)
Theorem C13_buffer_machine_serial : forall strat blen (s0 : bstate) (ths : nat -> list bop) (sched : list nat),
  let T := fun t => map (buf_op strat blen) (ths t) in
  let c := exec bstate bres (option bres) (init_config bstate bres (option bres) (fun _ => s0) T) sched in
  quiescent bstate bres (option bres) c ->
  forall ops, log_ops strat blen (log bstate bres (option bres) c) ops ->
    sh bstate bres (option bres) c 0 = fold_left (fun st op => fst (bstep_fn strat blen st op)) ops s0.
Proof. exact buffered_threads_serial. Qed.
Print Assumptions C13_buffer_machine_serial.

(* ... so the sequential theorems apply to the outcome of every schedule: the reported size is exact, and it is 0
   with an empty buffer once the context has exited (C15), for that serial order *)
Theorem C13_size_back_to_zero : forall strat blen ops s0,
  acct strat blen s0 ->
  let s := fold_left (fun st op => fst (bstep_fn strat blen st op)) ops s0 in
  reg_inv s -> nobody_buffered s -> b_buffer s = [] /\ b_size s = 0%Z.
Proof.
  intros strat blen ops s0 HA s HR HN. apply (zero_outside strat blen s); try assumption.
  exact (run_acct strat blen ops s0 HA).
Qed.
Print Assumptions C13_size_back_to_zero.
