From Coq Require Import List Arith Lia Bool.
Import ListNotations.

Section Mutex.
Variables S R Lc : Type.
Definition stepf := (S * Lc -> S * Lc)%type.
Record opd := mkop { init_lc : Lc; steps : list stepf; result : Lc -> R }.

Definition run_steps (fs : list stepf) (st : S * Lc) : S * Lc := fold_left (fun st f => f st) fs st.
Definition run_op (o : opd) (s : S) : S * R :=
  let st := run_steps (steps o) (s, init_lc o) in (fst st, result o (snd st)).

Record thr := mkthr { todo : list opd; cur : option (opd * list stepf * Lc); done : list R }.
Record config := mkcfg { sh : S; holder : option nat; thrs : nat -> thr; log : list (nat * opd) }.

Definition upd (f : nat -> thr) (t : nat) (v : thr) : nat -> thr := fun u => if Nat.eqb u t then v else f u.

(* one scheduling decision: thread t takes its next atomic action if enabled, else nothing happens *)
Definition step (c : config) (t : nat) : config :=
  let th := thrs c t in
  match cur th with
  | None =>
      match todo th, holder c with
      | o :: rest, None => mkcfg (sh c) (Some t) (upd (thrs c) t (mkthr rest (Some (o, steps o, init_lc o)) (done th))) (log c)
      | _, _ => c
      end
  | Some (o, [], lc) =>
      mkcfg (sh c) None (upd (thrs c) t (mkthr (todo th) None (done th ++ [result o lc]))) (log c ++ [(t, o)])
  | Some (o, f :: fs, lc) =>
      mkcfg (fst (f (sh c, lc))) (holder c)
            (upd (thrs c) t (mkthr (todo th) (Some (o, fs, snd (f (sh c, lc)))) (done th))) (log c)
  end.

Definition exec (c : config) (sched : list nat) : config := fold_left step sched c.

Fixpoint serial (l : list (nat * opd)) (s : S) : S * list (nat * R) :=
  match l with
  | [] => (s, [])
  | (t, o) :: r => let s1 := fst (run_op o s) in let x := snd (run_op o s) in
                   (fst (serial r s1), (t, x) :: snd (serial r s1))
  end.

Lemma serial_app l t o s :
  serial (l ++ [(t, o)]) s =
  (fst (run_op o (fst (serial l s))), snd (serial l s) ++ [(t, snd (run_op o (fst (serial l s))))]).
Proof.
  revert s; induction l as [|[t' o'] l IH]; intros s; simpl; [reflexivity|].
  rewrite IH. reflexivity.
Qed.

Definition mine (t : nat) (res : list (nat * R)) : list R :=
  map snd (filter (fun p => Nat.eqb (fst p) t) res).

Lemma mine_app t res u x : mine t (res ++ [(u, x)]) = mine t res ++ (if Nat.eqb u t then [x] else []).
Proof. unfold mine. rewrite filter_app, map_app. simpl. destruct (Nat.eqb u t); reflexivity. Qed.

Definition Inv (s0 : S) (c : config) : Prop :=
  (forall t, done (thrs c t) = mine t (snd (serial (log c) s0))) /\
  match holder c with
  | None => sh c = fst (serial (log c) s0) /\ forall t, cur (thrs c t) = None
  | Some h =>
      (exists o fs lc, cur (thrs c h) = Some (o, fs, lc) /\
         run_steps fs (sh c, lc) = run_steps (steps o) (fst (serial (log c) s0), init_lc o))
      /\ forall t, t <> h -> cur (thrs c t) = None
  end.

Lemma upd_same f t v : upd f t v t = v.
Proof. unfold upd. rewrite Nat.eqb_refl. reflexivity. Qed.
Lemma upd_other f t v u : u <> t -> upd f t v u = f u.
Proof. unfold upd. intros H. apply Nat.eqb_neq in H. rewrite H. reflexivity. Qed.

Lemma step_inv s0 c t : Inv s0 c -> Inv s0 (step c t).
Proof.
  intros [Hdone Hh]. unfold step.
  destruct (cur (thrs c t)) as [[[o fs] lc]|] eqn:Ecur.
  - (* t is inside a body, hence the holder *)
    destruct (holder c) as [h|] eqn:Eh.
    2:{ destruct Hh as [_ Hn]. rewrite Hn in Ecur. discriminate. }
    destruct Hh as [[o' [fs' [lc' [Hc Hrun]]]] Hoth].
    assert (t = h) as ->. { destruct (Nat.eq_dec t h); auto. rewrite Hoth in Ecur by auto. discriminate. }
    rewrite Hc in Ecur. inversion Ecur; subst o' fs' lc'. clear Ecur.
    destruct fs as [|f fs].
    + (* release *)
      split; simpl.
      * intros u. rewrite serial_app. simpl. rewrite mine_app.
        destruct (Nat.eq_dec u h) as [->|Hne].
        -- rewrite upd_same, Nat.eqb_refl. simpl. rewrite Hdone. f_equal. f_equal.
           unfold run_op. simpl. simpl in Hrun. rewrite <- Hrun. reflexivity.
        -- rewrite upd_other by auto. assert (Nat.eqb h u = false) as -> by (apply Nat.eqb_neq; auto).
           rewrite app_nil_r. apply Hdone.
      * split.
        -- rewrite serial_app. simpl. unfold run_op. simpl. simpl in Hrun. rewrite <- Hrun. reflexivity.
        -- intros u. destruct (Nat.eq_dec u h) as [->|Hne]; [rewrite upd_same; reflexivity | rewrite upd_other by auto; auto].
    + (* one body step *)
      split; simpl.
      * intros u. destruct (Nat.eq_dec u h) as [->|Hne]; [rewrite upd_same; simpl; apply Hdone | rewrite upd_other by auto; apply Hdone].
      * split.
        -- exists o, fs, (snd (f (sh c, lc))). rewrite upd_same. split; [reflexivity|].
           rewrite <- Hrun. simpl. destruct (f (sh c, lc)); reflexivity.
        -- intros u Hne. rewrite upd_other by auto. auto.
  - (* t is outside: tries to acquire *)
    destruct (todo (thrs c t)) as [|o rest] eqn:Etodo; [split; assumption|].
    destruct (holder c) as [h|] eqn:Eh.
    { split; [assumption|]. rewrite Eh. exact Hh. }
    destruct Hh as [Hsh Hn].
    split; simpl.
    + intros u. destruct (Nat.eq_dec u t) as [->|Hne]; [rewrite upd_same; simpl; apply Hdone | rewrite upd_other by auto; apply Hdone].
    + split.
      * exists o, (steps o), (init_lc o). rewrite upd_same. split; [reflexivity|]. rewrite Hsh. reflexivity.
      * intros u Hne. rewrite upd_other by auto. auto.
Qed.

Theorem mutex_serializable s0 c0 sched :
  Inv s0 c0 ->
  let c := exec c0 sched in
  holder c = None ->
  sh c = fst (serial (log c) s0) /\ forall t, done (thrs c t) = mine t (snd (serial (log c) s0)).
Proof.
  intros H0. assert (Inv s0 (exec c0 sched)) as [Hd Hh].
  { unfold exec. revert c0 H0. induction sched as [|t r IH]; intros c0 H0; simpl; [exact H0|]. apply IH. apply step_inv. exact H0. }
  simpl. intros Hn. rewrite Hn in Hh. destruct Hh as [Hs _]. split; assumption.
Qed.

(* initial configurations satisfy the invariant *)
Lemma init_inv s0 (ths : nat -> list opd) :
  Inv s0 (mkcfg s0 None (fun t => mkthr (ths t) None []) []).
Proof. split; simpl; auto. Qed.
End Mutex.
Print Assumptions mutex_serializable.
