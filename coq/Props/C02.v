(* C02 — Read-through: every read reflects the backend's current content.  Property theorems only. *)
From Coq Require Import List Bool.
From SC Require Import Model.Val Model.Plain Model.Ops Model.Valid Model.Class Model.Tree Model.Machine.
From SC Require Import Proofs.TreeDefs Proofs.TreeBase Proofs.TreeLemmas Proofs.MachineDefs Proofs.MachineRefine.
From SC Require Import Gen.ClassTable Gen.Obligations.
Import ListNotations.

(* the merge performed on every load makes the in-memory tree equal to ANY valid backend content, whatever
   was cached before: any old value -> any new value at any position (null, scalars, the other container
   kind, type-only changes included), and keeps the identity of the node it is applied to *)
Theorem C02_merge_correct : forall T b L data n nx,
  backend_has_both T b = true -> uniform_backend T b L = true ->
  node_in_backend T b n -> node_is_container n = true -> node_kind n = kind_of data ->
  val_ok L data = true -> wf_val data = true -> node_keys_unique n = true ->
  exists n' nx', upd T data n nx = (n', nx', None) /\ VEq (to_base n') data
     /\ node_in_backend T b n' /\ node_keys_unique n' = true /\ node_id n' = node_id n /\ nx <= nx'
     /\ (leaves_scalar n = true -> leaves_scalar n' = true).
Proof. exact upd_correct. Qed.
Print Assumptions C02_merge_correct.

(* every read through a root or an attached handle (of any object bound to the resource) returns what the
   built-in read returns, at the handle's position p, on data j equal (up to dict key order) to the
   resource's CURRENT content c, and writes nothing.  (The first alternative of the conclusion, "rejected
   by the argument checks", cannot occur for a read: see C02_reads_never_rejected.) *)
Theorem C02_read_through : forall T s oid hid o s' r h ob c,
  table_ok T = true -> Inv T s -> res_valid T s ->
  nlookup oid (m_objs s) = Some ob -> nlookup (o_rid ob) (m_res s) = Some c ->
  nop_is_read o = true -> args_ok (lang_of T (o_cls ob)) o = true ->
  step T s (MOp oid hid o) = (s', MR r h) ->
  (s' = s /\ exists e, r = Err e /\ forall v r' new, plain_nop v o = Some (r', new) -> r' = Err e /\ new = v)
  \/
  (exists j p new ob',
     VEq j c /\ plain_at p o j = Some (r, new)
     /\ nlookup oid (m_objs s') = Some ob'
     /\ (nop_merges o = false -> to_base (o_root ob') = new)
     /\ VEq (to_base (o_root ob')) new
     /\ (nop_is_read o = false -> nlookup (o_rid ob) (m_res s') = Some (to_base (o_root ob')))
     /\ (nop_is_read o = true -> m_res s' = m_res s /\ m_writes s' = m_writes s)).
Proof.
  intros T s oid hid o s' r h ob c HT HI HR Hob Hc Hrd Ha H.
  apply (step_refines_plain T s oid hid o s' r h ob c HT HI HR Hob Hc Ha); [| |exact H].
  - intros v od E. subst o. discriminate Hrd.
  - destruct o as [[]|[]]; cbn in Hrd |- *; try discriminate; apply andb_false_r.
Qed.
Print Assumptions C02_read_through.

Theorem C02_reads_never_rejected : forall T n o e,
  nop_is_read o = true -> pre_nop T n o <> Some (Some e).
Proof.
  intros T n o e Hrd. destruct n as [v|id c l|id c d]; destruct o as [[]|[]]; cbn in Hrd |- *; discriminate.
Qed.
Print Assumptions C02_reads_never_rejected.

(* a child handle obtained earlier stays attached across reloads for as long as the position it came from
   keeps holding a container of the same kind: after any read through any handle of the object, the node
   at path p is still the same Python object (same identity) *)
Theorem C02_handles_stay_attached : forall T s oid hid o s' res ob c,
  table_ok T = true -> Inv T s -> res_valid T s ->
  nlookup oid (m_objs s) = Some ob -> nlookup (o_rid ob) (m_res s) = Some c ->
  nop_is_read o = true -> step T s (MOp oid hid o) = (s', res) ->
  forall p m, node_at p (o_root ob) = Some m -> same_kinds_along p (o_root ob) c ->
  exists ob' m', nlookup oid (m_objs s') = Some ob' /\ node_at p (o_root ob') = Some m' /\ node_id m' = node_id m.
Proof. exact read_keeps_handles. Qed.
Print Assumptions C02_handles_stay_attached.

(* ... and its writes persist: C01_write_through / C01_refines_plain apply to any handle found in the tree. *)
Theorem C02_merge_keeps_handles : forall T b L data n nx n' nx',
  backend_has_both T b = true -> uniform_backend T b L = true ->
  node_in_backend T b n -> val_ok L data = true -> wf_val data = true -> node_keys_unique n = true ->
  upd T data n nx = (n', nx', None) ->
  forall p m, node_at p n = Some m -> same_kinds_along p n data ->
  exists m', node_at p n' = Some m' /\ node_id m' = node_id m.
Proof. exact upd_keeps_handles. Qed.
Print Assumptions C02_merge_keeps_handles.

(* SOURCE STRUCTURE (Gen/Structure.v, regenerated from /repo's source on every run): on every execution path of every
   public reader (every public method that is not a mutator, attribute access of AttrDict included), the in-memory data
   is not looked at before a load on that path (entering a load-and-save section counts as a load) *)
From SC Require Import Model.Struct Gen.Structure Proofs.StructProofs.
Theorem C02_readers_load_before_looking :
  forall m tr, In m Structure.methods -> is_mutator (sm_name m) = false -> lpaths false (sm_body m) tr ->
  loaded_before_data false tr.
Proof. exact (reader_paths_loaded_marked Structure.methods gen_structure_ok). Qed.
Print Assumptions C02_readers_load_before_looking.
