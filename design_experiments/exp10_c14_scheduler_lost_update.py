"""Prototype deterministic scheduler: threads yield at 'call' of marker functions; schedule = list of thread names."""
import sys, threading, json, os, tempfile
sys.path.insert(0, '/repo')
import synced_collections.data_types.synced_collection as sc
from synced_collections.backends.collection_json import JSONDict

MARKERS = {'_load_from_resource', '_save_to_resource', '_update', '_save', '_load', '__enter__', '__exit__'}
class Sched:
    def __init__(self): self.turn = {}; self.main = threading.Semaphore(0); self.trace = []; self.done = set(); self.cur = None
    def tracer(self, name):
        def t(frame, event, arg):
            if event == 'call' and 'synced_collections' in frame.f_code.co_filename and frame.f_code.co_name in MARKERS:
                self.pause(name, frame.f_code.co_name + '@' + type(frame.f_locals.get('self')).__name__)
            return None
        return t
    def pause(self, name, label):
        self.trace.append((name, label)); self.main.release(); self.turn[name].acquire()
    def spawn(self, name, fn):
        self.turn[name] = threading.Semaphore(0)
        def run():
            self.turn[name].acquire(); sys.settrace(self.tracer(name))
            try: fn()
            finally:
                sys.settrace(None); self.done.add(name); self.trace.append((name, 'DONE')); self.main.release()
        th = threading.Thread(target=run, daemon=True); th.start(); return th
    def step(self, name):
        if name in self.done: return False
        self.turn[name].release(); self.main.acquire(); return True

d = tempfile.mkdtemp(); f = os.path.join(d, 'a.json')
json.dump({'a': 0}, open(f, 'w'))
x = JSONDict(f); x()
def run(schedule):
    json.dump({'a': 0}, open(f, 'w')); x()
    s = Sched(); res = {}
    s.spawn('W', lambda: x.__setitem__('w', 1))
    s.spawn('R', lambda: res.__setitem__('r', x.get('a')))
    for n in schedule: s.step(n)
    # drain
    for n in ('W', 'R'):
        while s.step(n): pass
    return json.load(open(f)), res, s.trace
# exhaustive-ish: all schedules of bounded length over {W,R}
import itertools
bad = None; count = 0
for L in range(1, 13):
    for sch in itertools.product('WR', repeat=L):
        count += 1
        disk, res, tr = run(sch)
        if disk != {'a': 0, 'w': 1}:
            bad = (sch, disk, res, tr); break
    if bad: break
print('schedules tried', count)
if bad:
    print('LOST UPDATE under schedule', ''.join(bad[0]), 'disk', bad[1], 'reader got', bad[2]); 
    for t in bad[3]: print('   ', t)
