(* C16 — Values are copied in and out: no aliasing with user-held objects.  Property theorems only.
   In the functional model user-held data and collection data are different kinds of things (val / node):
   arguments are [val]s converted by from_base, results are [val]s produced by to_base.  What can be stated
   and proved is that these conversions are exact copies made of fresh objects, and that detached handles
   are harmless; that the CODE converts at every entry and exit point is what the aliasing oracle and the
   K1 correspondence establish (every container reachable from arguments/results is mutated afterwards). *)
From Coq Require Import List Bool.
From SC Require Import Model.Val Model.Plain Model.Ops Model.Valid Model.Class Model.Tree Model.Machine.
From SC Require Import Proofs.TreeDefs Proofs.TreeBase Proofs.MachineDefs Proofs.MachineRefine.
Import ListNotations.

(* copy-in: the stored tree denotes exactly the argument ... *)
Theorem C16_copy_in_exact : forall T c v nx, to_base (fst (from_base T c v nx)) = v.
Proof. exact to_base_from_base. Qed.
Print Assumptions C16_copy_in_exact.

(* ... and consists only of objects created by this call: all identities are fresh and distinct, so nothing
   that existed before (a user object, another position, another collection's child) is shared.  This is also
   why assigning a synced child elsewhere stores an independent copy. *)
Theorem C16_assign_copies : forall T c v nx,
  nx <= snd (from_base T c v nx)
  /\ (forall i, In i (node_ids (fst (from_base T c v nx))) -> nx <= i < snd (from_base T c v nx))
  /\ NoDup (node_ids (fst (from_base T c v nx))).
Proof. exact from_base_fresh. Qed.
Print Assumptions C16_assign_copies.

(* operations through a detached handle (a value removed by pop / popitem / del, or replaced) change nothing
   in the backend: the resource keeps a content equal to what it held, every other resource is untouched *)
Theorem C16_detached_noop : forall T s oid mut s' res ob c,
  table_ok T = true -> Inv T s -> res_valid T s ->
  nlookup oid (m_objs s) = Some ob -> nlookup (o_rid ob) (m_res s) = Some c ->
  step T s (MTouch oid mut) = (s', res) ->
  exists c', nlookup (o_rid ob) (m_res s') = Some c' /\ VEq c' c
    /\ (forall rid, rid <> o_rid ob -> nlookup rid (m_res s') = nlookup rid (m_res s)).
Proof. exact touch_is_noop. Qed.
Print Assumptions C16_detached_noop.

(* a value removed by pop is returned as plain data and the node leaves the tree: the handle is detached *)
Theorem C16_pop_returns_plain : forall T id c d k nx,
  let '((r, h), n', _) := in_dop T id c d (DPop k) nx in h = None.
Proof. intros. cbn. destruct (alookup k d); reflexivity. Qed.
Print Assumptions C16_pop_returns_plain.
